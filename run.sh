#!/bin/bash
# usage: run.sh <property-id|all> <quick|thorough> [extra charonlint flags]
set -u
cd "$(dirname "$0")"; here=$(pwd)
export GOFLAGS=-mod=mod GOPROXY=off GOSUMDB=off GOTOOLCHAIN=local GOWORK=off
export PATH=/opt/veriftools/go1.26.8/bin:$PATH
unset GOWORK
prop=${1:?property id}; tier=${2:-quick}; shift; shift || true
if [ ! -x bin/charonlint ] || [ -n "$(find checker -name '*.go' -newer bin/charonlint -print -quit)" ]; then
  ./setup.sh >/dev/null || { echo "UNDECIDED property=$prop checker build failed"; exit 2; }
fi
if [ "$tier" = thorough ]; then
  # each thorough run re-loads the whole repository per variant (several GB in total): at most 2 at a time machine-wide
  exec 9>/tmp/charonlint.thorough.lock.$(( $$ % 2 )); flock 9
  # every variant is a fresh whole-repository load; keep the collector tight so that garbage from finished variants
  # does not pile up (observed: >50 GB without a limit on the property with the most variants)
  export GOMEMLIMIT=10GiB GOGC=50
fi
exec bin/charonlint -prop "$prop" -tier "$tier" -repo /repo -out "$here/evidence" -known "$here/known_findings.json" "$@"
