#!/bin/bash
# usage: tools/regress.sh <prop> [jobs]   — development helper (not a registered check)
# Runs <prop> on the clean tree, on every seeded change of the property (must be VIOLATION) and on every
# behaviour-preserving refactoring under refactors/<prop>/ (must be exit 0; exit 2 = UNDECIDED is tolerated but counted).
cd "$(dirname "$0")/.."; here=$(pwd); p=${1:?prop}; j=${2:-4}
out=$(mktemp -d /tmp/regress.$p.XXXX)
./setup.sh >/dev/null || { echo BUILD FAILED; exit 3; }
./run.sh $p quick -noevidence > $out/clean.log 2>&1; echo "clean exit=$? $(grep -m1 'tier=quick' $out/clean.log | cut -c1-160)"
run1() { f=$1; n=$(echo $f | tr '/' '_'); ./run.sh $p quick -noevidence -patch $here/$f > $out/$n.log 2>&1; echo "$f $?"; }
export -f run1; export p here out
ls seeded/$p-*/patch.diff 2>/dev/null | xargs -P $j -I{} bash -c 'run1 {}' | sort > $out/seeds.txt
ls refactors/$p/*.diff 2>/dev/null | xargs -P $j -I{} bash -c 'run1 {}' | sort > $out/refs.txt
echo "--- seeds (want 1):"; awk '{s=($2==1)?"ok  ":"MISS"; print "  "s" exit="$2" "$1}' $out/seeds.txt
echo "--- refactors (want 0):"; awk '{s=($2==0)?"ok   ":(($2==2)?"UNDEC":"ALARM"); print "  "s" exit="$2" "$1}' $out/refs.txt
echo "summary $p: seeds $(awk '$2==1' $out/seeds.txt | wc -l)/$(wc -l < $out/seeds.txt) detected; refactors $(awk '$2==0' $out/refs.txt | wc -l) silent, $(awk '$2==2' $out/refs.txt | wc -l) undecided, $(awk '$2==1' $out/refs.txt | wc -l) ALARM of $(wc -l < $out/refs.txt); logs in $out"
