#!/usr/bin/env python3
"""usage: record_confirm.py <import-log> ...  — copies the coordinator's confirm.sh result line into seeded/<id>/meta.json"""
import sys,re,json,os
for log in sys.argv[1:]:
    for line in open(log):
        m=re.match(r'^(C\d\d-r?\d?[A-Z]): (build=.*)$',line.strip())
        if m:
            p=f'/verif/seeded/{m.group(1)}/meta.json'
            if os.path.exists(p):
                d=json.load(open(p)); d['coordinator_confirm']='seeded/confirm.sh in a scratch worktree of /repo HEAD: '+m.group(2)
                json.dump(d,open(p,'w'),indent=1); print('recorded',m.group(1))
