#!/bin/bash
# usage: tools/integrate.sh <work copy dir>  — development helper: copies a hardening worker's changed files into /verif
# (rule files, engine extension files, new refactor patches) that differ from the base snapshot the copy was made from
# (/tmp/base2 = git archive of that commit); shared files are never taken.
w=${1:?work copy}; cd /verif
diff -rq --exclude=bin --exclude=evidence --exclude=.git --exclude='*.log' "$w" /tmp/base2 | while read -r line; do
  case "$line" in
    "Files "*) f=$(echo "$line" | awk '{print $2}'); rel=${f#$w/};;
    "Only in $w"*) d=$(echo "$line" | sed -E 's/^Only in ([^:]+): (.*)$/\1\/\2/'); rel=${d#$w/};;
    *) continue;;
  esac
  case "$rel" in
    checker/internal/an/an.go|checker/internal/an/lockset.go|checker/internal/an/loops.go|checker/internal/an/hx_ext.go|checker/internal/rules/common.go|checker/internal/rules/registry.go|checker/internal/rules/crosslinks.go|checker/internal/rt/*|checker/internal/load/*|checker/cmd/*|run.sh|setup.sh|tools/*|DESIGN.md|MANIFEST.json|manifest_src.json|known_findings.json|gen_manifest.py|seeded/*) echo "SKIP shared: $rel";;
    refactors/*) if [ -e "/verif/$rel" ]; then echo "SKIP existing: $rel"; else mkdir -p "$(dirname "/verif/$rel")"; cp -r "$w/$rel" "/verif/$rel"; echo "took $rel"; fi;;
    checker/*) mkdir -p "$(dirname "/verif/$rel")"; cp -r "$w/$rel" "/verif/$rel"; echo "took $rel";;
    *) echo "SKIP other: $rel";;
  esac
done
