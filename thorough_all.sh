#!/bin/bash
# development helper: run every registered property in the thorough tier, summarise mutants
cd /verif
for p in $(bin/charonlint -describe | python3 -c "import json,sys; print(' '.join(sorted(json.load(sys.stdin))))"); do
  ./run.sh $p thorough "$@" > /tmp/thorough_$p.log 2>&1; echo "$p exit=$? $(grep -m1 mutants: /tmp/thorough_$p.log) $(grep -c SELFTEST-WARN /tmp/thorough_$p.log) warns"
done
