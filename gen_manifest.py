#!/usr/bin/env python3
"""Regenerates MANIFEST.json from manifest_src.json (claimed checks) and properties.jsonl."""
import json
props=[json.loads(l) for l in open('/verif/properties.jsonl')]
src=json.load(open('/verif/manifest_src.json'))
import subprocess
desc=json.loads(subprocess.run(['/verif/bin/charonlint','-describe'],capture_output=True,text=True).stdout or '{}')
for pid,d in desc.items():
    if pid in src['checks']:
        # hand-written note/technique are kept; the claim text always follows the checker's own rule descriptions
        src['checks'][pid]['text']="Structural necessary conditions decided exactly from the source on every path / call site (level other, not a proof of the behaviour). Decides: "+d['decides']+" Not decided: "+d['not_decided']
    if pid not in src['checks']:
        src['checks'][pid]={
          "text":"Structural necessary conditions decided exactly from the source on every path / call site (level other, not a proof of the behaviour). Decides: "+d['decides']+" Not decided: "+d['not_decided'],
          "note":"Trusts go/types + go/ssa (x/tools v0.50.0) and the frozen rule tables in checker/internal/rules (DESIGN.md §5 "+pid+"); behaviour outside the named mechanisms is not examined.",
          "technique":"static analysis: repository-specific dominance / must-pass-through / provenance / lockset rules on go/ssa"}
checks=[];na=[]
for p in props:
    pid=p['id']
    s=src['checks'].get(pid)
    if not s:
        na.append({"property_id":pid,"reason":src['not_applicable'].get(pid,"static check not built yet (work in progress); no runtime substitute is used")})
        continue
    checks.append({
      "property_id":pid,
      "quick_cmd":f"./run.sh {pid} quick",
      "thorough_cmd":f"./run.sh {pid} thorough",
      "evidence_file":f"/verif/evidence/{pid}.json",
      "replay_cmd_template":"cat {path}",
      "engine":"charonlint",
      "level_claimed":{"category":"other","text":s['text'],"design_ref":f"DESIGN.md §5 {pid}"},
      "level_note":s['note'],
      "technique":s['technique'],
    })
m={"version":1,
 "setup_cmd":"./setup.sh",
 "hooks":{"guard":"verif","enable":"none needed: the checker reads /repo's sources; no hooks are compiled into charon","baseline_off_cmd":"cd /repo && export GOFLAGS=-mod=mod GOPROXY=off GOSUMDB=off GOTOOLCHAIN=local PATH=/opt/veriftools/go1.26.8/bin:$PATH && go test -json -vet=off -count=1 -timeout 25m ./...","source_commits":[],"add_only":True},
 "engines":[{"name":"charonlint","path":"/verif/checker","serves_properties":[c['property_id'] for c in checks],"kind_free_text":"repository-specific static analyser (go/packages + go/ssa + dominators/CFG reachability + lockset + call-graph rules); reads /repo's working tree on every run"}],
 "checks":checks,
 "notes":src.get('notes',''),
 "not_applicable":na}
json.dump(m,open('/verif/MANIFEST.json','w'),indent=1)
print(len(checks),"checks",len(na),"not applicable")
