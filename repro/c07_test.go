package parsigdb

import (
	"context"
	"testing"
	"time"

	eth2spec "github.com/attestantio/go-eth2-client/spec"
	"github.com/stretchr/testify/require"

	"github.com/obolnetwork/charon/core"
	"github.com/obolnetwork/charon/eth2util"
	"github.com/obolnetwork/charon/testutil"
)

// Batch {A: share completing threshold, B: equivocating share}: A's trigger must still fire.
func TestZZBatchRejectionDoesNotLoseTrigger(t *testing.T) {
	lost, stored := 0, 0
	for iter := 0; iter < 60; iter++ {
		db := NewMemDB(2, fixedDeadliner{status: core.DeadlineScheduled}, NewMemDBMetadata(eth2util.Mainnet.SlotDuration, time.Unix(eth2util.Mainnet.GenesisTimestamp, 0)))
		fired := 0
		db.SubscribeThreshold(func(_ context.Context, _ core.Duty, out map[core.PubKey][]core.ParSignedData) error {
			fired += len(out)
			return nil
		})
		duty := core.NewAttesterDuty(123)
		pkA, pkB := testutil.RandomCorePubKey(t), testutil.RandomCorePubKey(t)
		attA := testutil.RandomDenebVersionedAttestation()
		attB1 := testutil.RandomDenebVersionedAttestation()
		attB2 := testutil.RandomDenebVersionedAttestation()
		mk := func(a *eth2spec.VersionedAttestation, idx int) core.ParSignedData {
			p, err := core.NewPartialVersionedAttestation(a, idx)
			require.NoError(t, err)
			return p
		}
		_ = attB1
		// share 1 for A, share 2 for B (data B1)
		require.NoError(t, db.StoreExternal(context.Background(), duty, core.ParSignedDataSet{pkA: mk(attA, 1), pkB: mk(attB1, 2)}))
		// batch from share 2: completes A, equivocates on B
		err := db.StoreExternal(context.Background(), duty, core.ParSignedDataSet{pkA: mk(attA, 2), pkB: mk(attB2, 2)})
		require.Error(t, err)
		db.mu.Lock()
		n := len(db.entries[key{Duty: duty, PubKey: pkA}])
		db.mu.Unlock()
		if n == 2 {
			stored++
			if fired == 0 {
				lost++
			}
		}
	}
	t.Logf("A stored with threshold reached in %d runs, trigger lost in %d", stored, lost)
	require.Zero(t, lost)
}
