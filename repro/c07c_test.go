package parsigdb

import (
	"context"
	"testing"
	"time"

	eth2spec "github.com/attestantio/go-eth2-client/spec"
	"github.com/stretchr/testify/require"

	"github.com/obolnetwork/charon/core"
	"github.com/obolnetwork/charon/eth2util"
	"github.com/obolnetwork/charon/testutil"
)

// Shares 1,2,3 sign root A (threshold 3 reached: one trigger). Share 4 then signs a different root B for the
// same duty and validator (minority root). The A group still has exactly `threshold` members, so the matcher
// reports it again and the threshold subscribers run a second time for the same duty and validator.
func TestZZMinorityRootAfterThresholdDoesNotRetrigger(t *testing.T) {
	db := NewMemDB(3, fixedDeadlinerC{}, NewMemDBMetadata(eth2util.Mainnet.SlotDuration, time.Unix(eth2util.Mainnet.GenesisTimestamp, 0)))
	fired := 0
	db.SubscribeThreshold(func(_ context.Context, _ core.Duty, out map[core.PubKey][]core.ParSignedData) error {
		fired += len(out)
		return nil
	})
	duty := core.NewAttesterDuty(123)
	pk := testutil.RandomCorePubKey(t)
	attA := testutil.RandomDenebVersionedAttestation()
	attB := testutil.RandomDenebVersionedAttestation()
	mk := func(a *eth2spec.VersionedAttestation, idx int) core.ParSignedData {
		p, err := core.NewPartialVersionedAttestation(a, idx)
		require.NoError(t, err)
		return p
	}
	for idx := 1; idx <= 3; idx++ {
		require.NoError(t, db.StoreExternal(context.Background(), duty, core.ParSignedDataSet{pk: mk(attA, idx)}))
	}
	require.Equal(t, 1, fired, "threshold reached: exactly one trigger")
	require.NoError(t, db.StoreExternal(context.Background(), duty, core.ParSignedDataSet{pk: mk(attB, 4)}))
	require.Equal(t, 1, fired, "a minority-root partial arriving after the threshold must not trigger aggregation again")
}

type fixedDeadlinerC struct{}

func (fixedDeadlinerC) Add(core.Duty) core.DeadlineStatus { return core.DeadlineScheduled }
func (fixedDeadlinerC) C() <-chan core.Duty               { return nil }
