package eth2wrap_test

import (
	"context"
	"testing"

	eth2v1 "github.com/attestantio/go-eth2-client/api/v1"
	eth2p0 "github.com/attestantio/go-eth2-client/spec/phase0"
	"github.com/stretchr/testify/require"

	"github.com/obolnetwork/charon/app/eth2wrap"
	"github.com/obolnetwork/charon/testutil/beaconmock"
)

// Defect 1: the metadata map is shared between the cache and its callers.
func TestZZMetadataShared(t *testing.T) {
	eth2Cl, err := beaconmock.New(t.Context())
	require.NoError(t, err)

	eth2Cl.ProposerDutiesFunc = func(_ context.Context, _ eth2p0.Epoch, vidxs []eth2p0.ValidatorIndex) ([]*eth2v1.ProposerDuty, error) {
		var resp []*eth2v1.ProposerDuty
		for i, v := range vidxs {
			resp = append(resp, &eth2v1.ProposerDuty{ValidatorIndex: v, Slot: eth2p0.Slot(i)})
		}
		return resp, nil
	}

	c := eth2wrap.NewDutiesCache(eth2Cl, []eth2p0.ValidatorIndex{1, 2})
	ctx := t.Context()

	first, err := c.ProposerDutiesCache(ctx, 0, []eth2p0.ValidatorIndex{1, 2}) // miss: populates
	require.NoError(t, err)
	first.Metadata["execution_optimistic"] = true // caller A edits its answer
	first.Metadata["injected"] = "by caller A"

	second, err := c.ProposerDutiesCache(ctx, 0, []eth2p0.ValidatorIndex{1, 2}) // hit
	require.NoError(t, err)
	require.Equal(t, false, second.Metadata["execution_optimistic"], "caller B sees caller A's edit (miss path shares the stored map)")
	require.NotContains(t, second.Metadata, "injected")

	second.Metadata["injected2"] = "by caller B"
	third, err := c.ProposerDutiesCache(ctx, 0, []eth2p0.ValidatorIndex{1}) // hit
	require.NoError(t, err)
	require.NotContains(t, third.Metadata, "injected2", "hit path hands out the cached map itself")
}

// Defect 2: sync committee duties are copied shallowly; the index slice is shared.
func TestZZSyncIndicesShared(t *testing.T) {
	eth2Cl, err := beaconmock.New(t.Context())
	require.NoError(t, err)

	eth2Cl.SyncCommitteeDutiesFunc = func(_ context.Context, _ eth2p0.Epoch, vidxs []eth2p0.ValidatorIndex) ([]*eth2v1.SyncCommitteeDuty, error) {
		var resp []*eth2v1.SyncCommitteeDuty
		for _, v := range vidxs {
			resp = append(resp, &eth2v1.SyncCommitteeDuty{ValidatorIndex: v, ValidatorSyncCommitteeIndices: []eth2p0.CommitteeIndex{7, 8}})
		}
		return resp, nil
	}

	c := eth2wrap.NewDutiesCache(eth2Cl, []eth2p0.ValidatorIndex{1})
	ctx := t.Context()

	first, err := c.SyncCommDutiesCache(ctx, 0, []eth2p0.ValidatorIndex{1}) // miss
	require.NoError(t, err)
	first.Duties[0].ValidatorSyncCommitteeIndices[0] = 99 // caller A edits its answer

	second, err := c.SyncCommDutiesCache(ctx, 0, []eth2p0.ValidatorIndex{1}) // hit
	require.NoError(t, err)
	require.Equal(t, eth2p0.CommitteeIndex(7), second.Duties[0].ValidatorSyncCommitteeIndices[0], "miss path: stored duty shares the slice with the first caller")

	second.Duties[0].ValidatorSyncCommitteeIndices[1] = 55
	third, err := c.SyncCommDutiesCache(ctx, 0, []eth2p0.ValidatorIndex{1}) // hit
	require.NoError(t, err)
	require.Equal(t, eth2p0.CommitteeIndex(8), third.Duties[0].ValidatorSyncCommitteeIndices[1], "hit path: every reader gets the cached slice")
}
