package aggsigdb_test

import (
	"context"
	"testing"
	"time"

	"github.com/stretchr/testify/require"

	"github.com/obolnetwork/charon/core"
	"github.com/obolnetwork/charon/core/aggsigdb"
	"github.com/obolnetwork/charon/testutil"
)

type zzDeadliner struct{ ch chan core.Duty }

func (zzDeadliner) Add(core.Duty) core.DeadlineStatus { return core.DeadlineScheduled }
func (d zzDeadliner) C() <-chan core.Duty              { return d.ch }

// With two readers pending for different keys, a Store for the second reader's key must wake it.
func TestZZV2NoLostWakeup(t *testing.T) {
	ctx, cancel := context.WithCancel(context.Background())
	defer cancel()
	db := aggsigdb.NewMemDBV2(zzDeadliner{ch: make(chan core.Duty)})
	go db.Run(ctx)

	duty := core.NewAttesterDuty(10)
	pkA, pkB := testutil.RandomCorePubKey(t), testutil.RandomCorePubKey(t)
	doneB := make(chan error, 1)
	go func() { _, _ = db.Await(ctx, duty, pkA, 0) }() // reader A parks first
	time.Sleep(50 * time.Millisecond)
	go func() { _, err := db.Await(ctx, duty, pkB, 0); doneB <- err }()
	time.Sleep(50 * time.Millisecond)

	require.NoError(t, db.Store(ctx, duty, core.SignedDataSet{pkB: testutil.RandomCoreSignature()}))
	select {
	case err := <-doneB:
		require.NoError(t, err)
	case <-time.After(time.Second):
		t.Fatal("reader for the stored key was never woken (wake-up consumed by the other reader)")
	}
}
