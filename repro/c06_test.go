package dutydb_test

import (
	"context"
	"testing"
	"time"

	eth2v1 "github.com/attestantio/go-eth2-client/api/v1"
	eth2p0 "github.com/attestantio/go-eth2-client/spec/phase0"
	"github.com/stretchr/testify/require"

	"github.com/obolnetwork/charon/core"
	"github.com/obolnetwork/charon/core/dutydb"
	"github.com/obolnetwork/charon/testutil"
)

// An error for one entry of an attester set must not leave a query for an already inserted key blocked.
func TestZZStoreErrorStillResolves(t *testing.T) {
	blocked, inserted := 0, 0
	for iter := 0; iter < 40; iter++ {
		ctx := context.Background()
		db := dutydb.NewMemDB(new(testDeadliner))
		const slot = 123
		mk := func(commIdx, vIdx uint64, root byte) core.AttestationData {
			return core.AttestationData{
				Data: eth2p0.AttestationData{Slot: slot, Index: eth2p0.CommitteeIndex(commIdx), BeaconBlockRoot: eth2p0.Root{root},
					Source: &eth2p0.Checkpoint{Root: eth2p0.Root{commIdx2b(commIdx)}}, Target: &eth2p0.Checkpoint{Root: eth2p0.Root{commIdx2b(commIdx)}}},
				Duty: eth2v1.AttesterDuty{Slot: slot, CommitteeLength: 8, CommitteesAtSlot: 9, CommitteeIndex: eth2p0.CommitteeIndex(commIdx), ValidatorIndex: eth2p0.ValidatorIndex(vIdx)},
			}
		}
		duty := core.Duty{Slot: slot, Type: core.DutyAttester}
		pkB := testutil.RandomCorePubKey(t)
		// commidx 7 already stored for validator B
		require.NoError(t, db.Store(ctx, duty, core.UnsignedDataSet{pkB: mk(7, 2, 1)}))
		// a query waits for committee 5 (validator A)
		got := make(chan error, 1)
		qctx, cancel := context.WithTimeout(ctx, 300*time.Millisecond)
		go func() { _, err := db.AwaitAttestation(qctx, slot, 5); got <- err }()
		time.Sleep(5 * time.Millisecond)
		// batch: A new (committee 5, same source/target as commidx-0 entry? no: use commidx2b so that idx0 clashes only for B), B clashing on committee 7
		err := db.Store(ctx, duty, core.UnsignedDataSet{testutil.RandomCorePubKey(t): mkSame(mk(5, 1, 1)), pkB: mk(7, 2, 9)})
		require.Error(t, err)
		_, perr := db.PubKeyByAttestation(ctx, slot, 5, 1)
		if perr == nil { // A was inserted before B failed
			inserted++
			if e := <-got; e != nil {
				blocked++
			}
		}
		cancel()
	}
	t.Logf("A inserted in %d runs, its query left blocked in %d", inserted, blocked)
	require.Zero(t, blocked)
}

func commIdx2b(uint64) byte { return 3 }
func mkSame(a core.AttestationData) core.AttestationData { return a }

// Re-storing an aggregate with the same data root must not replace the stored one.
func TestZZAggregateNotReplaced(t *testing.T) {
	ctx := context.Background()
	db := dutydb.NewMemDB(new(testDeadliner))
	agg := testutil.RandomDenebCoreVersionedAggregateAttestation()
	slot := uint64(agg.Deneb.Data.Slot)
	require.NoError(t, db.Store(ctx, core.NewAggregatorDuty(slot), core.UnsignedDataSet{testutil.RandomCorePubKey(t): agg}))
	root, err := agg.Deneb.Data.HashTreeRoot()
	require.NoError(t, err)
	first, err := db.AwaitAggAttestation(ctx, slot, root, agg.Deneb.Data.Index)
	require.NoError(t, err)

	cl, err := agg.Clone()
	require.NoError(t, err)
	other := cl.(core.VersionedAggregatedAttestation)
	other.Deneb.AggregationBits = testutil.RandomBitList(64)
	other.Deneb.Signature = testutil.RandomEth2Signature()
	_ = db.Store(ctx, core.NewAggregatorDuty(slot), core.UnsignedDataSet{testutil.RandomCorePubKey(t): other})
	second, err := db.AwaitAggAttestation(ctx, slot, root, agg.Deneb.Data.Index)
	require.NoError(t, err)
	require.Equal(t, first.Deneb, second.Deneb, "two answers for one key differ")
}
