package core_test

import (
	"context"
	"testing"
	"time"

	"github.com/jonboulle/clockwork"
	"github.com/stretchr/testify/require"

	"github.com/obolnetwork/charon/core"
)

// 14 duties share one deadline; a consumer that keeps reading (1ms per item) must get all 14 once.
func TestZZDeadlinerBurst(t *testing.T) {
	ctx, cancel := context.WithCancel(context.Background())
	defer cancel()
	clock := clockwork.NewFakeClock()
	start := clock.Now()
	dl := core.NewDeadlinerForT(ctx, t, func(core.Duty) (time.Time, bool) { return start.Add(time.Second), true }, clock)
	const n = 14
	for i := 0; i < n; i++ {
		require.Equal(t, core.DeadlineScheduled, dl.Add(core.NewAttesterDuty(uint64(i))))
	}
	clock.Advance(2 * time.Second)
	got := map[core.Duty]int{}
	timeout := time.After(2 * time.Second)
loop:
	for len(got) < n {
		select {
		case d := <-dl.C():
			got[d]++
			time.Sleep(time.Millisecond)
		case <-timeout:
			break loop
		}
	}
	require.Len(t, got, n, "some expired duties were never reported")
}
