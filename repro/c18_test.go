package dutydb_test

import (
	"context"
	"math/big"
	"testing"

	eth2api "github.com/attestantio/go-eth2-client/api"
	eth2v1 "github.com/attestantio/go-eth2-client/api/v1"
	eth2spec "github.com/attestantio/go-eth2-client/spec"
	eth2p0 "github.com/attestantio/go-eth2-client/spec/phase0"
	"github.com/stretchr/testify/assert"
	"github.com/stretchr/testify/require"

	"github.com/obolnetwork/charon/core"
	"github.com/obolnetwork/charon/core/dutydb"
	"github.com/obolnetwork/charon/testutil"
)

// C18-X2: a value returned by a dutydb query must be an isolated copy.
func TestZZIsolationAttestation(t *testing.T) {
	ctx := context.Background()
	db := dutydb.NewMemDB(new(testDeadliner))

	const slot, commIdx = 123, 4
	att := core.AttestationData{
		Data: eth2p0.AttestationData{Slot: slot, Index: commIdx, Source: &eth2p0.Checkpoint{Epoch: 1}, Target: &eth2p0.Checkpoint{Epoch: 2}},
		Duty: eth2v1.AttesterDuty{CommitteeIndex: commIdx, ValidatorIndex: 7, CommitteeLength: 8, CommitteesAtSlot: 9},
	}
	require.NoError(t, db.Store(ctx, core.Duty{Slot: slot, Type: core.DutyAttester}, core.UnsignedDataSet{testutil.RandomCorePubKey(t): att}))

	first, err := db.AwaitAttestation(ctx, slot, commIdx)
	require.NoError(t, err)
	second, err := db.AwaitAttestation(ctx, slot, commIdx)
	require.NoError(t, err)
	assert.NotSame(t, first, second, "two readers received the same *AttestationData")

	first.Slot = 999         // reader mutates its answer
	first.Target.Epoch = 777 // ... also through an inner pointer

	third, err := db.AwaitAttestation(ctx, slot, commIdx)
	require.NoError(t, err)
	require.EqualValues(t, slot, third.Slot, "later query observes the earlier reader's mutation")
	require.EqualValues(t, 2, third.Target.Epoch, "later query observes the earlier reader's mutation (inner pointer)")
}

func TestZZIsolationProposal(t *testing.T) {
	ctx := context.Background()
	db := dutydb.NewMemDB(new(testDeadliner))

	const slot = 321
	prop := &eth2api.VersionedProposal{Version: eth2spec.DataVersionBellatrix, Bellatrix: testutil.RandomBellatrixBeaconBlock()}
	prop.Bellatrix.Slot = slot
	unsigned, err := core.NewVersionedProposal(prop)
	require.NoError(t, err)
	require.NoError(t, db.Store(ctx, core.Duty{Slot: slot, Type: core.DutyProposer}, core.UnsignedDataSet{testutil.RandomCorePubKey(t): unsigned}))

	first, err := db.AwaitProposal(ctx, slot)
	require.NoError(t, err)
	second, err := db.AwaitProposal(ctx, slot)
	require.NoError(t, err)
	assert.NotSame(t, first, second, "two readers received the same *VersionedProposal")

	// what validatorapi.Proposal does with its answer
	first.ConsensusValue = big.NewInt(1)
	first.ExecutionValue = big.NewInt(1)
	first.Bellatrix.ProposerIndex = 424242

	third, err := db.AwaitProposal(ctx, slot)
	require.NoError(t, err)
	require.Nil(t, third.ConsensusValue, "later query observes the earlier reader's mutation")
	require.NotEqualValues(t, 424242, third.Bellatrix.ProposerIndex, "later query observes the earlier reader's mutation (inner pointer)")
}

func TestZZIsolationSyncContribution(t *testing.T) {
	ctx := context.Background()
	db := dutydb.NewMemDB(new(testDeadliner))

	contrib := testutil.RandomSyncCommitteeContribution()
	slot, sub, root := uint64(contrib.Slot), contrib.SubcommitteeIndex, contrib.BeaconBlockRoot
	bit0 := contrib.AggregationBits.BitAt(0)
	require.NoError(t, db.Store(ctx, core.NewSyncContributionDuty(slot), core.UnsignedDataSet{
		testutil.RandomCorePubKey(t): core.SyncContributions{core.NewSyncContribution(contrib)},
	}))

	first, err := db.AwaitSyncContribution(ctx, slot, sub, root)
	require.NoError(t, err)
	second, err := db.AwaitSyncContribution(ctx, slot, sub, root)
	require.NoError(t, err)
	assert.NotSame(t, first, second, "two readers received the same *SyncCommitteeContribution")

	first.AggregationBits.SetBitAt(0, !bit0)

	third, err := db.AwaitSyncContribution(ctx, slot, sub, root)
	require.NoError(t, err)
	require.Equal(t, bit0, third.AggregationBits.BitAt(0), "later query observes the earlier reader's mutation")
}
