package core_test

import (
	"context"
	"testing"

	"github.com/obolnetwork/charon/core"
	pbv1 "github.com/obolnetwork/charon/core/corepb/v1"
	"github.com/obolnetwork/charon/tbls"
)

// A peer sends a builder-registration partial signature whose registration is JSON null.
func TestZZC14RegistrationNull(t *testing.T) {
	psd, err := core.ParSignedDataFromProto(core.DutyBuilderRegistration, &pbv1.ParSignedData{
		Data:      []byte(`{"version":0,"registration":null}`),
		Signature: make([]byte, 96),
		ShareIdx:  1,
	})
	if err != nil {
		t.Logf("decode rejected (fixed behaviour): %v", err)
		return
	}
	t.Logf("decoded without error: %#v", psd.SignedData)

	eth2data, ok := psd.SignedData.(core.Eth2SignedData)
	if !ok {
		t.Fatal("not Eth2SignedData")
	}

	defer func() {
		if r := recover(); r != nil {
			t.Fatalf("DEFECT REPRODUCED: VerifyEth2SignedData panicked on peer-supplied data: %v", r)
		}
	}()

	err = core.VerifyEth2SignedData(context.Background(), nil, eth2data, tbls.PublicKey{})
	t.Logf("verify returned error (no panic): %v", err)
}

func TestZZC14RegistrationNullMessage(t *testing.T) {
	for _, in := range []string{
		`{"version":0,"registration":{"message":null,"signature":"0x` + zz96 + `"}}`,
		`{"version":0,"registration":{"signature":"0x` + zz96 + `"}}`,
		`{"version":0,"registration":{}}`,
		`{"version":0}`,
	} {
		psd, err := core.ParSignedDataFromProto(core.DutyBuilderRegistration, &pbv1.ParSignedData{Data: []byte(in), ShareIdx: 1})
		if err != nil {
			t.Logf("%s: rejected: %v", zzShort(in), err)
			continue
		}
		func() {
			defer func() {
				if r := recover(); r != nil {
					t.Errorf("%s: PANIC %v", in, r)
				}
			}()
			err = core.VerifyEth2SignedData(context.Background(), nil, psd.SignedData.(core.Eth2SignedData), tbls.PublicKey{})
			t.Logf("%s: verify err %v", zzShort(in), err)
		}()
	}
}

var zz96 = func() string {
	s := ""
	for i := 0; i < 96; i++ {
		s += "00"
	}
	return s
}()

func zzShort(s string) string {
	if len(s) > 60 {
		return s[:60]
	}
	return s
}
