#!/bin/bash
# Builds the checker offline from the module cache.
set -eu
cd "$(dirname "$0")/checker"
export GOFLAGS=-mod=mod GOPROXY=off GOSUMDB=off GOTOOLCHAIN=local
export PATH=/opt/veriftools/go1.26.8/bin:$PATH
unset GOWORK
mkdir -p ../bin ../evidence
go build -o ../bin/charonlint ./cmd/charonlint
echo "built bin/charonlint"
