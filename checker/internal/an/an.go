// Package an holds the SSA helpers shared by all rules: entity naming and resolution,
// call matching, dominance, reachability, checked-guard and must-pass-through queries.
package an

import (
	"fmt"
	"go/constant"
	"go/token"
	"go/types"
	"sort"
	"strings"

	"golang.org/x/tools/go/ssa"

	"charonverif/internal/load"
)

// ---------------------------------------------------------------------------------------------
// Naming

// Short strips the module prefix and pointer/paren decoration from a qualified name:
// "(*github.com/obolnetwork/charon/core/parsigdb.MemDB).store" -> "core/parsigdb.MemDB.store".
func Short(s string) string {
	s = strings.ReplaceAll(s, load.Mod+"/", "")
	s = strings.ReplaceAll(s, load.Mod+".", "charon.")
	s = strings.ReplaceAll(s, "(*", "")
	s = strings.ReplaceAll(s, "(", "")
	s = strings.ReplaceAll(s, ")", "")
	return s
}

// Orig returns the generic origin of fn (or fn itself).
func Orig(fn *ssa.Function) *ssa.Function {
	if fn == nil {
		return nil
	}
	if o := fn.Origin(); o != nil {
		return o
	}
	return fn
}

// FuncName is the short qualified name of an SSA function. Anonymous functions are
// "<parent>$<n>"; bound-method closures and thunks resolve to the underlying method.
func FuncName(fn *ssa.Function) string {
	if fn == nil {
		return "<nil>"
	}
	fn = Orig(fn)
	if fn.Parent() != nil {
		return FuncName(fn.Parent()) + "$" + strings.TrimPrefix(fn.Name()[strings.LastIndex(fn.Name(), "$"):], "$")
	}
	if obj, ok := fn.Object().(*types.Func); ok && obj != nil {
		return Short(obj.FullName())
	}
	return Short(fn.String())
}

// ObjName is the short qualified name of a types.Func (generic origin).
func ObjName(f *types.Func) string {
	if f == nil {
		return "<nil>"
	}
	return Short(f.Origin().FullName())
}

// TypeName renders a type with module-relative package paths, pointers stripped.
func TypeName(t types.Type) string {
	if t == nil {
		return "<nil>"
	}
	for {
		p, ok := t.(*types.Pointer)
		if !ok {
			break
		}
		t = p.Elem()
	}
	return Short(types.TypeString(t, nil))
}

// ---------------------------------------------------------------------------------------------
// Function iteration

// Closure returns fn and (recursively) every function literal declared inside it.
func Closure(fn *ssa.Function) []*ssa.Function {
	out := []*ssa.Function{fn}
	for _, a := range fn.AnonFuncs {
		out = append(out, Closure(a)...)
	}
	return out
}

// Instrs returns the instructions of fn in block order (and of nested literals if withAnon).
func Instrs(fn *ssa.Function, withAnon bool) []ssa.Instruction {
	var out []ssa.Instruction
	fns := []*ssa.Function{fn}
	if withAnon {
		fns = Closure(fn)
	}
	for _, f := range fns {
		for _, b := range f.Blocks {
			out = append(out, b.Instrs...)
		}
	}
	return out
}

// PkgFuncs returns every source function (methods and nested literals included) of an SSA package,
// sorted by name.
func PkgFuncs(pkg *ssa.Package) []*ssa.Function {
	seen := map[*ssa.Function]bool{}
	var out []*ssa.Function
	add := func(f *ssa.Function) {
		if f == nil || seen[f] || f.Blocks == nil || f.Synthetic != "" {
			return
		}
		for _, g := range Closure(f) {
			if !seen[g] {
				seen[g] = true
				out = append(out, g)
			}
		}
	}
	for _, m := range pkg.Members {
		switch m := m.(type) {
		case *ssa.Function:
			add(m)
		case *ssa.Type:
			for _, t := range []types.Type{m.Type(), types.NewPointer(m.Type())} {
				ms := pkg.Prog.MethodSets.MethodSet(t)
				for i := 0; i < ms.Len(); i++ {
					if f := pkg.Prog.MethodValue(ms.At(i)); f != nil && f.Pkg == pkg {
						add(f)
					}
				}
			}
		}
	}
	sort.Slice(out, func(i, j int) bool {
		if a, b := FuncName(out[i]), FuncName(out[j]); a != b {
			return a < b
		}
		return out[i].Pos() < out[j].Pos()
	})
	return out
}

// ---------------------------------------------------------------------------------------------
// Value tracing

// Unwrap looks through conversions, interface boxing and single-operand phis.
func Unwrap(v ssa.Value) ssa.Value {
	for i := 0; i < 32; i++ {
		switch x := v.(type) {
		case *ssa.ChangeType:
			v = x.X
		case *ssa.MakeInterface:
			v = x.X
		case *ssa.ChangeInterface:
			v = x.X
		case *ssa.Convert:
			v = x.X
		case *ssa.Phi:
			if len(x.Edges) == 1 {
				v = x.Edges[0]
			} else {
				return v
			}
		default:
			return v
		}
	}
	return v
}

// FieldKey names a struct field: "core/parsigdb.MemDB.threshSubs".
func FieldKey(structType types.Type, idx int) string {
	t := structType
	if p, ok := t.Underlying().(*types.Pointer); ok {
		t = p.Elem()
	}
	st, ok := t.Underlying().(*types.Struct)
	if !ok || idx >= st.NumFields() {
		return "?"
	}
	return TypeName(t) + "." + st.Field(idx).Name()
}

// FieldOf reports the field a value is loaded from or derived from as an element:
// *(&x.f), x.f, (&x.f)[i], x.f[k], range elements. base is x.
func FieldOf(v ssa.Value) (key string, base ssa.Value, ok bool) {
	for i := 0; i < 32; i++ {
		v = Unwrap(v)
		switch x := v.(type) {
		case *ssa.UnOp:
			if x.Op == token.MUL {
				v = x.X
				continue
			}
			return "", nil, false
		case *ssa.FieldAddr:
			return FieldKey(x.X.Type(), x.Field), x.X, true
		case *ssa.Field:
			return FieldKey(x.X.Type(), x.Field), x.X, true
		case *ssa.IndexAddr:
			v = x.X
		case *ssa.Index:
			v = x.X
		case *ssa.Lookup:
			v = x.X
		case *ssa.Slice:
			v = x.X
		case *ssa.Extract:
			v = x.Tuple
		case *ssa.Next:
			v = x.Iter
		case *ssa.Range:
			v = x.X
		default:
			return "", nil, false
		}
	}
	return "", nil, false
}

// ---------------------------------------------------------------------------------------------
// Call matching

// Matcher selects call sites.
type Matcher func(c *ssa.CallCommon) bool

// CalleeName names the target of a call as precisely as statically known:
// static callee, interface method ("iface:core.Deadliner.Add"), or field-held function
// ("field:core/parsigex.ParSigEx.verifyFunc"); "" if unknown.
func CalleeName(c *ssa.CallCommon) string {
	if c.IsInvoke() {
		return "iface:" + TypeName(c.Value.Type()) + "." + c.Method.Name()
	}
	if f := c.StaticCallee(); f != nil {
		return FuncName(f)
	}
	if k, _, ok := FieldOf(c.Value); ok {
		return "field:" + k
	}
	if b, ok := c.Value.(*ssa.Builtin); ok {
		return "builtin:" + b.Name()
	}
	return ""
}

// Static matches calls whose static callee has one of the short names.
func Static(names ...string) Matcher {
	return func(c *ssa.CallCommon) bool {
		if c.IsInvoke() {
			return false
		}
		f := c.StaticCallee()
		if f == nil {
			return false
		}
		n := FuncName(f)
		for _, want := range names {
			if n == want {
				return true
			}
		}
		return false
	}
}

// Invoke matches interface method calls "core.Deadliner.Add" (static receiver type + method).
func Invoke(names ...string) Matcher {
	return func(c *ssa.CallCommon) bool {
		if !c.IsInvoke() {
			return false
		}
		n := TypeName(c.Value.Type()) + "." + c.Method.Name()
		for _, want := range names {
			if n == want {
				return true
			}
		}
		return false
	}
}

// FieldCall matches dynamic calls whose function value is (an element of) the named struct field.
func FieldCall(keys ...string) Matcher {
	return func(c *ssa.CallCommon) bool {
		if c.IsInvoke() || c.StaticCallee() != nil {
			return false
		}
		k, _, ok := FieldOf(c.Value)
		if !ok {
			return false
		}
		for _, want := range keys {
			if k == want {
				return true
			}
		}
		return false
	}
}

// Named matches by CalleeName (any of the three forms).
func Named(names ...string) Matcher {
	return func(c *ssa.CallCommon) bool {
		n := CalleeName(c)
		for _, want := range names {
			if n == want {
				return true
			}
		}
		return false
	}
}

// Any combines matchers with OR.
func Any(ms ...Matcher) Matcher {
	return func(c *ssa.CallCommon) bool {
		for _, m := range ms {
			if m(c) {
				return true
			}
		}
		return false
	}
}

// Calls returns the call instructions (call, go, defer) in fn matching m, in block order.
func Calls(fn *ssa.Function, m Matcher, withAnon bool) []ssa.CallInstruction {
	var out []ssa.CallInstruction
	for _, in := range Instrs(fn, withAnon) {
		if c, ok := in.(ssa.CallInstruction); ok && m(c.Common()) {
			out = append(out, c)
		}
	}
	return out
}

// ---------------------------------------------------------------------------------------------
// Dominance and reachability

func index(in ssa.Instruction) int {
	for i, x := range in.Block().Instrs {
		if x == in {
			return i
		}
	}
	return -1
}

// Dominates reports whether instruction a dominates instruction b (same function).
func Dominates(a, b ssa.Instruction) bool {
	if a.Parent() != b.Parent() {
		return false
	}
	if a.Block() == b.Block() {
		return index(a) < index(b)
	}
	return a.Block().Dominates(b.Block())
}

// ReachBlocks returns the set of blocks reachable from `from` (inclusive) without entering a
// block in avoid (from itself is entered even if in avoid == false only).
func ReachBlocks(from *ssa.BasicBlock, avoid map[*ssa.BasicBlock]bool) map[*ssa.BasicBlock]bool {
	seen := map[*ssa.BasicBlock]bool{}
	var walk func(b *ssa.BasicBlock)
	walk = func(b *ssa.BasicBlock) {
		if seen[b] || avoid[b] {
			return
		}
		seen[b] = true
		for _, s := range b.Succs {
			walk(s)
		}
	}
	walk(from)
	return seen
}

// CanReach reports whether `to` is reachable from block `from` avoiding blocks in avoid.
func CanReach(from, to *ssa.BasicBlock, avoid map[*ssa.BasicBlock]bool) bool {
	return ReachBlocks(from, avoid)[to]
}

// ---------------------------------------------------------------------------------------------
// Conditions

// Cond is a decoded branch condition: Val Op Other, possibly negated. For a bare boolean
// value v it is v == true.
type Cond struct {
	If    *ssa.If
	Val   ssa.Value // the tracked value
	Op    token.Token
	Other ssa.Value // nil means boolean test of Val
	Neg   bool      // condition is !(Val Op Other)
}

// IsNilConst reports whether v is the nil constant.
func IsNilConst(v ssa.Value) bool {
	c, ok := v.(*ssa.Const)
	return ok && c.Value == nil && !isBasic(c.Type())
}

func isBasic(t types.Type) bool {
	_, ok := t.Underlying().(*types.Basic)
	return ok
}

// ConstInt returns the integer constant value of v.
func ConstInt(v ssa.Value) (int64, bool) {
	c, ok := Unwrap(v).(*ssa.Const)
	if !ok || c.Value == nil || c.Value.Kind() != constant.Int {
		return 0, false
	}
	return c.Int64(), true
}

// derives reports whether cond is built from v by comparisons/negations only, and decodes it.
func decodeCond(cond ssa.Value, v ssa.Value, depth int) (Cond, bool) {
	if depth > 6 {
		return Cond{}, false
	}
	if cond == v {
		return Cond{Val: v, Op: token.EQL}, true
	}
	switch x := cond.(type) {
	case *ssa.UnOp:
		if x.Op == token.NOT {
			c, ok := decodeCond(x.X, v, depth+1)
			if ok {
				c.Neg = !c.Neg
			}
			return c, ok
		}
	case *ssa.BinOp:
		switch x.Op {
		case token.EQL, token.NEQ, token.LSS, token.LEQ, token.GTR, token.GEQ:
			if sameOrUnwrapped(x.X, v) {
				return boolConstCond(Cond{Val: v, Op: x.Op, Other: x.Y}), true
			}
			if sameOrUnwrapped(x.Y, v) {
				return boolConstCond(Cond{Val: v, Op: flip(x.Op), Other: x.X}), true
			}
		}
	}
	return Cond{}, false
}

// boolConstCond normalises `b == false`, `b != true` ... to a (negated) boolean test of b.
func boolConstCond(c Cond) Cond {
	k, ok := c.Other.(*ssa.Const)
	if !ok || k.Value == nil || k.Value.Kind() != constant.Bool || (c.Op != token.EQL && c.Op != token.NEQ) {
		return c
	}
	neg := !constant.BoolVal(k.Value)
	if c.Op == token.NEQ {
		neg = !neg
	}
	return Cond{Val: c.Val, Op: token.EQL, Neg: neg}
}

func sameOrUnwrapped(a, v ssa.Value) bool {
	return a == v || Unwrap(a) == v
}

func flip(op token.Token) token.Token {
	switch op {
	case token.LSS:
		return token.GTR
	case token.LEQ:
		return token.GEQ
	case token.GTR:
		return token.LSS
	case token.GEQ:
		return token.LEQ
	}
	return op
}

// CondsOn returns every If in fn whose condition is a (negated) comparison of v or v itself.
func CondsOn(fn *ssa.Function, v ssa.Value) []Cond {
	var out []Cond
	for _, b := range fn.Blocks {
		if len(b.Instrs) == 0 {
			continue
		}
		iff, ok := b.Instrs[len(b.Instrs)-1].(*ssa.If)
		if !ok {
			continue
		}
		if c, ok := decodeCond(iff.Cond, v, 0); ok {
			c.If = iff
			out = append(out, c)
		}
	}
	return out
}

// Holds evaluates the condition given the truth of the base comparison (Val Op Other).
func (c Cond) Holds(base bool) bool {
	if c.Neg {
		return !base
	}
	return base
}

// Succ returns the successor taken when the base comparison (Val Op Other) has the given truth.
func (c Cond) Succ(base bool) *ssa.BasicBlock {
	if c.Holds(base) {
		return c.If.Block().Succs[0]
	}
	return c.If.Block().Succs[1]
}

// ---------------------------------------------------------------------------------------------
// Checked guards

// StatusOf returns the values carrying the success status of call g: the error-typed result(s)
// and, if boolIdx >= 0, the boolean result at that tuple index.
func StatusOf(g ssa.CallInstruction, boolIdx int) (errs []ssa.Value, boolv ssa.Value) {
	v := g.Value()
	if v == nil {
		return nil, nil
	}
	res := g.Common().Signature().Results()
	if res.Len() == 1 {
		if isErrorType(res.At(0).Type()) {
			errs = append(errs, v)
		} else if boolIdx == 0 {
			boolv = v
		}
		return
	}
	for _, ref := range *v.Referrers() {
		ex, ok := ref.(*ssa.Extract)
		if !ok {
			continue
		}
		if isErrorType(res.At(ex.Index).Type()) {
			errs = append(errs, ex)
		} else if ex.Index == boolIdx {
			boolv = ex
		}
	}
	return
}

func isErrorType(t types.Type) bool {
	return types.Identical(t, types.Universe.Lookup("error").Type())
}

// IsErrorType is exported for rules.
func IsErrorType(t types.Type) bool { return isErrorType(t) }

// GuardOpt tunes Guarded.
type GuardOpt struct {
	BoolIdx  int  // tuple index of a boolean status result, -1 for none
	BoolWant bool // value of the boolean that means "passed"
	NoErr    bool // do not require an error result to be checked (guard has none)
}

// DefaultGuard checks error results only.
var DefaultGuard = GuardOpt{BoolIdx: -1}

// BoolGuard checks a boolean result (index idx must equal want) in addition to any error result.
func BoolGuard(idx int, want bool) GuardOpt { return GuardOpt{BoolIdx: idx, BoolWant: want} }

// Guarded decides whether call g is a *checked guard* of sink: g dominates sink, and for each
// status value of g there is a branch on it whose failing edge cannot reach sink without
// re-executing g. Returns a human-readable witness or reason.
func Guarded(g ssa.CallInstruction, sink ssa.Instruction, opt GuardOpt) (bool, string) {
	if !Dominates(g, sink) {
		return false, "guard does not dominate sink"
	}
	errs, boolv := StatusOf(g, opt.BoolIdx)
	res := g.Common().Signature().Results()
	hasErr := false
	for i := 0; i < res.Len(); i++ {
		if isErrorType(res.At(i).Type()) {
			hasErr = true
		}
	}
	if hasErr && len(errs) == 0 && !opt.NoErr {
		return false, "error result of guard is discarded"
	}
	fn := g.Parent()
	avoid := map[*ssa.BasicBlock]bool{g.Block(): true}
	check := func(v ssa.Value, passBase func(c Cond) (bool, bool)) (bool, string) {
		conds := CondsOn(fn, v)
		if len(conds) == 0 {
			return false, "status of guard is never branched on"
		}
		for _, c := range conds {
			base, ok := passBase(c)
			if !ok {
				continue
			}
			fail := c.Succ(!base)
			pass := c.Succ(base)
			if !Dominates(g, c.If) {
				continue
			}
			if blockReaches(fail, sink, avoid) {
				continue
			}
			if !blockReaches(pass, sink, avoid) && pass != sink.Block() {
				continue
			}
			return true, fmt.Sprintf("failing edge of branch at block %d leaves", c.If.Block().Index)
		}
		return false, "no branch on the guard's status cuts the failing edge off from the sink"
	}
	if !opt.NoErr {
		for _, e := range errs {
			ok, why := check(e, func(c Cond) (bool, bool) {
				// pass means e == nil
				if c.Other == nil || !IsNilConst(c.Other) {
					return false, false
				}
				switch c.Op {
				case token.EQL:
					return true, true // base comparison (e == nil) true on pass
				case token.NEQ:
					return false, true
				}
				return false, false
			})
			if !ok {
				return false, why
			}
		}
	}
	if opt.BoolIdx >= 0 {
		if boolv == nil {
			return false, "boolean result of guard is discarded"
		}
		ok, why := check(boolv, func(c Cond) (bool, bool) {
			if c.Other != nil {
				return false, false
			}
			return opt.BoolWant, true
		})
		if !ok {
			return false, why
		}
	}
	return true, "checked"
}

// blockReaches: can control starting at the top of block `from` reach instruction sink,
// avoiding blocks in avoid.
func blockReaches(from *ssa.BasicBlock, sink ssa.Instruction, avoid map[*ssa.BasicBlock]bool) bool {
	if from == sink.Block() {
		return true
	}
	return CanReach(from, sink.Block(), avoid)
}

// EdgeCuts reports whether taking successor succ of the branch never reaches sink
// (without passing through the blocks in avoid).
func EdgeCuts(succ *ssa.BasicBlock, sink ssa.Instruction, avoid map[*ssa.BasicBlock]bool) bool {
	return !blockReaches(succ, sink, avoid)
}

// ---------------------------------------------------------------------------------------------
// Must-pass-through (effect-after)

// PassOpt tunes EscapePath.
type PassOpt struct {
	// Prune returns true when the edge from block b to its successor index i is infeasible.
	Prune func(b *ssa.BasicBlock, succ int) bool
	// PanicIsExit treats panic exits as escapes too (default: ignored).
	PanicIsExit bool
	// ExitAt treats an instruction as a function exit (e.g. an Unlock ending a critical section).
	ExitAt func(in ssa.Instruction) bool
	// StopAt treats entering a block as an exit (e.g. a loop header reached again).
	StopAt func(b *ssa.BasicBlock) bool
}

// EscapePath searches a CFG path from just after instruction `from` to a function exit
// (return) that does not pass through an instruction satisfying effect. It returns the
// block path if one exists.
func EscapePath(from ssa.Instruction, effect func(ssa.Instruction) bool, opt PassOpt) ([]*ssa.BasicBlock, bool) {
	start := from.Block()
	seen := map[*ssa.BasicBlock]bool{}
	var path []*ssa.BasicBlock
	var walk func(b *ssa.BasicBlock, fromIdx int) bool
	walk = func(b *ssa.BasicBlock, fromIdx int) bool {
		path = append(path, b)
		for i := fromIdx; i < len(b.Instrs); i++ {
			in := b.Instrs[i]
			if effect(in) {
				path = path[:len(path)-1]
				return false
			}
			if opt.ExitAt != nil && opt.ExitAt(in) {
				return true
			}
			switch in.(type) {
			case *ssa.Return:
				return true
			case *ssa.Panic:
				if opt.PanicIsExit {
					return true
				}
				path = path[:len(path)-1]
				return false
			}
		}
		for i, s := range b.Succs {
			if opt.Prune != nil && opt.Prune(b, i) {
				continue
			}
			if opt.StopAt != nil && opt.StopAt(s) {
				path = append(path, s)
				return true
			}
			if seen[s] {
				continue
			}
			seen[s] = true
			if walk(s, 0) {
				return true
			}
		}
		path = path[:len(path)-1]
		return false
	}
	esc := walk(start, index(from)+1)
	return path, esc
}

// PathString renders a block path with source lines of each block's first positioned instruction.
func PathString(p *load.Program, path []*ssa.BasicBlock) string {
	var parts []string
	for _, b := range path {
		line := "-"
		for _, in := range b.Instrs {
			if in.Pos().IsValid() {
				line = fmt.Sprint(p.Fset.Position(in.Pos()).Line)
				break
			}
		}
		parts = append(parts, fmt.Sprintf("b%d@%s", b.Index, line))
	}
	return strings.Join(parts, "→")
}

// ---------------------------------------------------------------------------------------------
// Value equivalence (binding)

// Equiv reports whether a and b denote the same value: identical SSA value, loads of the same
// field/element of equivalent bases, or calls of the same static function with equivalent
// arguments (pure-constructor equivalence).
func Equiv(a, b ssa.Value) bool { return equiv(a, b, 0) }

func equiv(a, b ssa.Value, d int) bool {
	a, b = Unwrap(a), Unwrap(b)
	if a == b {
		return true
	}
	if d > 6 {
		return false
	}
	switch x := a.(type) {
	case *ssa.Const:
		y, ok := b.(*ssa.Const)
		return ok && types.Identical(x.Type(), y.Type()) && ((x.Value == nil && y.Value == nil) ||
			(x.Value != nil && y.Value != nil && constant.Compare(x.Value, token.EQL, y.Value)))
	case *ssa.UnOp:
		y, ok := b.(*ssa.UnOp)
		return ok && x.Op == y.Op && equiv(x.X, y.X, d+1)
	case *ssa.FieldAddr:
		y, ok := b.(*ssa.FieldAddr)
		return ok && x.Field == y.Field && equiv(x.X, y.X, d+1)
	case *ssa.Field:
		y, ok := b.(*ssa.Field)
		return ok && x.Field == y.Field && equiv(x.X, y.X, d+1)
	case *ssa.Extract:
		y, ok := b.(*ssa.Extract)
		return ok && x.Index == y.Index && equiv(x.Tuple, y.Tuple, d+1)
	case *ssa.Call:
		y, ok := b.(*ssa.Call)
		if !ok {
			return false
		}
		fx, fy := x.Call.StaticCallee(), y.Call.StaticCallee()
		if x.Call.IsInvoke() || y.Call.IsInvoke() {
			if !(x.Call.IsInvoke() && y.Call.IsInvoke()) || x.Call.Method != y.Call.Method || !equiv(x.Call.Value, y.Call.Value, d+1) {
				return false
			}
		} else if fx == nil || fy == nil || Orig(fx) != Orig(fy) {
			return false
		}
		if len(x.Call.Args) != len(y.Call.Args) {
			return false
		}
		for i := range x.Call.Args {
			if !equiv(x.Call.Args[i], y.Call.Args[i], d+1) {
				return false
			}
		}
		return true
	}
	return false
}

// ---------------------------------------------------------------------------------------------
// Misc

// Returns lists the return instructions of fn.
func Returns(fn *ssa.Function) []*ssa.Return {
	var out []*ssa.Return
	for _, b := range fn.Blocks {
		if len(b.Instrs) == 0 {
			continue
		}
		if r, ok := b.Instrs[len(b.Instrs)-1].(*ssa.Return); ok {
			out = append(out, r)
		}
	}
	return out
}

// Operands returns the non-nil operand values of an instruction.
func Operands(in ssa.Instruction) []ssa.Value {
	var out []ssa.Value
	for _, p := range in.Operands(nil) {
		if p != nil && *p != nil {
			out = append(out, *p)
		}
	}
	return out
}

// Uses reports whether instruction in has v among its operands (after Unwrap on each operand).
func Uses(in ssa.Instruction, v ssa.Value) bool {
	for _, o := range Operands(in) {
		if o == v || Unwrap(o) == v {
			return true
		}
	}
	return false
}

// UniqueStore returns the single value stored directly into alloc (nil if none or several).
func UniqueStore(al *ssa.Alloc) ssa.Value {
	var src ssa.Value
	for _, ref := range *al.Referrers() {
		if st, ok := ref.(*ssa.Store); ok && st.Addr == ssa.Value(al) {
			if src != nil {
				return nil
			}
			src = st.Val
		}
	}
	return src
}

// Resolve looks through conversions and loads of single-assignment spilled locals
// (variables captured by closures or address-taken become Alloc+Store+Load in SSA).
func Resolve(v ssa.Value) ssa.Value {
	for i := 0; i < 16; i++ {
		v = Unwrap(v)
		ld, ok := v.(*ssa.UnOp)
		if !ok || ld.Op != token.MUL {
			return v
		}
		al, ok := ld.X.(*ssa.Alloc)
		if !ok {
			return v
		}
		src := UniqueStore(al)
		if src == nil {
			return v
		}
		v = src
	}
	return v
}
