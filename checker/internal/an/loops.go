package an

import (
	"go/token"
	"go/types"

	"golang.org/x/tools/go/ssa"
)

// Loop is a natural loop.
type Loop struct {
	Header  *ssa.BasicBlock
	Body    map[*ssa.BasicBlock]bool // includes header
	Latches []*ssa.BasicBlock
}

// Loops returns the natural loops of fn (one per header, bodies of shared headers merged).
func Loops(fn *ssa.Function) []*Loop {
	by := map[*ssa.BasicBlock]*Loop{}
	var out []*Loop
	for _, n := range fn.Blocks {
		for _, h := range n.Succs {
			if !h.Dominates(n) {
				continue
			}
			l := by[h]
			if l == nil {
				l = &Loop{Header: h, Body: map[*ssa.BasicBlock]bool{h: true}}
				by[h] = l
				out = append(out, l)
			}
			l.Latches = append(l.Latches, n)
			var walk func(b *ssa.BasicBlock)
			walk = func(b *ssa.BasicBlock) {
				if l.Body[b] {
					return
				}
				l.Body[b] = true
				for _, p := range b.Preds {
					walk(p)
				}
			}
			walk(n)
		}
	}
	return out
}

// InnermostLoop returns the smallest loop containing b, or nil.
func InnermostLoop(fn *ssa.Function, b *ssa.BasicBlock) *Loop {
	var best *Loop
	for _, l := range Loops(fn) {
		if l.Body[b] && (best == nil || len(l.Body) < len(best.Body)) {
			best = l
		}
	}
	return best
}

// LoopsContaining returns all loops containing b, innermost first.
func LoopsContaining(fn *ssa.Function, b *ssa.BasicBlock) []*Loop {
	var out []*Loop
	for _, l := range Loops(fn) {
		if l.Body[b] {
			out = append(out, l)
		}
	}
	for i := 0; i < len(out); i++ {
		for j := i + 1; j < len(out); j++ {
			if len(out[j].Body) < len(out[i].Body) {
				out[i], out[j] = out[j], out[i]
			}
		}
	}
	return out
}

// RangeColl returns the collection a loop ranges over: for a slice range loop the value whose
// len() bounds the index phi compared in the header, for a map/channel range the Range operand,
// for a `for range n`/three-clause loop nil.
func (l *Loop) RangeColl() ssa.Value {
	for _, in := range l.Header.Instrs {
		switch x := in.(type) {
		case *ssa.Next:
			if r, ok := x.Iter.(*ssa.Range); ok {
				return r.X
			}
		case *ssa.If:
			if bin, ok := x.Cond.(*ssa.BinOp); ok && bin.Op == token.LSS {
				if call, ok := bin.Y.(*ssa.Call); ok {
					if b, ok := call.Call.Value.(*ssa.Builtin); ok && b.Name() == "len" && len(call.Call.Args) == 1 {
						return call.Call.Args[0]
					}
				}
			}
		}
	}
	return nil
}

// ElemOf reports whether v is (derived by field selection / load / extraction from) an element of
// the collection ranged over by loop l.
func (l *Loop) ElemOf(v ssa.Value) bool {
	coll := l.RangeColl()
	if coll == nil {
		return false
	}
	for i := 0; i < 24; i++ {
		v = Unwrap(v)
		switch x := v.(type) {
		case *ssa.UnOp:
			if x.Op != token.MUL {
				return false
			}
			v = x.X
		case *ssa.FieldAddr:
			v = x.X
		case *ssa.Field:
			v = x.X
		case *ssa.IndexAddr:
			return l.Body[x.Block()] && Equiv(x.X, coll) && l.isIndexVar(x.Index)
		case *ssa.Index:
			return l.Body[x.Block()] && Equiv(x.X, coll) && l.isIndexVar(x.Index)
		case *ssa.Extract:
			if n, ok := x.Tuple.(*ssa.Next); ok {
				if r, ok := n.Iter.(*ssa.Range); ok {
					return l.Body[n.Block()] && Equiv(r.X, coll)
				}
				return false
			}
			v = x.Tuple
		case *ssa.Alloc:
			// a range element spilled to a local (address taken): find the unique store into it
			var src ssa.Value
			for _, ref := range *x.Referrers() {
				if st, ok := ref.(*ssa.Store); ok && st.Addr == ssa.Value(x) {
					if src != nil {
						return false
					}
					src = st.Val
				}
			}
			if src == nil {
				return false
			}
			v = src
		default:
			return false
		}
	}
	return false
}

// ForallGuard decides the forall-loop variant of E1: the branch `guard` lies in loop l, dominates every
// latch (no continue around it), its failing successor cannot reach sink, and the loop header
// dominates sink, which lies outside the loop.
func ForallGuard(l *Loop, guard *ssa.If, failSucc *ssa.BasicBlock, sink ssa.Instruction) (bool, string) {
	if !l.Body[guard.Block()] {
		return false, "guard is not inside the loop"
	}
	for _, la := range l.Latches {
		if !guard.Block().Dominates(la) {
			return false, "an iteration can reach the loop latch without passing the guard"
		}
	}
	if l.Body[sink.Block()] {
		return false, "sink is inside the loop"
	}
	if !l.Header.Dominates(sink.Block()) {
		return false, "loop does not dominate the sink"
	}
	if blockReaches(failSucc, sink, nil) {
		return false, "failing edge of the guard can still reach the sink"
	}
	if b := C05LoopLeavesOnlyAtHeader(l, sink); b != nil {
		return false, "the loop can be left early (break) towards the sink before every element passed the guard"
	}
	return true, "every element passes the guard before the sink"
}

// LoopEarlyExit returns a block of the loop other than the header with an edge that leaves the loop
// towards a normal continuation (not a panic), i.e. a `break`/`return` that stops the iteration before
// the collection is exhausted; nil if the loop is only left at its header.
func LoopEarlyExit(l *Loop) *ssa.BasicBlock {
	for _, b := range l.Header.Parent().Blocks {
		if !l.Body[b] || b == l.Header {
			continue
		}
		for _, s := range b.Succs {
			if l.Body[s] {
				continue
			}
			if len(s.Instrs) > 0 {
				if _, isPanic := s.Instrs[len(s.Instrs)-1].(*ssa.Panic); isPanic {
					continue
				}
			}
			return b
		}
	}
	return nil
}

// InstrReaches reports whether control can flow from just after instruction a to instruction b.
func InstrReaches(a, b ssa.Instruction) bool {
	if a.Parent() != b.Parent() {
		return false
	}
	if a.Block() == b.Block() && index(a) < index(b) {
		return true
	}
	for _, s := range a.Block().Succs {
		if blockReaches(s, b, nil) {
			return true
		}
	}
	return false
}

// PathThrough returns an instruction satisfying via that lies on some path from `from` to `to`.
func PathThrough(from, to ssa.Instruction, via func(ssa.Instruction) bool) ssa.Instruction {
	for _, b := range from.Parent().Blocks {
		for _, in := range b.Instrs {
			if via(in) && InstrReaches(from, in) && InstrReaches(in, to) {
				return in
			}
		}
	}
	return nil
}

// IsMapType reports whether t is a map.
func IsMapType(t types.Type) bool { _, ok := t.Underlying().(*types.Map); return ok }

// isIndexVar: v is the loop's induction variable (a phi in the header), not a constant index.
func (l *Loop) isIndexVar(v ssa.Value) bool {
	v = Unwrap(v)
	if p, ok := v.(*ssa.Phi); ok {
		return p.Block() == l.Header
	}
	// go/ssa range-over-slice: header computes idx = phi + 1 and the body indexes with idx
	if b, ok := v.(*ssa.BinOp); ok && b.Op == token.ADD && l.Body[b.Block()] {
		if p, ok := b.X.(*ssa.Phi); ok && p.Block() == l.Header {
			if k, ok := ConstInt(b.Y); ok && k == 1 {
				return true
			}
		}
	}
	return false
}
