package an

// H11Tracer is a copy of Tracer (h1617_ext.go; the symbol, event and path types are shared) with two additions
// needed when rules step into helper functions that return freshly constructed errors:
//   - NeverNil: a branch on `x == nil` where x is the result of a call to a function for which NeverNil reports true
//     is decided (false) instead of forked, so that the impossible continuation "the helper returned
//     errors.New(...) and the caller found it nil" is not explored (it multiplies the paths by the number of error
//     exits of every helper);
//   - MaxBlockVisits: a bound on the visits of one block on a path over ALL activations of its function, so that a
//     loop inside a helper that is called from a loop is unrolled as often as the same loop written inline.
// Suggested change to the shared file: give Tracer these two fields; this copy can then be dropped.

import (
	"go/constant"
	"go/token"
	"go/types"
	"sort"
	"strconv"
	"strings"

	"golang.org/x/tools/go/ssa"
)

type H11Tracer struct {
	Root  *ssa.Function
	Start *ssa.BasicBlock // nil: entry block
	// Stop ends a path when the root frame enters this block again (event-loop head). May be nil.
	Stop *ssa.BasicBlock
	// Inline decides whether a static callee / closure is stepped into (default: same package as Root).
	Inline    func(fn *ssa.Function) bool
	MaxPaths  int // default 20000
	MaxVisits int // per block and activation, default 3
	MaxDepth  int // inlining depth, default 8
	// NeverNil reports that result idx of the (not stepped into) function is never nil. May be nil.
	NeverNil func(fn *ssa.Function, idx int) bool
	// MaxBlockVisits bounds the visits of a block on one path over all activations (0: no bound).
	MaxBlockVisits int

	nextID int
	res    *TraceResult
}

// Run explores the paths.
func (t *H11Tracer) Run() *TraceResult {
	if t.MaxPaths == 0 {
		t.MaxPaths = 20000
	}
	if t.MaxVisits == 0 {
		t.MaxVisits = 3
	}
	if t.MaxDepth == 0 {
		t.MaxDepth = 8
	}
	if t.Inline == nil {
		t.Inline = func(fn *ssa.Function) bool { return fn.Pkg == t.Root.Pkg || fn.Parent() != nil }
	}
	t.res = &TraceResult{Visited: map[ssa.Instruction]bool{}}
	if len(t.Root.Blocks) == 0 {
		return t.res
	}
	st := &tstate{env: map[envKey]*Sym{}, mem: map[string]*Sym{}, assume: map[string]bool{}, visits: map[visitKey]int{}, defers: map[int][]deferred{}}
	t.nextID++
	fr := &frame{id: t.nextID, fn: t.Root, root: true}
	// lexical ancestors of a root that is a function literal: their variables (captured by the root) are
	// resolved lazily, like values computed before the path began
	child := fr
	for p := t.Root.Parent(); p != nil; p = p.Parent() {
		t.nextID++
		anc := &frame{id: t.nextID, fn: p, depth: 0, lexical: true}
		child.parent = anc
		child = anc
	}
	start := t.Start
	if start == nil {
		start = t.Root.Blocks[0]
	}
	t.block(st, fr, start, nil, true, func(st *tstate, res []*Sym) {
		n := len(t.res.Paths)
		t.end(st, "return")
		if len(t.res.Paths) > n {
			t.res.Paths[n].Results = res
		}
	})
	return t.res
}

func (t *H11Tracer) id() int { t.nextID++; return t.nextID }

func (t *H11Tracer) end(st *tstate, why string) {
	if len(t.res.Paths) >= t.MaxPaths {
		t.res.Truncated = true
		return
	}
	t.res.Paths = append(t.res.Paths, &Path{Evs: st.evs, End: why, Mem: st.mem, Assume: st.assume})
}

func (t *H11Tracer) full() bool { return len(t.res.Paths) >= t.MaxPaths }

func (t *H11Tracer) emit(st *tstate, fr *frame, e Ev) {
	if e.In != nil {
		e.Fn = e.In.Parent()
	}
	e.Frame, e.Depth = fr.id, fr.depth
	st.evs = append(st.evs, e)
}

// block enters block b of frame fr coming from pred.
func (t *H11Tracer) block(st *tstate, fr *frame, b, pred *ssa.BasicBlock, first bool, k tcont) {
	if t.full() {
		t.res.Truncated = true
		return
	}
	if fr.root && !first && t.Stop != nil && b == t.Stop {
		t.end(st, "stop")
		return
	}
	vk := visitKey{fr.id, b}
	st.visits[vk]++
	if st.visits[vk] > t.MaxVisits {
		t.res.Pruned++
		return
	}
	if t.MaxBlockVisits > 0 {
		gk := visitKey{0, b}
		st.visits[gk]++
		if st.visits[gk] > t.MaxBlockVisits {
			t.res.Pruned++
			return
		}
	}
	// phis: simultaneous assignment from the edge we came along
	i := 0
	if pred != nil {
		pi := -1
		for j, p := range b.Preds {
			if p == pred {
				pi = j
			}
		}
		var vals []*Sym
		var phis []*ssa.Phi
		for ; i < len(b.Instrs); i++ {
			phi, ok := b.Instrs[i].(*ssa.Phi)
			if !ok {
				break
			}
			phis = append(phis, phi)
			if pi >= 0 && pi < len(phi.Edges) {
				vals = append(vals, t.val(st, fr, phi.Edges[pi]))
			} else {
				vals = append(vals, &Sym{Kind: KOpaque, V: phi, ID: t.id()})
			}
		}
		for j, phi := range phis {
			st.env[envKey{fr.id, phi}] = vals[j]
		}
	} else {
		for ; i < len(b.Instrs); i++ {
			phi, ok := b.Instrs[i].(*ssa.Phi)
			if !ok {
				break
			}
			st.env[envKey{fr.id, phi}] = &Sym{Kind: KOpaque, V: phi, ID: 0}
		}
	}
	t.instrs(st, fr, b, i, k)
}

// val evaluates an operand in frame fr.
func (t *H11Tracer) val(st *tstate, fr *frame, v ssa.Value) *Sym {
	if v == nil {
		return nil
	}
	switch x := v.(type) {
	case *ssa.Const:
		return constSym(x.Value, x.Type())
	case *ssa.Function:
		return &Sym{Kind: KFunc, Fn: x, V: x}
	case *ssa.Builtin:
		return &Sym{Kind: KFunc, V: x}
	case *ssa.Global:
		return &Sym{Kind: KAddr, Cell: "g:" + x.Pkg.Pkg.Path() + "." + x.Name(), V: x}
	}
	if s, ok := st.env[envKey{fr.id, v}]; ok {
		return s
	}
	// not executed on this path: a parameter of the root, or a value computed before the path began
	s := t.lazy(st, fr, v, 0)
	st.env[envKey{fr.id, v}] = s
	return s
}

func (t *H11Tracer) lazy(st *tstate, fr *frame, v ssa.Value, d int) *Sym {
	if d > 12 {
		return &Sym{Kind: KOpaque, V: v}
	}
	sub := func(w ssa.Value) *Sym {
		switch w.(type) {
		case *ssa.Const, *ssa.Function, *ssa.Builtin, *ssa.Global:
			return t.val(st, fr, w)
		}
		if s, ok := st.env[envKey{fr.id, w}]; ok {
			return s
		}
		return t.lazy(st, fr, w, d+1)
	}
	switch x := v.(type) {
	case *ssa.FreeVar:
		// captured variable of an unbound function literal: the variable of the enclosing function it is bound to
		if fr.parent != nil && fr.parent.fn == fr.fn.Parent() {
			var bound ssa.Value
			n := 0
			for j, fv := range fr.fn.FreeVars {
				if fv != x {
					continue
				}
				for _, in := range Instrs(fr.fn.Parent(), false) {
					if mc, ok := in.(*ssa.MakeClosure); ok && mc.Fn == ssa.Value(fr.fn) && j < len(mc.Bindings) {
						bound = mc.Bindings[j]
						n++
					}
				}
			}
			if n == 1 {
				if s, ok := st.env[envKey{fr.parent.id, bound}]; ok {
					return s
				}
				return t.lazy(st, fr.parent, bound, d+1)
			}
		}
		return &Sym{Kind: KParam, V: v}
	case *ssa.Parameter:
		return &Sym{Kind: KParam, V: v}
	case *ssa.Alloc:
		return &Sym{Kind: KAddr, Cell: "alloc:" + valName(x), V: x}
	case *ssa.MakeClosure:
		s := &Sym{Kind: KClosure, Fn: x.Fn.(*ssa.Function), V: x}
		for _, b := range x.Bindings {
			s.Args = append(s.Args, sub(b))
		}
		return s
	case *ssa.FieldAddr:
		return t.fieldAddr(sub(x.X), x)
	case *ssa.IndexAddr:
		return t.indexAddr(sub(x.X), sub(x.Index))
	case *ssa.Field:
		return fieldOfT(sub(x.X), x.Field, FieldKey(x.X.Type(), x.Field))
	case *ssa.ChangeType:
		return sub(x.X)
	case *ssa.Convert:
		return sub(x.X)
	case *ssa.MakeInterface:
		return sub(x.X)
	case *ssa.ChangeInterface:
		return sub(x.X)
	case *ssa.Extract:
		return extractOf(sub(x.Tuple), x.Index)
	case *ssa.UnOp:
		switch x.Op {
		case token.MUL:
			// value loaded before the path began: only resolvable for write-once cells holding a time-invariant value
			if al, ok := x.X.(*ssa.Alloc); ok {
				if s := t.writeOnce(st, fr, al, d); s != nil {
					return s
				}
				if fs := h11LiteralFields(al); len(fs) > 0 && al.Parent() == fr.fn {
					ks := &Sym{Kind: KStruct, Args: []*Sym{nil}, Fields: map[int]*Sym{}}
					for idx, fv := range fs {
						ks.Fields[idx] = sub(fv)
					}
					return ks
				}
			}
			return &Sym{Kind: KOpaque, V: v}
		case token.NOT:
			return notOf(sub(x.X))
		case token.ARROW:
			return &Sym{Kind: KOpaque, V: v}
		}
		return &Sym{Kind: KPure, Name: "unop" + x.Op.String(), Args: []*Sym{sub(x.X)}}
	case *ssa.BinOp:
		return binOf(x.Op, sub(x.X), sub(x.Y))
	case *ssa.Slice:
		return &Sym{Kind: KPure, Name: "slice", Args: []*Sym{sub(x.X), sub(x.Low), sub(x.High)}}
	}
	return &Sym{Kind: KOpaque, V: v}
}

// writeOnce resolves the content of a variable that is assigned exactly once with a value that does not
// depend on when it is read (parameter, function, closure, constant, address).
func (t *H11Tracer) writeOnce(st *tstate, fr *frame, al *ssa.Alloc, d int) *Sym {
	stores := AllStores(al)
	if len(stores) != 1 || stores[0].Parent() != al.Parent() || AddrEscapes(al) {
		return nil
	}
	if al.Parent() != fr.fn {
		return nil
	}
	switch v := stores[0].Val.(type) {
	case *ssa.Parameter, *ssa.FreeVar, *ssa.MakeClosure, *ssa.Const, *ssa.Function, *ssa.Alloc:
		if s, ok := st.env[envKey{fr.id, v}]; ok {
			return s
		}
		switch v.(type) {
		case *ssa.Const, *ssa.Function:
			return t.val(st, fr, v)
		}
		return t.lazy(st, fr, v, d+1)
	case *ssa.MakeMap:
		if h11StaticTable(v) != nil {
			return &Sym{Kind: KOpaque, V: v}
		}
	}
	return nil
}

func (t *H11Tracer) fieldAddr(base *Sym, fa *ssa.FieldAddr) *Sym {
	cell := ""
	if base.Kind == KAddr {
		cell = base.Cell + ".#" + strconv.Itoa(fa.Field)
	} else {
		cell = "*(" + base.Key() + ").#" + strconv.Itoa(fa.Field)
	}
	return &Sym{Kind: KAddr, Cell: cell, Field: FieldKey(fa.X.Type(), fa.Field), V: fa, Args: []*Sym{base}}
}

func (t *H11Tracer) indexAddr(base, idx *Sym) *Sym {
	cell := ""
	if base.Kind == KAddr {
		cell = base.Cell + "[" + idx.Key() + "]"
	} else {
		cell = "*(" + base.Key() + ")[" + idx.Key() + "]"
	}
	return &Sym{Kind: KAddr, Cell: cell, Args: []*Sym{base, idx}}
}

func (t *H11Tracer) store(st *tstate, addr, val *Sym) {
	cell := cellOf(addr)
	prefix := cell + ".#"
	for k := range st.mem {
		if strings.HasPrefix(k, prefix) {
			delete(st.mem, k)
		}
	}
	st.mem[cell] = val
}

// known returns the content of a cell if the path determines it (nil otherwise).
func (t *H11Tracer) known(st *tstate, cell string, d int) *Sym {
	whole := st.mem[cell]
	var fields map[int]*Sym
	prefix := cell + ".#"
	for k, v := range st.mem {
		if strings.HasPrefix(k, prefix) {
			if i, err := strconv.Atoi(k[len(prefix):]); err == nil {
				if fields == nil {
					fields = map[int]*Sym{}
				}
				fields[i] = v
			}
		}
	}
	if len(fields) > 0 {
		return &Sym{Kind: KStruct, Args: []*Sym{whole}, Fields: fields}
	}
	if whole != nil {
		return whole
	}
	// a field of a cell whose whole content is known
	if i := strings.LastIndex(cell, ".#"); i > 0 && d < 4 {
		if idx, err := strconv.Atoi(cell[i+2:]); err == nil {
			if pv := t.known(st, cell[:i], d+1); pv != nil {
				return fieldOf(pv, idx)
			}
		}
	}
	return nil
}

func (t *H11Tracer) load(st *tstate, fr *frame, addr *Sym, in ssa.Instruction) *Sym {
	cell := cellOf(addr)
	if v := t.known(st, cell, 0); v != nil {
		return v
	}
	if al, ok := addr.V.(*ssa.Alloc); ok && addr.Kind == KAddr && strings.HasPrefix(addr.Cell, "alloc:") {
		// variable declared before the path began
		var owner *frame
		for f := fr; f != nil; f = f.parent {
			if f.fn == al.Parent() {
				owner = f
			}
		}
		if owner != nil {
			if s := t.writeOnce(st, owner, al, 0); s != nil {
				return s
			}
		}
	}
	return &Sym{Kind: KInit, Cell: cell, Field: addr.Field, ID: t.id(), V: valueOf(in), Args: []*Sym{addr}}
}

func (t *H11Tracer) instrs(st *tstate, fr *frame, b *ssa.BasicBlock, i int, k tcont) {
	for ; i < len(b.Instrs); i++ {
		if t.full() {
			t.res.Truncated = true
			return
		}
		in := b.Instrs[i]
		t.res.Visited[in] = true
		set := func(s *Sym) {
			if v, ok := in.(ssa.Value); ok {
				st.env[envKey{fr.id, v}] = s
			}
		}
		op := func(v ssa.Value) *Sym { return t.val(st, fr, v) }
		switch x := in.(type) {
		case *ssa.DebugRef:
		case *ssa.Alloc:
			id := t.id()
			s := &Sym{Kind: KAddr, Cell: "alloc" + strconv.Itoa(id), V: x, ID: id}
			set(s)
		case *ssa.Store:
			a, v := op(x.Addr), op(x.Val)
			t.store(st, a, v)
			t.emit(st, fr, Ev{Kind: "store", In: in, Args: []*Sym{a, v}})
		case *ssa.UnOp:
			switch x.Op {
			case token.MUL:
				a := op(x.X)
				s := t.load(st, fr, a, in)
				set(s)
				t.emit(st, fr, Ev{Kind: "load", In: in, Args: []*Sym{a}, Res: s})
			case token.ARROW:
				ch := op(x.X)
				s := &Sym{Kind: KOpaque, V: x, ID: t.id()}
				set(s)
				t.emit(st, fr, Ev{Kind: "recv", In: in, Args: []*Sym{ch}, Res: s, Blocking: true})
			case token.NOT:
				set(notOf(op(x.X)))
			default:
				set(&Sym{Kind: KPure, Name: "unop" + x.Op.String(), Args: []*Sym{op(x.X)}})
			}
		case *ssa.BinOp:
			set(binOf(x.Op, op(x.X), op(x.Y)))
		case *ssa.FieldAddr:
			set(t.fieldAddr(op(x.X), x))
		case *ssa.IndexAddr:
			set(t.indexAddr(op(x.X), op(x.Index)))
		case *ssa.Field:
			set(fieldOfT(op(x.X), x.Field, FieldKey(x.X.Type(), x.Field)))
		case *ssa.Index:
			set(&Sym{Kind: KPure, Name: "index", Args: []*Sym{op(x.X), op(x.Index)}})
		case *ssa.ChangeType:
			set(op(x.X))
		case *ssa.Convert:
			set(op(x.X))
		case *ssa.MakeInterface:
			set(op(x.X))
		case *ssa.ChangeInterface:
			set(op(x.X))
		case *ssa.MultiConvert:
			set(op(x.X))
		case *ssa.SliceToArrayPointer:
			set(op(x.X))
		case *ssa.TypeAssert:
			s := &Sym{Kind: KPure, Name: "assert:" + x.AssertedType.String(), Args: []*Sym{op(x.X)}}
			set(s)
		case *ssa.Slice:
			set(&Sym{Kind: KPure, Name: "slice", Args: []*Sym{op(x.X), op(x.Low), op(x.High)}})
		case *ssa.MakeChan, *ssa.MakeMap, *ssa.MakeSlice:
			set(&Sym{Kind: KFresh, V: in.(ssa.Value), ID: t.id()})
		case *ssa.MakeClosure:
			s := &Sym{Kind: KClosure, Fn: x.Fn.(*ssa.Function), V: x}
			for _, bd := range x.Bindings {
				s.Args = append(s.Args, op(bd))
			}
			set(s)
		case *ssa.Lookup:
			m, key := op(x.X), op(x.Index)
			// dispatch table: a map of function values (or of records holding function values) that was built on this
			// path: the lookup is forked over the entries stored on the path (plus the "no such key" outcome), so that
			// the handlers are stepped into like the arms of a switch
			if alts := t.tableEntries(st, fr, m, x); len(alts) > 0 {
				bb, ii := b, i
				for n, alt := range append(alts, nil) {
					st2 := st
					if n < len(alts) {
						st2 = st.clone()
					}
					var s *Sym
					switch {
					case alt != nil && x.CommaOk:
						s = &Sym{Kind: KTuple, Args: []*Sym{alt, constSym(constant.MakeBool(true), types.Typ[types.Bool])}}
					case alt != nil:
						s = alt
					case x.CommaOk:
						s = &Sym{Kind: KTuple, Args: []*Sym{{Kind: KOpaque, V: x, ID: t.id()}, constSym(constant.MakeBool(false), types.Typ[types.Bool])}}
					default:
						s = &Sym{Kind: KOpaque, V: x, ID: t.id()}
					}
					st2.env[envKey{fr.id, x}] = s
					t.emit(st2, fr, Ev{Kind: "lookup", In: in, Args: []*Sym{m, key}, Res: s})
					t.instrs(st2, fr, bb, ii+1, k)
				}
				return
			}
			s := &Sym{Kind: KOpaque, V: x, ID: t.id()}
			set(s)
			t.emit(st, fr, Ev{Kind: "lookup", In: in, Args: []*Sym{m, key}, Res: s})
		case *ssa.MapUpdate:
			t.emit(st, fr, Ev{Kind: "mapupdate", In: in, Args: []*Sym{op(x.Map), op(x.Key), op(x.Value)}})
		case *ssa.Range:
			s := &Sym{Kind: KOpaque, V: x, ID: t.id()}
			set(s)
			t.emit(st, fr, Ev{Kind: "range", In: in, Args: []*Sym{op(x.X)}, Res: s})
		case *ssa.Next:
			s := &Sym{Kind: KOpaque, V: x, ID: t.id()}
			set(s)
			t.emit(st, fr, Ev{Kind: "next", In: in, Args: []*Sym{op(x.Iter)}, Res: s})
		case *ssa.Extract:
			set(extractOf(op(x.Tuple), x.Index))
		case *ssa.Send:
			t.emit(st, fr, Ev{Kind: "send", In: in, Args: []*Sym{op(x.Chan), op(x.X)}, Blocking: true})
		case *ssa.Go:
			t.emit(st, fr, t.callEv(st, fr, "go", in, &x.Call))
		case *ssa.Defer:
			d := deferred{in: x, fn: t.calleeSym(st, fr, &x.Call)}
			for _, a := range x.Call.Args {
				d.args = append(d.args, op(a))
			}
			if x.Call.IsInvoke() {
				d.args = append([]*Sym{op(x.Call.Value)}, d.args...)
			}
			st.defers[fr.id] = append(st.defers[fr.id], d)
		case *ssa.RunDefers:
			list := st.defers[fr.id]
			delete(st.defers, fr.id)
			bb, ii := b, i
			t.runDefers(st, fr, list, func(st2 *tstate) { t.instrs(st2, fr, bb, ii+1, k) })
			return
		case *ssa.Select:
			t.sel(st, fr, x, b, i, k)
			return
		case *ssa.Call:
			var args []*Sym
			if x.Call.IsInvoke() {
				args = append(args, op(x.Call.Value))
			}
			for _, a := range x.Call.Args {
				args = append(args, op(a))
			}
			fnSym := t.calleeSym(st, fr, &x.Call)
			bb, ii := b, i
			if t.invoke(st, fr, in, &x.Call, fnSym, args, false, func(st2 *tstate, res *Sym) {
				if res != nil {
					st2.env[envKey{fr.id, x}] = res
				}
				t.instrs(st2, fr, bb, ii+1, k)
			}) {
				return
			}
		case *ssa.Return:
			var res []*Sym
			for _, r := range x.Results {
				res = append(res, op(r))
			}
			k(st, res)
			return
		case *ssa.Panic:
			t.end(st, "panic")
			return
		case *ssa.Jump:
			t.block(st, fr, b.Succs[0], b, false, k)
			return
		case *ssa.If:
			c := op(x.Cond)
			if v, ok := c.IsConstBool(); ok {
				s := b.Succs[1]
				if v {
					s = b.Succs[0]
				}
				t.block(st, fr, s, b, false, k)
				return
			}
			base, neg := canon(c)
			if v, ok := base.IsConstBool(); ok {
				truth := v != neg
				s := b.Succs[1]
				if truth {
					s = b.Succs[0]
				}
				t.block(st, fr, s, b, false, k)
				return
			}
			if t.neverNilTest(base) {
				// base is (x == nil) for a value that is never nil: decided false
				s := b.Succs[1]
				if neg {
					s = b.Succs[0]
				}
				t.block(st, fr, s, b, false, k)
				return
			}
			key := base.Key()
			if known, ok := st.assume[key]; ok {
				t.emit(st, fr, Ev{Kind: "branch", In: in, Args: []*Sym{base}, Taken: known})
				s := b.Succs[1]
				if known != neg {
					s = b.Succs[0]
				}
				t.block(st, fr, s, b, false, k)
				return
			}
			for _, truth := range []bool{true, false} {
				st2 := st.clone()
				st2.assume[key] = truth
				t.emit(st2, fr, Ev{Kind: "branch", In: in, Args: []*Sym{base}, Taken: truth})
				s := b.Succs[1]
				if truth != neg {
					s = b.Succs[0]
				}
				t.block(st2, fr, s, b, false, k)
			}
			return
		default:
			if v, ok := in.(ssa.Value); ok {
				st.env[envKey{fr.id, v}] = &Sym{Kind: KOpaque, V: v, ID: t.id()}
			}
		}
	}
}

func (t *H11Tracer) calleeSym(st *tstate, fr *frame, c *ssa.CallCommon) *Sym {
	if c.IsInvoke() {
		return nil
	}
	return t.val(st, fr, c.Value)
}

func (t *H11Tracer) callEv(st *tstate, fr *frame, kind string, in ssa.Instruction, c *ssa.CallCommon) Ev {
	e := Ev{Kind: kind, In: in, Name: CalleeName(c)}
	if c.IsInvoke() {
		e.Args = append(e.Args, t.val(st, fr, c.Value))
	} else if f := c.StaticCallee(); f != nil {
		e.Callee = f
	}
	for _, a := range c.Args {
		e.Args = append(e.Args, t.val(st, fr, a))
	}
	return e
}

// invoke executes a call (or a deferred call). It returns true if control continues through kk
// (asynchronously, because the callee was stepped into); false if the caller's loop simply goes on.
func (t *H11Tracer) invoke(st *tstate, fr *frame, in ssa.Instruction, c *ssa.CallCommon, fnSym *Sym, args []*Sym, isDefer bool, kk func(st *tstate, res *Sym)) bool {
	name := CalleeName(c)
	// builtins
	if bi, ok := c.Value.(*ssa.Builtin); ok && !c.IsInvoke() {
		var res *Sym
		switch bi.Name() {
		case "append":
			res = t.appendSym(st, args)
		case "len", "cap", "min", "max", "real", "imag", "complex":
			res = &Sym{Kind: KPure, Name: bi.Name(), Args: args}
			if bi.Name() == "len" || bi.Name() == "cap" {
				// length of mutable containers changes with time
				res = &Sym{Kind: KOpaque, V: valueOf(in), ID: t.id(), Name: bi.Name(), Args: args}
				if len(args) == 1 && args[0] != nil && args[0].Kind == KAppend && !args[0].Spread {
					res.Min = int64(len(args[0].Args) - 1)
				}
			}
		default:
			if v := valueOf(in); v != nil {
				res = &Sym{Kind: KOpaque, V: v, ID: t.id()}
			}
		}
		t.emit(st, fr, Ev{Kind: "builtin", In: in, Name: bi.Name(), Args: args, Res: res, Deferred: isDefer})
		if isDefer {
			kk(st, res)
			return true
		}
		if res != nil {
			if v, ok := in.(ssa.Value); ok {
				st.env[envKey{fr.id, v}] = res
			}
		}
		return false
	}
	var callee *ssa.Function
	var bindings []*Sym
	if !c.IsInvoke() {
		if f := c.StaticCallee(); f != nil {
			callee = f
			if fnSym != nil && fnSym.Kind == KClosure {
				bindings = fnSym.Args
			}
		} else if fnSym != nil {
			switch fnSym.Kind {
			case KClosure:
				callee, bindings = fnSym.Fn, fnSym.Args
			case KFunc:
				callee = fnSym.Fn
			}
		}
	}
	if callee != nil && name == "" {
		name = FuncName(callee)
	}
	inl := callee != nil && len(callee.Blocks) > 0 && fr.depth < t.MaxDepth &&
		(t.Inline(callee) || (strings.HasPrefix(callee.Synthetic, "bound method wrapper") && len(callee.FreeVars) == 1))
	if inl {
		for f := fr; f != nil; f = f.parent {
			if f.fn == callee {
				inl = false // recursion
			}
		}
	}
	if !inl {
		var res *Sym
		if v := valueOf(in); v != nil && !isDefer {
			res = &Sym{Kind: KOpaque, V: v, ID: t.id()}
		}
		t.emit(st, fr, Ev{Kind: "call", In: in, Name: name, Callee: callee, Args: args, Res: res, Deferred: isDefer})
		if isDefer {
			kk(st, res)
			return true
		}
		if res != nil {
			st.env[envKey{fr.id, res.V}] = res
		}
		return false
	}
	nf := &frame{id: t.id(), fn: callee, depth: fr.depth + 1, parent: fr}
	for i, p := range callee.Params {
		if i < len(args) {
			st.env[envKey{nf.id, p}] = args[i]
		}
	}
	for i, fv := range callee.FreeVars {
		if i < len(bindings) {
			st.env[envKey{nf.id, fv}] = bindings[i]
		}
	}
	t.emit(st, fr, Ev{Kind: "enter", In: in, Name: name, Callee: callee, Args: args, Deferred: isDefer})
	t.block(st, nf, callee.Blocks[0], nil, true, func(st2 *tstate, res []*Sym) {
		var r *Sym
		switch len(res) {
		case 0:
		case 1:
			r = res[0]
		default:
			r = &Sym{Kind: KTuple, Args: res}
		}
		e := Ev{Kind: "exit", In: in, Name: name, Callee: callee, Args: res, Res: r, Deferred: isDefer}
		e.Fn = in.Parent()
		e.Frame, e.Depth = fr.id, fr.depth
		st2.evs = append(st2.evs, e)
		kk(st2, r)
	})
	return true
}

// appendSym models append(base, elems...): the elements of the implicit varargs array are enumerated; a spread
// slice is kept opaque.
func (t *H11Tracer) appendSym(st *tstate, args []*Sym) *Sym {
	if len(args) != 2 {
		return &Sym{Kind: KAppend, Args: args, Spread: true}
	}
	if args[1].IsNil() {
		return args[0]
	}
	sl := args[1]
	if sl.Kind == KPure && sl.Name == "slice" && len(sl.Args) == 3 && sl.Args[0] != nil && sl.Args[0].Kind == KAddr && sl.Args[1] == nil && sl.Args[2] == nil {
		prefix := sl.Args[0].Cell + "[c:"
		type el struct {
			i int64
			s *Sym
		}
		var els []el
		for k, v := range st.mem {
			if strings.HasPrefix(k, prefix) && strings.HasSuffix(k, "]") {
				if n, err := strconv.ParseInt(k[len(prefix):len(k)-1], 10, 64); err == nil {
					els = append(els, el{n, v})
				}
			}
		}
		if len(els) > 0 {
			sort.Slice(els, func(i, j int) bool { return els[i].i < els[j].i })
			out := &Sym{Kind: KAppend, Args: []*Sym{args[0]}}
			for _, e := range els {
				out.Args = append(out.Args, e.s)
			}
			return out
		}
	}
	return &Sym{Kind: KAppend, Args: args, Spread: true}
}

func (t *H11Tracer) runDefers(st *tstate, fr *frame, list []deferred, k func(st *tstate)) {
	if len(list) == 0 {
		k(st)
		return
	}
	d := list[len(list)-1]
	rest := list[:len(list)-1]
	t.invoke(st, fr, d.in, &d.in.Call, d.fn, d.args, true, func(st2 *tstate, _ *Sym) {
		t.runDefers(st2, fr, rest, k)
	})
}

func (t *H11Tracer) sel(st *tstate, fr *frame, x *ssa.Select, b *ssa.BasicBlock, i int, k tcont) {
	var states []SelState
	for _, s := range x.States {
		ss := SelState{Dir: s.Dir, Chan: t.val(st, fr, s.Chan), Pos: s.Pos}
		if s.Send != nil {
			ss.Send = t.val(st, fr, s.Send)
		}
		states = append(states, ss)
	}
	choices := make([]int, 0, len(states)+1)
	for j := range states {
		choices = append(choices, j)
	}
	if !x.Blocking {
		choices = append(choices, -1)
	}
	for _, ch := range choices {
		st2 := st.clone()
		tuple := &Sym{Kind: KTuple}
		tuple.Args = append(tuple.Args, constSym(constant.MakeInt64(int64(ch)), types.Typ[types.Int]))
		tuple.Args = append(tuple.Args, &Sym{Kind: KOpaque, V: x, ID: t.id(), Name: "recvOk"})
		sts := append([]SelState(nil), states...)
		for j, s := range x.States {
			if s.Dir != types.RecvOnly {
				continue
			}
			r := &Sym{Kind: KOpaque, V: x, ID: t.id(), Name: "recv" + strconv.Itoa(j)}
			if j == ch {
				sts[j].Recv = r
			}
			tuple.Args = append(tuple.Args, r)
		}
		st2.env[envKey{fr.id, x}] = tuple
		t.emit(st2, fr, Ev{Kind: "select", In: x, States: sts, Chosen: ch, Blocking: x.Blocking})
		t.instrs(st2, fr, b, i+1, k)
	}
}

// neverNilTest: base is `x == nil` where x is the result of a call to a function whose result is never nil.
func (t *H11Tracer) neverNilTest(base *Sym) bool {
	if base.Kind != KBin || base.Op != token.EQL || len(base.Args) != 2 {
		return false
	}
	var x *Sym
	switch {
	case base.Args[0].IsNil():
		x = base.Args[1]
	case base.Args[1].IsNil():
		x = base.Args[0]
	default:
		return false
	}
	// a function literal / named function / bound method value is never nil (`if extra == nil` on a callback argument)
	if x != nil && (x.Kind == KClosure || (x.Kind == KFunc && x.Fn != nil)) {
		return true
	}
	if t.NeverNil == nil {
		return false
	}
	idx := 0
	if x.Kind == KExtract && len(x.Args) == 1 {
		idx, x = x.Index, x.Args[0]
	}
	if x.Kind != KOpaque || x.ID == 0 {
		return false
	}
	call, ok := x.V.(*ssa.Call)
	if !ok || call.Call.IsInvoke() {
		return false
	}
	callee := call.Call.StaticCallee()
	return callee != nil && t.NeverNil(callee, idx)
}

// h11HasFunc: t is a function type or a (pointer to a) struct with a field of function type.
func h11HasFunc(t types.Type) bool {
	if t == nil {
		return false
	}
	if p, ok := t.Underlying().(*types.Pointer); ok {
		t = p.Elem()
	}
	switch u := t.Underlying().(type) {
	case *types.Signature:
		return true
	case *types.Struct:
		for i := 0; i < u.NumFields(); i++ {
			if _, ok := u.Field(i).Type().Underlying().(*types.Signature); ok {
				return true
			}
		}
	}
	return false
}

// tableEntries: the values stored on this path into the map m (created on this path) when it is a table of function
// values; nil when m is not such a table or has no entry stored on the path.
func (t *H11Tracer) tableEntries(st *tstate, fr *frame, m *Sym, x *ssa.Lookup) []*Sym {
	if m != nil && m.Kind == KOpaque && m.ID == 0 {
		if mm, ok := m.V.(*ssa.MakeMap); ok {
			mt, isMap := mm.Type().Underlying().(*types.Map)
			ups := h11StaticTable(mm)
			if !isMap || !h11HasFunc(mt.Elem()) || len(ups) == 0 || len(ups) > 16 {
				return nil
			}
			var owner *frame
			for f := fr; f != nil; f = f.parent {
				if f.fn == mm.Parent() {
					owner = f
				}
			}
			if owner == nil {
				return nil
			}
			var out []*Sym
			for _, u := range ups {
				if sv, ok := st.env[envKey{owner.id, u.Value}]; ok {
					out = append(out, sv)
				} else {
					out = append(out, t.lazy(st, owner, u.Value, 0))
				}
			}
			return out
		}
	}
	if m == nil || m.Kind != KFresh {
		return nil
	}
	mt, ok := x.X.Type().Underlying().(*types.Map)
	if !ok || !h11HasFunc(mt.Elem()) {
		return nil
	}
	var out []*Sym
	seen := map[string]int{}
	for _, e := range st.evs {
		if e.Kind != "mapupdate" || len(e.Args) != 3 || e.Args[0] == nil || e.Args[0].Kind != KFresh || e.Args[0].ID != m.ID || e.Args[2] == nil {
			continue
		}
		kk := e.Args[1].Key()
		if i, dup := seen[kk]; dup {
			out[i] = e.Args[2]
			continue
		}
		seen[kk] = len(out)
		out = append(out, e.Args[2])
	}
	if len(out) > 16 {
		return nil
	}
	return out
}

// h11StaticTable: the map created by mm is only filled by updates in its own function and otherwise only read
// (looked up, ranged over, its length taken, stored once into a local that closures capture): its updates; nil otherwise.
func h11StaticTable(mm *ssa.MakeMap) []*ssa.MapUpdate {
	if mm.Referrers() == nil {
		return nil
	}
	var ups []*ssa.MapUpdate
	for _, ref := range *mm.Referrers() {
		switch r := ref.(type) {
		case *ssa.MapUpdate:
			if r.Map != ssa.Value(mm) || r.Value == ssa.Value(mm) || r.Key == ssa.Value(mm) {
				return nil
			}
			ups = append(ups, r)
		case *ssa.Lookup, *ssa.Range, *ssa.DebugRef:
		case *ssa.Store:
			al, ok := r.Addr.(*ssa.Alloc)
			if !ok || r.Val != ssa.Value(mm) || len(AllStores(al)) != 1 || AddrEscapes(al) {
				return nil
			}
			// every load of the variable is only used for reading the map
			if al.Referrers() != nil {
				for _, ar := range *al.Referrers() {
					if ld, isLd := ar.(*ssa.UnOp); isLd && ld.Referrers() != nil {
						for _, lr := range *ld.Referrers() {
							switch lr.(type) {
							case *ssa.Lookup, *ssa.Range, *ssa.DebugRef:
							default:
								return nil
							}
						}
					}
				}
			}
		case *ssa.Call:
			if b, ok := r.Call.Value.(*ssa.Builtin); !ok || b.Name() != "len" {
				return nil
			}
		default:
			return nil
		}
	}
	return ups
}

// h11LiteralFields: al is a struct local that is only written field by field, each field at most once, in its own
// function (a composite literal) and otherwise only loaded as a whole: the stored value per field index; nil otherwise.
func h11LiteralFields(al *ssa.Alloc) map[int]ssa.Value {
	if al.Referrers() == nil {
		return nil
	}
	if _, ok := al.Type().Underlying().(*types.Pointer).Elem().Underlying().(*types.Struct); !ok {
		return nil
	}
	out := map[int]ssa.Value{}
	for _, ref := range *al.Referrers() {
		switch r := ref.(type) {
		case *ssa.FieldAddr:
			if r.Referrers() == nil {
				return nil
			}
			for _, fr := range *r.Referrers() {
				switch f := fr.(type) {
				case *ssa.Store:
					if f.Addr != ssa.Value(r) {
						return nil
					}
					if _, dup := out[r.Field]; dup {
						return nil
					}
					out[r.Field] = f.Val
				case *ssa.UnOp, *ssa.DebugRef:
				default:
					return nil
				}
			}
		case *ssa.UnOp:
			if r.Op != token.MUL {
				return nil
			}
		case *ssa.DebugRef:
		default:
			return nil
		}
	}
	return out
}
