package an

// Helpers for the C12 rules built on the Tracer (h1617_ext.go): decoding of symbols into access paths
// ("<parameter>.Definition.Operators[c:0].Address"), resolution of values read back from local table literals,
// and integer interval facts about `len(x)` gathered from the branch decisions of a path.

import (
	"go/token"
	"go/types"
	"strconv"
	"strings"

	"golang.org/x/tools/go/ssa"
)

// H12Loc is a decoded access path.
type H12Loc struct {
	Root  string         // key of the root atom ("param:…", "g:pkg.name", "o12", …)
	Param *ssa.Parameter // set when the root is a parameter registered with the decoder
	Path  string         // ".Definition.Version", ".Validators[c:0].PubKey" ("" = the root itself)
	Idx   []string       // keys of the index steps, in order
}

// H12Decoder decodes symbol keys; parameters must be registered to have their field names resolved.
type H12Decoder struct {
	params  map[string]*ssa.Parameter
	globals map[string]types.Type
	memo    map[string]*H12Loc
}

// H12NewDecoder registers the parameters of fns and the globals of pkgs.
func H12NewDecoder(fns []*ssa.Function, pkgs ...*ssa.Package) *H12Decoder {
	d := &H12Decoder{params: map[string]*ssa.Parameter{}, globals: map[string]types.Type{}, memo: map[string]*H12Loc{}}
	for _, fn := range fns {
		for _, p := range fn.Params {
			d.params["param:"+valName(p)] = p
		}
	}
	for _, pkg := range pkgs {
		for _, m := range pkg.Members {
			if g, ok := m.(*ssa.Global); ok {
				if pt, ok := g.Type().(*types.Pointer); ok {
					d.globals["g:"+g.Pkg.Pkg.Path()+"."+g.Name()] = pt.Elem()
				}
			}
		}
	}
	return d
}

// AddRoot registers the type of a root atom (e.g. the result symbol of a loader call) so that the fields below it
// are named. Must be called before the first Decode of a symbol rooted there.
func (d *H12Decoder) AddRoot(key string, t types.Type) {
	d.globals[key] = t
	d.memo = map[string]*H12Loc{}
}

type h12step struct {
	field int    // >= 0: field selection
	index string // field < 0: element selection with this index key
}

// Decode returns the access path denoted by the symbol (nil if its key has a shape the decoder does not know).
func (d *H12Decoder) Decode(s *Sym) *H12Loc {
	if s == nil {
		return nil
	}
	k := s.Key()
	if l, ok := d.memo[k]; ok {
		return l
	}
	root, steps, ok := h12parseValue(k, 0)
	var loc *H12Loc
	if ok {
		loc = &H12Loc{Root: root}
		var t types.Type
		if p := d.params[root]; p != nil {
			loc.Param, t = p, p.Type()
		} else if gt, ok := d.globals[root]; ok {
			t = gt
		}
		var sb strings.Builder
		for _, st := range steps {
			if st.field >= 0 {
				name := "#" + strconv.Itoa(st.field)
				if t != nil {
					if n, ft := h12field(t, st.field); ft != nil {
						name, t = n, ft
					} else {
						t = nil
					}
				}
				sb.WriteString("." + name)
			} else {
				sb.WriteString("[" + st.index + "]")
				loc.Idx = append(loc.Idx, st.index)
				if t != nil {
					t = h12elem(t)
				}
			}
		}
		loc.Path = sb.String()
	}
	d.memo[k] = loc
	return loc
}

func h12field(t types.Type, idx int) (string, types.Type) {
	for i := 0; i < 4; i++ {
		if p, ok := t.Underlying().(*types.Pointer); ok {
			t = p.Elem()
			continue
		}
		break
	}
	st, ok := t.Underlying().(*types.Struct)
	if !ok || idx >= st.NumFields() {
		return "", nil
	}
	return st.Field(idx).Name(), st.Field(idx).Type()
}

func h12elem(t types.Type) types.Type {
	for i := 0; i < 4; i++ {
		switch u := t.Underlying().(type) {
		case *types.Pointer:
			t = u.Elem()
			continue
		case *types.Slice:
			return u.Elem()
		case *types.Array:
			return u.Elem()
		case *types.Map:
			return u.Elem()
		}
		break
	}
	return nil
}

// h12match returns the index of the bracket closing the one at s[i] ('(' or '['), skipping quoted strings.
func h12match(s string, i int) int {
	depth := 0
	for j := i; j < len(s); j++ {
		switch s[j] {
		case '"':
			for j++; j < len(s) && s[j] != '"'; j++ {
				if s[j] == '\\' {
					j++
				}
			}
		case '(', '[', '{':
			depth++
		case ')', ']', '}':
			depth--
			if depth == 0 {
				return j
			}
		}
	}
	return -1
}

func h12parseValue(k string, d int) (string, []h12step, bool) {
	if d > 24 {
		return "", nil, false
	}
	switch {
	case strings.HasPrefix(k, "init:"):
		return h12parseCell(k[len("init:"):], d+1)
	case strings.HasPrefix(k, "("):
		e := h12match(k, 0)
		if e < 0 {
			return "", nil, false
		}
		rest := k[e+1:]
		if !strings.HasPrefix(rest, ".#") {
			return "", nil, false // a binary operation
		}
		n, err := strconv.Atoi(rest[2:])
		if err != nil {
			return "", nil, false
		}
		root, steps, ok := h12parseValue(k[1:e], d+1)
		if !ok {
			return "", nil, false
		}
		return root, append(steps, h12step{field: n}), true
	case strings.HasPrefix(k, "&"), strings.HasPrefix(k, "!("), strings.HasPrefix(k, "append("), strings.HasPrefix(k, "tuple("),
		strings.HasPrefix(k, "struct{"):
		return "", nil, false
	}
	return k, nil, true
}

func h12parseCell(c string, d int) (string, []h12step, bool) {
	var root string
	var steps []h12step
	rest := ""
	if strings.HasPrefix(c, "*(") {
		e := h12match(c, 1)
		if e < 0 {
			return "", nil, false
		}
		r, st, ok := h12parseValue(c[2:e], d+1)
		if !ok {
			return "", nil, false
		}
		root, steps, rest = r, st, c[e+1:]
	} else {
		i := len(c)
		if j := strings.Index(c, ".#"); j >= 0 && j < i {
			i = j
		}
		if j := strings.Index(c, "["); j >= 0 && j < i {
			i = j
		}
		root, rest = c[:i], c[i:]
		if !strings.HasPrefix(root, "g:") {
			root = "init:" + root // the content of a variable cell: same key as the symbol of the whole content
		}
	}
	for rest != "" {
		switch {
		case strings.HasPrefix(rest, ".#"):
			j := 2
			for j < len(rest) && rest[j] >= '0' && rest[j] <= '9' {
				j++
			}
			n, err := strconv.Atoi(rest[2:j])
			if err != nil {
				return "", nil, false
			}
			steps = append(steps, h12step{field: n})
			rest = rest[j:]
		case strings.HasPrefix(rest, "["):
			e := h12match(rest, 0)
			if e < 0 {
				return "", nil, false
			}
			steps = append(steps, h12step{field: -1, index: rest[1:e]})
			rest = rest[e+1:]
		default:
			return "", nil, false
		}
	}
	return root, steps, true
}

// H12Resolve looks through values read back from path-local memory that the tracer kept opaque: elements of a
// local array literal reached through a slice of it (`for _, x := range []T{…}`), and fields thereof.
func H12Resolve(s *Sym, mem map[string]*Sym) *Sym {
	return h12resolve(s, mem, 0)
}

func h12resolve(s *Sym, mem map[string]*Sym, d int) *Sym {
	if s == nil || d > 8 {
		return s
	}
	switch s.Kind {
	case KInit:
		cell := h12normCell(s.Cell)
		if strings.HasPrefix(cell, "alloc") {
			st := &tstate{mem: mem}
			if v := (&Tracer{}).known(st, cell, 0); v != nil && v.Key() != s.Key() {
				return h12resolve(v, mem, d+1)
			}
		}
	case KField:
		if b := h12resolve(s.Args[0], mem, d+1); b != s.Args[0] {
			return h12resolve(fieldOf(b, s.Index), mem, d+1)
		}
	case KPure:
		// element of a local array read as a value: `index(*arr, i)`
		if s.Name == "index" && len(s.Args) == 2 && s.Args[0] != nil && s.Args[1] != nil && s.Args[0].Kind == KInit {
			cell := h12normCell(s.Args[0].Cell)
			if strings.HasPrefix(cell, "alloc") {
				st := &tstate{mem: mem}
				if v := (&Tracer{}).known(st, cell+"["+s.Args[1].Key()+"]", 0); v != nil {
					return h12resolve(v, mem, d+1)
				}
			}
		}
	case KNot:
		if len(s.Args) == 1 {
			if b := h12resolve(s.Args[0], mem, d+1); b != s.Args[0] {
				return notOf(b)
			}
		}
	}
	return s
}

// h12normCell rewrites "*(slice(&X,<nil>,<nil>))…" (element of a full slice of the local array X) to "X…".
func h12normCell(cell string) string {
	const pre = "*(slice(&"
	for i := 0; i < 4 && strings.HasPrefix(cell, pre); i++ {
		e := h12match(cell, 1)
		if e < 0 {
			return cell
		}
		inner := cell[len(pre):e] // X,<nil>,<nil>)
		if !strings.HasSuffix(inner, ",<nil>,<nil>)") {
			return cell
		}
		cell = strings.TrimSuffix(inner, ",<nil>,<nil>)") + cell[e+1:]
	}
	return cell
}

// H12ArrayOfSlice: s is `X[:]` of a local array variable; returns the array's cell and its static length.
func H12ArrayOfSlice(s *Sym) (cell string, n int64, ok bool) {
	if s == nil || s.Kind != KPure || s.Name != "slice" || len(s.Args) != 3 || s.Args[0] == nil || s.Args[0].Kind != KAddr || s.Args[1] != nil || s.Args[2] != nil {
		return "", 0, false
	}
	a := s.Args[0]
	n = -1
	if a.V != nil {
		if pt, ok := a.V.Type().Underlying().(*types.Pointer); ok {
			if at, ok := pt.Elem().Underlying().(*types.Array); ok {
				n = at.Len()
			}
		}
	}
	return a.Cell, n, true
}

// H12IsLen reports the operand of a `len` result symbol.
func H12IsLen(s *Sym) (*Sym, bool) {
	if s != nil && s.Kind == KOpaque && s.Name == "len" && len(s.Args) == 1 && s.Args[0] != nil {
		return s.Args[0], true
	}
	return nil, false
}

// H12Range is an integer interval with excluded points.
type H12Range struct {
	Lo, Hi int64 // Hi < 0: unbounded
	Not    map[int64]bool
}

func (r *H12Range) Feasible() bool {
	if r.Hi >= 0 && r.Lo > r.Hi {
		return false
	}
	if r.Hi >= 0 {
		for v := r.Lo; v <= r.Hi && v-r.Lo < 64; v++ {
			if !r.Not[v] {
				return true
			}
		}
		return r.Hi-r.Lo >= 64
	}
	return true
}

// Exact reports the single value left, if there is one.
func (r *H12Range) Exact() (int64, bool) {
	if r.Hi < 0 || r.Hi-r.Lo > 64 {
		return 0, false
	}
	n, val := 0, int64(0)
	for v := r.Lo; v <= r.Hi; v++ {
		if !r.Not[v] {
			n++
			val = v
		}
	}
	return val, n == 1
}

func (r *H12Range) atLeast(v int64) {
	if v > r.Lo {
		r.Lo = v
	}
}

func (r *H12Range) atMost(v int64) {
	if r.Hi < 0 || v < r.Hi {
		r.Hi = v
	}
	if r.Hi < 0 {
		r.Hi = 0
		r.Lo = 1 // infeasible
	}
}

// H12Constrain applies `term op c` (or `c op term` when constLeft) with the given truth to the interval.
func (r *H12Range) H12Constrain(op token.Token, c int64, constLeft, truth bool) {
	if constLeft {
		// c op term  ==  term flip(op) c
		switch op {
		case token.LSS:
			op = token.GTR
		case token.GTR:
			op = token.LSS
		case token.LEQ:
			op = token.GEQ
		case token.GEQ:
			op = token.LEQ
		}
	}
	if !truth {
		switch op {
		case token.LSS:
			op = token.GEQ
		case token.GEQ:
			op = token.LSS
		case token.GTR:
			op = token.LEQ
		case token.LEQ:
			op = token.GTR
		case token.EQL:
			op = token.NEQ
		case token.NEQ:
			op = token.EQL
		}
	}
	switch op {
	case token.LSS:
		r.atMost(c - 1)
	case token.LEQ:
		r.atMost(c)
	case token.GTR:
		r.atLeast(c + 1)
	case token.GEQ:
		r.atLeast(c)
	case token.EQL:
		r.atLeast(c)
		r.atMost(c)
	case token.NEQ:
		if r.Not == nil {
			r.Not = map[int64]bool{}
		}
		r.Not[c] = true
	}
}
