package an

// E6 `cleanorigin` — backward provenance of reference-typed values on SSA (DESIGN §3).
//
// For a value the engine answers "which memory can this be?" as a set of origins:
//
//	C18Fresh   memory made for this value: result of a Clone method of a core workflow type, nil,
//	           make/new/composite literal, result of a call that was given only fresh data
//	C18State   memory reachable from the component's own state (receiver fields)
//	C18Param   memory handed in by a caller the engine cannot see (parameter of an exported
//	           function, of an escaping function literal, ...)
//	C18Unknown the engine cannot tell (kept apart so that rules answer UNDECIDED, not VIOLATION)
//
// The walk is field-insensitive for locals (a struct literal has the union of the origins of its
// members), follows static calls into the analysed packages, parameters back to all their call
// sites when those are all visible, and channels by the struct field they are kept in
// (`attQuery.Response`): a received value has the origins of everything sent on that field.

import (
	"fmt"
	"go/token"
	"go/types"
	"strings"

	"golang.org/x/tools/go/ssa"

	"charonverif/internal/load"
)

// C18Kind classifies an origin.
type C18Kind int

const (
	C18Fresh C18Kind = iota
	C18State
	C18Param
	C18Unknown
)

func (k C18Kind) String() string {
	return [...]string{"fresh", "state", "param", "unknown"}[k]
}

// C18Origin is one possible origin of a value.
type C18Origin struct {
	Kind C18Kind
	What string
	// Root is, for fresh origins found in (or below a call made in) the function of the queried
	// value, the instruction of that function that makes the memory; nil for constants and for
	// memory made elsewhere (callers, senders).
	Root  ssa.Instruction
	Const bool // nil constant
	Pos   token.Pos
	// Self: the value is the component pointer itself (the receiver, possibly captured by a function
	// literal or handed to an in-package helper), not memory loaded from it. A field selected from
	// a Self value is that field of the component's state.
	Self  bool
	selfT types.Type
	// Made is the instruction that makes the memory wherever it is (also in callers / callees); nil for constants.
	Made ssa.Instruction
	// Shallow: the origin is that of the elements of a container that was copied shallowly (maps.Clone,
	// slices.Clone): the copy is new, what its elements reference is this memory.
	Shallow bool
}

// C18Engine holds the indexes shared by all queries.
type C18Engine struct {
	funcs   []*ssa.Function
	inScope map[*ssa.Package]bool
	callers map[*ssa.Function][]ssa.CallInstruction
	taken   map[*ssa.Function]bool // function used as a value (not only called)
	sends   map[string][]c18Send
}

type c18Send struct {
	x  ssa.Value
	at ssa.Instruction
}

// C18NewEngine indexes the given packages.
func C18NewEngine(pkgs ...*ssa.Package) *C18Engine {
	e := &C18Engine{inScope: map[*ssa.Package]bool{}, callers: map[*ssa.Function][]ssa.CallInstruction{},
		taken: map[*ssa.Function]bool{}, sends: map[string][]c18Send{}}
	for _, p := range pkgs {
		e.inScope[p] = true
		e.funcs = append(e.funcs, PkgFuncs(p)...)
	}
	for _, fn := range e.funcs {
		for _, in := range Instrs(fn, false) {
			if ci, ok := in.(ssa.CallInstruction); ok {
				if f := ci.Common().StaticCallee(); f != nil {
					e.callers[Orig(f)] = append(e.callers[Orig(f)], ci)
				}
			}
			for _, op := range Operands(in) {
				switch x := op.(type) {
				case *ssa.Function:
					if ci, ok := in.(ssa.CallInstruction); ok && ci.Common().Value == op {
						continue
					}
					e.taken[Orig(x)] = true
				case *ssa.MakeClosure:
					// bound-method wrappers: `db.store` used as a value
					if f, ok := x.Fn.(*ssa.Function); ok && f.Synthetic != "" && f.Object() != nil {
						if tf, ok := f.Object().(*types.Func); ok {
							if real := fn.Prog.FuncValue(tf); real != nil {
								e.taken[Orig(real)] = true
							}
						}
					}
				}
			}
		}
	}
	// sends, by the struct field the channel is kept in (a channel handed to a helper as a parameter is the field
	// its callers pass)
	for _, fn := range e.funcs {
		for _, in := range Instrs(fn, false) {
			switch x := in.(type) {
			case *ssa.Send:
				for _, k := range e.chanKeys(x.Chan, 0) {
					e.sends[k] = append(e.sends[k], c18Send{x.X, x})
				}
			case *ssa.Select:
				for _, st := range x.States {
					if st.Dir == types.SendOnly {
						for _, k := range e.chanKeys(st.Chan, 0) {
							e.sends[k] = append(e.sends[k], c18Send{st.Send, x})
						}
					}
				}
			}
		}
	}
	return e
}

// C18Mutable reports whether a value of type t holds (or is) mutable shared memory that matters
// for isolation: pointers, slices, maps, data interfaces, or aggregates containing such.
// Channels, functions, error, context.Context and time.Time are not data.
func C18Mutable(t types.Type) bool { return c18Mutable(t, map[types.Type]bool{}) }

func c18Mutable(t types.Type, seen map[types.Type]bool) bool {
	if t == nil || seen[t] {
		return false
	}
	seen[t] = true
	if n, ok := t.(*types.Named); ok && n.Obj().Pkg() != nil {
		switch n.Obj().Pkg().Path() + "." + n.Obj().Name() {
		case "time.Time", "context.Context":
			return false
		}
	}
	if isErrorType(t) {
		return false
	}
	switch u := t.Underlying().(type) {
	case *types.Basic, *types.Chan, *types.Signature:
		return false
	case *types.Pointer, *types.Slice, *types.Map, *types.Interface, *types.TypeParam:
		return true
	case *types.Array:
		return c18Mutable(u.Elem(), seen)
	case *types.Struct:
		for i := 0; i < u.NumFields(); i++ {
			if c18Mutable(u.Field(i).Type(), seen) {
				return true
			}
		}
		return false
	case *types.Tuple:
		for i := 0; i < u.Len(); i++ {
			if c18Mutable(u.At(i).Type(), seen) {
				return true
			}
		}
		return false
	}
	return true
}

// C18IsClone reports whether the call is a Clone method of a workflow type declared in package core.
func C18IsClone(cc *ssa.CallCommon) bool {
	inCore := func(t types.Type) bool {
		if p, ok := t.(*types.Pointer); ok {
			t = p.Elem()
		}
		n, ok := t.(*types.Named)
		return ok && n.Obj().Pkg() != nil && n.Obj().Pkg().Path() == load.Mod+"/core"
	}
	if cc.IsInvoke() {
		return cc.Method.Name() == "Clone" && inCore(cc.Value.Type())
	}
	f := cc.StaticCallee()
	if f == nil || f.Name() != "Clone" || f.Signature.Recv() == nil {
		return false
	}
	return inCore(f.Signature.Recv().Type())
}

type c18Anchor struct {
	instr   ssa.Instruction
	outside bool
}

type c18Walk struct {
	e       *C18Engine
	shallow bool // container identity only: do not descend into the contents of locals / fresh maps and slices
	seen    map[ssa.Value]bool
	seenA   map[*ssa.Alloc]bool
	seenR   map[string]bool
	inFA    map[ssa.Value]bool // field selections being resolved (cycle guard shared by sub-walks)
	out     []C18Origin
}

// Origins returns the possible origins of v (empty: v carries no mutable memory at all).
func (e *C18Engine) Origins(v ssa.Value) []C18Origin {
	w := &c18Walk{e: e, seen: map[ssa.Value]bool{}, seenA: map[*ssa.Alloc]bool{}, seenR: map[string]bool{}}
	w.val(v, c18Anchor{})
	return w.out
}

func (w *c18Walk) add(k C18Kind, what string, at ssa.Instruction, pos token.Pos, a c18Anchor) {
	o := C18Origin{Kind: k, What: what, Pos: pos}
	if k == C18Fresh && !a.outside {
		if a.instr != nil {
			o.Root = a.instr
		} else {
			o.Root = at
		}
	}
	if at != nil && !pos.IsValid() {
		o.Pos = at.Pos()
	}
	o.Made = at
	w.out = append(w.out, o)
}

func (w *c18Walk) val(v ssa.Value, a c18Anchor) {
	if v == nil || !C18Mutable(v.Type()) {
		return
	}
	if w.seen[v] {
		return
	}
	w.seen[v] = true
	switch x := v.(type) {
	case *ssa.Const:
		w.out = append(w.out, C18Origin{Kind: C18Fresh, What: "nil", Const: true})
	case *ssa.Parameter:
		w.param(x, a)
	case *ssa.FreeVar:
		w.freeVar(x)
	case *ssa.Global:
		w.add(C18Unknown, "package variable "+x.Name(), nil, x.Pos(), a)
	case *ssa.Alloc:
		w.add(C18Fresh, "local "+x.Comment, x, x.Pos(), a)
		if !w.shallow {
			w.allocContents(x, a)
		}
	case *ssa.Phi:
		for i, e := range x.Edges {
			if !w.phiUnder(x, i, e, a) {
				w.val(e, a)
			}
		}
	case *ssa.ChangeType:
		w.val(x.X, a)
	case *ssa.Convert:
		w.val(x.X, a)
	case *ssa.MakeInterface:
		w.val(x.X, a)
	case *ssa.ChangeInterface:
		w.val(x.X, a)
	case *ssa.TypeAssert:
		w.val(x.X, a)
	case *ssa.Slice:
		w.val(x.X, a)
	case *ssa.SliceToArrayPointer:
		w.val(x.X, a)
	case *ssa.Field:
		w.val(x.X, a)
	case *ssa.FieldAddr:
		if p, ok := x.X.(*ssa.Parameter); ok && c18IsRecv(p) && !w.e.helperRecv(p) {
			w.add(C18State, FieldKey(x.X.Type(), x.Field), x, x.Pos(), a)
			return
		}
		w.selectFrom(x, x.X, x.Field, a, false)
	case *ssa.IndexAddr:
		w.ptr(x.X, a)
	case *ssa.Index:
		w.val(x.X, a)
	case *ssa.Lookup:
		w.val(x.X, a)
	case *ssa.UnOp:
		switch x.Op {
		case token.MUL:
			if al, ok := x.X.(*ssa.Alloc); ok && c18PlainLocal(al) {
				w.reaching(al, x, a)
			} else {
				w.load(x.X, a)
			}
		case token.ARROW:
			w.recv(x.X, a)
		default:
			w.add(C18Unknown, "operator "+x.Op.String(), x, x.Pos(), a)
		}
	case *ssa.Extract:
		switch t := x.Tuple.(type) {
		case *ssa.Call:
			w.call(t, x.Index, a)
		case *ssa.Next:
			if r, ok := t.Iter.(*ssa.Range); ok {
				w.val(r.X, a)
			} else {
				w.add(C18Unknown, "iterator", x, x.Pos(), a)
			}
		case *ssa.Select:
			k, n := x.Index-2, 0
			found := false
			for _, st := range t.States {
				if st.Dir == types.RecvOnly {
					if n == k {
						w.recv(st.Chan, a)
						found = true
					}
					n++
				}
			}
			if !found {
				w.add(C18Unknown, "select result", x, x.Pos(), a)
			}
		case *ssa.Lookup:
			w.val(t.X, a)
		case *ssa.TypeAssert:
			w.val(t.X, a)
		case *ssa.UnOp:
			if t.Op == token.ARROW {
				w.recv(t.X, a)
			} else {
				w.add(C18Unknown, "tuple of "+t.Op.String(), x, x.Pos(), a)
			}
		default:
			w.add(C18Unknown, fmt.Sprintf("tuple %T", t), x, x.Pos(), a)
		}
	case *ssa.Call:
		w.call(x, 0, a)
	case *ssa.MakeMap:
		w.add(C18Fresh, "make(map)", x, x.Pos(), a)
		if w.shallow {
			return
		}
		for _, r := range *x.Referrers() {
			if mu, ok := r.(*ssa.MapUpdate); ok && mu.Map == ssa.Value(x) {
				w.val(mu.Value, a)
				w.val(mu.Key, a)
			}
		}
	case *ssa.MakeSlice:
		w.add(C18Fresh, "make(slice)", x, x.Pos(), a)
		if w.shallow {
			return
		}
		for _, r := range *x.Referrers() {
			if ia, ok := r.(*ssa.IndexAddr); ok {
				w.stores(ia, a)
			}
		}
	default:
		var at ssa.Instruction
		if in, ok := v.(ssa.Instruction); ok {
			at = in
		}
		w.add(C18Unknown, fmt.Sprintf("%T", v), at, v.Pos(), a)
	}
}

// ptr: origins of the memory a pointer/collection value designates when used as an address base.
func (w *c18Walk) ptr(p ssa.Value, a c18Anchor) {
	w.val(p, a) // for a local (Alloc) the local itself is the memory, plus whatever was stored in it
}

// load: origins of the value read through pointer p.
func (w *c18Walk) load(p ssa.Value, a c18Anchor) {
	switch x := p.(type) {
	case *ssa.Alloc:
		w.allocContents(x, a) // a copy of the variable's value: only what was stored matters
	case *ssa.FreeVar:
		w.freeVar(x)
	case *ssa.Global:
		w.add(C18Unknown, "package variable "+x.Name(), nil, x.Pos(), a)
	case *ssa.FieldAddr:
		if pp, ok := x.X.(*ssa.Parameter); ok && c18IsRecv(pp) && !w.e.helperRecv(pp) {
			w.add(C18State, FieldKey(x.X.Type(), x.Field), x, x.Pos(), a)
			return
		}
		w.selectFrom(x, x.X, x.Field, a, true)
	case *ssa.IndexAddr:
		if _, isArr := x.X.Type().Underlying().(*types.Pointer); isArr {
			w.load(x.X, a)
		} else {
			w.val(x.X, a)
		}
	default:
		w.val(p, a)
	}
}

// allocContents: origins of everything stored into (parts of) a local variable.
func (w *c18Walk) allocContents(al *ssa.Alloc, a c18Anchor) {
	if w.seenA[al] {
		return
	}
	w.seenA[al] = true
	w.stores(al, a)
}

func (w *c18Walk) stores(ptr ssa.Value, a c18Anchor) {
	refs := ptr.Referrers()
	if refs == nil {
		return
	}
	for _, r := range *refs {
		switch x := r.(type) {
		case *ssa.Store:
			if x.Addr == ptr {
				w.val(x.Val, a)
			}
		case *ssa.FieldAddr:
			if x.X == ptr {
				w.stores(x, a)
			}
		case *ssa.IndexAddr:
			if x.X == ptr {
				w.stores(x, a)
			}
		case *ssa.MakeClosure:
			fn, ok := x.Fn.(*ssa.Function)
			if !ok {
				continue
			}
			for i, b := range x.Bindings {
				if b == ptr && i < len(fn.FreeVars) {
					w.stores(fn.FreeVars[i], c18Anchor{outside: true})
				}
			}
		}
	}
}

func c18IsRecv(p *ssa.Parameter) bool {
	fn := p.Parent()
	return fn != nil && fn.Signature.Recv() != nil && len(fn.Params) > 0 && fn.Params[0] == p
}

func (w *c18Walk) freeVar(fv *ssa.FreeVar) {
	fn := fv.Parent()
	idx := -1
	for i, f := range fn.FreeVars {
		if f == fv {
			idx = i
		}
	}
	parent := fn.Parent()
	if idx < 0 || parent == nil {
		w.add(C18Unknown, "captured variable "+fv.Name(), nil, fv.Pos(), c18Anchor{outside: true})
		return
	}
	found := false
	for _, in := range Instrs(parent, false) {
		if mc, ok := in.(*ssa.MakeClosure); ok && mc.Fn == ssa.Value(fn) && idx < len(mc.Bindings) {
			found = true
			b := mc.Bindings[idx]
			// go/ssa captures by reference: the binding is the address of the parent's variable. The memory is made by
			// an instruction of the enclosing function: its Root is that instruction (rules that ask "made per call /
			// per iteration" compare the Root's function with the literal's).
			w.load(b, c18Anchor{})
		}
	}
	if !found {
		w.add(C18Unknown, "captured variable "+fv.Name(), nil, fv.Pos(), c18Anchor{outside: true})
	}
}

func (w *c18Walk) param(p *ssa.Parameter, a c18Anchor) {
	fn := p.Parent()
	if c18IsRecv(p) && !w.e.helperRecv(p) {
		w.add(C18State, "receiver of "+FuncName(fn), nil, p.Pos(), a)
		w.out[len(w.out)-1].Self = true
		w.out[len(w.out)-1].selfT = p.Type()
		return
	}
	idx := -1
	for i, q := range fn.Params {
		if q == p {
			idx = i
		}
	}
	name := "parameter " + p.Name() + " of " + FuncName(fn)
	out := c18Anchor{outside: true}
	if fn.Parent() != nil {
		// function literal: visible iff every use is a direct call
		var calls []ssa.CallInstruction
		escapes := false
		for _, in := range Instrs(fn.Parent(), true) {
			var fv ssa.Value
			if mc, ok := in.(*ssa.MakeClosure); ok && mc.Fn == ssa.Value(fn) {
				for _, r := range *mc.Referrers() {
					if ci, ok := r.(ssa.CallInstruction); ok && ci.Common().Value == ssa.Value(mc) {
						calls = append(calls, ci)
					} else {
						escapes = true
					}
				}
				continue
			}
			for _, op := range Operands(in) {
				if op == ssa.Value(fn) {
					fv = op
				}
			}
			if fv != nil {
				if ci, ok := in.(ssa.CallInstruction); ok && ci.Common().Value == fv {
					calls = append(calls, ci)
				} else {
					escapes = true
				}
			}
		}
		if escapes {
			// the literal is handed to in-package functions that do nothing with it but call it: its parameters are
			// the arguments of those calls
			if cs, ok := w.e.indirectCalls(fn); ok {
				calls, escapes = cs, false
			}
		}
		if escapes || len(calls) == 0 {
			w.add(C18Param, name, nil, p.Pos(), a)
			return
		}
		for _, ci := range calls {
			if idx < len(ci.Common().Args) {
				w.val(ci.Common().Args[idx], out)
			}
		}
		return
	}
	exported := fn.Object() != nil && fn.Object().Exported()
	cs := w.e.callers[Orig(fn)]
	if exported || len(cs) == 0 || w.e.taken[Orig(fn)] || Orig(fn).Pkg == nil || !w.e.inScope[Orig(fn).Pkg] {
		w.add(C18Param, name, nil, p.Pos(), a)
		return
	}
	for _, ci := range cs {
		if idx < len(ci.Common().Args) {
			w.val(ci.Common().Args[idx], out)
		}
	}
}

func (w *c18Walk) call(call *ssa.Call, idx int, a c18Anchor) {
	cc := call.Common()
	if b, ok := cc.Value.(*ssa.Builtin); ok {
		if b.Name() == "append" {
			for i, arg := range cc.Args {
				if i == 0 || !w.shallow {
					w.val(arg, a)
				}
			}
			return
		}
		w.add(C18Unknown, "builtin "+b.Name(), call, call.Pos(), a)
		return
	}
	if C18IsClone(cc) {
		w.add(C18Fresh, "Clone()", call, call.Pos(), a)
		return
	}
	if name := c18ShallowCopy(cc); name != "" && len(cc.Args) > 0 {
		w.add(C18Fresh, name+" (new container)", call, call.Pos(), a)
		if !w.shallow && c18ElemMutable(cc.Args[0].Type()) {
			// a shallow copy: the elements of the copy reference the very memory the elements of the argument do
			n := len(w.out)
			w.val(cc.Args[0], a)
			for i := n; i < len(w.out); i++ {
				if w.out[i].Kind != C18Fresh {
					w.out[i].Shallow = true
					w.out[i].What += " (elements shared: " + name + " copies the container only)"
				}
			}
		}
		return
	}
	callee := cc.StaticCallee()
	if callee == nil && !cc.IsInvoke() {
		if mc, ok := Resolve(cc.Value).(*ssa.MakeClosure); ok {
			callee, _ = mc.Fn.(*ssa.Function)
		}
	}
	if callee == nil && !cc.IsInvoke() {
		// a function value handed in by in-package callers (a parameter object's func field is not followed)
		if ts, ok := w.e.FuncTargets(cc.Value); ok && len(ts) > 0 {
			key := fmt.Sprintf("%p#%d", call, idx)
			if w.seenR[key] {
				return
			}
			w.seenR[key] = true
			in := a
			if !in.outside && in.instr == nil {
				in.instr = call
			}
			all := true
			for _, t := range ts {
				if t.Blocks == nil || Orig(t).Pkg == nil || !w.e.inScope[Orig(t).Pkg] {
					if !c18IsCloneFunc(t) {
						all = false
					}
				}
			}
			if all {
				for _, t := range ts {
					if c18IsCloneFunc(t) {
						w.add(C18Fresh, "Clone()", call, call.Pos(), a)
						continue
					}
					for _, r := range Returns(t) {
						if idx < len(r.Results) {
							w.val(r.Results[idx], in)
						}
					}
				}
				return
			}
		}
	}
	// instances of generic functions have no package of their own: scope is decided by their origin
	if callee != nil && callee.Blocks != nil && Orig(callee).Pkg != nil && w.e.inScope[Orig(callee).Pkg] {
		key := fmt.Sprintf("%p#%d", call, idx)
		if w.seenR[key] {
			return
		}
		w.seenR[key] = true
		in := a
		if !in.outside && in.instr == nil {
			in.instr = call
		}
		for _, r := range Returns(callee) {
			if idx < len(r.Results) {
				w.val(r.Results[idx], in)
			}
		}
		return
	}
	// a call the engine does not look into (another package, an interface, a function value):
	// fresh if it was given fresh data only; it may hand back (part of) a non-fresh argument.
	var args []ssa.Value
	if cc.IsInvoke() {
		if it, ok := cc.Value.Type().Underlying().(*types.Interface); ok {
			for i := 0; i < it.NumMethods(); i++ {
				if it.Method(i).Name() == "Clone" {
					args = append(args, cc.Value)
				}
			}
		}
	}
	args = append(args, cc.Args...)
	sub := &c18Walk{e: w.e, shallow: w.shallow, seen: map[ssa.Value]bool{}, seenA: map[*ssa.Alloc]bool{}, seenR: w.seenR, inFA: w.inFA}
	for _, arg := range args {
		sub.val(arg, a)
	}
	name := CalleeName(cc)
	if name == "" {
		name = "function value"
	}
	w.add(C18Fresh, "result of "+name, call, call.Pos(), a)
	for _, o := range sub.out {
		if o.Kind != C18Fresh {
			w.add(C18Unknown, "result of "+name+" may alias its argument ("+o.Kind.String()+": "+o.What+")", call, call.Pos(), a)
			return
		}
	}
}

// recv: origins of the values received from channel ch.
func (w *c18Walk) recv(ch ssa.Value, a c18Anchor) {
	out := c18Anchor{outside: true}
	ch = Resolve(ch)
	keys := map[string]bool{}
	direct := 0
	if k, _, ok := FieldOf(ch); ok {
		keys[k] = true
	} else if mk, ok := ch.(*ssa.MakeChan); ok {
		var follow func(v ssa.Value)
		seenVar := map[ssa.Value]bool{}
		// the channel kept in a local variable (possibly captured by a function literal): every read of the variable
		var followVar func(ptr ssa.Value)
		followVar = func(ptr ssa.Value) {
			if seenVar[ptr] || ptr.Referrers() == nil {
				return
			}
			seenVar[ptr] = true
			for _, r := range *ptr.Referrers() {
				switch y := r.(type) {
				case *ssa.UnOp:
					if y.Op == token.MUL {
						follow(y)
					}
				case *ssa.MakeClosure:
					if fn, ok := y.Fn.(*ssa.Function); ok {
						for i, b := range y.Bindings {
							if b == ptr && i < len(fn.FreeVars) {
								followVar(fn.FreeVars[i])
							}
						}
					}
				}
			}
		}
		follow = func(v ssa.Value) {
			if v.Referrers() == nil {
				return
			}
			for _, r := range *v.Referrers() {
				switch x := r.(type) {
				case *ssa.ChangeType:
					follow(x)
				case *ssa.Store:
					if x.Val == v {
						if fa, ok := x.Addr.(*ssa.FieldAddr); ok {
							keys[FieldKey(fa.X.Type(), fa.Field)] = true
						} else if al, ok := x.Addr.(*ssa.Alloc); ok {
							followVar(al)
						}
					}
				case *ssa.Call:
					if g := x.Call.StaticCallee(); g != nil && g.Blocks != nil && Orig(g).Pkg != nil && w.e.inScope[Orig(g).Pkg] {
						for i, arg := range x.Call.Args {
							if arg == v && i < len(Orig(g).Params) {
								follow(Orig(g).Params[i])
							}
						}
					}
				case *ssa.Send:
					if x.Chan == v {
						direct++
						w.val(x.X, a)
					}
				case *ssa.Select:
					for _, st := range x.States {
						if st.Dir == types.SendOnly && st.Chan == v {
							direct++
							w.val(st.Send, a)
						}
					}
				}
			}
		}
		follow(mk)
	} else if p, ok := ch.(*ssa.Parameter); ok && len(w.e.visibleCallers(p.Parent())) > 0 && !c18IsRecv(p) {
		key := fmt.Sprintf("recv%p", p)
		if w.seenR[key] {
			return
		}
		w.seenR[key] = true
		idx := c18ParamIndex(p)
		for _, ci := range w.e.visibleCallers(p.Parent()) {
			if idx < len(ci.Common().Args) {
				w.recv(ci.Common().Args[idx], out)
			}
		}
		return
	} else {
		w.add(C18Unknown, "channel of unknown provenance", nil, ch.Pos(), a)
		return
	}
	n := direct
	for k := range keys {
		for _, s := range w.e.sends[k] {
			n++
			w.val(s.x, out)
		}
	}
	if n == 0 {
		var ks []string
		for k := range keys {
			ks = append(ks, k)
		}
		w.add(C18Unknown, "no send found on channel "+strings.Join(ks, ","), nil, ch.Pos(), a)
	}
}

// Container returns the origins of the memory object v itself designates (which map, which
// variable), without looking at what was put into fresh containers.
func (e *C18Engine) Container(v ssa.Value) []C18Origin {
	w := &c18Walk{e: e, shallow: true, seen: map[ssa.Value]bool{}, seenA: map[*ssa.Alloc]bool{}, seenR: map[string]bool{}}
	w.val(v, c18Anchor{})
	return w.out
}

// C18Summary folds origins: worst kind per class with a witness.
func C18Summary(os []C18Origin) (state, param, unknown *C18Origin) {
	for i := range os {
		o := &os[i]
		switch o.Kind {
		case C18State:
			if state == nil {
				state = o
			}
		case C18Param:
			if param == nil {
				param = o
			}
		case C18Unknown:
			if unknown == nil {
				unknown = o
			}
		}
	}
	return
}

// selectFrom resolves the memory designated by (or, with load, read through) base.field: when base can be the
// component pointer itself the selection is that field of the component's state; every other origin of base
// carries over (the field of a local struct is part of that local, the field of state memory is state memory).
func (w *c18Walk) selectFrom(sel ssa.Value, base ssa.Value, field int, a c18Anchor, load bool) {
	if w.inFA == nil {
		w.inFA = map[ssa.Value]bool{}
	}
	if w.inFA[sel] {
		return
	}
	w.inFA[sel] = true
	defer delete(w.inFA, sel)
	sub := &c18Walk{e: w.e, shallow: w.shallow, seen: map[ssa.Value]bool{}, seenA: map[*ssa.Alloc]bool{}, seenR: map[string]bool{}, inFA: w.inFA}
	for k, v := range w.seenR {
		sub.seenR[k] = v
	}
	if load {
		sub.load(base, a)
	} else {
		sub.ptr(base, a)
	}
	for _, o := range sub.out {
		if o.Self && o.selfT != nil && types.Identical(c18Deref(o.selfT), c18Deref(base.Type())) {
			var at ssa.Instruction
			if in, ok := sel.(ssa.Instruction); ok {
				at = in
			}
			w.add(C18State, FieldKey(base.Type(), field), at, sel.Pos(), a)
			continue
		}
		w.out = append(w.out, o)
	}
}

func c18Deref(t types.Type) types.Type {
	if p, ok := t.Underlying().(*types.Pointer); ok {
		return p.Elem()
	}
	return t
}

// c18PlainLocal: the address of the local never leaves the function (it is only loaded, stored to, or
// selected from), so that a load sees exactly the stores that reach it on the CFG.
func c18PlainLocal(al *ssa.Alloc) bool {
	var ok func(ptr ssa.Value, d int) bool
	ok = func(ptr ssa.Value, d int) bool {
		if d > 4 || ptr.Referrers() == nil {
			return false
		}
		for _, r := range *ptr.Referrers() {
			switch x := r.(type) {
			case *ssa.DebugRef:
			case *ssa.UnOp:
				if x.Op != token.MUL {
					return false
				}
			case *ssa.Store:
				if x.Addr != ptr {
					return false // the address itself is stored somewhere
				}
			case *ssa.FieldAddr:
				if x.X != ptr || !ok(x, d+1) {
					return false
				}
			case *ssa.IndexAddr:
				if x.X != ptr || !ok(x, d+1) {
					return false
				}
			default:
				return false
			}
		}
		return true
	}
	return ok(al, 0)
}

// reaching: origins of a load of a plain local: the whole-variable stores that reach the load on the CFG
// (a later assignment kills an earlier one) plus every partial store (fields / elements, weak updates).
func (w *c18Walk) reaching(al *ssa.Alloc, ld *ssa.UnOp, a c18Anchor) {
	var full []*ssa.Store
	for _, r := range *al.Referrers() {
		switch x := r.(type) {
		case *ssa.Store:
			full = append(full, x)
		case *ssa.FieldAddr:
			w.stores(x, a)
		case *ssa.IndexAddr:
			w.stores(x, a)
		}
	}
	if len(full) == 0 {
		return
	}
	isFull := map[ssa.Instruction]*ssa.Store{}
	for _, st := range full {
		isFull[st] = st
	}
	seen := map[*ssa.BasicBlock]bool{}
	var scan func(b *ssa.BasicBlock, from int)
	scan = func(b *ssa.BasicBlock, from int) {
		for i := from; i >= 0; i-- {
			if st := isFull[b.Instrs[i]]; st != nil {
				w.val(st.Val, a)
				return
			}
		}
		for _, p := range b.Preds {
			if !seen[p] {
				seen[p] = true
				scan(p, len(p.Instrs)-1)
			}
		}
	}
	b := ld.Block()
	at := 0
	for i, in := range b.Instrs {
		if in == ssa.Instruction(ld) {
			at = i
		}
	}
	scan(b, at-1)
}

// ---------------------------------------------------------------------------------------------------------------
// helpers added with the hardened engine

func c18ParamIndex(p *ssa.Parameter) int {
	for i, q := range p.Parent().Params {
		if q == p {
			return i
		}
	}
	return -1
}

// visibleCallers: the static call sites of a named, unexported in-package function that is never used as a value
// (nil: some caller may be invisible).
func (e *C18Engine) visibleCallers(fn *ssa.Function) []ssa.CallInstruction {
	if fn == nil || fn.Parent() != nil {
		return nil
	}
	o := Orig(fn)
	if o.Object() != nil && o.Object().Exported() {
		return nil
	}
	if e.taken[o] || o.Pkg == nil || !e.inScope[o.Pkg] {
		return nil
	}
	return e.callers[o]
}

// VisibleCallers is visibleCallers for rules.
func (e *C18Engine) VisibleCallers(fn *ssa.Function) []ssa.CallInstruction {
	return e.visibleCallers(fn)
}

// InScope: fn (or the generic function it instantiates) belongs to an analysed package and has a body.
func (e *C18Engine) InScope(fn *ssa.Function) bool {
	return fn != nil && Orig(fn).Blocks != nil && Orig(fn).Pkg != nil && e.inScope[Orig(fn).Pkg]
}

// helperRecv: the receiver parameter p belongs to a method of a parameter-object type (an unexported type without
// exported methods: a bundle of the arguments of a component's method, not a component): it is an ordinary
// parameter whose value is what the visible callers pass.
func (e *C18Engine) helperRecv(p *ssa.Parameter) bool {
	if !c18IsRecv(p) {
		return false
	}
	if len(e.visibleCallers(p.Parent())) == 0 {
		return false
	}
	t := c18Deref(p.Type())
	n, ok := t.(*types.Named)
	if !ok || n.Obj().Exported() {
		return false
	}
	ms := types.NewMethodSet(types.NewPointer(n))
	for i := 0; i < ms.Len(); i++ {
		if ms.At(i).Obj().Exported() {
			return false
		}
	}
	return true
}

// chanKeys: the struct fields a channel value is kept in; a channel parameter is what the visible callers pass.
func (e *C18Engine) chanKeys(ch ssa.Value, d int) []string {
	ch = Resolve(ch)
	if k, _, ok := FieldOf(ch); ok {
		return []string{k}
	}
	p, ok := ch.(*ssa.Parameter)
	if !ok || d > 3 || c18IsRecv(p) {
		return nil
	}
	var out []string
	idx := c18ParamIndex(p)
	for _, ci := range e.visibleCallers(p.Parent()) {
		if idx < len(ci.Common().Args) {
			out = append(out, e.chanKeys(ci.Common().Args[idx], d+1)...)
		}
	}
	return out
}

// C18ParamCalls: the calls, inside the body of g, of g's own parameter number idx, provided the parameter is used for
// nothing else (ok=false: it is stored, handed on, ...).
func C18ParamCalls(g *ssa.Function, idx int) (calls []ssa.CallInstruction, ok bool) {
	g = Orig(g)
	if g.Blocks == nil || idx >= len(g.Params) {
		return nil, false
	}
	p := g.Params[idx]
	var visit func(v ssa.Value, d int) bool
	visit = func(v ssa.Value, d int) bool {
		if v.Referrers() == nil || d > 3 {
			return false
		}
		for _, r := range *v.Referrers() {
			switch x := r.(type) {
			case *ssa.DebugRef:
			case ssa.CallInstruction:
				if x.Common().Value != v {
					return false
				}
				calls = append(calls, x)
			case *ssa.ChangeType:
				if !visit(x, d+1) {
					return false
				}
			case *ssa.BinOp: // fn != nil
			default:
				return false
			}
		}
		return true
	}
	if !visit(p, 0) {
		return nil, false
	}
	return calls, true
}

// indirectCalls: every use of the function literal lit in its enclosing function is either a direct call or an argument
// of a static call to an in-package function that only calls that parameter; returns all those calls.
func (e *C18Engine) indirectCalls(lit *ssa.Function) ([]ssa.CallInstruction, bool) {
	parent := lit.Parent()
	if parent == nil {
		return nil, false
	}
	var out []ssa.CallInstruction
	use := func(fv ssa.Value, in ssa.Instruction) bool {
		ci, ok := in.(ssa.CallInstruction)
		if !ok {
			return false
		}
		if ci.Common().Value == fv {
			out = append(out, ci)
			return true
		}
		g := ci.Common().StaticCallee()
		if g == nil || Orig(g).Pkg == nil || !e.inScope[Orig(g).Pkg] {
			return false
		}
		for i, arg := range ci.Common().Args {
			if arg != fv {
				continue
			}
			cs, ok := C18ParamCalls(g, i)
			if !ok {
				return false
			}
			out = append(out, cs...)
		}
		return true
	}
	for _, in := range Instrs(parent, true) {
		if mc, ok := in.(*ssa.MakeClosure); ok && mc.Fn == ssa.Value(lit) {
			for _, r := range *mc.Referrers() {
				if _, dbg := r.(*ssa.DebugRef); dbg {
					continue
				}
				if !use(mc, r) {
					return nil, false
				}
			}
			continue
		}
		for _, op := range Operands(in) {
			if op == ssa.Value(lit) {
				if !use(op, in) {
					return nil, false
				}
			}
		}
	}
	return out, len(out) > 0
}

// IndirectCalls is indirectCalls for rules.
func (e *C18Engine) IndirectCalls(lit *ssa.Function) ([]ssa.CallInstruction, bool) {
	return e.indirectCalls(lit)
}

// FuncTargets resolves a function value to the functions it can be: a function, a literal, a bound method, or a
// parameter of an in-package function all of whose callers are visible (ok=false: anything else).
func (e *C18Engine) FuncTargets(v ssa.Value) ([]*ssa.Function, bool) {
	seen := map[ssa.Value]bool{}
	var out []*ssa.Function
	var walk func(v ssa.Value, d int) bool
	walk = func(v ssa.Value, d int) bool {
		v = Resolve(v)
		if seen[v] {
			return true
		}
		seen[v] = true
		if d > 6 {
			return false
		}
		switch x := v.(type) {
		case *ssa.Function:
			out = append(out, x)
			return true
		case *ssa.MakeClosure:
			f, ok := x.Fn.(*ssa.Function)
			if !ok {
				return false
			}
			if f.Synthetic != "" && f.Object() != nil {
				// bound method wrapper: the method itself
				if tf, ok := f.Object().(*types.Func); ok {
					if real := f.Prog.FuncValue(tf); real != nil {
						out = append(out, real)
						return true
					}
				}
				return false
			}
			out = append(out, f)
			return true
		case *ssa.Phi:
			for _, ed := range x.Edges {
				if c, isC := ed.(*ssa.Const); isC && c.IsNil() {
					continue
				}
				if !walk(ed, d+1) {
					return false
				}
			}
			return true
		case *ssa.Parameter:
			if c18IsRecv(x) {
				return false
			}
			idx := c18ParamIndex(x)
			cs := e.visibleCallers(x.Parent())
			if len(cs) == 0 {
				return false
			}
			for _, ci := range cs {
				if idx >= len(ci.Common().Args) || !walk(ci.Common().Args[idx], d+1) {
					return false
				}
			}
			return true
		}
		return false
	}
	if !walk(v, 0) {
		return nil, false
	}
	return out, true
}

// c18IsCloneFunc: f is the Clone method of a workflow type of package core.
func c18IsCloneFunc(f *ssa.Function) bool {
	if f == nil || f.Name() != "Clone" || f.Signature.Recv() == nil {
		return false
	}
	t := f.Signature.Recv().Type()
	if p, ok := t.(*types.Pointer); ok {
		t = p.Elem()
	}
	n, ok := t.(*types.Named)
	return ok && n.Obj().Pkg() != nil && n.Obj().Pkg().Path() == load.Mod+"/core"
}

// c18ShallowCopy names the library functions that copy a container but not what its elements reference.
func c18ShallowCopy(cc *ssa.CallCommon) string {
	f := cc.StaticCallee()
	if f == nil {
		return ""
	}
	o := Orig(f)
	if o.Pkg == nil || o.Pkg.Pkg == nil {
		return ""
	}
	switch o.Pkg.Pkg.Path() + "." + o.Name() {
	case "maps.Clone", "slices.Clone", "golang.org/x/exp/maps.Clone", "golang.org/x/exp/slices.Clone":
		return o.Pkg.Pkg.Name() + "." + o.Name()
	}
	return ""
}

// c18ElemMutable: the elements (or keys) of container type t hold references.
func c18ElemMutable(t types.Type) bool {
	switch u := t.Underlying().(type) {
	case *types.Map:
		return C18Mutable(u.Elem()) || C18Mutable(u.Key())
	case *types.Slice:
		return C18Mutable(u.Elem())
	}
	return true
}

// phiUnder evaluates edge i (value e) of phi x under the branch condition that leads along that edge, when e is itself
// a phi of the predecessor block and the condition is decided by sibling phis of that block (single-exit code with a
// status flag: `if received { v, err = v.Clone() }; return v, err`): only the edges of e on which the flag has the
// value the branch requires are followed. Returns false when the shape does not apply (the caller walks e plainly).
func (w *c18Walk) phiUnder(x *ssa.Phi, i int, e ssa.Value, a c18Anchor) bool {
	y, ok := e.(*ssa.Phi)
	if !ok || i >= len(x.Block().Preds) {
		return false
	}
	pred := x.Block().Preds[i]
	if y.Block() != pred || len(pred.Instrs) == 0 || len(pred.Succs) != 2 || pred.Succs[0] == pred.Succs[1] {
		return false
	}
	br, ok := pred.Instrs[len(pred.Instrs)-1].(*ssa.If)
	if !ok {
		return false
	}
	want := pred.Succs[0] == x.Block()
	pruned := false
	var keep []ssa.Value
	for j, ed := range y.Edges {
		if val, known := c18CondOnEdge(br.Cond, pred, j, 0); known && val != want {
			pruned = true
			continue
		}
		keep = append(keep, ed)
	}
	if !pruned {
		return false
	}
	for _, ed := range keep {
		w.val(ed, a)
	}
	return true
}

// c18CondOnEdge: the value of boolean cond when block b is entered along its j-th edge, if the phis of b decide it.
func c18CondOnEdge(cond ssa.Value, b *ssa.BasicBlock, j int, d int) (val, known bool) {
	if d > 4 {
		return false, false
	}
	edge := func(v ssa.Value) ssa.Value {
		if p, ok := v.(*ssa.Phi); ok && p.Block() == b && j < len(p.Edges) {
			return p.Edges[j]
		}
		return nil
	}
	switch c := cond.(type) {
	case *ssa.Phi:
		if k, ok := edge(c).(*ssa.Const); ok && k.Value != nil && types.Identical(k.Type().Underlying(), types.Typ[types.Bool]) {
			return k.Value.String() == "true", true
		}
	case *ssa.UnOp:
		if c.Op == token.NOT {
			v, k := c18CondOnEdge(c.X, b, j, d+1)
			return !v, k
		}
	case *ssa.BinOp:
		if c.Op != token.EQL && c.Op != token.NEQ {
			return false, false
		}
		l, r := c.X, c.Y
		if _, isC := l.(*ssa.Const); isC {
			l, r = r, l
		}
		rc, ok := r.(*ssa.Const)
		if !ok {
			return false, false
		}
		lc, ok := edge(l).(*ssa.Const)
		if !ok {
			return false, false
		}
		if rc.IsNil() && lc.IsNil() {
			return c.Op == token.EQL, true
		}
		if rc.Value != nil && lc.Value != nil {
			eq := rc.Value.ExactString() == lc.Value.ExactString()
			return eq == (c.Op == token.EQL), true
		}
	}
	return false, false
}
