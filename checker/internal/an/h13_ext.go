package an

// Small exported views on the tracer's internals for the C13 rules (package rules cannot reach the
// unexported canonicalisation used for branch events).

import (
	"go/token"

	"golang.org/x/tools/go/ssa"
)

// H13Canon reduces a boolean symbol to the base symbol branch events are keyed by and its polarity:
// s == (base != neg).
func H13Canon(s *Sym) (base *Sym, neg bool) { return canon(s) }

// H13NilTest builds the canonical base of the test `s == nil` (the symbol a branch event on `s == nil` /
// `s != nil` carries in Args[0]).
func H13NilTest(s *Sym) *Sym {
	b, _ := canon(binOf(token.EQL, s, constSym(nil, nil)))
	return b
}

// H13TrivPure reports whether fn is a trivially pure accessor: a body without calls, stores, map updates,
// channel operations, defers, panics or goroutines (protobuf getters, field accessors).
func H13TrivPure(fn *ssa.Function) bool {
	if fn == nil || len(fn.Blocks) == 0 || len(fn.Blocks) > 8 {
		return false
	}
	for _, b := range fn.Blocks {
		for _, in := range b.Instrs {
			switch x := in.(type) {
			case *ssa.Call, *ssa.Store, *ssa.MapUpdate, *ssa.Send, *ssa.Go, *ssa.Defer, *ssa.Panic, *ssa.Select,
				*ssa.RunDefers, *ssa.MakeClosure, *ssa.MakeChan, *ssa.Range, *ssa.Next:
				return false
			case *ssa.UnOp:
				if x.Op == token.ARROW {
					return false
				}
			}
		}
	}
	return true
}
