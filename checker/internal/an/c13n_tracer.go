package an

// H13Tracer is a copy of Tracer (h1617_ext.go; symbol, event and path types are shared) with additions needed by the
// C13 rules to follow values through refactorings (see the comments marked H13):
//   - a whole-array load whose elements the path determines yields an "array" value (KPure "array"), and indexing such
//     a value with a constant yields the element (range over a local array literal, tables of closures);
//   - a dynamic call that is not stepped into is preceded by an event of kind "fnval" carrying the symbol of the
//     function value called (provenance of function values held in struct fields / bound receivers);
//   - sync.Mutex Lock/Unlock and other calls are unchanged.
// Suggested change to the shared file: adopt the two additions; this copy can then be dropped.

import (
	"go/constant"
	"go/token"
	"go/types"
	"sort"
	"strconv"
	"strings"

	"golang.org/x/tools/go/ssa"
)

// H13Tracer configures an exploration.
type H13Tracer struct {
	Root  *ssa.Function
	Start *ssa.BasicBlock // nil: entry block
	// Stop ends a path when the root frame enters this block again (event-loop head). May be nil.
	Stop *ssa.BasicBlock
	// Inline decides whether a static callee / closure is stepped into (default: same package as Root).
	Inline    func(fn *ssa.Function) bool
	MaxPaths  int // default 20000
	MaxVisits int // per block and activation, default 3
	MaxDepth  int // inlining depth, default 8

	nextID int
	res    *TraceResult
}

// Run explores the paths.
func (t *H13Tracer) Run() *TraceResult {
	if t.MaxPaths == 0 {
		t.MaxPaths = 20000
	}
	if t.MaxVisits == 0 {
		t.MaxVisits = 3
	}
	if t.MaxDepth == 0 {
		t.MaxDepth = 8
	}
	if t.Inline == nil {
		t.Inline = func(fn *ssa.Function) bool { return fn.Pkg == t.Root.Pkg || fn.Parent() != nil }
	}
	t.res = &TraceResult{Visited: map[ssa.Instruction]bool{}}
	if len(t.Root.Blocks) == 0 {
		return t.res
	}
	st := &tstate{env: map[envKey]*Sym{}, mem: map[string]*Sym{}, assume: map[string]bool{}, visits: map[visitKey]int{}, defers: map[int][]deferred{}}
	t.nextID++
	fr := &frame{id: t.nextID, fn: t.Root, root: true}
	// lexical ancestors of a root that is a function literal: their variables (captured by the root) are
	// resolved lazily, like values computed before the path began
	child := fr
	for p := t.Root.Parent(); p != nil; p = p.Parent() {
		t.nextID++
		anc := &frame{id: t.nextID, fn: p, depth: 0, lexical: true}
		child.parent = anc
		child = anc
	}
	start := t.Start
	if start == nil {
		start = t.Root.Blocks[0]
	}
	t.block(st, fr, start, nil, true, func(st *tstate, res []*Sym) {
		n := len(t.res.Paths)
		t.end(st, "return")
		if len(t.res.Paths) > n {
			t.res.Paths[n].Results = res
		}
	})
	return t.res
}

func (t *H13Tracer) id() int { t.nextID++; return t.nextID }

func (t *H13Tracer) end(st *tstate, why string) {
	if len(t.res.Paths) >= t.MaxPaths {
		t.res.Truncated = true
		return
	}
	t.res.Paths = append(t.res.Paths, &Path{Evs: st.evs, End: why, Mem: st.mem, Assume: st.assume})
}

func (t *H13Tracer) full() bool { return len(t.res.Paths) >= t.MaxPaths }

func (t *H13Tracer) emit(st *tstate, fr *frame, e Ev) {
	if e.In != nil {
		e.Fn = e.In.Parent()
	}
	e.Frame, e.Depth = fr.id, fr.depth
	st.evs = append(st.evs, e)
}

// block enters block b of frame fr coming from pred.
func (t *H13Tracer) block(st *tstate, fr *frame, b, pred *ssa.BasicBlock, first bool, k tcont) {
	if t.full() {
		t.res.Truncated = true
		return
	}
	if fr.root && !first && t.Stop != nil && b == t.Stop {
		t.end(st, "stop")
		return
	}
	vk := visitKey{fr.id, b}
	st.visits[vk]++
	if st.visits[vk] > t.MaxVisits {
		t.res.Pruned++
		return
	}
	// phis: simultaneous assignment from the edge we came along
	i := 0
	if pred != nil {
		pi := -1
		for j, p := range b.Preds {
			if p == pred {
				pi = j
			}
		}
		var vals []*Sym
		var phis []*ssa.Phi
		for ; i < len(b.Instrs); i++ {
			phi, ok := b.Instrs[i].(*ssa.Phi)
			if !ok {
				break
			}
			phis = append(phis, phi)
			if pi >= 0 && pi < len(phi.Edges) {
				vals = append(vals, t.val(st, fr, phi.Edges[pi]))
			} else {
				vals = append(vals, &Sym{Kind: KOpaque, V: phi, ID: t.id()})
			}
		}
		for j, phi := range phis {
			st.env[envKey{fr.id, phi}] = vals[j]
		}
	} else {
		for ; i < len(b.Instrs); i++ {
			phi, ok := b.Instrs[i].(*ssa.Phi)
			if !ok {
				break
			}
			st.env[envKey{fr.id, phi}] = &Sym{Kind: KOpaque, V: phi, ID: 0}
		}
	}
	t.instrs(st, fr, b, i, k)
}

// val evaluates an operand in frame fr.
func (t *H13Tracer) val(st *tstate, fr *frame, v ssa.Value) *Sym {
	if v == nil {
		return nil
	}
	switch x := v.(type) {
	case *ssa.Const:
		return constSym(x.Value, x.Type())
	case *ssa.Function:
		return &Sym{Kind: KFunc, Fn: x, V: x}
	case *ssa.Builtin:
		return &Sym{Kind: KFunc, V: x}
	case *ssa.Global:
		return &Sym{Kind: KAddr, Cell: "g:" + x.Pkg.Pkg.Path() + "." + x.Name(), V: x}
	}
	if s, ok := st.env[envKey{fr.id, v}]; ok {
		return s
	}
	// not executed on this path: a parameter of the root, or a value computed before the path began
	s := t.lazy(st, fr, v, 0)
	st.env[envKey{fr.id, v}] = s
	return s
}

func (t *H13Tracer) lazy(st *tstate, fr *frame, v ssa.Value, d int) *Sym {
	if d > 12 {
		return &Sym{Kind: KOpaque, V: v}
	}
	sub := func(w ssa.Value) *Sym {
		switch w.(type) {
		case *ssa.Const, *ssa.Function, *ssa.Builtin, *ssa.Global:
			return t.val(st, fr, w)
		}
		if s, ok := st.env[envKey{fr.id, w}]; ok {
			return s
		}
		return t.lazy(st, fr, w, d+1)
	}
	switch x := v.(type) {
	case *ssa.FreeVar:
		// captured variable of an unbound function literal: the variable of the enclosing function it is bound to
		if fr.parent != nil && fr.parent.fn == fr.fn.Parent() {
			var bound ssa.Value
			n := 0
			for j, fv := range fr.fn.FreeVars {
				if fv != x {
					continue
				}
				for _, in := range Instrs(fr.fn.Parent(), false) {
					if mc, ok := in.(*ssa.MakeClosure); ok && mc.Fn == ssa.Value(fr.fn) && j < len(mc.Bindings) {
						bound = mc.Bindings[j]
						n++
					}
				}
			}
			if n == 1 {
				if s, ok := st.env[envKey{fr.parent.id, bound}]; ok {
					return s
				}
				return t.lazy(st, fr.parent, bound, d+1)
			}
		}
		return &Sym{Kind: KParam, V: v}
	case *ssa.Parameter:
		return &Sym{Kind: KParam, V: v}
	case *ssa.Alloc:
		return &Sym{Kind: KAddr, Cell: "alloc:" + valName(x), V: x}
	case *ssa.MakeClosure:
		s := &Sym{Kind: KClosure, Fn: x.Fn.(*ssa.Function), V: x}
		for _, b := range x.Bindings {
			s.Args = append(s.Args, sub(b))
		}
		return s
	case *ssa.FieldAddr:
		return t.fieldAddr(sub(x.X), x)
	case *ssa.IndexAddr:
		return t.indexAddr(sub(x.X), sub(x.Index))
	case *ssa.Field:
		return fieldOfT(sub(x.X), x.Field, FieldKey(x.X.Type(), x.Field))
	case *ssa.ChangeType:
		return sub(x.X)
	case *ssa.Convert:
		return sub(x.X)
	case *ssa.MakeInterface:
		return sub(x.X)
	case *ssa.ChangeInterface:
		return sub(x.X)
	case *ssa.Extract:
		return extractOf(sub(x.Tuple), x.Index)
	case *ssa.UnOp:
		switch x.Op {
		case token.MUL:
			// value loaded before the path began: only resolvable for write-once cells holding a time-invariant value
			if al, ok := x.X.(*ssa.Alloc); ok {
				if s := t.writeOnce(st, fr, al, d); s != nil {
					return s
				}
			}
			return &Sym{Kind: KOpaque, V: v}
		case token.NOT:
			return notOf(sub(x.X))
		case token.ARROW:
			return &Sym{Kind: KOpaque, V: v}
		}
		return &Sym{Kind: KPure, Name: "unop" + x.Op.String(), Args: []*Sym{sub(x.X)}}
	case *ssa.BinOp:
		return binOf(x.Op, sub(x.X), sub(x.Y))
	case *ssa.Slice:
		return &Sym{Kind: KPure, Name: "slice", Args: []*Sym{sub(x.X), sub(x.Low), sub(x.High)}}
	}
	return &Sym{Kind: KOpaque, V: v}
}

// writeOnce resolves the content of a variable that is assigned exactly once with a value that does not
// depend on when it is read (parameter, function, closure, constant, address).
func (t *H13Tracer) writeOnce(st *tstate, fr *frame, al *ssa.Alloc, d int) *Sym {
	stores := AllStores(al)
	if len(stores) != 1 || stores[0].Parent() != al.Parent() || AddrEscapes(al) {
		return nil
	}
	if al.Parent() != fr.fn {
		return nil
	}
	switch v := stores[0].Val.(type) {
	case *ssa.Parameter, *ssa.FreeVar, *ssa.MakeClosure, *ssa.Const, *ssa.Function, *ssa.Alloc:
		if s, ok := st.env[envKey{fr.id, v}]; ok {
			return s
		}
		switch v.(type) {
		case *ssa.Const, *ssa.Function:
			return t.val(st, fr, v)
		}
		return t.lazy(st, fr, v, d+1)
	}
	return nil
}
func (t *H13Tracer) fieldAddr(base *Sym, fa *ssa.FieldAddr) *Sym {
	cell := ""
	if base.Kind == KAddr {
		cell = base.Cell + ".#" + strconv.Itoa(fa.Field)
	} else {
		cell = "*(" + base.Key() + ").#" + strconv.Itoa(fa.Field)
	}
	return &Sym{Kind: KAddr, Cell: cell, Field: FieldKey(fa.X.Type(), fa.Field), V: fa, Args: []*Sym{base}}
}

func (t *H13Tracer) indexAddr(base, idx *Sym) *Sym {
	cell := ""
	if base.Kind == KAddr {
		cell = base.Cell + "[" + idx.Key() + "]"
	} else {
		cell = "*(" + base.Key() + ")[" + idx.Key() + "]"
	}
	return &Sym{Kind: KAddr, Cell: cell, Args: []*Sym{base, idx}}
}
func (t *H13Tracer) store(st *tstate, addr, val *Sym) {
	cell := cellOf(addr)
	prefix := cell + ".#"
	prefix2 := cell + "[" // H13: a whole-array assignment supersedes the elements
	for k := range st.mem {
		if strings.HasPrefix(k, prefix) || strings.HasPrefix(k, prefix2) {
			delete(st.mem, k)
		}
	}
	st.mem[cell] = val
}

// known returns the content of a cell if the path determines it (nil otherwise).
func (t *H13Tracer) known(st *tstate, cell string, d int) *Sym {
	whole := st.mem[cell]
	var fields map[int]*Sym
	prefix := cell + ".#"
	for k, v := range st.mem {
		if strings.HasPrefix(k, prefix) {
			if i, err := strconv.Atoi(k[len(prefix):]); err == nil {
				if fields == nil {
					fields = map[int]*Sym{}
				}
				fields[i] = v
			}
		}
	}
	if len(fields) > 0 {
		return &Sym{Kind: KStruct, Args: []*Sym{whole}, Fields: fields}
	}
	if whole != nil {
		return whole
	}
	// H13: an element of an array cell whose whole content is an array value built on the path
	if i := strings.LastIndex(cell, "[c:"); i > 0 && strings.HasSuffix(cell, "]") && d < 4 {
		if k, err := strconv.ParseInt(cell[i+3:len(cell)-1], 10, 64); err == nil {
			if pv := st.mem[cell[:i]]; pv != nil && pv.Kind == KPure && pv.Name == "array" && k >= 0 && k < int64(len(pv.Args)) {
				return pv.Args[k]
			}
		}
	}
	// a field of a cell whose whole content is known
	if i := strings.LastIndex(cell, ".#"); i > 0 && d < 4 {
		if idx, err := strconv.Atoi(cell[i+2:]); err == nil {
			if pv := t.known(st, cell[:i], d+1); pv != nil {
				return fieldOf(pv, idx)
			}
		}
	}
	return nil
}

func (t *H13Tracer) load(st *tstate, fr *frame, addr *Sym, in ssa.Instruction) *Sym {
	cell := cellOf(addr)
	if v := t.known(st, cell, 0); v != nil {
		return v
	}
	if al, ok := addr.V.(*ssa.Alloc); ok && addr.Kind == KAddr && strings.HasPrefix(addr.Cell, "alloc:") {
		// variable declared before the path began
		var owner *frame
		for f := fr; f != nil; f = f.parent {
			if f.fn == al.Parent() {
				owner = f
			}
		}
		if owner != nil {
			if s := t.writeOnce(st, owner, al, 0); s != nil {
				return s
			}
		}
	}
	// H13: whole load of an array variable all of whose elements the path determines
	if un, ok := in.(*ssa.UnOp); ok {
		if at, isArr := un.Type().Underlying().(*types.Array); isArr && at.Len() > 0 && at.Len() <= 16 {
			arr := &Sym{Kind: KPure, Name: "array"}
			for k := int64(0); k < at.Len(); k++ {
				ev := t.known(st, cell+"[c:"+strconv.FormatInt(k, 10)+"]", 0)
				if ev == nil {
					arr = nil
					break
				}
				arr.Args = append(arr.Args, ev)
			}
			if arr != nil {
				return arr
			}
		}
	}
	return &Sym{Kind: KInit, Cell: cell, Field: addr.Field, ID: t.id(), V: valueOf(in), Args: []*Sym{addr}}
}

// h13Index: element idx of an indexable value (H13: constant index into an array value built on the path).
func h13Index(x, idx *Sym) *Sym {
	if x != nil && x.Kind == KPure && x.Name == "array" {
		if k, ok := idx.IsConstInt(); ok && k >= 0 && k < int64(len(x.Args)) {
			return x.Args[k]
		}
	}
	return &Sym{Kind: KPure, Name: "index", Args: []*Sym{x, idx}}
}

func (t *H13Tracer) instrs(st *tstate, fr *frame, b *ssa.BasicBlock, i int, k tcont) {
	for ; i < len(b.Instrs); i++ {
		if t.full() {
			t.res.Truncated = true
			return
		}
		in := b.Instrs[i]
		t.res.Visited[in] = true
		set := func(s *Sym) {
			if v, ok := in.(ssa.Value); ok {
				st.env[envKey{fr.id, v}] = s
			}
		}
		op := func(v ssa.Value) *Sym { return t.val(st, fr, v) }
		switch x := in.(type) {
		case *ssa.DebugRef:
		case *ssa.Alloc:
			id := t.id()
			s := &Sym{Kind: KAddr, Cell: "alloc" + strconv.Itoa(id), V: x, ID: id}
			set(s)
		case *ssa.Store:
			a, v := op(x.Addr), op(x.Val)
			t.store(st, a, v)
			t.emit(st, fr, Ev{Kind: "store", In: in, Args: []*Sym{a, v}})
		case *ssa.UnOp:
			switch x.Op {
			case token.MUL:
				a := op(x.X)
				s := t.load(st, fr, a, in)
				set(s)
				t.emit(st, fr, Ev{Kind: "load", In: in, Args: []*Sym{a}, Res: s})
			case token.ARROW:
				ch := op(x.X)
				s := &Sym{Kind: KOpaque, V: x, ID: t.id()}
				set(s)
				t.emit(st, fr, Ev{Kind: "recv", In: in, Args: []*Sym{ch}, Res: s, Blocking: true})
			case token.NOT:
				set(notOf(op(x.X)))
			default:
				set(&Sym{Kind: KPure, Name: "unop" + x.Op.String(), Args: []*Sym{op(x.X)}})
			}
		case *ssa.BinOp:
			set(binOf(x.Op, op(x.X), op(x.Y)))
		case *ssa.FieldAddr:
			set(t.fieldAddr(op(x.X), x))
		case *ssa.IndexAddr:
			set(t.indexAddr(op(x.X), op(x.Index)))
		case *ssa.Field:
			set(fieldOfT(op(x.X), x.Field, FieldKey(x.X.Type(), x.Field)))
		case *ssa.Index:
			set(h13Index(op(x.X), op(x.Index)))
		case *ssa.ChangeType:
			set(op(x.X))
		case *ssa.Convert:
			set(op(x.X))
		case *ssa.MakeInterface:
			set(op(x.X))
		case *ssa.ChangeInterface:
			set(op(x.X))
		case *ssa.MultiConvert:
			set(op(x.X))
		case *ssa.SliceToArrayPointer:
			set(op(x.X))
		case *ssa.TypeAssert:
			s := &Sym{Kind: KPure, Name: "assert:" + x.AssertedType.String(), Args: []*Sym{op(x.X)}}
			set(s)
		case *ssa.Slice:
			set(&Sym{Kind: KPure, Name: "slice", Args: []*Sym{op(x.X), op(x.Low), op(x.High)}})
		case *ssa.MakeChan, *ssa.MakeMap, *ssa.MakeSlice:
			set(&Sym{Kind: KFresh, V: in.(ssa.Value), ID: t.id()})
		case *ssa.MakeClosure:
			s := &Sym{Kind: KClosure, Fn: x.Fn.(*ssa.Function), V: x}
			for _, bd := range x.Bindings {
				s.Args = append(s.Args, op(bd))
			}
			set(s)
		case *ssa.Lookup:
			m, key := op(x.X), op(x.Index)
			s := &Sym{Kind: KOpaque, V: x, ID: t.id()}
			set(s)
			t.emit(st, fr, Ev{Kind: "lookup", In: in, Args: []*Sym{m, key}, Res: s})
		case *ssa.MapUpdate:
			t.emit(st, fr, Ev{Kind: "mapupdate", In: in, Args: []*Sym{op(x.Map), op(x.Key), op(x.Value)}})
		case *ssa.Range:
			s := &Sym{Kind: KOpaque, V: x, ID: t.id()}
			set(s)
			t.emit(st, fr, Ev{Kind: "range", In: in, Args: []*Sym{op(x.X)}, Res: s})
		case *ssa.Next:
			s := &Sym{Kind: KOpaque, V: x, ID: t.id()}
			set(s)
			t.emit(st, fr, Ev{Kind: "next", In: in, Args: []*Sym{op(x.Iter)}, Res: s})
		case *ssa.Extract:
			set(extractOf(op(x.Tuple), x.Index))
		case *ssa.Send:
			t.emit(st, fr, Ev{Kind: "send", In: in, Args: []*Sym{op(x.Chan), op(x.X)}, Blocking: true})
		case *ssa.Go:
			t.emit(st, fr, t.callEv(st, fr, "go", in, &x.Call))
		case *ssa.Defer:
			d := deferred{in: x, fn: t.calleeSym(st, fr, &x.Call)}
			for _, a := range x.Call.Args {
				d.args = append(d.args, op(a))
			}
			if x.Call.IsInvoke() {
				d.args = append([]*Sym{op(x.Call.Value)}, d.args...)
			}
			st.defers[fr.id] = append(st.defers[fr.id], d)
		case *ssa.RunDefers:
			list := st.defers[fr.id]
			delete(st.defers, fr.id)
			bb, ii := b, i
			t.runDefers(st, fr, list, func(st2 *tstate) { t.instrs(st2, fr, bb, ii+1, k) })
			return
		case *ssa.Select:
			t.sel(st, fr, x, b, i, k)
			return
		case *ssa.Call:
			var args []*Sym
			if x.Call.IsInvoke() {
				args = append(args, op(x.Call.Value))
			}
			for _, a := range x.Call.Args {
				args = append(args, op(a))
			}
			fnSym := t.calleeSym(st, fr, &x.Call)
			bb, ii := b, i
			if t.invoke(st, fr, in, &x.Call, fnSym, args, false, func(st2 *tstate, res *Sym) {
				if res != nil {
					st2.env[envKey{fr.id, x}] = res
				}
				t.instrs(st2, fr, bb, ii+1, k)
			}) {
				return
			}
		case *ssa.Return:
			var res []*Sym
			for _, r := range x.Results {
				res = append(res, op(r))
			}
			k(st, res)
			return
		case *ssa.Panic:
			t.end(st, "panic")
			return
		case *ssa.Jump:
			t.block(st, fr, b.Succs[0], b, false, k)
			return
		case *ssa.If:
			c := op(x.Cond)
			if v, ok := c.IsConstBool(); ok {
				s := b.Succs[1]
				if v {
					s = b.Succs[0]
				}
				t.block(st, fr, s, b, false, k)
				return
			}
			base, neg := canon(c)
			if v, ok := base.IsConstBool(); ok {
				truth := v != neg
				s := b.Succs[1]
				if truth {
					s = b.Succs[0]
				}
				t.block(st, fr, s, b, false, k)
				return
			}
			key := base.Key()
			if known, ok := st.assume[key]; ok {
				t.emit(st, fr, Ev{Kind: "branch", In: in, Args: []*Sym{base}, Taken: known})
				s := b.Succs[1]
				if known != neg {
					s = b.Succs[0]
				}
				t.block(st, fr, s, b, false, k)
				return
			}
			for _, truth := range []bool{true, false} {
				st2 := st.clone()
				st2.assume[key] = truth
				t.emit(st2, fr, Ev{Kind: "branch", In: in, Args: []*Sym{base}, Taken: truth})
				s := b.Succs[1]
				if truth != neg {
					s = b.Succs[0]
				}
				t.block(st2, fr, s, b, false, k)
			}
			return
		default:
			if v, ok := in.(ssa.Value); ok {
				st.env[envKey{fr.id, v}] = &Sym{Kind: KOpaque, V: v, ID: t.id()}
			}
		}
	}
}

func (t *H13Tracer) calleeSym(st *tstate, fr *frame, c *ssa.CallCommon) *Sym {
	if c.IsInvoke() {
		return nil
	}
	return t.val(st, fr, c.Value)
}

func (t *H13Tracer) callEv(st *tstate, fr *frame, kind string, in ssa.Instruction, c *ssa.CallCommon) Ev {
	e := Ev{Kind: kind, In: in, Name: CalleeName(c)}
	if c.IsInvoke() {
		e.Args = append(e.Args, t.val(st, fr, c.Value))
	} else if f := c.StaticCallee(); f != nil {
		e.Callee = f
	}
	for _, a := range c.Args {
		e.Args = append(e.Args, t.val(st, fr, a))
	}
	return e
}

// invoke executes a call (or a deferred call). It returns true if control continues through kk
// (asynchronously, because the callee was stepped into); false if the caller's loop simply goes on.
func (t *H13Tracer) invoke(st *tstate, fr *frame, in ssa.Instruction, c *ssa.CallCommon, fnSym *Sym, args []*Sym, isDefer bool, kk func(st *tstate, res *Sym)) bool {
	name := CalleeName(c)
	// builtins
	if bi, ok := c.Value.(*ssa.Builtin); ok && !c.IsInvoke() {
		var res *Sym
		switch bi.Name() {
		case "append":
			res = t.appendSym(st, args)
		case "len", "cap", "min", "max", "real", "imag", "complex":
			res = &Sym{Kind: KPure, Name: bi.Name(), Args: args}
			if bi.Name() == "len" || bi.Name() == "cap" {
				// length of mutable containers changes with time
				res = &Sym{Kind: KOpaque, V: valueOf(in), ID: t.id(), Name: bi.Name(), Args: args}
				if len(args) == 1 && args[0] != nil && args[0].Kind == KAppend && !args[0].Spread {
					res.Min = int64(len(args[0].Args) - 1)
				}
			}
		default:
			if v := valueOf(in); v != nil {
				res = &Sym{Kind: KOpaque, V: v, ID: t.id()}
			}
		}
		t.emit(st, fr, Ev{Kind: "builtin", In: in, Name: bi.Name(), Args: args, Res: res, Deferred: isDefer})
		if isDefer {
			kk(st, res)
			return true
		}
		if res != nil {
			if v, ok := in.(ssa.Value); ok {
				st.env[envKey{fr.id, v}] = res
			}
		}
		return false
	}
	var callee *ssa.Function
	var bindings []*Sym
	if !c.IsInvoke() {
		if f := c.StaticCallee(); f != nil {
			callee = f
			if fnSym != nil && fnSym.Kind == KClosure {
				bindings = fnSym.Args
			}
		} else if fnSym != nil {
			switch fnSym.Kind {
			case KClosure:
				callee, bindings = fnSym.Fn, fnSym.Args
			case KFunc:
				callee = fnSym.Fn
			}
		}
	}
	if callee != nil && name == "" {
		name = FuncName(callee)
	}
	inl := callee != nil && len(callee.Blocks) > 0 && fr.depth < t.MaxDepth && t.Inline(callee)
	if inl {
		n := 0
		for f := fr; f != nil; f = f.parent {
			if f.fn == callee {
				n++
			}
		}
		if n >= 2 {
			inl = false // recursion (H13: one re-entrance is followed: generic helpers such as locked(mu, fn) nest)
		}
	}
	if !inl {
		var res *Sym
		if v := valueOf(in); v != nil && !isDefer {
			res = &Sym{Kind: KOpaque, V: v, ID: t.id()}
		}
		if callee == nil && fnSym != nil && !c.IsInvoke() {
			t.emit(st, fr, Ev{Kind: "fnval", In: in, Args: []*Sym{fnSym}}) // H13
		}
		t.emit(st, fr, Ev{Kind: "call", In: in, Name: name, Callee: callee, Args: args, Res: res, Deferred: isDefer})
		if isDefer {
			kk(st, res)
			return true
		}
		if res != nil {
			st.env[envKey{fr.id, res.V}] = res
		}
		return false
	}
	nf := &frame{id: t.id(), fn: callee, depth: fr.depth + 1, parent: fr}
	for i, p := range callee.Params {
		if i < len(args) {
			st.env[envKey{nf.id, p}] = args[i]
		}
	}
	for i, fv := range callee.FreeVars {
		if i < len(bindings) {
			st.env[envKey{nf.id, fv}] = bindings[i]
		}
	}
	t.emit(st, fr, Ev{Kind: "enter", In: in, Name: name, Callee: callee, Args: args, Deferred: isDefer})
	t.block(st, nf, callee.Blocks[0], nil, true, func(st2 *tstate, res []*Sym) {
		var r *Sym
		switch len(res) {
		case 0:
		case 1:
			r = res[0]
		default:
			r = &Sym{Kind: KTuple, Args: res}
		}
		e := Ev{Kind: "exit", In: in, Name: name, Callee: callee, Args: res, Res: r, Deferred: isDefer}
		e.Fn = in.Parent()
		e.Frame, e.Depth = fr.id, fr.depth
		st2.evs = append(st2.evs, e)
		kk(st2, r)
	})
	return true
}

// appendSym models append(base, elems...): the elements of the implicit varargs array are enumerated; a spread
// slice is kept opaque.
func (t *H13Tracer) appendSym(st *tstate, args []*Sym) *Sym {
	if len(args) != 2 {
		return &Sym{Kind: KAppend, Args: args, Spread: true}
	}
	if args[1].IsNil() {
		return args[0]
	}
	sl := args[1]
	if sl.Kind == KPure && sl.Name == "slice" && len(sl.Args) == 3 && sl.Args[0] != nil && sl.Args[0].Kind == KAddr && sl.Args[1] == nil && sl.Args[2] == nil {
		prefix := sl.Args[0].Cell + "[c:"
		type el struct {
			i int64
			s *Sym
		}
		var els []el
		for k, v := range st.mem {
			if strings.HasPrefix(k, prefix) && strings.HasSuffix(k, "]") {
				if n, err := strconv.ParseInt(k[len(prefix):len(k)-1], 10, 64); err == nil {
					els = append(els, el{n, v})
				}
			}
		}
		if len(els) > 0 {
			sort.Slice(els, func(i, j int) bool { return els[i].i < els[j].i })
			out := &Sym{Kind: KAppend, Args: []*Sym{args[0]}}
			for _, e := range els {
				out.Args = append(out.Args, e.s)
			}
			return out
		}
	}
	return &Sym{Kind: KAppend, Args: args, Spread: true}
}

func (t *H13Tracer) runDefers(st *tstate, fr *frame, list []deferred, k func(st *tstate)) {
	if len(list) == 0 {
		k(st)
		return
	}
	d := list[len(list)-1]
	rest := list[:len(list)-1]
	t.invoke(st, fr, d.in, &d.in.Call, d.fn, d.args, true, func(st2 *tstate, _ *Sym) {
		t.runDefers(st2, fr, rest, k)
	})
}

func (t *H13Tracer) sel(st *tstate, fr *frame, x *ssa.Select, b *ssa.BasicBlock, i int, k tcont) {
	var states []SelState
	for _, s := range x.States {
		ss := SelState{Dir: s.Dir, Chan: t.val(st, fr, s.Chan), Pos: s.Pos}
		if s.Send != nil {
			ss.Send = t.val(st, fr, s.Send)
		}
		states = append(states, ss)
	}
	choices := make([]int, 0, len(states)+1)
	for j := range states {
		choices = append(choices, j)
	}
	if !x.Blocking {
		choices = append(choices, -1)
	}
	for _, ch := range choices {
		st2 := st.clone()
		tuple := &Sym{Kind: KTuple}
		tuple.Args = append(tuple.Args, constSym(constant.MakeInt64(int64(ch)), types.Typ[types.Int]))
		tuple.Args = append(tuple.Args, &Sym{Kind: KOpaque, V: x, ID: t.id(), Name: "recvOk"})
		sts := append([]SelState(nil), states...)
		for j, s := range x.States {
			if s.Dir != types.RecvOnly {
				continue
			}
			r := &Sym{Kind: KOpaque, V: x, ID: t.id(), Name: "recv" + strconv.Itoa(j)}
			if j == ch {
				sts[j].Recv = r
			}
			tuple.Args = append(tuple.Args, r)
		}
		st2.env[envKey{fr.id, x}] = tuple
		t.emit(st2, fr, Ev{Kind: "select", In: x, States: sts, Chosen: ch, Blocking: x.Blocking})
		t.instrs(st2, fr, b, i+1, k)
	}
}
