package an

import (
	"go/token"
	"go/types"
	"strings"

	"golang.org/x/tools/go/ssa"
)

// Extension of the E2 lockset for writes that the core analysis does not see as writes: a guarded map or
// slice handed to a function that mutates its argument in place (maps.DeleteFunc, maps.Copy, slices.Sort...,
// or an in-package helper that deletes from / assigns into the parameter). The core analysis counts the
// load of the field as a *read*; here the call site is decided as a *write* of the field.

// h1920LibMutators lists library functions that modify their first argument in place.
var h1920LibMutators = map[string]bool{
	"maps.DeleteFunc": true, "maps.Copy": true, "maps.Insert": true,
	"slices.Sort": true, "slices.SortFunc": true, "slices.SortStableFunc": true, "slices.Reverse": true,
}

// H1920MutatedParams returns, for every function of funcs, the indices of map/slice parameters that the
// function modifies in place (directly, through a library mutator, or by passing them on to another function
// of funcs that does) - a fixed point over the static call graph inside funcs.
func H1920MutatedParams(funcs []*ssa.Function) map[*ssa.Function]map[int]bool {
	out := map[*ssa.Function]map[int]bool{}
	inSet := map[*ssa.Function]bool{}
	for _, f := range funcs {
		inSet[f] = true
	}
	paramIdx := func(f *ssa.Function, v ssa.Value) int {
		v = Unwrap(v)
		for i, p := range f.Params {
			if ssa.Value(p) == v {
				return i
			}
		}
		return -1
	}
	mark := func(f *ssa.Function, i int) bool {
		if i < 0 {
			return false
		}
		if out[f] == nil {
			out[f] = map[int]bool{}
		}
		if out[f][i] {
			return false
		}
		out[f][i] = true
		return true
	}
	for round := 0; round < 6; round++ {
		changed := false
		for _, f := range funcs {
			for _, b := range f.Blocks {
				for _, in := range b.Instrs {
					switch x := in.(type) {
					case *ssa.MapUpdate:
						changed = mark(f, paramIdx(f, x.Map)) || changed
					case *ssa.Store:
						if ia, ok := x.Addr.(*ssa.IndexAddr); ok {
							changed = mark(f, paramIdx(f, ia.X)) || changed
						}
					case ssa.CallInstruction:
						cc := x.Common()
						if bi, ok := cc.Value.(*ssa.Builtin); ok && len(cc.Args) > 0 && (bi.Name() == "delete" || bi.Name() == "clear") {
							changed = mark(f, paramIdx(f, cc.Args[0])) || changed
							continue
						}
						callee := Orig(cc.StaticCallee())
						if callee == nil || cc.IsInvoke() {
							continue
						}
						if h1920LibMutators[FuncName(callee)] && len(cc.Args) > 0 {
							changed = mark(f, paramIdx(f, cc.Args[0])) || changed
						}
						if inSet[callee] {
							for i := range out[callee] {
								if i < len(cc.Args) {
									changed = mark(f, paramIdx(f, cc.Args[i])) || changed
								}
							}
						}
					}
				}
			}
		}
		if !changed {
			break
		}
	}
	return out
}

// h1920Held computes, by the same forward must-analysis as Lockset.analyse, the locks held immediately
// before every call instruction of fn.
func h1920Held(fn *ssa.Function) map[ssa.Instruction]held {
	res := map[ssa.Instruction]held{}
	if len(fn.Blocks) == 0 {
		return res
	}
	in := make([]held, len(fn.Blocks))
	out := make([]held, len(fn.Blocks))
	transfer := func(b *ssa.BasicBlock, h held, record bool) held {
		h = h.clone()
		for _, ins := range b.Instrs {
			if call, ok := ins.(*ssa.Call); ok {
				if record {
					res[ins] = h.clone()
				}
				if p, acq, m, isLock := lockOp(&call.Call); isLock {
					if acq {
						h[p] = m
					} else {
						delete(h, p)
					}
				}
			}
		}
		return h
	}
	work := []*ssa.BasicBlock{fn.Blocks[0]}
	in[0] = held{}
	visited := map[int]bool{}
	for len(work) > 0 {
		b := work[0]
		work = work[1:]
		o := transfer(b, in[b.Index], false)
		if visited[b.Index] && equalHeld(o, out[b.Index]) {
			continue
		}
		visited[b.Index] = true
		out[b.Index] = o
		for _, s := range b.Succs {
			var n held
			if in[s.Index] == nil {
				n = o.clone()
			} else {
				n = meet(in[s.Index], o)
			}
			if in[s.Index] == nil || !equalHeld(n, in[s.Index]) || !visited[s.Index] {
				in[s.Index] = n
				work = append(work, s)
			}
		}
	}
	for _, b := range fn.Blocks {
		if in[b.Index] != nil {
			transfer(b, in[b.Index], true)
		}
	}
	return res
}

// H1920IndirectWrites decides every call in funcs that hands a guarded field (the map / slice itself, not an
// element) to a function mutating that argument in place: the guarding mutex must be held for writing at the call.
func H1920IndirectWrites(funcs []*ssa.Function, table LockTable) []LockFinding {
	var outF []LockFinding
	mut := H1920MutatedParams(funcs)
	for _, fn := range funcs {
		var heldAt map[ssa.Instruction]held
		for _, b := range fn.Blocks {
			for _, ins := range b.Instrs {
				call, ok := ins.(*ssa.Call)
				if !ok || call.Call.IsInvoke() {
					continue
				}
				callee := Orig(call.Call.StaticCallee())
				if callee == nil {
					continue
				}
				var idxs []int
				if h1920LibMutators[FuncName(callee)] {
					idxs = []int{0}
				}
				for i := range mut[callee] {
					idxs = append(idxs, i)
				}
				for _, i := range idxs {
					if i >= len(call.Call.Args) {
						continue
					}
					key, base, isField := h1920FieldValue(call.Call.Args[i])
					if !isField {
						continue
					}
					mu, guarded := table[key]
					if !guarded {
						continue
					}
					if heldAt == nil {
						heldAt = h1920Held(fn)
					}
					lock := accessPath(base) + "." + mu
					f := LockFinding{Fn: fn, Instr: ins, Field: key, Write: true}
					what := "call to " + FuncName(callee) + ", which modifies its argument in place"
					switch m := heldAt[ins][lock]; {
					case strings.HasPrefix(rootOf(lock), "alloc:"):
						continue // object under construction
					case m == wr:
						f.OK, f.Detail = true, what+": holds "+lock
					case m == rd:
						f.Detail = what + ": write under read lock " + lock
					case strings.HasPrefix(rootOf(lock), "?"):
						f.Unsure, f.Detail = true, what+": cannot name the base object of the access ("+lock+")"
					default:
						f.Unsure, f.Detail = true, what+": "+lock+" is not taken in this function (callers are not followed for indirect writes)"
					}
					outF = append(outF, f)
				}
			}
		}
	}
	return outF
}

// h1920FieldValue: v is the value of a struct field itself (a load of the field), not one of its elements.
func h1920FieldValue(v ssa.Value) (key string, base ssa.Value, ok bool) {
	v = Unwrap(v)
	switch x := v.(type) {
	case *ssa.UnOp:
		if x.Op == token.MUL {
			if fa, isFA := x.X.(*ssa.FieldAddr); isFA {
				return FieldKey(fa.X.Type(), fa.Field), fa.X, true
			}
		}
	case *ssa.Field:
		return FieldKey(x.X.Type(), x.Field), x.X, true
	}
	return "", nil, false
}

var _ = types.Universe
