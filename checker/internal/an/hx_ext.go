package an

// Helpers added while hardening the cross-cutting rules (EP, TP, VS, GT, T7, T8, M7) against
// behaviour-preserving refactorings: success-return enumeration with phi pairing, in-repo callee
// resolution, function-value resolution, reaching stores of spilled locals.

import (
	"go/token"
	"go/types"
	"strings"

	"golang.org/x/tools/go/ssa"

	"charonverif/internal/load"
)

// InRepo reports whether fn is a function of the analysed module that has a body.
func InRepo(fn *ssa.Function) bool {
	if fn == nil || fn.Blocks == nil {
		return false
	}
	p := fn.Pkg
	if p == nil {
		if o := Orig(fn); o != nil {
			p = o.Pkg
		}
	}
	for f := fn; p == nil && f != nil; f = f.Parent() {
		p = f.Pkg
	}
	if p == nil || p.Pkg == nil {
		return false
	}
	path := p.Pkg.Path()
	return path == load.Mod || strings.HasPrefix(path, load.Mod+"/")
}

// StaticBody returns the static callee of a call when it is an in-repo function with a body
// (closures called directly included), looking through synthetic bound-method/thunk wrappers.
func StaticBody(c *ssa.CallCommon) *ssa.Function {
	if c.IsInvoke() {
		return nil
	}
	f := c.StaticCallee()
	if f == nil {
		if fs := FuncValues(c.Value); len(fs) == 1 {
			f = fs[0]
		}
	}
	if f == nil || !InRepo(f) {
		return nil
	}
	return f
}

// FuncValues resolves a function-typed value to the functions it can denote: a function, a
// closure, a bound method (the underlying method), through single-assignment locals and phis.
// An empty result means "unknown".
func FuncValues(v ssa.Value) []*ssa.Function {
	seen := map[ssa.Value]bool{}
	var out []*ssa.Function
	unknown := false
	var walk func(v ssa.Value, d int)
	walk = func(v ssa.Value, d int) {
		v = Resolve(v)
		if seen[v] || d > 8 {
			return
		}
		seen[v] = true
		switch x := v.(type) {
		case *ssa.Function:
			out = append(out, unwrapSynthetic(x))
		case *ssa.MakeClosure:
			if f, ok := x.Fn.(*ssa.Function); ok {
				out = append(out, unwrapSynthetic(f))
			} else {
				unknown = true
			}
		case *ssa.Phi:
			for _, e := range x.Edges {
				walk(e, d+1)
			}
		default:
			unknown = true
		}
	}
	walk(v, 0)
	if unknown {
		return nil
	}
	return out
}

// unwrapSynthetic maps a $bound / $thunk wrapper to the method it forwards to.
func unwrapSynthetic(f *ssa.Function) *ssa.Function {
	if f.Synthetic == "" || f.Blocks == nil {
		return f
	}
	var callee *ssa.Function
	n := 0
	for _, b := range f.Blocks {
		for _, in := range b.Instrs {
			if ci, ok := in.(ssa.CallInstruction); ok {
				n++
				callee = ci.Common().StaticCallee()
			}
		}
	}
	if n == 1 && callee != nil {
		return callee
	}
	return f
}

// ErrIndex returns the index of the last error-typed result of sig, or -1.
func ErrIndex(sig *types.Signature) int {
	idx := -1
	for i := 0; i < sig.Results().Len(); i++ {
		if isErrorType(sig.Results().At(i).Type()) {
			idx = i
		}
	}
	return idx
}

// SpillValue resolves a load of a local spill slot that precedes a return
// (`*slot = v; rundefers; t = *slot; return t`) to the value last stored on the straight-line
// path to the load; other values are returned unchanged.
func SpillValue(v ssa.Value) ssa.Value {
	ld, ok := v.(*ssa.UnOp)
	if !ok || ld.Op != token.MUL {
		return v
	}
	al, ok := ld.X.(*ssa.Alloc)
	if !ok {
		return v
	}
	if st := ReachingStores(ld, al); len(st) == 1 && st[0] != nil {
		return st[0].Val
	}
	return v
}

// ReachingStores returns the stores into alloc that can reach instruction at (walking the CFG
// backwards); a nil entry means that the function entry is reachable without any store.
func ReachingStores(at ssa.Instruction, al *ssa.Alloc) []*ssa.Store {
	var out []*ssa.Store
	sawNil := false
	seen := map[*ssa.BasicBlock]bool{}
	add := func(s *ssa.Store) {
		for _, o := range out {
			if o == s {
				return
			}
		}
		out = append(out, s)
	}
	var walk func(b *ssa.BasicBlock, from int)
	walk = func(b *ssa.BasicBlock, from int) {
		for i := from; i >= 0; i-- {
			if st, ok := b.Instrs[i].(*ssa.Store); ok && st.Addr == ssa.Value(al) {
				add(st)
				return
			}
			if b.Instrs[i] == ssa.Instruction(al) {
				sawNil = true
				return
			}
		}
		if len(b.Preds) == 0 {
			sawNil = true
			return
		}
		for _, p := range b.Preds {
			if seen[p] {
				continue
			}
			seen[p] = true
			walk(p, len(p.Instrs)-1)
		}
	}
	walk(at.Block(), index(at)-1)
	if sawNil {
		out = append(out, nil)
	}
	return out
}

// RetCase is one way a function can return: the result values with the phis of the return
// block resolved edge by edge (so that a value and its error stay paired), and the block on
// whose exit the case is decided.
type RetCase struct {
	Ret  *ssa.Return
	Vals []ssa.Value
	At   *ssa.BasicBlock
	Into *ssa.BasicBlock // when the case was selected by a phi: the phi's block (the case is the edge At→Into)
}

// ReturnCases enumerates the return cases of fn (spill slots of functions with defer resolved).
func ReturnCases(fn *ssa.Function) []RetCase {
	var out []RetCase
	for _, r := range Returns(fn) {
		if fn.Recover != nil && r.Block() == fn.Recover {
			continue // only reached after a recovered panic: yields whatever the result slots hold
		}
		vals := make([]ssa.Value, len(r.Results))
		for i, v := range r.Results {
			vals[i] = SpillValue(v)
		}
		expandCase(r, vals, r.Block(), nil, 0, &out)
	}
	return out
}

func expandCase(r *ssa.Return, vals []ssa.Value, at, into *ssa.BasicBlock, depth int, out *[]RetCase) {
	if len(*out) > 256 {
		return
	}
	hasPhi := func(b *ssa.BasicBlock) bool {
		for _, v := range vals {
			if p, ok := v.(*ssa.Phi); ok && p.Block() == b {
				return true
			}
		}
		return false
	}
	b := at
	for i := 0; i < 8 && !hasPhi(b) && len(b.Preds) == 1; i++ {
		// a phi can only be selected by the edge entering its own block: walk up single-entry chains
		anyPhi := false
		for _, v := range vals {
			if _, ok := v.(*ssa.Phi); ok {
				anyPhi = true
			}
		}
		if !anyPhi {
			break
		}
		b = b.Preds[0]
	}
	if !hasPhi(b) || depth > 4 {
		*out = append(*out, RetCase{Ret: r, Vals: vals, At: at, Into: into})
		return
	}
	for i, pred := range b.Preds {
		nv := make([]ssa.Value, len(vals))
		for j, v := range vals {
			nv[j] = v
			if p, ok := v.(*ssa.Phi); ok && p.Block() == b {
				nv[j] = SpillValue(p.Edges[i])
			}
		}
		expandCase(r, nv, pred, b, depth+1, out)
	}
}

// errConstructors never return nil.
func isErrConstructor(c *ssa.CallCommon) bool {
	n := CalleeName(c)
	switch n {
	case "app/errors.New", "app/errors.Wrap", "app/errors.SkipWrap", "app/errors.NewSentinel",
		"errors.New", "fmt.Errorf", "errors.Join":
		return true
	}
	return false
}

// ErrFailsAt reports whether error value e is known to be non-nil when control leaves block at:
// it is built by an error constructor, or at is confined to the non-nil edge of a nil test of e.
func ErrFailsAt(e ssa.Value, at *ssa.BasicBlock) bool { return ErrFailsOn(e, at, nil) }

// ErrFailsOn is ErrFailsAt for the edge at→into (into may be nil): the edge itself may be the non-nil edge
// of the nil test that ends block at.
func ErrFailsOn(e ssa.Value, at, into *ssa.BasicBlock) bool {
	if e == nil {
		return false
	}
	e0 := e
	if _, ok := e0.(*ssa.MakeInterface); ok {
		return true // a concrete error value boxed on the spot
	}
	e = Resolve(e)
	if IsNilConst(e) {
		return false
	}
	if x, ok := e.(*ssa.Call); ok && isErrConstructor(&x.Call) {
		return true
	}
	fn := at.Parent()
	for _, v := range []ssa.Value{e0, e} {
		for _, cd := range CondsOn(fn, v) {
			if cd.Other == nil || !IsNilConst(cd.Other) || (cd.Op != token.EQL && cd.Op != token.NEQ) {
				continue
			}
			nonNil := cd.Succ(cd.Op != token.EQL)
			isNil := cd.Succ(cd.Op == token.EQL)
			if nonNil == isNil {
				continue
			}
			if EdgeConfines(cd.If.Block(), nonNil, at) {
				return true
			}
			if into != nil && cd.If.Block() == at && nonNil == into {
				return true
			}
		}
	}
	return false
}

// ErrNilAt reports whether error value e is known to be nil when control leaves block at.
func ErrNilAt(e ssa.Value, at *ssa.BasicBlock) bool {
	if e == nil {
		return true
	}
	e0 := e
	e = Resolve(e)
	if IsNilConst(e) {
		return true
	}
	fn := at.Parent()
	for _, v := range []ssa.Value{e0, e} {
		for _, cd := range CondsOn(fn, v) {
			if cd.Other == nil || !IsNilConst(cd.Other) || (cd.Op != token.EQL && cd.Op != token.NEQ) {
				continue
			}
			nonNil := cd.Succ(cd.Op != token.EQL)
			isNil := cd.Succ(cd.Op == token.EQL)
			if nonNil != isNil && EdgeConfines(cd.If.Block(), isNil, at) {
				return true
			}
		}
	}
	return false
}

// EdgeConfines reports whether block at can only be executed after taking the edge from→succ:
// succ is entered only through that edge (apart from back edges from blocks it dominates) and
// dominates at.
func EdgeConfines(from, succ, at *ssa.BasicBlock) bool {
	if succ != at && !succ.Dominates(at) {
		return false
	}
	for _, p := range succ.Preds {
		if p == from {
			continue
		}
		if !succ.Dominates(p) {
			return false
		}
	}
	// both successors of `from` being succ (degenerate branch) confines nothing
	n := 0
	for _, s := range from.Succs {
		if s == succ {
			n++
		}
	}
	return n == 1
}

// SuccessCases returns the return cases of fn that can be a successful return: functions
// without an error result succeed on every return; otherwise the error result must not be known
// to be non-nil. tail reports the (value, error) tail-call form `return g(...)`.
func SuccessCases(fn *ssa.Function) []RetCase {
	ei := ErrIndex(fn.Signature)
	var out []RetCase
	for _, rc := range ReturnCases(fn) {
		if ei >= 0 && ei < len(rc.Vals) && ErrFailsOn(rc.Vals[ei], rc.At, rc.Into) {
			continue
		}
		out = append(out, rc)
	}
	return out
}

// ClosureBinding returns the value bound to free variable fv where its closure is created
// (the spilled variable's alloc for captured variables), or nil.
func ClosureBinding(fv *ssa.FreeVar) ssa.Value {
	cl := fv.Parent()
	par := cl.Parent()
	if par == nil {
		return nil
	}
	idx := -1
	for i, f := range cl.FreeVars {
		if f == fv {
			idx = i
		}
	}
	if idx < 0 {
		return nil
	}
	for _, in := range Instrs(par, false) {
		if mc, ok := in.(*ssa.MakeClosure); ok && mc.Fn == ssa.Value(cl) && idx < len(mc.Bindings) {
			return mc.Bindings[idx]
		}
	}
	return nil
}

// StoresTo returns the values stored directly into alloc anywhere in its function and the
// function literals nested in it (captured variables are written through free variables).
func StoresTo(al *ssa.Alloc) []*ssa.Store {
	var out []*ssa.Store
	for _, ref := range *al.Referrers() {
		if st, ok := ref.(*ssa.Store); ok && st.Addr == ssa.Value(al) {
			out = append(out, st)
		}
	}
	var visit func(fn *ssa.Function, target ssa.Value)
	visit = func(fn *ssa.Function, target ssa.Value) {
		for _, in := range Instrs(fn, false) {
			mc, ok := in.(*ssa.MakeClosure)
			if !ok {
				continue
			}
			cl, ok := mc.Fn.(*ssa.Function)
			if !ok {
				continue
			}
			for i, b := range mc.Bindings {
				if b != target || i >= len(cl.FreeVars) {
					continue
				}
				fv := cl.FreeVars[i]
				for _, ref := range *fv.Referrers() {
					if st, ok := ref.(*ssa.Store); ok && st.Addr == ssa.Value(fv) {
						out = append(out, st)
					}
				}
				visit(cl, fv)
			}
		}
	}
	visit(al.Parent(), al)
	return out
}

// ParamIndex returns the index of p among its function's parameters (-1 if absent).
func ParamIndex(p *ssa.Parameter) int {
	for i, q := range p.Parent().Params {
		if q == p {
			return i
		}
	}
	return -1
}

// IsReceiver reports whether p is the receiver parameter of a method.
func IsReceiver(p *ssa.Parameter) bool {
	fn := p.Parent()
	return fn.Signature.Recv() != nil && len(fn.Params) > 0 && fn.Params[0] == p
}

// EquivX extends Equiv to element reads: loads of the same slice/array/map element (same base, equivalent
// index), so that `values[i]` read twice in an index loop denotes one value.
func EquivX(a, b ssa.Value) bool { return equivX(a, b, 0) }

func equivX(a, b ssa.Value, d int) bool {
	a, b = Resolve(a), Resolve(b)
	if a == b || equiv(a, b, 0) {
		return true
	}
	if d > 6 {
		return false
	}
	switch x := a.(type) {
	case *ssa.UnOp:
		y, ok := b.(*ssa.UnOp)
		return ok && x.Op == y.Op && equivX(x.X, y.X, d+1)
	case *ssa.IndexAddr:
		y, ok := b.(*ssa.IndexAddr)
		return ok && equivX(x.X, y.X, d+1) && equivX(x.Index, y.Index, d+1)
	case *ssa.Index:
		y, ok := b.(*ssa.Index)
		return ok && equivX(x.X, y.X, d+1) && equivX(x.Index, y.Index, d+1)
	case *ssa.Lookup:
		y, ok := b.(*ssa.Lookup)
		return ok && x.CommaOk == y.CommaOk && equivX(x.X, y.X, d+1) && equivX(x.Index, y.Index, d+1)
	case *ssa.FieldAddr:
		y, ok := b.(*ssa.FieldAddr)
		return ok && x.Field == y.Field && equivX(x.X, y.X, d+1)
	case *ssa.Field:
		y, ok := b.(*ssa.Field)
		return ok && x.Field == y.Field && equivX(x.X, y.X, d+1)
	case *ssa.Extract:
		y, ok := b.(*ssa.Extract)
		return ok && x.Index == y.Index && equivX(x.Tuple, y.Tuple, d+1)
	case *ssa.TypeAssert:
		y, ok := b.(*ssa.TypeAssert)
		return ok && types.Identical(x.AssertedType, y.AssertedType) && equivX(x.X, y.X, d+1)
	}
	return false
}

// PkgFuncsAll is PkgFuncs plus the methods of generic named types (which have no method-set
// entry in go/ssa until instantiated) in their generic form, and their function literals.
func PkgFuncsAll(pkg *ssa.Package) []*ssa.Function {
	out := PkgFuncs(pkg)
	seen := map[*ssa.Function]bool{}
	for _, f := range out {
		seen[f] = true
	}
	for _, m := range pkg.Members {
		t, ok := m.(*ssa.Type)
		if !ok {
			continue
		}
		named, ok := t.Type().(*types.Named)
		if !ok || named.TypeParams().Len() == 0 {
			continue
		}
		for i := 0; i < named.NumMethods(); i++ {
			f := pkg.Prog.FuncValue(named.Method(i))
			if f == nil || f.Blocks == nil {
				continue
			}
			for _, g := range Closure(f) {
				if !seen[g] {
					seen[g] = true
					out = append(out, g)
				}
			}
		}
	}
	return out
}
