package an

import (
	"go/constant"
	"go/token"

	"golang.org/x/tools/go/ssa"
)

// C05LoopLeavesOnlyAtHeader complements ForallGuard: ForallGuard proves that an iteration cannot
// reach the latch around the guard, but an iteration that leaves the loop early (`break`, `goto`)
// reaches the code after the loop without passing a latch. This reports the first block of the
// loop other than the header with an edge out of the loop from which sink is reachable
// (nil if the loop can only be left towards sink by exhausting the collection at the header).
func C05LoopLeavesOnlyAtHeader(l *Loop, sink ssa.Instruction) *ssa.BasicBlock {
	for _, b := range l.Header.Parent().Blocks {
		if !l.Body[b] || b == l.Header {
			continue
		}
		for _, s := range b.Succs {
			if !l.Body[s] && blockReaches(s, sink, nil) {
				return b
			}
		}
	}
	return nil
}

// C05Env assigns a known constant to some SSA values (e.g. "the status returned by this call is
// DeadlineExpired", "this lookup's ok is false").
type C05Env func(v ssa.Value) (constant.Value, bool)

// C05Eval evaluates a condition built from negations and comparisons of env-known values and
// constants. ok is false when the condition does not depend only on known values.
func C05Eval(v ssa.Value, env C05Env) (constant.Value, bool) {
	return c05eval(v, env, 0)
}

func c05eval(v ssa.Value, env C05Env, d int) (constant.Value, bool) {
	if d > 8 {
		return nil, false
	}
	if k, ok := env(v); ok {
		return k, true
	}
	switch x := v.(type) {
	case *ssa.Const:
		if x.Value != nil {
			return x.Value, true
		}
	case *ssa.ChangeType:
		return c05eval(x.X, env, d+1)
	case *ssa.UnOp:
		if x.Op == token.NOT {
			if b, ok := c05eval(x.X, env, d+1); ok && b.Kind() == constant.Bool {
				return constant.MakeBool(!constant.BoolVal(b)), true
			}
		}
	case *ssa.BinOp:
		switch x.Op {
		case token.EQL, token.NEQ, token.LSS, token.LEQ, token.GTR, token.GEQ:
			l, ok1 := c05eval(x.X, env, d+1)
			r, ok2 := c05eval(x.Y, env, d+1)
			if ok1 && ok2 && l.Kind() == r.Kind() && l.Kind() != constant.Unknown {
				if l.Kind() == constant.Bool && x.Op != token.EQL && x.Op != token.NEQ {
					return nil, false
				}
				return constant.MakeBool(constant.Compare(l, x.Op, r)), true
			}
		}
	}
	return nil, false
}

// C05ReachUnder reports whether control can flow from just after instruction from to sink when
// every branch whose condition is decided by env takes only the decided successor (all other
// branches take both). The block of from is not re-entered (a second execution of from would
// produce a new value).
func C05ReachUnder(from, sink ssa.Instruction, env C05Env) bool {
	if from.Block() == sink.Block() && index(from) < index(sink) {
		return true
	}
	next := func(b *ssa.BasicBlock) []*ssa.BasicBlock {
		if len(b.Instrs) > 0 {
			if iff, ok := b.Instrs[len(b.Instrs)-1].(*ssa.If); ok {
				if k, ok := C05Eval(iff.Cond, env); ok && k.Kind() == constant.Bool {
					if constant.BoolVal(k) {
						return b.Succs[:1]
					}
					return b.Succs[1:2]
				}
			}
		}
		return b.Succs
	}
	seen := map[*ssa.BasicBlock]bool{from.Block(): true}
	work := append([]*ssa.BasicBlock{}, next(from.Block())...)
	for len(work) > 0 {
		b := work[len(work)-1]
		work = work[:len(work)-1]
		if seen[b] {
			continue
		}
		seen[b] = true
		if b == sink.Block() {
			return true
		}
		work = append(work, next(b)...)
	}
	return false
}

// C05MayPrecede reports whether instruction a can execute before instruction b on some path.
func C05MayPrecede(a, b ssa.Instruction) bool {
	if a.Parent() != b.Parent() {
		return false
	}
	if a.Block() == b.Block() && index(a) < index(b) {
		return true
	}
	for _, s := range a.Block().Succs {
		if s == b.Block() || CanReach(s, b.Block(), nil) {
			return true
		}
	}
	return false
}
