package an

// Helpers added while hardening C07 against behaviour-preserving refactorings: edge dominance,
// a condition evaluator that also understands lower bounds on len(x), path searches with
// feasibility pruning, loop collections in every spelling, and a small in-package call index
// (static callers, address-taken functions, transitive may-call) for following helper extraction.

import (
	"fmt"
	"go/constant"
	"go/token"
	"sort"
	"strings"

	"golang.org/x/tools/go/ssa"
)

// H07EdgeDominates reports whether every path from the function entry to block target runs over
// the CFG edge from → from.Succs[succ] (and target is reachable over it). Unlike
// `from.Succs[succ].Dominates(target)` it is exact when the successor has other predecessors
// (`if a || b`, merged returns).
func H07EdgeDominates(from *ssa.BasicBlock, succ int, target *ssa.BasicBlock) bool {
	fn := from.Parent()
	if len(fn.Blocks) == 0 || succ >= len(from.Succs) {
		return false
	}
	seen := map[*ssa.BasicBlock]bool{}
	var walk func(b *ssa.BasicBlock)
	walk = func(b *ssa.BasicBlock) {
		if seen[b] {
			return
		}
		seen[b] = true
		for i, s := range b.Succs {
			if b == from && i == succ {
				continue
			}
			walk(s)
		}
	}
	walk(fn.Blocks[0])
	if seen[target] {
		return false
	}
	to := from.Succs[succ]
	return to == target || CanReach(to, target, nil)
}

// H07SuccIndex returns the index of successor s of block b (-1 if absent or if both successors are s).
func H07SuccIndex(b, s *ssa.BasicBlock) int {
	idx := -1
	for i, x := range b.Succs {
		if x == s {
			if idx >= 0 {
				return -1
			}
			idx = i
		}
	}
	return idx
}

// H07CondEdgeDominates: the edge of branch cd taken when the base comparison has the given truth
// dominates (edge-wise) the target block.
func H07CondEdgeDominates(cd Cond, base bool, target *ssa.BasicBlock) bool {
	b := cd.If.Block()
	i := H07SuccIndex(b, cd.Succ(base))
	return i >= 0 && H07EdgeDominates(b, i, target)
}

// H07IsLen returns x when v is `len(x)`.
func H07IsLen(v ssa.Value) ssa.Value {
	call, ok := Resolve(v).(*ssa.Call)
	if !ok {
		return nil
	}
	if b, ok := call.Call.Value.(*ssa.Builtin); ok && b.Name() == "len" && len(call.Call.Args) == 1 {
		return call.Call.Args[0]
	}
	return nil
}

// H07Lens returns every `len(x)` call of fn whose operand is v (same SSA value after Resolve, or Equiv).
func H07Lens(fn *ssa.Function, v ssa.Value) []ssa.Value {
	var out []ssa.Value
	rv := Resolve(v)
	for _, in := range Instrs(fn, false) {
		call, ok := in.(*ssa.Call)
		if !ok {
			continue
		}
		if x := H07IsLen(call); x != nil && (Resolve(x) == rv || Equiv(x, v)) {
			out = append(out, call)
		}
	}
	return out
}

// H07Env is what a path search may assume: exact constants for some values and lower bounds for
// the length of some collections.
type H07Env struct {
	Known  func(v ssa.Value) (constant.Value, bool)
	LenMin func(x ssa.Value) (int64, bool)
}

// Eval evaluates a branch condition under the environment. known is false when the condition is
// not decided by it. Calls of pure single-expression predicates (`func overCap(n int) bool { return n > max }`)
// are evaluated with their arguments substituted.
func (e H07Env) Eval(v ssa.Value) (val, known bool) { return e.eval(v, nil, 0) }

func (e H07Env) eval(v ssa.Value, subst map[*ssa.Parameter]ssa.Value, d int) (bool, bool) {
	if d > 8 {
		return false, false
	}
	arg := func(x ssa.Value) ssa.Value { // a parameter of an inlined predicate stands for its argument
		x = Resolve(x)
		if p, ok := x.(*ssa.Parameter); ok && subst[p] != nil {
			return Resolve(subst[p])
		}
		return x
	}
	v = arg(v)
	if e.Known != nil {
		if k, ok := C05Eval(v, C05Env(e.Known)); ok && k.Kind() == constant.Bool {
			return constant.BoolVal(k), true
		}
	} else if k, ok := v.(*ssa.Const); ok && k.Value != nil && k.Value.Kind() == constant.Bool {
		return constant.BoolVal(k.Value), true
	}
	switch x := v.(type) {
	case *ssa.UnOp:
		if x.Op == token.NOT {
			b, ok := e.eval(x.X, subst, d+1)
			return !b, ok
		}
	case *ssa.Call:
		f := x.Call.StaticCallee()
		if f == nil || len(f.Blocks) != 1 || len(subst) > 0 {
			return false, false
		}
		ret, ok := f.Blocks[0].Instrs[len(f.Blocks[0].Instrs)-1].(*ssa.Return)
		if !ok || len(ret.Results) != 1 || len(f.Params) != len(x.Call.Args) {
			return false, false
		}
		for _, in := range f.Blocks[0].Instrs { // pure: no calls but len, no stores
			switch y := in.(type) {
			case *ssa.Call:
				if H07IsLen(y) == nil {
					return false, false
				}
			case *ssa.Store, *ssa.MapUpdate, *ssa.Send, *ssa.Go, *ssa.Defer:
				return false, false
			}
		}
		s := map[*ssa.Parameter]ssa.Value{}
		for i, p := range f.Params {
			s[p] = x.Call.Args[i]
		}
		return e.eval(ret.Results[0], s, d+1)
	case *ssa.BinOp:
		if e.LenMin == nil {
			return false, false
		}
		op := x.Op
		l, c := arg(x.X), arg(x.Y)
		lx := H07IsLen(l)
		if lx == nil {
			lx, c, op = H07IsLen(c), l, flip(op)
		}
		if lx == nil {
			return false, false
		}
		m, ok := e.LenMin(arg(lx))
		if !ok {
			return false, false
		}
		k, ok := ConstInt(c)
		if !ok {
			return false, false
		}
		switch op { // len OP k, knowing len >= m
		case token.EQL:
			if k < m {
				return false, true
			}
		case token.NEQ:
			if k < m {
				return true, true
			}
		case token.LSS:
			if k <= m {
				return false, true
			}
		case token.LEQ:
			if k < m {
				return false, true
			}
		case token.GTR:
			if k < m {
				return true, true
			}
		case token.GEQ:
			if k <= m {
				return true, true
			}
		}
	}
	return false, false
}

// Prune turns the environment into an edge filter for path searches: an edge is infeasible when the
// branch condition is decided the other way.
func (e H07Env) Prune() func(b *ssa.BasicBlock, succ int) bool {
	return func(b *ssa.BasicBlock, succ int) bool {
		if len(b.Instrs) == 0 {
			return false
		}
		iff, ok := b.Instrs[len(b.Instrs)-1].(*ssa.If)
		if !ok {
			return false
		}
		val, known := e.Eval(iff.Cond)
		if !known {
			return false
		}
		if val {
			return succ == 1
		}
		return succ == 0
	}
}

// H07OrPrune combines edge filters.
func H07OrPrune(ps ...func(b *ssa.BasicBlock, succ int) bool) func(b *ssa.BasicBlock, succ int) bool {
	return func(b *ssa.BasicBlock, succ int) bool {
		for _, p := range ps {
			if p != nil && p(b, succ) {
				return true
			}
		}
		return false
	}
}

// H07Path searches a CFG path from just after instruction from (from the function entry when from
// is nil) to instruction to (to any return when to is nil) on which no instruction satisfies
// effect. Edges for which prune returns true are not taken; stopAt (optional) treats entering a
// block as reaching the goal (e.g. the loop header of the next iteration). Panics are not goals.
// The search is path-sensitive for boolean flag variables: the constant a phi receives over the edge
// taken is remembered and decides later branches on that phi (`found = true; break` ... `if found`).
func H07Path(fn *ssa.Function, from, to ssa.Instruction, effect func(ssa.Instruction) bool,
	prune func(b *ssa.BasicBlock, succ int) bool, stopAt func(b *ssa.BasicBlock) bool) ([]*ssa.BasicBlock, bool) {
	if len(fn.Blocks) == 0 {
		return nil, false
	}
	start, idx := fn.Blocks[0], 0
	if from != nil {
		start, idx = from.Block(), index(from)+1
	}
	s := &h07search{to: to, effect: effect, prune: prune, stopAt: stopAt, seen: map[string]bool{}}
	ok := s.walk(start, idx, h07flags{})
	return s.path, ok
}

// H07PathFromEdge is H07Path starting with the CFG edge pred → pred.Succs[succ] taken.
func H07PathFromEdge(pred *ssa.BasicBlock, succ int, to ssa.Instruction, effect func(ssa.Instruction) bool,
	prune func(b *ssa.BasicBlock, succ int) bool) ([]*ssa.BasicBlock, bool) {
	if succ >= len(pred.Succs) {
		return nil, false
	}
	s := &h07search{to: to, effect: effect, prune: prune, seen: map[string]bool{}}
	s.path = append(s.path, pred)
	ok := s.walk(pred.Succs[succ], 0, h07flags{}.over(pred, succ))
	return s.path, ok
}

// h07flags: flag variables (phis over boolean or integer/enum constants) with the constant they hold on the
// current path.
type h07flags map[*ssa.Phi]constant.Value

func h07flagConst(v ssa.Value) (constant.Value, bool) {
	c, ok := v.(*ssa.Const)
	if !ok || c.Value == nil {
		return nil, false
	}
	switch c.Value.Kind() {
	case constant.Bool, constant.Int:
		return c.Value, true
	}
	return nil, false
}

// over returns the flags after taking edge b → b.Succs[succ].
func (f h07flags) over(b *ssa.BasicBlock, succ int) h07flags {
	s := b.Succs[succ]
	// which predecessor slot of s does this edge fill (b may precede s twice)
	nth := 0
	for i := 0; i < succ; i++ {
		if b.Succs[i] == s {
			nth++
		}
	}
	slot := -1
	for i, p := range s.Preds {
		if p == b {
			if nth == 0 {
				slot = i
				break
			}
			nth--
		}
	}
	out := h07flags{}
	for k, v := range f {
		out[k] = v
	}
	if slot < 0 {
		return out
	}
	type upd struct {
		p  *ssa.Phi
		v  constant.Value
		ok bool
	}
	var ups []upd
	for _, in := range s.Instrs {
		p, isPhi := in.(*ssa.Phi)
		if !isPhi {
			break
		}
		if slot >= len(p.Edges) {
			continue
		}
		u := upd{p: p}
		switch e := p.Edges[slot].(type) {
		case *ssa.Const:
			u.v, u.ok = h07flagConst(e)
		case *ssa.Phi:
			u.v, u.ok = f[e]
		}
		ups = append(ups, u)
	}
	for _, u := range ups {
		if u.ok {
			out[u.p] = u.v
		} else {
			delete(out, u.p)
		}
	}
	return out
}

// H07FlagCond decodes a branch condition over a flag variable: `flag`, `!flag`, `flag == K`, `flag != K`
// (K a boolean or integer constant, in any nesting of negations). want is the constant the flag must equal
// for the condition to be true when eq is true (must differ from it when eq is false).
func H07FlagCond(cond ssa.Value) (p *ssa.Phi, want constant.Value, eq bool, ok bool) {
	eq = true
	for i := 0; i < 6; i++ {
		switch x := cond.(type) {
		case *ssa.UnOp:
			if x.Op != token.NOT {
				return nil, nil, false, false
			}
			cond, eq = x.X, !eq
			continue
		case *ssa.BinOp:
			if x.Op != token.EQL && x.Op != token.NEQ {
				return nil, nil, false, false
			}
			v, k := x.X, x.Y
			if _, isC := v.(*ssa.Const); isC {
				v, k = x.Y, x.X
			}
			c, isC := h07flagConst(k)
			if !isC {
				return nil, nil, false, false
			}
			if x.Op == token.NEQ {
				eq = !eq
			}
			if c.Kind() == constant.Bool {
				// b == true / b == false: keep decoding b (it may be negated again)
				if !constant.BoolVal(c) {
					eq = !eq
				}
				cond = v
				continue
			}
			ph, isPhi := v.(*ssa.Phi)
			if !isPhi {
				return nil, nil, false, false
			}
			return ph, c, eq, true
		case *ssa.Phi:
			return x, constant.MakeBool(true), eq, true
		}
		break
	}
	return nil, nil, false, false
}

// decides: the branch ending b is decided by a flag; returns the only feasible successor index.
func (f h07flags) decides(b *ssa.BasicBlock) (int, bool) {
	if len(b.Instrs) == 0 || len(f) == 0 {
		return 0, false
	}
	iff, ok := b.Instrs[len(b.Instrs)-1].(*ssa.If)
	if !ok {
		return 0, false
	}
	p, want, eq, ok := H07FlagCond(iff.Cond)
	if !ok {
		return 0, false
	}
	v, known := f[p]
	if !known || v.Kind() != want.Kind() {
		return 0, false
	}
	if constant.Compare(v, token.EQL, want) == eq {
		return 0, true
	}
	return 1, true
}

func (f h07flags) sig() string {
	if len(f) == 0 {
		return ""
	}
	var parts []string
	for p, v := range f {
		parts = append(parts, fmt.Sprintf("%s=%v", p.Name(), v))
	}
	sort.Strings(parts)
	return strings.Join(parts, ",")
}

// H07PathVia searches a path from the function entry through instruction via to a return on which, after
// via, no instruction satisfies effect; prune applies to the part after via only. Flag variables are
// followed from the entry, so the value a flag has when via executes for the first time is known.
func H07PathVia(fn *ssa.Function, via ssa.Instruction, effect func(ssa.Instruction) bool,
	prune func(b *ssa.BasicBlock, succ int) bool) ([]*ssa.BasicBlock, bool) {
	if len(fn.Blocks) == 0 {
		return nil, false
	}
	s := &h07search{via: via, effect: effect, prune: prune, seen: map[string]bool{}}
	ok := s.walk(fn.Blocks[0], 0, h07flags{})
	return s.path, ok
}

type h07search struct {
	via    ssa.Instruction // when set: effect, prune and the goal count only after this instruction was passed
	passed bool
	to     ssa.Instruction
	effect func(ssa.Instruction) bool
	prune  func(b *ssa.BasicBlock, succ int) bool
	stopAt func(b *ssa.BasicBlock) bool
	seen   map[string]bool
	path   []*ssa.BasicBlock
}

func (s *h07search) walk(b *ssa.BasicBlock, i0 int, f h07flags) bool {
	s.path = append(s.path, b)
	was := s.passed
	active := func() bool { return s.via == nil || s.passed }
	for i := i0; i < len(b.Instrs); i++ {
		in := b.Instrs[i]
		if s.via != nil && in == s.via {
			s.passed = true
			continue
		}
		if s.to != nil && in == s.to && active() {
			return true
		}
		if s.effect != nil && active() && s.effect(in) {
			s.path = s.path[:len(s.path)-1]
			s.passed = was
			return false
		}
		if _, ok := in.(*ssa.Return); ok && s.to == nil {
			if active() {
				return true
			}
			s.path = s.path[:len(s.path)-1]
			s.passed = was
			return false
		}
	}
	defer func() { s.passed = was }()
	only, decided := f.decides(b)
	for i, nx := range b.Succs {
		if decided && i != only {
			continue
		}
		if s.prune != nil && active() && s.prune(b, i) {
			continue
		}
		if s.stopAt != nil && s.stopAt(nx) {
			s.path = append(s.path, nx)
			return true
		}
		nf := f.over(b, i)
		key := fmt.Sprintf("%d|%v|%s", nx.Index, s.passed, nf.sig())
		if s.seen[key] {
			continue
		}
		s.seen[key] = true
		if s.walk(nx, 0, nf) {
			return true
		}
	}
	s.path = s.path[:len(s.path)-1]
	return false
}

// H07ForallGuard is ForallGuard with feasibility: the branch guard lies in loop l and dominates every
// latch, sink lies outside the loop and is dominated by its header, no feasible path leads from the
// failing edge (guard block → failSucc) to sink, and no feasible path leads to sink from an edge that
// leaves the loop elsewhere than at its header. Flag variables are followed (`found = true; break`).
func H07ForallGuard(l *Loop, guard *ssa.If, failSucc *ssa.BasicBlock, sink ssa.Instruction) (bool, string) {
	gb := guard.Block()
	if !l.Body[gb] {
		return false, "guard is not inside the loop"
	}
	for _, la := range l.Latches {
		if !gb.Dominates(la) {
			return false, "an iteration can reach the loop latch without passing the guard"
		}
	}
	if l.Body[sink.Block()] {
		return false, "sink is inside the loop"
	}
	if !l.Header.Dominates(sink.Block()) {
		return false, "loop does not dominate the sink"
	}
	fi := H07SuccIndex(gb, failSucc)
	if fi < 0 {
		return false, "both edges of the guard lead to the same block"
	}
	if _, reach := H07PathFromEdge(gb, fi, sink, nil, nil); reach {
		return false, "failing edge of the guard can still reach the sink"
	}
	for _, b := range l.Header.Parent().Blocks {
		if !l.Body[b] || b == l.Header {
			continue
		}
		for i, s := range b.Succs {
			if l.Body[s] || (b == gb && i == fi) {
				continue
			}
			if _, reach := H07PathFromEdge(b, i, sink, nil, nil); reach {
				return false, "the loop can be left early (break) towards the sink before every element passed the guard"
			}
		}
	}
	return true, "every element passes the guard before the sink"
}

// H07LoopColl is Loop.RangeColl for every spelling of the bound test of an index loop
// (`i < len(x)`, `len(x) > i`, a length taken once before the loop), for the downward loop
// `for i := len(x)-1; i >= 0; i--` and for range loops.
func H07LoopColl(l *Loop) ssa.Value {
	if c := l.RangeColl(); c != nil {
		return c
	}
	for _, in := range l.Header.Instrs {
		iff, ok := in.(*ssa.If)
		if !ok {
			continue
		}
		bin, ok := iff.Cond.(*ssa.BinOp)
		if !ok {
			continue
		}
		iv, bound, op := bin.X, bin.Y, bin.Op
		if H07IsLen(bound) == nil && H07IsLen(iv) != nil {
			iv, bound, op = bin.Y, bin.X, flip(op)
		}
		if x := H07IsLen(bound); x != nil && op == token.LSS && l.isIndexVar(iv) {
			return x
		}
		// downward: iv >= 0 (or iv > -1) with iv = phi(len(x)-1, iv-1)
		iv, bound, op = bin.X, bin.Y, bin.Op
		if _, isC := ConstInt(iv); isC {
			iv, bound, op = bin.Y, bin.X, flip(op)
		}
		k, isC := ConstInt(bound)
		if !isC || !((op == token.GEQ && k == 0) || (op == token.GTR && k == -1)) {
			continue
		}
		phi, ok := Unwrap(iv).(*ssa.Phi)
		if !ok || phi.Block() != l.Header || len(phi.Edges) != 2 {
			continue
		}
		var coll ssa.Value
		steps := 0
		for i, e := range phi.Edges {
			sub, ok := e.(*ssa.BinOp)
			if !ok || sub.Op != token.SUB {
				continue
			}
			if one, isOne := ConstInt(sub.Y); !isOne || one != 1 {
				continue
			}
			if l.Body[l.Header.Preds[i]] {
				if sub.X == ssa.Value(phi) {
					steps++
				}
			} else if x := H07IsLen(sub.X); x != nil {
				coll = x
			}
		}
		if coll != nil && steps == 1 {
			return coll
		}
	}
	return nil
}

// H07ElemRef reduces a value to the element of a collection it denotes (or is a field of):
// `*(&x[i])`, `x[i]`, `(*(&x[i])).f`, `*(&(&x[i]).f)`, a local copy of one of these.
func H07ElemRef(v ssa.Value) (coll, idx ssa.Value, ok bool) {
	for i := 0; i < 24; i++ {
		v = Resolve(v)
		switch x := v.(type) {
		case *ssa.UnOp:
			if x.Op != token.MUL {
				return nil, nil, false
			}
			v = x.X
		case *ssa.Field:
			v = x.X
		case *ssa.FieldAddr:
			v = x.X
		case *ssa.IndexAddr:
			return x.X, x.Index, true
		case *ssa.Index:
			return x.X, x.Index, true
		case *ssa.Alloc:
			src := UniqueStore(x)
			if src == nil {
				return nil, nil, false
			}
			v = src
		default:
			return nil, nil, false
		}
	}
	return nil, nil, false
}

// H07SameElem: a and b denote (fields of) the same element of the same collection, or the same value.
func H07SameElem(a, b ssa.Value) bool {
	if Equiv(a, b) || Resolve(a) == Resolve(b) {
		return true
	}
	ca, ia, ok1 := H07ElemRef(a)
	cb, ib, ok2 := H07ElemRef(b)
	if ok1 && ok2 {
		return (ca == cb || Equiv(ca, cb)) && (ia == ib || Equiv(ia, ib))
	}
	// range-over-map / channel elements: same Next tuple
	strip := func(v ssa.Value) ssa.Value {
		for i := 0; i < 8; i++ {
			v = Resolve(v)
			switch x := v.(type) {
			case *ssa.Field:
				v = x.X
				continue
			case *ssa.UnOp:
				if fa, ok := x.X.(*ssa.FieldAddr); ok && x.Op == token.MUL {
					if ld, ok := Resolve(fa.X).(*ssa.Alloc); ok {
						if src := UniqueStore(ld); src != nil {
							v = src
							continue
						}
					}
				}
			}
			return v
		}
		return v
	}
	return strip(a) == strip(b)
}

// H07ElemOf is Loop.ElemOf with H07LoopColl as collection.
func H07ElemOf(l *Loop, v ssa.Value) bool {
	if l.RangeColl() != nil && l.ElemOf(v) {
		return true
	}
	coll := H07LoopColl(l)
	if coll == nil {
		return false
	}
	c, i, ok := H07ElemRef(v)
	return ok && (c == coll || Equiv(c, coll) || h07sameLookup(c, coll)) && l.isIndexVar(i)
}

// h07sameLookup: a and b are lookups of the same map (same field of the same object) at the same key:
// `for i := range m[k] { … m[k][i] … }` looks the list up again for every element.
func h07sameLookup(a, b ssa.Value) bool {
	la, ok1 := Resolve(a).(*ssa.Lookup)
	lb, ok2 := Resolve(b).(*ssa.Lookup)
	if !ok1 || !ok2 || la.CommaOk || lb.CommaOk {
		return false
	}
	return (la.X == lb.X || Equiv(la.X, lb.X)) && (la.Index == lb.Index || Equiv(la.Index, lb.Index))
}

// ---------------------------------------------------------------------------------------------
// In-package call index

// H07Index indexes the static call sites of a set of functions.
type H07Index struct {
	Funcs   []*ssa.Function
	in      map[*ssa.Function]bool
	callers map[*ssa.Function][]ssa.CallInstruction
	taken   map[*ssa.Function]bool
}

// H07NewIndex builds the index over the source functions of the packages.
func H07NewIndex(pkgs ...*ssa.Package) *H07Index {
	x := &H07Index{in: map[*ssa.Function]bool{}, callers: map[*ssa.Function][]ssa.CallInstruction{}, taken: map[*ssa.Function]bool{}}
	for _, p := range pkgs {
		x.Funcs = append(x.Funcs, PkgFuncs(p)...)
	}
	for _, f := range x.Funcs {
		x.in[f] = true
	}
	for _, fn := range x.Funcs {
		for _, in := range Instrs(fn, false) {
			ci, isCall := in.(ssa.CallInstruction)
			if isCall {
				if f := ci.Common().StaticCallee(); f != nil {
					x.callers[Orig(f)] = append(x.callers[Orig(f)], ci)
				}
			}
			_, isMakeClosure := in.(*ssa.MakeClosure)
			for _, op := range Operands(in) {
				switch o := op.(type) {
				case *ssa.Function:
					if isCall && ci.Common().Value == op {
						continue
					}
					if isMakeClosure {
						continue // the closure value's own code pointer; what counts is how the closure value is used
					}
					x.taken[Orig(o)] = true
				case *ssa.MakeClosure:
					if f, ok := o.Fn.(*ssa.Function); ok {
						if isCall && ci.Common().Value == op {
							continue
						}
						if f.Synthetic != "" { // bound method wrapper: the method escapes as a value
							for _, in2 := range Instrs(f, false) {
								if c2, ok := in2.(ssa.CallInstruction); ok {
									if g := c2.Common().StaticCallee(); g != nil {
										x.taken[Orig(g)] = true
									}
								}
							}
						}
						x.taken[Orig(f)] = true
					}
				}
			}
		}
	}
	return x
}

// Local reports whether fn is one of the indexed source functions.
func (x *H07Index) Local(fn *ssa.Function) bool { return fn != nil && x.in[Orig(fn)] }

// Callee returns the indexed static callee of a call (nil otherwise).
func (x *H07Index) Callee(c *ssa.CallCommon) *ssa.Function {
	if c.IsInvoke() {
		return nil
	}
	if f := c.StaticCallee(); f != nil && x.in[Orig(f)] {
		return Orig(f)
	}
	return nil
}

// Callers returns the static call sites of fn among the indexed functions and whether these are
// all its uses (fn is unexported, not used as a value, not started with go/defer-as-value).
func (x *H07Index) Callers(fn *ssa.Function) (sites []ssa.CallInstruction, closed bool) {
	fn = Orig(fn)
	closed = !x.taken[fn]
	if fn.Parent() == nil && fn.Object() != nil && fn.Object().Exported() {
		closed = false
	}
	return x.callers[fn], closed
}

// MayReach reports whether fn (transitively through indexed static callees) contains an
// instruction satisfying pred.
func (x *H07Index) MayReach(fn *ssa.Function, pred func(ssa.Instruction) bool) bool {
	seen := map[*ssa.Function]bool{}
	var walk func(f *ssa.Function) bool
	walk = func(f *ssa.Function) bool {
		f = Orig(f)
		if seen[f] {
			return false
		}
		seen[f] = true
		for _, in := range Instrs(f, true) {
			if pred(in) {
				return true
			}
			if ci, ok := in.(ssa.CallInstruction); ok {
				if g := x.Callee(ci.Common()); g != nil && walk(g) {
					return true
				}
			}
		}
		return false
	}
	return walk(fn)
}

// ParamIndex returns the position of p among its function's parameters (-1 if none).
func H07ParamIndex(p *ssa.Parameter) int {
	for i, q := range p.Parent().Params {
		if q == p {
			return i
		}
	}
	return -1
}

// H07ArgFor returns the argument a static call passes for parameter index i of its callee
// (receiver included, as in ssa.Function.Params).
func H07ArgFor(ci ssa.CallInstruction, i int) ssa.Value {
	args := ci.Common().Args
	if i < 0 || i >= len(args) {
		return nil
	}
	return args[i]
}

// H07Root strips loads, field selections and single-store spills and returns the value at the root
// of an access path (a parameter, a call result, a phi ...).
func H07Root(v ssa.Value) ssa.Value {
	for i := 0; i < 24; i++ {
		v = Resolve(v)
		switch x := v.(type) {
		case *ssa.Field:
			v = x.X
		case *ssa.FieldAddr:
			v = x.X
		case *ssa.UnOp:
			if x.Op != token.MUL {
				return v
			}
			v = x.X
		case *ssa.Alloc:
			src := UniqueStore(x)
			if src == nil {
				return v
			}
			v = src
		default:
			return v
		}
	}
	return v
}

// H07ReachingDef is Resolve that also looks through a load of a local assigned several times (a named
// result, a variable re-assigned on other paths) when the assignment reaching the load is found by
// walking back through the block and its chain of unique predecessors. The local must not escape
// (only direct loads and stores refer to it).
func H07ReachingDef(v ssa.Value) ssa.Value {
	for i := 0; i < 8; i++ {
		v = Resolve(v)
		ld, ok := v.(*ssa.UnOp)
		if !ok || ld.Op != token.MUL {
			return v
		}
		al, ok := ld.X.(*ssa.Alloc)
		if !ok {
			return v
		}
		for _, ref := range *al.Referrers() {
			switch r := ref.(type) {
			case *ssa.Store:
				if r.Addr != ssa.Value(al) {
					return v
				}
			case *ssa.UnOp:
			case *ssa.DebugRef:
			default:
				return v
			}
		}
		var def ssa.Value
		b, upto := ld.Block(), index(ld)
		for hops := 0; b != nil && def == nil && hops < 16; hops++ {
			for j := upto - 1; j >= 0; j-- {
				if st, ok := b.Instrs[j].(*ssa.Store); ok && st.Addr == ssa.Value(al) {
					def = st.Val
					break
				}
			}
			if def != nil || len(b.Preds) != 1 {
				break
			}
			b = b.Preds[0]
			upto = len(b.Instrs)
		}
		if def == nil {
			return v
		}
		v = def
	}
	return v
}
