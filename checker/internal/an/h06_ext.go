package an

import (
	"go/constant"
	"go/token"
	"go/types"
	"sort"
	"strings"

	"golang.org/x/tools/go/ssa"
)

// ---------------------------------------------------------------------------------------------
// H06Walk: valuation-driven path search.
//
// A depth-first search over the CFG from just after an instruction. Branches whose condition is
// decided by the valuation take only the decided successor; every other branch takes both. The
// valuation is extended along the path: when a block is entered from a predecessor every phi of the
// block whose selected operand evaluates to a constant becomes known (this decides `a || b`, named
// booleans tested later, `more := true; for more {...}` ...).

// H06Env assigns constants to SSA values.
type H06Env func(v ssa.Value) (constant.Value, bool)

// H06Opt configures H06Escape.
type H06Opt struct {
	Env H06Env
	// Effect: reaching this instruction satisfies the path (the search does not continue past it).
	Effect func(in ssa.Instruction) bool
	// EffectEnv is Effect with access to what is known on the path (context-sensitive effects).
	EffectEnv func(in ssa.Instruction, known H06Env) bool
	// Exit: reaching this instruction is an escape (besides the returns accepted by IsExit).
	Exit func(in ssa.Instruction) bool
	// ReturnOK: a return for which this yields true is not an escape (e.g. an error return).
	ReturnOK func(r *ssa.Return, known H06Env) bool
	// StopBlock: entering this block is an escape (e.g. the loop header reached again).
	StopBlock func(b *ssa.BasicBlock) bool
	// PanicIsExit treats panics as escapes.
	PanicIsExit bool
	// Target: when set the search looks for this instruction instead of an exit: reaching it is the escape
	// and returns are dead ends.
	Target ssa.Instruction
	// NoReenter: the block of `from` is not entered again (a second execution would produce new values).
	NoReenter bool
	// Prune: the edge from block b to its successor #succ is infeasible for a reason the valuation cannot express.
	Prune func(b *ssa.BasicBlock, succ int) bool
	// Inclusive starts the search at `from` itself instead of just after it (search from a function's entry).
	Inclusive bool
	// Facts are invariant valuations (true of a value whenever it is computed, e.g. "the result of errors.New is not
	// nil"): consulted after what is known on the path and after Env, and never forgotten on a second execution.
	Facts H06Env
}

type h06known struct {
	v    ssa.Value
	k    constant.Value
	next *h06known
}

func (h *h06known) get(v ssa.Value) (constant.Value, bool) {
	for ; h != nil; h = h.next {
		if h.v == v {
			return h.k, true
		}
	}
	return nil, false
}

func (h *h06known) key() string {
	var parts []string
	seen := map[ssa.Value]bool{}
	for ; h != nil; h = h.next {
		if seen[h.v] {
			continue
		}
		seen[h.v] = true
		parts = append(parts, h.v.Name()+"="+h.k.ExactString())
	}
	sort.Strings(parts)
	return strings.Join(parts, ",")
}

// H06Escape searches a path from just after `from` to an escape (see H06Opt). It returns the block path.
func H06Escape(from ssa.Instruction, opt H06Opt) ([]*ssa.BasicBlock, bool) {
	base := opt.Env
	if base == nil {
		base = func(ssa.Value) (constant.Value, bool) { return nil, false }
	}
	type stateKey struct {
		b    *ssa.BasicBlock
		pred *ssa.BasicBlock
		k    string
	}
	seen := map[stateKey]bool{}
	var path []*ssa.BasicBlock
	envOf := func(kn *h06known) H06Env {
		return func(v ssa.Value) (constant.Value, bool) {
			if k, ok := kn.get(v); ok {
				return k, true
			}
			if k, ok := base(v); ok {
				return k, true
			}
			if opt.Facts != nil {
				return opt.Facts(v)
			}
			return nil, false
		}
	}
	var walk func(b *ssa.BasicBlock, idx int, kn *h06known) bool
	walk = func(b *ssa.BasicBlock, idx int, kn *h06known) bool {
		path = append(path, b)
		env := envOf(kn)
		for i := idx; i < len(b.Instrs); i++ {
			in := b.Instrs[i]
			if opt.Target != nil {
				if in == opt.Target {
					return true
				}
			}
			if (opt.Effect != nil && opt.Effect(in)) || (opt.EffectEnv != nil && opt.EffectEnv(in, env)) {
				path = path[:len(path)-1]
				return false
			}
			if opt.Exit != nil && opt.Exit(in) {
				return true
			}
			switch x := in.(type) {
			case *ssa.Return:
				if opt.Target != nil || (opt.ReturnOK != nil && opt.ReturnOK(x, env)) {
					path = path[:len(path)-1]
					return false
				}
				return true
			case *ssa.Panic:
				if opt.PanicIsExit && opt.Target == nil {
					return true
				}
				path = path[:len(path)-1]
				return false
			}
		}
		succs := b.Succs
		var learn ssa.Value // undecided branch condition: its truth becomes known on each edge
		if len(b.Instrs) > 0 {
			if iff, ok := b.Instrs[len(b.Instrs)-1].(*ssa.If); ok {
				if k, ok := H06Eval(iff.Cond, env); ok && k.Kind() == constant.Bool {
					if constant.BoolVal(k) {
						succs = b.Succs[:1]
					} else {
						succs = b.Succs[1:2]
					}
				} else if len(b.Succs) == 2 && b.Succs[0] != b.Succs[1] {
					learn = iff.Cond
				}
			}
		}
		for si, s := range succs {
			if opt.NoReenter && s == from.Block() {
				continue
			}
			if opt.Prune != nil && len(succs) == len(b.Succs) && opt.Prune(b, si) {
				continue
			}
			if opt.StopBlock != nil && opt.StopBlock(s) {
				path = append(path, s)
				return true
			}
			nk := kn
			if learn != nil {
				truth := si == 0
				v := learn
				for {
					if u, ok := v.(*ssa.UnOp); ok && u.Op == token.NOT {
						v, truth = u.X, !truth
						continue
					}
					break
				}
				nk = &h06known{v: v, k: constant.MakeBool(truth), next: nk}
				if bin, ok := v.(*ssa.BinOp); ok && ((bin.Op == token.EQL && truth) || (bin.Op == token.NEQ && !truth)) {
					// x == const holds on this edge
					if c, ok := bin.Y.(*ssa.Const); ok && c.Value != nil {
						nk = &h06known{v: bin.X, k: c.Value, next: nk}
					} else if c, ok := bin.X.(*ssa.Const); ok && c.Value != nil {
						nk = &h06known{v: bin.Y, k: c.Value, next: nk}
					}
				}
				if bin, ok := v.(*ssa.BinOp); ok && (bin.Op == token.EQL || bin.Op == token.NEQ) {
					// x == nil / x != nil: the nil-ness of x holds on this edge
					var x ssa.Value
					if IsNilConst(bin.Y) && !isBasic(bin.Y.Type()) {
						x = bin.X
					} else if IsNilConst(bin.X) && !isBasic(bin.X.Type()) {
						x = bin.Y
					}
					if x != nil {
						k := H06NonNil
						if (bin.Op == token.EQL) == truth {
							k = H06Nil
						}
						nk = &h06known{v: x, k: k, next: nk}
						if u := Unwrap(x); u != x {
							nk = &h06known{v: u, k: k, next: nk}
						}
					}
				}
			}
			edgeKn := nk
			// values computed in s are computed anew: forget what was learnt about a previous execution
			for h := nk; h != nil; h = h.next {
				if in, ok := h.v.(ssa.Instruction); ok && in.Block() == s {
					if _, isPhi := h.v.(*ssa.Phi); !isPhi && h.k.Kind() != constant.Unknown {
						if cur, _ := nk.get(h.v); cur != nil && cur.Kind() != constant.Unknown {
							nk = &h06known{v: h.v, k: constant.MakeUnknown(), next: nk}
						}
					}
				}
			}
			revisit := false
			for _, pb := range path {
				if pb == s {
					revisit = true
				}
			}
			for _, in := range s.Instrs {
				if !revisit {
					break // first execution on this path: what the valuation says about its values holds
				}
				if v, ok := in.(ssa.Value); ok {
					if _, isPhi := in.(*ssa.Phi); !isPhi && baseHas(base, v) {
						if cur, had := nk.get(v); !had || cur.Kind() != constant.Unknown {
							nk = &h06known{v: v, k: constant.MakeUnknown(), next: nk}
						}
					}
				}
			}
			// phis of s become known from the edge b→s
			pi := -1
			for i, p := range s.Preds {
				if p == b {
					pi = i
				}
			}
			if pi >= 0 {
				for _, in := range s.Instrs {
					ph, ok := in.(*ssa.Phi)
					if !ok {
						break
					}
					k, ok := H06Eval(ph.Edges[pi], env)
					if !ok && learn != nil {
						k, ok = H06Eval(ph.Edges[pi], envOf(edgeKn)) // what the branch just taken established
					}
					if ok && !h06Runaway(ph.Edges[pi], k) {
						nk = &h06known{v: ph, k: k, next: nk}
					} else if _, had := nk.get(ph); had || baseHas(base, ph) {
						// the phi takes an unknown value on this edge: forget what was known (mask with Unknown)
						nk = &h06known{v: ph, k: constant.MakeUnknown(), next: nk}
					}
				}
			}
			sk := stateKey{s, b, nk.key()}
			if seen[sk] {
				continue
			}
			seen[sk] = true
			if walk(s, 0, nk) {
				return true
			}
		}
		path = path[:len(path)-1]
		return false
	}
	start := index(from) + 1
	if opt.Inclusive {
		start = index(from)
	}
	esc := walk(from.Block(), start, nil)
	return path, esc
}

func baseHas(base H06Env, v ssa.Value) bool { _, ok := base(v); return ok }

// H06FactsAt returns what the branches dominating instruction at establish: for every dominator ending in a two-way
// branch one successor of which (entered only from it) dominates at, the truth of the condition, and `x = const` for
// conditions `x == const`. Lookup is up to value equivalence (a second load of the same field of a parameter).
func H06FactsAt(at ssa.Instruction) H06Env {
	type fact struct {
		v ssa.Value
		k constant.Value
	}
	var facts []fact
	b := at.Block()
	// a value computed inside a loop around `at` is computed anew on the next iteration: what a branch established
	// about it does not survive the back edge, so it is no fact for a search that may go round the loop
	loops := LoopsContaining(at.Parent(), b)
	stable := func(v ssa.Value) bool {
		in, ok := v.(ssa.Instruction)
		if !ok {
			return true
		}
		for _, l := range loops {
			if l.Body[in.Block()] {
				return false
			}
		}
		for _, op := range Operands(in) {
			if oi, ok := op.(ssa.Instruction); ok {
				for _, l := range loops {
					if l.Body[oi.Block()] {
						return false
					}
				}
			}
		}
		return true
	}
	for d := b.Idom(); d != nil; b, d = d, d.Idom() {
		iff, ok := d.Instrs[len(d.Instrs)-1].(*ssa.If)
		if !ok || len(d.Succs) != 2 || d.Succs[0] == d.Succs[1] {
			continue
		}
		var truth bool
		switch {
		case len(d.Succs[0].Preds) == 1 && (d.Succs[0] == b || d.Succs[0].Dominates(b)):
			truth = true
		case len(d.Succs[1].Preds) == 1 && (d.Succs[1] == b || d.Succs[1].Dominates(b)):
			truth = false
		default:
			continue
		}
		v := iff.Cond
		for {
			if u, ok := v.(*ssa.UnOp); ok && u.Op == token.NOT {
				v, truth = u.X, !truth
				continue
			}
			break
		}
		if !stable(v) {
			continue
		}
		facts = append(facts, fact{v, constant.MakeBool(truth)})
		if bin, ok := v.(*ssa.BinOp); ok && ((bin.Op == token.EQL && truth) || (bin.Op == token.NEQ && !truth)) {
			if c, ok := bin.Y.(*ssa.Const); ok && c.Value != nil && stable(bin.X) {
				facts = append(facts, fact{bin.X, c.Value})
			} else if c, ok := bin.X.(*ssa.Const); ok && c.Value != nil && stable(bin.Y) {
				facts = append(facts, fact{bin.Y, c.Value})
			}
		}
	}
	return func(v ssa.Value) (constant.Value, bool) {
		for _, f := range facts {
			if f.v == v {
				return f.k, true
			}
		}
		if _, isConst := v.(*ssa.Const); isConst {
			return nil, false
		}
		for _, f := range facts {
			if _, isBool := f.v.(*ssa.BinOp); !isBool && Equiv(f.v, v) {
				return f.k, true
			}
		}
		return nil, false
	}
}

// H06Nil and H06NonNil are symbolic values for nil-able SSA values: the nil constant evaluates to H06Nil, a valuation
// may declare a value H06NonNil; `v == nil` / `v != nil` are then decided (also through phis).
var (
	H06Nil    = constant.MakeString("\x00nil")
	H06NonNil = constant.MakeString("\x00non-nil")
)

// H06IsNonNil reports whether k is the known-non-nil token.
func H06IsNonNil(k constant.Value) bool {
	return k != nil && k.Kind() == constant.String && constant.StringVal(k) == constant.StringVal(H06NonNil)
}

func h06sym(k constant.Value) bool {
	return k.Kind() == constant.String && strings.HasPrefix(constant.StringVal(k), "\x00")
}

// H06Eval evaluates a boolean/integer expression built from constants, env-known values, negation, comparisons
// and conversions. Unknown-kind constants (masked phis) make the result undecided.
func H06Eval(v ssa.Value, env H06Env) (constant.Value, bool) { return h06eval(v, env, 0) }

func h06eval(v ssa.Value, env H06Env, d int) (constant.Value, bool) {
	if d > 10 {
		return nil, false
	}
	if k, ok := env(v); ok {
		if k.Kind() == constant.Unknown {
			return nil, false
		}
		return k, true
	}
	switch x := v.(type) {
	case *ssa.Const:
		if x.Value != nil {
			return x.Value, true
		}
		if !isBasic(x.Type()) {
			return H06Nil, true
		}
	case *ssa.ChangeType:
		return h06eval(x.X, env, d+1)
	case *ssa.ChangeInterface:
		return h06eval(x.X, env, d+1)
	case *ssa.Convert:
		if k, ok := h06eval(x.X, env, d+1); ok && k.Kind() == constant.Int {
			return k, true
		}
	case *ssa.UnOp:
		if x.Op == token.NOT {
			if b, ok := h06eval(x.X, env, d+1); ok && b.Kind() == constant.Bool {
				return constant.MakeBool(!constant.BoolVal(b)), true
			}
		}
	case *ssa.Call:
		// len of a slice of a whole fixed-size array (a slice literal), or of an array
		if b, ok := x.Call.Value.(*ssa.Builtin); ok && b.Name() == "len" && len(x.Call.Args) == 1 {
			if n, ok := h06FixedLen(x.Call.Args[0]); ok {
				return constant.MakeInt64(n), true
			}
		}
	case *ssa.BinOp:
		switch x.Op {
		case token.ADD, token.SUB:
			l, ok1 := h06eval(x.X, env, d+1)
			r, ok2 := h06eval(x.Y, env, d+1)
			if ok1 && ok2 && l.Kind() == constant.Int && r.Kind() == constant.Int && isBasic(x.Type()) {
				return constant.BinaryOp(l, x.Op, r), true
			}
		case token.EQL, token.NEQ, token.LSS, token.LEQ, token.GTR, token.GEQ:
			l, ok1 := h06eval(x.X, env, d+1)
			r, ok2 := h06eval(x.Y, env, d+1)
			if ok1 && ok2 && (h06sym(l) || h06sym(r)) {
				// nil / known-non-nil tokens: only comparisons against nil are decided
				if x.Op != token.EQL && x.Op != token.NEQ || !h06sym(l) || !h06sym(r) {
					return nil, false
				}
				ln, rn := constant.Compare(l, token.EQL, H06Nil), constant.Compare(r, token.EQL, H06Nil)
				if !ln && !rn {
					return nil, false
				}
				return constant.MakeBool((ln == rn) == (x.Op == token.EQL)), true
			}
			if ok1 && ok2 && l.Kind() == r.Kind() && l.Kind() != constant.Unknown {
				if l.Kind() == constant.Bool && x.Op != token.EQL && x.Op != token.NEQ {
					return nil, false
				}
				return constant.MakeBool(constant.Compare(l, x.Op, r)), true
			}
		}
	}
	return nil, false
}

// h06Runaway: a counter computed by arithmetic (not a literal constant) that has grown large: a loop with an unknown
// bound is not unrolled any further, its counter becomes unknown.
func h06Runaway(edge ssa.Value, k constant.Value) bool {
	if _, isConst := edge.(*ssa.Const); isConst || k.Kind() != constant.Int {
		return false
	}
	n, exact := constant.Int64Val(k)
	return !exact || n > 16 || n < -16
}

// h06FixedLen: the length of v is a compile-time constant: an array, a pointer to one, or a slice `a[:]` of a whole
// array that is never re-sliced (the shape of a slice literal).
func h06FixedLen(v ssa.Value) (int64, bool) {
	for i := 0; i < 4; i++ {
		switch x := v.(type) {
		case *ssa.Slice:
			if x.Low != nil || x.High != nil || x.Max != nil {
				return 0, false
			}
			if p, ok := x.X.Type().Underlying().(*types.Pointer); ok {
				if a, ok := p.Elem().Underlying().(*types.Array); ok {
					return a.Len(), true
				}
			}
			return 0, false
		case *ssa.UnOp:
			// a local slice variable assigned exactly once (`variants := []T{...}`)
			al, ok := x.X.(*ssa.Alloc)
			if x.Op != token.MUL || !ok {
				return 0, false
			}
			src := UniqueStore(al)
			if src == nil {
				return 0, false
			}
			v = src
		case *ssa.ChangeType:
			v = x.X
		default:
			if a, ok := v.Type().Underlying().(*types.Array); ok {
				return a.Len(), true
			}
			return 0, false
		}
	}
	return 0, false
}

// ---------------------------------------------------------------------------------------------
// Locks held at an instruction (must-analysis, explicit Lock/Unlock; a deferred unlock keeps the lock to the exit).

// H06HeldAt returns the mutex access paths that are certainly held just before instruction at
// (value 2 = held for writing, 1 = held for reading).
func H06HeldAt(at ssa.Instruction) map[string]int {
	fn := at.Parent()
	if fn == nil || len(fn.Blocks) == 0 {
		return nil
	}
	in := make([]held, len(fn.Blocks))
	transfer := func(b *ssa.BasicBlock, h held, stop ssa.Instruction) held {
		h = h.clone()
		for _, ins := range b.Instrs {
			if ins == stop {
				return h
			}
			if call, ok := ins.(*ssa.Call); ok {
				if p, acq, m, ok := lockOp(&call.Call); ok {
					if acq {
						h[p] = m
					} else {
						delete(h, p)
					}
				}
			}
		}
		return h
	}
	in[0] = held{}
	work := []*ssa.BasicBlock{fn.Blocks[0]}
	done := map[int]bool{}
	for len(work) > 0 {
		b := work[0]
		work = work[1:]
		o := transfer(b, in[b.Index], nil)
		for _, s := range b.Succs {
			var n held
			if in[s.Index] == nil {
				n = o.clone()
			} else {
				n = meet(in[s.Index], o)
			}
			if in[s.Index] == nil || !equalHeld(n, in[s.Index]) || !done[s.Index] {
				in[s.Index] = n
				done[s.Index] = true
				work = append(work, s)
			}
		}
	}
	if in[at.Block().Index] == nil {
		return nil
	}
	h := transfer(at.Block(), in[at.Block().Index], at)
	out := map[string]int{}
	for k, m := range h {
		out[k] = int(m)
	}
	return out
}

// H06AccessPath exposes the access path used to name locks ("p0.mu", "fv:db.mu").
func H06AccessPath(v ssa.Value) string { return accessPath(v) }

// H06LockOp decodes a sync.(RW)Mutex call.
func H06LockOp(c *ssa.CallCommon) (path string, acquire bool, ok bool) {
	p, acq, _, ok := lockOp(c)
	return p, acq, ok
}

// H06Req is one lock a function needs on entry.
type H06Req struct {
	Path  string
	Write bool
	Field string
}

// H06Reqs lists the entry requirements computed by Run for fn.
func (ls *Lockset) H06Reqs(fn *ssa.Function) []H06Req {
	var out []H06Req
	for _, r := range ls.requires[Orig(fn)] {
		out = append(out, H06Req{Path: r.path, Write: r.write, Field: r.field})
	}
	return out
}
