package an

import (
	"fmt"
	"go/constant"
	"go/token"
	"go/types"
	"sort"
	"strings"

	"golang.org/x/tools/go/ssa"
)

// ---------------------------------------------------------------------------------------------
// H15 — path-sensitive fact walker.
//
// Rules of the "guard before effect" kind used to ask "does the true edge of the test dominate the
// effect?". That question depends on how the source spells the test: a disjunction kept in a named
// bool, an inverted if/else, a switch, a `found == false` comparison or an early `continue` all
// produce different block shapes for the same behaviour. The walker asks the semantic question
// instead: it enumerates the feasible ways control can arrive at an instruction and reports, for
// each arrival, what is known about the tracked conditions on that path.
//
// Facts are kept about (a) the boolean SSA values the rule declares interesting (Track), (b) every
// boolean phi (the value of `a && b` / `a || b` / a named condition) – a phi is resolved by the edge
// through which its block was entered, and learning the phi's value later propagates back to the
// incoming value –, (c) further phis the rule wants to see resolved per path (TrackPhi, e.g. "the
// map written is the stored one or the fresh one"). Branches on anything else fork without learning,
// so the number of states stays small. Facts about values defined inside a loop are dropped when the
// loop's back edge is taken (they belong to the previous iteration).

// H15Facts is the knowledge on one path.
type H15Facts struct {
	Bool  map[ssa.Value]bool
	Alias map[*ssa.Phi]ssa.Value
	w     *H15Walk
}

// Assume returns the facts of the path extended by "v == k" (what taking a branch on v would teach),
// or nil when that contradicts what is already known.
func (f *H15Facts) Assume(v ssa.Value, k bool) *H15Facts {
	g := f.clone()
	if f.w == nil || !f.w.learn(g, v, k, 0) {
		return nil
	}
	return g
}

func (f *H15Facts) clone() *H15Facts {
	g := &H15Facts{Bool: make(map[ssa.Value]bool, len(f.Bool)), Alias: make(map[*ssa.Phi]ssa.Value, len(f.Alias)), w: f.w}
	for k, v := range f.Bool {
		g.Bool[k] = v
	}
	for k, v := range f.Alias {
		g.Alias[k] = v
	}
	return g
}

func (f *H15Facts) key() string {
	parts := make([]string, 0, len(f.Bool)+len(f.Alias))
	for k, v := range f.Bool {
		parts = append(parts, fmt.Sprintf("%p=%t", k, v))
	}
	for k, v := range f.Alias {
		parts = append(parts, fmt.Sprintf("%p>%p", k, v))
	}
	sort.Strings(parts)
	return strings.Join(parts, ",")
}

// Resolve follows conversions and, for phis resolved on this path, the incoming value.
func (f *H15Facts) Resolve(v ssa.Value) ssa.Value {
	for i := 0; i < 32; i++ {
		v = Unwrap(v)
		p, ok := v.(*ssa.Phi)
		if !ok {
			return v
		}
		e, ok := f.Alias[p]
		if !ok {
			return v
		}
		v = e
	}
	return v
}

func isCmp(op token.Token) bool {
	switch op {
	case token.EQL, token.NEQ, token.LSS, token.LEQ, token.GTR, token.GEQ:
		return true
	}
	return false
}

func negOp(op token.Token) token.Token {
	switch op {
	case token.EQL:
		return token.NEQ
	case token.NEQ:
		return token.EQL
	case token.LSS:
		return token.GEQ
	case token.GEQ:
		return token.LSS
	case token.GTR:
		return token.LEQ
	case token.LEQ:
		return token.GTR
	}
	return op
}

// sameOperand: identical values, equal constants, or two reads of the same thing (Equiv).
func sameOperand(a, b ssa.Value) bool {
	if a == b {
		return true
	}
	ca, ok1 := a.(*ssa.Const)
	cb, ok2 := b.(*ssa.Const)
	if ok1 && ok2 {
		return Equiv(ca, cb)
	}
	return false
}

// cmpRelation relates two comparison instructions: +1 same truth value, -1 opposite, 0 unrelated.
func cmpRelation(a, b *ssa.BinOp) int {
	if !isCmp(a.Op) || !isCmp(b.Op) {
		return 0
	}
	bop := b.Op
	switch {
	case sameOperand(a.X, b.X) && sameOperand(a.Y, b.Y):
	case sameOperand(a.X, b.Y) && sameOperand(a.Y, b.X):
		bop = flip(bop)
	default:
		return 0
	}
	if a.Op == bop {
		return 1
	}
	if a.Op == negOp(bop) {
		return -1
	}
	return 0
}

// cmpRelation on a path: operands are compared after resolving the phis this path has resolved, so what
// was learnt about `err == nil` carries over to the value err stands for on this path (and back).
func (f *H15Facts) cmpRelation(a, b *ssa.BinOp) int {
	if r := cmpRelation(a, b); r != 0 {
		return r
	}
	if !isCmp(a.Op) || !isCmp(b.Op) {
		return 0
	}
	ax, ay, bx, by := f.Resolve(a.X), f.Resolve(a.Y), f.Resolve(b.X), f.Resolve(b.Y)
	bop := b.Op
	switch {
	case sameOperand(ax, bx) && sameOperand(ay, by):
	case sameOperand(ax, by) && sameOperand(ay, bx):
		bop = flip(bop)
	default:
		return 0
	}
	if a.Op == bop {
		return 1
	}
	if a.Op == negOp(bop) {
		return -1
	}
	return 0
}

// otherConst: a and b compare the same (resolved) value with constants; differ reports whether the two
// constants are different values.
func (f *H15Facts) otherConst(a, b *ssa.BinOp) (differ bool, ok bool) {
	split := func(x *ssa.BinOp) (ssa.Value, *ssa.Const) {
		if c, isC := Unwrap(x.Y).(*ssa.Const); isC {
			return f.Resolve(x.X), c
		}
		if c, isC := Unwrap(x.X).(*ssa.Const); isC {
			return f.Resolve(x.Y), c
		}
		return nil, nil
	}
	av, ac := split(a)
	bv, bc := split(b)
	if av == nil || bv == nil || av != bv || ac.Value == nil || bc.Value == nil {
		return false, false
	}
	return !constant.Compare(ac.Value, token.EQL, bc.Value), true
}

// Known evaluates a boolean value under the facts of the path.
func (f *H15Facts) Known(v ssa.Value) (bool, bool) { return f.eval(v, 0) }

func (f *H15Facts) eval(v ssa.Value, d int) (bool, bool) {
	if d > 12 || v == nil {
		return false, false
	}
	if k, ok := f.Bool[v]; ok {
		return k, true
	}
	switch x := v.(type) {
	case *ssa.Const:
		if x.Value != nil && x.Value.Kind() == constant.Bool {
			return constant.BoolVal(x.Value), true
		}
	case *ssa.ChangeType:
		return f.eval(x.X, d+1)
	case *ssa.Phi:
		if len(x.Edges) == 1 {
			return f.eval(x.Edges[0], d+1)
		}
		if e, ok := f.Alias[x]; ok {
			return f.eval(e, d+1)
		}
	case *ssa.UnOp:
		if x.Op == token.NOT {
			if k, ok := f.eval(x.X, d+1); ok {
				return !k, true
			}
		}
	case *ssa.BinOp:
		if x.Op == token.EQL || x.Op == token.NEQ {
			if isBoolType(x.X) {
				l, ok1 := f.eval(x.X, d+1)
				r, ok2 := f.eval(x.Y, d+1)
				if ok1 && ok2 {
					return (l == r) == (x.Op == token.EQL), true
				}
			}
		}
		if isCmp(x.Op) {
			for k, val := range f.Bool {
				if kb, ok := k.(*ssa.BinOp); ok {
					switch f.cmpRelation(kb, x) {
					case 1:
						return val, true
					case -1:
						return !val, true
					}
					// x == c1 known true decides x == c2 / x != c2 for a different constant c2
					if val && kb.Op == token.EQL && (x.Op == token.EQL || x.Op == token.NEQ) {
						if d, ok := f.otherConst(kb, x); ok && d {
							return x.Op == token.NEQ, true
						}
					}
				}
			}
		}
	}
	return false, false
}

func isBoolType(v ssa.Value) bool {
	b, ok := v.Type().Underlying().(*types.Basic)
	return ok && b.Info()&types.IsBoolean != 0
}

// H15Walk configures a walk over one function.
type H15Walk struct {
	Fn *ssa.Function
	// Track selects the non-phi boolean values (calls, extracts, comparisons) to learn facts about.
	Track func(v ssa.Value) bool
	// TrackPhi selects additional (non-boolean) phis whose incoming value is recorded per path.
	TrackPhi func(p *ssa.Phi) bool
	// Limit bounds the number of states (default 20000).
	Limit int

	loops []*Loop
}

func (w *H15Walk) tracked(v ssa.Value) bool { return w.Track != nil && w.Track(v) }

func (w *H15Walk) phiTracked(p *ssa.Phi) bool {
	if isBoolType(p) {
		return true
	}
	return w.TrackPhi != nil && w.TrackPhi(p)
}

// learn records v == k; false means the path is contradictory.
func (w *H15Walk) learn(f *H15Facts, v ssa.Value, k bool, d int) bool {
	if d > 12 {
		return true
	}
	if old, ok := f.eval(v, 0); ok {
		return old == k
	}
	switch x := v.(type) {
	case *ssa.ChangeType:
		return w.learn(f, x.X, k, d+1)
	case *ssa.UnOp:
		if x.Op == token.NOT {
			return w.learn(f, x.X, !k, d+1)
		}
	case *ssa.Phi:
		f.Bool[x] = k
		if e, ok := f.Alias[x]; ok {
			return w.learn(f, e, k, d+1)
		}
		return true
	case *ssa.BinOp:
		if (x.Op == token.EQL || x.Op == token.NEQ) && isBoolType(x.X) {
			same := k == (x.Op == token.EQL) // operands equal?
			if c, ok := f.eval(x.Y, 0); ok {
				return w.learn(f, x.X, c == same, d+1)
			}
			if c, ok := f.eval(x.X, 0); ok {
				return w.learn(f, x.Y, c == same, d+1)
			}
		}
	}
	if w.tracked(v) {
		f.Bool[v] = k
	}
	return true
}

func definedIn(v ssa.Value, body map[*ssa.BasicBlock]bool) bool {
	in, ok := v.(ssa.Instruction)
	return ok && in.Block() != nil && body[in.Block()]
}

// enter computes the facts holding at the top of block b when it is entered from pred.
func (w *H15Walk) enter(f *H15Facts, b, pred *ssa.BasicBlock) *H15Facts {
	g := f.clone()
	pi := -1
	for i, p := range b.Preds {
		if p == pred {
			pi = i
		}
	}
	type pv struct {
		p    *ssa.Phi
		e    ssa.Value
		k    bool
		have bool
	}
	var phis []pv
	for _, in := range b.Instrs {
		p, ok := in.(*ssa.Phi)
		if !ok {
			break
		}
		if pi < 0 || pi >= len(p.Edges) || !w.phiTracked(p) {
			continue
		}
		e := p.Edges[pi]
		k, have := f.eval(e, 0)
		phis = append(phis, pv{p, e, k, have})
	}
	// stale knowledge: values of the block itself, and – on a back edge – of the whole loop body
	drop := map[*ssa.BasicBlock]bool{b: true}
	for _, l := range w.loops {
		if l.Header == b && pred != nil && l.Body[pred] {
			for blk := range l.Body {
				drop[blk] = true
			}
		}
	}
	for k := range g.Bool {
		if definedIn(k, drop) {
			delete(g.Bool, k)
		}
	}
	for p, e := range g.Alias {
		if definedIn(p, drop) || definedIn(e, drop) {
			delete(g.Alias, p)
		}
	}
	for _, x := range phis {
		if x.have {
			g.Bool[x.p] = x.k
		}
		if !definedIn(x.e, drop) {
			g.Alias[x.p] = x.e
		}
	}
	return g
}

// Arrivals enumerates the feasible arrivals at target (all paths from the function entry) and calls
// visit with the facts of each distinct arrival; visit returns false to stop the walk. The result is
// false when the state limit was exceeded (the caller must then report UNDECIDED).
func (w *H15Walk) Arrivals(target ssa.Instruction, visit func(f *H15Facts) bool) bool {
	return w.ArrivalsAt(func(b *ssa.BasicBlock) bool { return b == target.Block() }, func(_ *ssa.BasicBlock, f *H15Facts) bool { return visit(f) })
}

// ArrivalsAt is Arrivals for a set of blocks.
func (w *H15Walk) ArrivalsAt(isTarget func(b *ssa.BasicBlock) bool, visit func(b *ssa.BasicBlock, f *H15Facts) bool) bool {
	fn := w.Fn
	if len(fn.Blocks) == 0 {
		return true
	}
	if w.loops == nil {
		w.loops = Loops(fn)
	}
	limit := w.Limit
	if limit == 0 {
		limit = 20000
	}
	type state struct {
		b *ssa.BasicBlock
		f *H15Facts
	}
	seen := map[string]bool{}
	start := &H15Facts{Bool: map[ssa.Value]bool{}, Alias: map[*ssa.Phi]ssa.Value{}, w: w}
	work := []state{{fn.Blocks[0], start}}
	n := 0
	for len(work) > 0 {
		st := work[len(work)-1]
		work = work[:len(work)-1]
		k := fmt.Sprintf("%d|%s", st.b.Index, st.f.key())
		if seen[k] {
			continue
		}
		seen[k] = true
		n++
		if n > limit {
			return false
		}
		if isTarget(st.b) {
			if !visit(st.b, st.f) {
				return true
			}
		}
		if len(st.b.Instrs) == 0 {
			continue
		}
		if iff, ok := st.b.Instrs[len(st.b.Instrs)-1].(*ssa.If); ok && len(st.b.Succs) == 2 {
			if kv, known := st.f.eval(iff.Cond, 0); known {
				s := st.b.Succs[1]
				if kv {
					s = st.b.Succs[0]
				}
				work = append(work, state{s, w.enter(st.f, s, st.b)})
				continue
			}
			for i, s := range st.b.Succs {
				g := st.f.clone()
				if !w.learn(g, iff.Cond, i == 0, 0) {
					continue
				}
				work = append(work, state{s, w.enter(g, s, st.b)})
			}
			continue
		}
		for _, s := range st.b.Succs {
			work = append(work, state{s, w.enter(st.f, s, st.b)})
		}
	}
	return true
}

// NilFact reports what the path knows about v == nil.
func (f *H15Facts) NilFact(v ssa.Value) (isNil bool, known bool) {
	for k, val := range f.Bool {
		bin, ok := k.(*ssa.BinOp)
		if !ok || (bin.Op != token.EQL && bin.Op != token.NEQ) {
			continue
		}
		var other ssa.Value
		switch {
		case Unwrap(bin.X) == v || bin.X == v:
			other = bin.Y
		case Unwrap(bin.Y) == v || bin.Y == v:
			other = bin.X
		default:
			continue
		}
		if !IsNilConst(other) {
			continue
		}
		return val == (bin.Op == token.EQL), true
	}
	return false, false
}

// H15NilCmps returns the comparisons of v with nil in fn (the values a rule must Track to obtain NilFact).
func H15NilCmps(fn *ssa.Function, v ssa.Value) []ssa.Value {
	var out []ssa.Value
	for _, in := range Instrs(fn, false) {
		bin, ok := in.(*ssa.BinOp)
		if !ok || (bin.Op != token.EQL && bin.Op != token.NEQ) {
			continue
		}
		if ((Unwrap(bin.X) == v || bin.X == v) && IsNilConst(bin.Y)) || ((Unwrap(bin.Y) == v || bin.Y == v) && IsNilConst(bin.X)) {
			out = append(out, bin)
		}
	}
	return out
}

// H15TrackSet builds a Track predicate from value lists.
func H15TrackSet(lists ...[]ssa.Value) func(ssa.Value) bool {
	set := map[ssa.Value]bool{}
	for _, l := range lists {
		for _, v := range l {
			if v != nil {
				set[v] = true
			}
		}
	}
	return func(v ssa.Value) bool { return set[v] }
}
