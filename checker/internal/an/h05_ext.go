package an

// h05_ext.go — shape-independent engine used by the C05 rules (and available to others):
//
//   - reaching stores for address-taken / non-lifted locals (named results of functions with defer,
//     variables captured read-only by closures), so that a value can be followed through memory;
//   - activation frames: a function reached from a root through static in-package calls or directly
//     called function literals, with parameter/argument and free-variable/binding substitution;
//   - canonical value terms in the space of the root activation (two values with the same term denote
//     the same datum: same field of the same message, same pure call on the same operands ...);
//   - valuation-driven reachability that decides branches on known values, decides phis by the edge
//     they were entered from, looks through locals kept in memory and can filter arrivals at the sink
//     ("this return only counts when the returned error is nil");
//   - "established" queries: a fact (a checked call, an equality test, a for-all over a collection)
//     holds whenever control reaches a site — found in the function itself, in the summaries of the
//     helpers it calls (fact holds at every successful return of the helper and the helper's status is
//     checked) or further up the chain of call sites that leads from the root to the site.

import (
	"fmt"
	"go/constant"
	"go/token"
	"go/types"
	"sort"
	"strings"

	"golang.org/x/tools/go/ssa"
)

// ---------------------------------------------------------------------------------------------
// engine

// H05 is the engine. The zero value is not usable; use NewH05.
type H05 struct {
	// Anchors are functions (FuncName) that are never looked into when building terms: a call to
	// an anchor stays a call term. Rules name the functions they make statements about here.
	Anchors map[string]bool
	// Follow reports whether the body of fn may be followed (terms, summaries, sinks).
	Follow func(fn *ssa.Function) bool
	// MaxDepth bounds the length of a call chain.
	MaxDepth int

	track    map[*ssa.Alloc]int // 1 trackable, 2 composite (also written field by field), 3 escapes
	frames   map[h05fkey]*H05Frame
	avoid    map[*ssa.BasicBlock]bool
	iterSite map[ssa.Instruction]*Loop // first instruction of a loop body standing for "the loop goes on to the next element"
	terms    map[h05tkey]*H05Term
	loops    map[*ssa.Function][]*Loop
	nonNil   map[*ssa.Function]int // 0 unknown, 1 yes, 2 no, 3 in progress
	estMemo  map[string]H05Verdict
	frameSeq int
	objs     map[h05objKey]*h05obj
	phiAt    map[*H05Frame]ssa.Instruction // set while TermAt runs: the point of use, per activation
	iterTest map[ssa.Instruction]*ssa.BasicBlock
	phiAcc   H05Accept
	phiAccF  *H05Frame
	inPredicate map[*ssa.Function]bool // helpers being walked by predicateCall
}

type h05tkey struct {
	v ssa.Value
	f *H05Frame
}

type h05fkey struct {
	f    *H05Frame
	call ssa.CallInstruction
}

// NewH05 returns an engine that follows the functions of the given packages.
func NewH05(pkgs ...*ssa.Package) *H05 {
	in := map[*ssa.Package]bool{}
	for _, p := range pkgs {
		in[p] = true
	}
	return &H05{
		Anchors:  map[string]bool{},
		MaxDepth: 6,
		Follow: func(fn *ssa.Function) bool {
			if fn == nil || fn.Blocks == nil {
				return false
			}
			root := fn
			for root.Parent() != nil {
				root = root.Parent()
			}
			o := Orig(root)
			if o.Pkg == nil && o.Synthetic != "" && o.Object() != nil && o.Object().Pkg() != nil {
				// bound-method wrapper / thunk of a method of a followed package
				for p := range in {
					if p.Pkg == o.Object().Pkg() {
						return true
					}
				}
				return false
			}
			return o.Pkg != nil && in[o.Pkg]
		},
		track:    map[*ssa.Alloc]int{},
		frames:   map[h05fkey]*H05Frame{},
		iterSite: map[ssa.Instruction]*Loop{},
		terms:    map[h05tkey]*H05Term{},
		loops:    map[*ssa.Function][]*Loop{},
		nonNil:   map[*ssa.Function]int{},
		estMemo:  map[string]H05Verdict{},
	}
}

func (e *H05) loopsOf(fn *ssa.Function) []*Loop {
	if l, ok := e.loops[fn]; ok {
		return l
	}
	l := Loops(fn)
	e.loops[fn] = l
	return l
}

// ---------------------------------------------------------------------------------------------
// locals kept in memory

// trackable reports whether every write to the local al is a direct Store visible in its function
// (or none in the closures that capture it): its address is only used for stores of whole values,
// loads, field/element reads and read-only captures.
func (e *H05) trackable(al *ssa.Alloc) bool { return e.allocKind(al) == 1 }

// composite: the local is (also) written field by field / element by element (a composite literal
// or a struct filled in incrementally) but its address never escapes.
func (e *H05) composite(al *ssa.Alloc) bool { return e.allocKind(al) == 2 }

func (e *H05) allocKind(al *ssa.Alloc) int {
	if k, done := e.track[al]; done {
		return k
	}
	e.track[al] = 3
	partial := false
	k := 3
	if h05AddrUses(al, 0, &partial) {
		k = 1
		if partial {
			k = 2
		}
	}
	e.track[al] = k
	return k
}

// h05AddrUses: addr (an Alloc or a FreeVar bound to one) is used only for whole-value stores (allowed
// for the Alloc itself only), loads, reads/writes of fields/elements (writes set *partial), slicing
// and read-only captures.
func h05AddrUses(addr ssa.Value, depth int, partial *bool) bool {
	if depth > 4 || addr.Referrers() == nil {
		return false
	}
	_, isAlloc := addr.(*ssa.Alloc)
	for _, ref := range *addr.Referrers() {
		switch r := ref.(type) {
		case *ssa.Store:
			if r.Addr != addr || r.Val == addr || !isAlloc {
				return false
			}
		case *ssa.UnOp:
			if r.Op != token.MUL {
				return false
			}
		case *ssa.DebugRef:
		case *ssa.FieldAddr:
			if !h05Derived(r, isAlloc, partial) {
				return false
			}
		case *ssa.IndexAddr:
			if !h05Derived(r, isAlloc, partial) {
				return false
			}
		case *ssa.Slice:
			// `arr[:]` handed to a callee as a read-only digest/byte view
		case *ssa.MakeClosure:
			fn, ok := r.Fn.(*ssa.Function)
			if !ok {
				return false
			}
			for i, b := range r.Bindings {
				if b != addr {
					continue
				}
				ro := false
				if i >= len(fn.FreeVars) || !h05AddrUses(fn.FreeVars[i], depth+1, &ro) || ro {
					return false
				}
			}
		default:
			return false
		}
	}
	return true
}

// h05Derived: the derived address is only loaded from or (if allowed) stored to.
func h05Derived(addr ssa.Value, mayStore bool, partial *bool) bool {
	if addr.Referrers() == nil {
		return false
	}
	for _, ref := range *addr.Referrers() {
		switch r := ref.(type) {
		case *ssa.UnOp:
			if r.Op != token.MUL {
				return false
			}
		case *ssa.DebugRef:
		case *ssa.Store:
			if r.Addr != addr || r.Val == addr || !mayStore {
				return false
			}
			*partial = true
		case *ssa.FieldAddr:
			if !h05Derived(r, mayStore, partial) {
				return false
			}
		case *ssa.IndexAddr:
			if !h05Derived(r, mayStore, partial) {
				return false
			}
		default:
			return false
		}
	}
	return true
}

// ReachingStores returns the values that a load of local al at instruction `at` can observe; a nil
// element stands for the zero value of a not yet assigned local. ok is false if al is not trackable.
func (e *H05) ReachingStores(al *ssa.Alloc, at ssa.Instruction) (vals []ssa.Value, ok bool) {
	if !e.trackable(al) || at.Parent() != al.Parent() {
		return nil, false
	}
	seen := map[*ssa.BasicBlock]bool{}
	have := map[ssa.Value]bool{}
	zero := false
	var collect func(b *ssa.BasicBlock, upto int)
	collect = func(b *ssa.BasicBlock, upto int) {
		for i := upto - 1; i >= 0; i-- {
			switch x := b.Instrs[i].(type) {
			case *ssa.Store:
				if x.Addr == ssa.Value(al) {
					if !have[x.Val] {
						have[x.Val] = true
						vals = append(vals, x.Val)
					}
					return
				}
			case *ssa.Alloc:
				if x == al {
					zero = true
					return
				}
			}
		}
		if len(b.Preds) == 0 {
			zero = true
			return
		}
		for _, p := range b.Preds {
			if !seen[p] {
				seen[p] = true
				collect(p, len(p.Instrs))
			}
		}
	}
	collect(at.Block(), index(at))
	if zero {
		vals = append(vals, nil)
	}
	return vals, true
}

// ReachingFieldStores returns the values that a read of field idx of the local struct al at instruction
// `at` can observe: values stored into the field (nil element: the zero value) and struct values
// assigned to the local as a whole (wholes; the field is then that struct's field). ok is false if al's
// address escapes or the field's address is used for anything but stores and loads.
func (e *H05) ReachingFieldStores(al *ssa.Alloc, idx int, at ssa.Instruction) (vals, wholes []ssa.Value, ok bool) {
	if k := e.allocKind(al); (k != 1 && k != 2) || at.Parent() != al.Parent() {
		return nil, nil, false
	}
	isField := map[ssa.Value]bool{}
	for _, ref := range *al.Referrers() {
		if fa, ok := ref.(*ssa.FieldAddr); ok && fa.Field == idx {
			isField[fa] = true
		}
	}
	seen := map[*ssa.BasicBlock]bool{}
	have := map[ssa.Value]bool{}
	zero := false
	var collect func(b *ssa.BasicBlock, upto int)
	collect = func(b *ssa.BasicBlock, upto int) {
		for i := upto - 1; i >= 0; i-- {
			switch x := b.Instrs[i].(type) {
			case *ssa.Store:
				if isField[x.Addr] {
					if !have[x.Val] {
						have[x.Val] = true
						vals = append(vals, x.Val)
					}
					return
				}
				if x.Addr == ssa.Value(al) {
					if !have[x.Val] {
						have[x.Val] = true
						wholes = append(wholes, x.Val)
					}
					return
				}
			case *ssa.Alloc:
				if x == al {
					zero = true
					return
				}
			}
		}
		if len(b.Preds) == 0 {
			zero = true
			return
		}
		for _, p := range b.Preds {
			if !seen[p] {
				seen[p] = true
				collect(p, len(p.Instrs))
			}
		}
	}
	collect(at.Block(), index(at))
	if zero {
		vals = append(vals, nil)
	}
	return vals, wholes, true
}

// fieldOfLocal is the term of field idx (named key) of the local struct al as read at `at`; nil if it has
// more than one possible value or cannot be followed.
func (e *H05) fieldOfLocal(al *ssa.Alloc, key string, idx int, typ types.Type, at ssa.Instruction, f *H05Frame) *H05Term {
	vals, wholes, ok := e.ReachingFieldStores(al, idx, at)
	if !ok || len(vals)+len(wholes) != 1 {
		return nil
	}
	if len(wholes) == 1 {
		return h05FieldOf(key, idx, e.Term(wholes[0], f))
	}
	if vals[0] == nil {
		return H05T("zero", h05TypeStr(typ))
	}
	return e.Term(vals[0], f)
}

// Resolve looks through conversions, single-edge phis and loads of locals with exactly one reaching
// store (named results of functions with defer, read-only captured variables, address-taken locals).
func (e *H05) Resolve(v ssa.Value) ssa.Value {
	for i := 0; i < 24; i++ {
		v = Unwrap(v)
		ld, ok := v.(*ssa.UnOp)
		if !ok || ld.Op != token.MUL {
			return v
		}
		al, ok := ld.X.(*ssa.Alloc)
		if !ok {
			return v
		}
		vals, ok := e.ReachingStores(al, ld)
		if !ok || len(vals) != 1 || vals[0] == nil {
			return v
		}
		v = vals[0]
	}
	return v
}

// ---------------------------------------------------------------------------------------------
// frames

// H05Frame is an activation of Fn reached from a root function through the static call Call
// (a call, defer or go instruction of Parent.Fn). The root frame has no Call and no Parent.
type H05Frame struct {
	Fn     *ssa.Function
	Call   ssa.CallInstruction
	Parent *H05Frame
	depth  int
	id     string
}

// Root returns the root frame of fn.
func (e *H05) Root(fn *ssa.Function) *H05Frame {
	return &H05Frame{Fn: fn, id: "R:" + FuncName(fn)}
}

// Child returns the frame of the callee of call (a static in-package function or a function literal)
// or nil if the callee cannot be followed (unknown, recursive, too deep).
func (e *H05) Child(f *H05Frame, call ssa.CallInstruction) *H05Frame {
	callee := call.Common().StaticCallee()
	if call.Common().IsInvoke() || callee == nil || !e.Follow(callee) || f.depth >= e.MaxDepth {
		return nil
	}
	for p := f; p != nil; p = p.Parent {
		if p.Fn == callee {
			return nil
		}
	}
	k := h05fkey{f, call}
	if ch, ok := e.frames[k]; ok {
		return ch
	}
	ch := &H05Frame{Fn: callee, Call: call, Parent: f, depth: f.depth + 1,
		id: fmt.Sprintf("%s>%s@%d.%d", f.id, callee.Name(), call.Block().Index, index(call))}
	e.frames[k] = ch
	return ch
}

// Root frame of the chain.
func (f *H05Frame) RootFrame() *H05Frame {
	for f.Parent != nil {
		f = f.Parent
	}
	return f
}

// String names the chain of functions.
func (f *H05Frame) String() string {
	if f.Parent == nil {
		return FuncName(f.Fn)
	}
	return f.Parent.String() + "→" + FuncName(f.Fn)
}

// Walk visits every instruction of the root frame's function and, recursively, of every followable
// callee (calls, defers, go statements, directly used function literals) with its frame.
func (e *H05) Walk(f *H05Frame, visit func(in ssa.Instruction, f *H05Frame)) {
	for _, b := range f.Fn.Blocks {
		for _, in := range b.Instrs {
			visit(in, f)
			if ci, ok := in.(ssa.CallInstruction); ok {
				if ch := e.Child(f, ci); ch != nil {
					e.Walk(ch, visit)
				}
			}
		}
	}
}

// ---------------------------------------------------------------------------------------------
// terms

// H05Term is a canonical description of a value in the space of the root activation.
type H05Term struct {
	Op    string // param const global fn field call dyn invoke builtin extract assert lookup has elem key index slice binop unop closure opaque zero conv
	Name  string
	Args  []*H05Term
	Val   ssa.Value // witness (the call, the parameter ...)
	Frame *H05Frame // frame of the witness
	key   string
}

// Key is the canonical text of the term: equal keys mean equal values.
func (t *H05Term) Key() string {
	if t == nil {
		return "<nil>"
	}
	if t.key != "" {
		return t.key
	}
	var sb strings.Builder
	sb.WriteString(t.Op)
	if t.Name != "" {
		sb.WriteString(":" + t.Name)
	}
	if len(t.Args) > 0 {
		sb.WriteString("(")
		for i, a := range t.Args {
			if i > 0 {
				sb.WriteString(",")
			}
			sb.WriteString(a.Key())
		}
		sb.WriteString(")")
	}
	t.key = sb.String()
	return t.key
}

func (t *H05Term) String() string { return t.Key() }

// Is reports op (and optional name) of the term.
func (t *H05Term) Is(op string, name ...string) bool {
	if t == nil || t.Op != op {
		return false
	}
	return len(name) == 0 || t.Name == name[0]
}

// Same reports whether two terms denote the same value.
func H05Same(a, b *H05Term) bool { return a != nil && b != nil && a.Key() == b.Key() }

// T builds a term by hand (for queries).
func H05T(op, name string, args ...*H05Term) *H05Term {
	return &H05Term{Op: op, Name: name, Args: args}
}

// H05Field is the term of reading struct field key ("core/corepb/v1.QBFTMsg.Duty") of base.
func H05Field(key string, base *H05Term) *H05Term { return H05T("field", key, base) }

// H05CallT is the term of the result of a static call (single result) to the named function.
func H05CallT(name string, args ...*H05Term) *H05Term { return H05T("call", name, args...) }

// H05ExtractT is component i of a tuple term.
func H05ExtractT(i int, tuple *H05Term) *H05Term { return H05T("extract", fmt.Sprint(i), tuple) }

func (e *H05) opaque(v ssa.Value, f *H05Frame) *H05Term {
	return &H05Term{Op: "opaque", Name: fmt.Sprintf("%s@%p#%s", v.Name(), v, f.id), Val: v, Frame: f}
}

// fresh is the term of an object created by this activation (a local variable, make, new): precisely
// known to be different from anything that existed before.
func (e *H05) fresh(v ssa.Value, f *H05Frame) *H05Term {
	return &H05Term{Op: "fresh", Name: fmt.Sprintf("%s@%p#%s", v.Name(), v, f.id), Val: v, Frame: f}
}

// Untraced reports whether the term contains a part the engine could not follow (a merge of different
// values, memory that may be written elsewhere, an unresolved captured variable).
func (t *H05Term) Untraced() bool {
	if t == nil {
		return true
	}
	if t.Op == "opaque" {
		return true
	}
	for _, a := range t.Args {
		if a.Untraced() {
			return true
		}
	}
	return false
}

// Contains reports whether sub occurs in t.
func (t *H05Term) Contains(sub *H05Term) bool {
	if t == nil || sub == nil {
		return false
	}
	if t.Key() == sub.Key() {
		return true
	}
	for _, a := range t.Args {
		if a.Contains(sub) {
			return true
		}
	}
	return false
}

// Term returns the canonical term of v evaluated in frame f.
func (e *H05) Term(v ssa.Value, f *H05Frame) *H05Term {
	k := h05tkey{v, f}
	if t, ok := e.terms[k]; ok {
		if t == nil { // cycle
			return e.opaque(v, f)
		}
		return t
	}
	e.terms[k] = nil
	t := e.term(v, f)
	if t.Val == nil {
		t.Val, t.Frame = v, f
	}
	e.terms[k] = t
	return t
}

// TermAt is the term of v (in frame f) as seen when instruction at (of frame atF) executes: a merge of
// several values (a variable assigned on some paths only, `var duty core.Duty` set inside a branch) is
// the one value it can hold there once the merge edges from which `at` cannot be reached are discarded
// (path-sensitively: an edge taken with a non-nil error never reaches code guarded by `err == nil`).
func (e *H05) TermAt(v ssa.Value, f *H05Frame, at ssa.Instruction, atF *H05Frame) *H05Term {
	return e.TermAtAcc(v, f, at, atF, nil)
}

// TermAtAcc is TermAt where only the arrivals at `at` accepted by acc count (a return that reports success).
func (e *H05) TermAtAcc(v ssa.Value, f *H05Frame, at ssa.Instruction, atF *H05Frame, acc H05Accept) *H05Term {
	t := e.Term(v, f)
	if !t.Untraced() || at == nil || e.phiAt != nil {
		return t
	}
	saved := e.terms
	e.terms = map[h05tkey]*H05Term{}
	e.phiAt = map[*H05Frame]ssa.Instruction{}
	e.phiAcc, e.phiAccF = acc, atF
	for g, in := atF, at; g != nil; g = g.Parent {
		e.phiAt[g] = in
		ci, ok := g.Call.(ssa.Instruction)
		if !ok {
			break
		}
		in = ci
	}
	defer func() { e.terms, e.phiAt, e.phiAcc, e.phiAccF = saved, nil, nil, nil }()
	if t2 := e.Term(v, f); !t2.Untraced() {
		return t2
	}
	return t
}

func h05TypeStr(t types.Type) string { return Short(types.TypeString(t, nil)) }

func (e *H05) term(v ssa.Value, f *H05Frame) *H05Term {
	switch x := v.(type) {
	case *ssa.ChangeType:
		return e.Term(x.X, f)
	case *ssa.MakeInterface:
		return e.Term(x.X, f)
	case *ssa.ChangeInterface:
		return e.Term(x.X, f)
	case *ssa.Convert:
		return e.Term(x.X, f)
	case *ssa.SliceToArrayPointer:
		return H05T("toarrayptr", "", e.Term(x.X, f))
	case *ssa.Phi:
		var first *H05Term
		at := e.phiAt[f]
		for i, ed := range x.Edges {
			if ed == ssa.Value(x) {
				continue
			}
			if at != nil && at.Parent() == x.Parent() && i < len(x.Block().Preds) &&
				!e.ReachFromEdge(x.Block().Preds[i], x.Block(), at, nil, e.accFor(f)) {
				continue // this edge never leads to the point of use
			}
			t := e.Term(ed, f)
			if first == nil {
				first = t
			} else if first.Key() != t.Key() {
				return e.opaque(v, f)
			}
		}
		if first != nil && first.Op != "opaque" {
			return first
		}
		return e.opaque(v, f)
	case *ssa.Parameter:
		for i, p := range f.Fn.Params {
			if p == x {
				if f.Call != nil && i < len(f.Call.Common().Args) {
					return e.Term(f.Call.Common().Args[i], f.Parent)
				}
				return &H05Term{Op: "param", Name: fmt.Sprintf("%s#%d", FuncName(f.Fn), i), Val: x, Frame: f}
			}
		}
		return e.opaque(v, f)
	case *ssa.FreeVar:
		if b, bf := e.binding(x, f); b != nil {
			return e.Term(b, bf)
		}
		return e.opaque(v, f)
	case *ssa.Const:
		val := "nil"
		if x.Value != nil {
			val = x.Value.ExactString()
		}
		return H05T("const", h05TypeStr(x.Type())+":"+val)
	case *ssa.Global:
		return H05T("global", Short(x.String()))
	case *ssa.Function:
		return H05T("fn", FuncName(x))
	case *ssa.Builtin:
		return H05T("builtinfn", x.Name())
	case *ssa.MakeClosure:
		if fn, ok := x.Fn.(*ssa.Function); ok {
			return &H05Term{Op: "closure", Name: FuncName(fn), Val: x, Frame: f}
		}
		return e.opaque(v, f)
	case *ssa.Alloc, *ssa.MakeMap, *ssa.MakeSlice, *ssa.MakeChan:
		return e.fresh(v, f)
	case *ssa.UnOp:
		if x.Op != token.MUL {
			return H05T("unop", x.Op.String(), e.Term(x.X, f))
		}
		return e.loadTerm(x, f)
	case *ssa.BinOp:
		a, b := e.Term(x.X, f), e.Term(x.Y, f)
		switch x.Op {
		case token.ADD, token.MUL, token.EQL, token.NEQ, token.AND, token.OR, token.XOR:
			if b.Key() < a.Key() {
				a, b = b, a
			}
		}
		return H05T("binop", x.Op.String(), a, b)
	case *ssa.Field:
		return h05FieldOf(FieldKey(x.X.Type(), x.Field), x.Field, e.Term(x.X, f))
	case *ssa.FieldAddr:
		return H05T("fieldaddr", FieldKey(x.X.Type(), x.Field), e.Term(x.X, f))
	case *ssa.IndexAddr:
		if el := e.elemOf(x.X, x.Index, x.Block(), f); el != nil {
			return H05T("addrof", "", el)
		}
		return H05T("indexaddr", "", e.Term(x.X, f), e.Term(x.Index, f))
	case *ssa.Index:
		if el := e.elemOf(x.X, x.Index, x.Block(), f); el != nil {
			return el
		}
		return H05T("index", "", e.Term(x.X, f), e.Term(x.Index, f))
	case *ssa.Lookup:
		if x.CommaOk {
			return H05T("lookup2", "", e.Term(x.X, f), e.Term(x.Index, f))
		}
		return H05T("lookup", "", e.Term(x.X, f), e.Term(x.Index, f))
	case *ssa.TypeAssert:
		if x.CommaOk {
			return H05T("assert2", h05TypeStr(x.AssertedType), e.Term(x.X, f))
		}
		return H05T("assert", h05TypeStr(x.AssertedType), e.Term(x.X, f))
	case *ssa.Slice:
		var base *H05Term
		if al, ok := x.X.(*ssa.Alloc); ok {
			if vals, ok := e.ReachingStores(al, x); ok && len(vals) == 1 && vals[0] != nil {
				base = e.Term(vals[0], f)
			}
		}
		if base == nil {
			base = e.Term(x.X, f)
		}
		if x.Low == nil && x.High == nil && x.Max == nil {
			return H05T("slice", "", base)
		}
		args := []*H05Term{base}
		for _, b := range []ssa.Value{x.Low, x.High, x.Max} {
			if b == nil {
				args = append(args, H05T("none", ""))
			} else {
				args = append(args, e.Term(b, f))
			}
		}
		return H05T("slice3", "", args...)
	case *ssa.Extract:
		return e.extractTerm(x, f)
	case *ssa.Call:
		return e.callTerm(x, f, -1)
	}
	return e.opaque(v, f)
}

// binding resolves a free variable of f.Fn to the value bound at closure creation and the frame that
// value lives in.
func (e *H05) binding(fv *ssa.FreeVar, f *H05Frame) (ssa.Value, *H05Frame) {
	idx := -1
	for i, x := range f.Fn.FreeVars {
		if x == fv {
			idx = i
		}
	}
	if idx < 0 {
		return nil, nil
	}
	if f.Call != nil {
		if mc, ok := f.Call.Common().Value.(*ssa.MakeClosure); ok && mc.Fn == ssa.Value(f.Fn) && idx < len(mc.Bindings) {
			return mc.Bindings[idx], f.Parent
		}
	}
	// a literal of the enclosing function that is the frame's parent (or the root's lexical parent)
	par := f.Fn.Parent()
	if par == nil {
		return nil, nil
	}
	var pf *H05Frame
	for p := f.Parent; p != nil; p = p.Parent {
		if p.Fn == par {
			pf = p
			break
		}
	}
	if pf == nil {
		return nil, nil
	}
	var bind ssa.Value
	for _, in := range Instrs(par, false) {
		if mc, ok := in.(*ssa.MakeClosure); ok && mc.Fn == ssa.Value(f.Fn) {
			if bind != nil {
				return nil, nil
			}
			bind = mc.Bindings[idx]
		}
	}
	return bind, pf
}

func (e *H05) loadTerm(ld *ssa.UnOp, f *H05Frame) *H05Term {
	switch a := ld.X.(type) {
	case *ssa.Alloc:
		if vals, ok := e.ReachingStores(a, ld); ok && len(vals) == 1 {
			if vals[0] == nil {
				return H05T("zero", h05TypeStr(ld.Type()))
			}
			return e.Term(vals[0], f)
		}
		if t := e.literalTerm(a, ld, f); t != nil {
			return t
		}
		if t := e.feasibleStore(a, ld, f); t != nil {
			return t
		}
		return e.opaque(ld, f)
	case *ssa.FieldAddr:
		if al, ok := a.X.(*ssa.Alloc); ok {
			// field of a local struct value (spilled value receiver, copied argument)
			if vals, ok := e.ReachingStores(al, ld); ok && len(vals) == 1 && vals[0] != nil {
				return h05FieldOf(FieldKey(a.X.Type(), a.Field), a.Field, e.Term(vals[0], f))
			}
			// field of a struct built in place (composite literal, parameter object filled in step by step)
			if t := e.fieldOfLocal(al, FieldKey(a.X.Type(), a.Field), a.Field, ld.Type(), ld, f); t != nil {
				return t
			}
			// a parameter object: built here, handed to helpers / methods by address
			if t := e.objField(al, f, a.Field, ld, f); t != nil {
				return t
			}
			return e.opaque(ld, f)
		}
		bt := e.Term(a.X, f)
		if bt.Op == "fresh" {
			// field of an object created by an enclosing activation (a parameter object / a method
			// receiver holding the state of the operation): the value stored into it, if that is one value
			// stored before this read
			if al, ok := bt.Val.(*ssa.Alloc); ok && bt.Frame != nil {
				if t := e.objField(al, bt.Frame, a.Field, ld, f); t != nil {
					return t
				}
			}
			return e.opaque(ld, f)
		}
		return H05Field(FieldKey(a.X.Type(), a.Field), bt)
	case *ssa.IndexAddr:
		if el := e.elemOf(a.X, a.Index, a.Block(), f); el != nil {
			return el
		}
		return H05T("index", "", e.Term(a.X, f), e.Term(a.Index, f))
	case *ssa.FreeVar:
		// a captured variable: the value it holds when the literal runs, if it is only assigned once
		if b, bf := e.binding(a, f); b != nil {
			if al, ok := b.(*ssa.Alloc); ok && e.trackable(al) {
				if src := UniqueStore(al); src != nil {
					return e.Term(src, bf)
				}
			}
		}
		return e.opaque(ld, f)
	case *ssa.Global:
		return H05T("gload", Short(a.String()))
	}
	return H05T("deref", "", e.Term(ld.X, f))
}

// ---- parameter objects

type h05objStore struct {
	val ssa.Value
	st  *ssa.Store
	f   *H05Frame
}

type h05obj struct {
	escaped bool
	stores  map[int][]h05objStore
}

type h05objKey struct {
	al *ssa.Alloc
	f  *H05Frame
}

// objInfo follows the address of the struct object al (created in frame f0) through the activations
// reachable from f0: field reads and writes, arguments of followed calls, single-assignment spills. Any
// other use (stored, returned, converted, captured, handed to code that is not followed) makes it escaped.
func (e *H05) objInfo(al *ssa.Alloc, f0 *H05Frame) *h05obj {
	if e.objs == nil {
		e.objs = map[h05objKey]*h05obj{}
	}
	k := h05objKey{al, f0}
	if o, ok := e.objs[k]; ok {
		return o
	}
	o := &h05obj{stores: map[int][]h05objStore{}}
	e.objs[k] = o
	if _, ok := al.Type().Underlying().(*types.Pointer).Elem().Underlying().(*types.Struct); !ok {
		o.escaped = true
		return o
	}
	type alias struct {
		v ssa.Value
		f *H05Frame
	}
	seen := map[alias]bool{}
	work := []alias{{al, f0}}
	for len(work) > 0 && !o.escaped {
		a := work[len(work)-1]
		work = work[:len(work)-1]
		if seen[a] || a.v.Referrers() == nil {
			continue
		}
		seen[a] = true
		for _, ref := range *a.v.Referrers() {
			switch r := ref.(type) {
			case *ssa.DebugRef:
			case *ssa.UnOp:
				if r.Op != token.MUL {
					o.escaped = true
				}
			case *ssa.FieldAddr:
				if r.X != a.v {
					o.escaped = true
					break
				}
				for _, r2 := range *r.Referrers() {
					switch x := r2.(type) {
					case *ssa.Store:
						if x.Addr != ssa.Value(r) {
							o.escaped = true
						} else {
							o.stores[r.Field] = append(o.stores[r.Field], h05objStore{x.Val, x, a.f})
						}
					case *ssa.UnOp:
						if x.Op != token.MUL {
							o.escaped = true
						}
					case *ssa.DebugRef:
					default:
						// address of a field taken (nested struct, &o.f handed on): not followed
						o.escaped = true
					}
				}
			case *ssa.Store:
				sp, ok := r.Addr.(*ssa.Alloc)
				if r.Val != a.v || !ok || !e.trackable(sp) || UniqueStore(sp) != a.v {
					o.escaped = true
					break
				}
				for _, r2 := range *sp.Referrers() {
					if ld, ok := r2.(*ssa.UnOp); ok && ld.Op == token.MUL {
						work = append(work, alias{ld, a.f})
					}
				}
			case ssa.CallInstruction:
				cc := r.Common()
				if cc.Value == a.v {
					o.escaped = true
					break
				}
				ch := e.Child(a.f, r)
				if ch == nil {
					o.escaped = true
					break
				}
				for i, arg := range cc.Args {
					if arg == a.v {
						if i >= len(ch.Fn.Params) {
							o.escaped = true
							break
						}
						work = append(work, alias{ch.Fn.Params[i], ch})
					}
				}
			default:
				o.escaped = true
			}
		}
	}
	return o
}

// objField is the term of field idx of the object al (created in frame f0) as read by `at` in frame f:
// the single value stored into it, provided the store is executed before the read; nil if unknown.
func (e *H05) objField(al *ssa.Alloc, f0 *H05Frame, idx int, at ssa.Instruction, f *H05Frame) *H05Term {
	o := e.objInfo(al, f0)
	if o.escaped {
		return nil
	}
	ss := o.stores[idx]
	if len(ss) != 1 {
		return nil
	}
	if !e.happensBefore(ss[0].st, ss[0].f, at, f) {
		return nil
	}
	return e.Term(ss[0].val, ss[0].f)
}

// happensBefore: instruction a of activation fa has been executed whenever instruction b of activation
// fb executes (both lifted to their lowest common activation; a helper that holds a must execute it on
// every return).
func (e *H05) happensBefore(a ssa.Instruction, fa *H05Frame, b ssa.Instruction, fb *H05Frame) bool {
	anc := map[*H05Frame]bool{}
	for g := fa; g != nil; g = g.Parent {
		anc[g] = true
	}
	lca := fb
	for lca != nil && !anc[lca] {
		lca = lca.Parent
	}
	if lca == nil {
		return false
	}
	// lift b
	for g := fb; g != lca; g = g.Parent {
		ci, ok := g.Call.(ssa.Instruction)
		if !ok {
			return false
		}
		b = ci
	}
	// lift a: it must be executed on every return of the helpers it is nested in
	for g := fa; g != lca; g = g.Parent {
		if _, isCall := g.Call.(*ssa.Call); !isCall {
			return false
		}
		for _, r := range Returns(g.Fn) {
			if r.Block().Comment == "recover" {
				continue
			}
			if !Dominates(a, r) {
				return false
			}
		}
		a = g.Call.(ssa.Instruction)
	}
	return a != b && Dominates(a, b)
}

func (e *H05) accFor(f *H05Frame) H05Accept {
	if f == e.phiAccF {
		return e.phiAcc
	}
	return nil
}

// feasibleStore (only while TermAt runs): the local al, read by ld, holds one of several stored values;
// those whose store cannot be followed by the point of use (path-sensitively) are discarded, as is "not
// yet assigned" when the point of use cannot be reached around all the stores.
func (e *H05) feasibleStore(al *ssa.Alloc, ld *ssa.UnOp, f *H05Frame) *H05Term {
	at := e.phiAt[f]
	if at == nil || at.Parent() != al.Parent() {
		return nil
	}
	vals, ok := e.ReachingStores(al, ld)
	if !ok || len(vals) < 2 {
		return nil
	}
	stores := map[ssa.Value][]*ssa.Store{}
	blocks := map[*ssa.BasicBlock]bool{}
	for _, ref := range *al.Referrers() {
		if st, ok := ref.(*ssa.Store); ok && st.Addr == ssa.Value(al) {
			stores[st.Val] = append(stores[st.Val], st)
			if ld, ok := st.Val.(*ssa.UnOp); ok && ld.Op == token.MUL && ld.X == ssa.Value(al) {
				continue // `return x, err` of a function with named results: x is stored back into itself
			}
			blocks[st.Block()] = true
		}
	}
	var first *H05Term
	for _, v := range vals {
		if v == nil {
			// the zero value: reach the point of use from the declaration without passing a store
			saved := e.avoid
			e.avoid = blocks
			reach, _ := e.ReachUnder(al, at, nil, e.accFor(f))
			e.avoid = saved
			if blocks[al.Block()] || blocks[at.Block()] {
				reach = true
			}
			if reach {
				return nil
			}
			continue
		}
		feasible := false
		for _, st := range stores[v] {
			if reach, _ := e.ReachUnder(st, at, nil, e.accFor(f)); reach {
				feasible = true
			}
		}
		if !feasible {
			continue
		}
		t := e.Term(v, f)
		if first == nil {
			first = t
		} else if first.Key() != t.Key() {
			return nil
		}
	}
	if first == nil || first.Op == "opaque" {
		return nil
	}
	return first
}

// h05FieldOf selects a field of a struct term: the component of a literal, else a field read.
func h05FieldOf(key string, idx int, base *H05Term) *H05Term {
	if base.Op == "lit" && idx < len(base.Args) {
		return base.Args[idx]
	}
	return H05Field(key, base)
}

// literalTerm is the term of the struct value held by the local al at `at` when the local is built field
// by field (a composite literal or a struct filled in step by step): lit:<type>{field terms}. A struct
// whose every field is the same-named field of one other value denotes that value. nil if a field cannot
// be resolved.
func (e *H05) literalTerm(al *ssa.Alloc, at ssa.Instruction, f *H05Frame) *H05Term {
	if !e.composite(al) {
		return nil
	}
	st, ok := al.Type().Underlying().(*types.Pointer).Elem().Underlying().(*types.Struct)
	if !ok {
		return nil
	}
	args := make([]*H05Term, st.NumFields())
	for i := 0; i < st.NumFields(); i++ {
		if args[i] = e.fieldOfLocal(al, FieldKey(al.Type(), i), i, st.Field(i).Type(), at, f); args[i] == nil {
			return nil
		}
	}
	var base *H05Term
	for i, a := range args {
		if a.Op != "field" || len(a.Args) != 1 || !strings.HasSuffix(a.Name, "."+st.Field(i).Name()) ||
			!strings.HasPrefix(a.Name, TypeName(al.Type())+".") {
			base = nil
			break
		}
		if i == 0 {
			base = a.Args[0]
		} else if base == nil || base.Key() != a.Args[0].Key() {
			base = nil
			break
		}
	}
	if base != nil && st.NumFields() > 0 {
		return base
	}
	t := H05T("lit", h05TypeStr(al.Type()), args...)
	t.Val, t.Frame = at.(ssa.Value), f
	return t
}

// H05Range describes a loop that visits every element of a collection exactly once, in order.
type H05Range struct {
	Loop *Loop
	Coll ssa.Value // the slice/array/map/string ranged over
	Idx  ssa.Value // the value used as element index inside the body (nil for map/string ranges)
	// Test is the block whose branch ends the loop by exhaustion (the header, or a later block of a compound
	// condition `for i := 0; err == nil && i < len(coll); i++`). Leaving the loop anywhere else is an early exit.
	Test *ssa.BasicBlock
}

// RangeOf recognises `for i, x := range coll`, `for i := range coll`, `for i := 0; i < len(coll); i++`
// (also with len hoisted into a local). nil if the loop is anything else.
func (e *H05) RangeOf(l *Loop) *H05Range {
	for _, in := range l.Header.Instrs {
		if nx, ok := in.(*ssa.Next); ok {
			if r, ok := nx.Iter.(*ssa.Range); ok {
				return &H05Range{Loop: l, Coll: r.X, Test: l.Header}
			}
		}
	}
	if r := e.rangeTestedIn(l, l.Header); r != nil {
		return r
	}
	// compound loop condition: the bound test sits in a later block that every iteration passes
	var blocks []*ssa.BasicBlock
	for b := range l.Body {
		if b != l.Header {
			blocks = append(blocks, b)
		}
	}
	sort.Slice(blocks, func(i, j int) bool { return blocks[i].Index < blocks[j].Index })
	for _, b := range blocks {
		all := true
		for _, la := range l.Latches {
			all = all && (b == la || b.Dominates(la))
		}
		if in := InnermostLoop(b.Parent(), b); !all || in == nil || in.Header != l.Header {
			continue
		}
		if r := e.rangeTestedIn(l, b); r != nil {
			return r
		}
	}
	return nil
}

// rangeTestedIn: block tb of loop l ends with the test `idx < len(coll)` of an index that counts up from 0
// in steps of one (a phi of the loop header).
func (e *H05) rangeTestedIn(l *Loop, tb *ssa.BasicBlock) *H05Range {
	if len(tb.Instrs) == 0 || len(tb.Succs) != 2 {
		return nil
	}
	iff, ok := tb.Instrs[len(tb.Instrs)-1].(*ssa.If)
	if !ok {
		return nil
	}
	bin, ok := iff.Cond.(*ssa.BinOp)
	if !ok {
		return nil
	}
	idx, bound := bin.X, bin.Y
	switch bin.Op {
	case token.LSS:
	case token.GTR:
		idx, bound = bin.Y, bin.X
	case token.NEQ: // i != len(coll), counting up from 0 in steps of 1 (checked below)
		if c, ok := e.Resolve(bin.X).(*ssa.Call); ok {
			if b, ok := c.Call.Value.(*ssa.Builtin); ok && b.Name() == "len" {
				idx, bound = bin.Y, bin.X
			}
		}
	default:
		return nil
	}
	// the true edge must stay in the loop, the false edge must leave it
	if !l.Body[tb.Succs[0]] || l.Body[tb.Succs[1]] {
		return nil
	}
	ln, ok := e.Resolve(bound).(*ssa.Call)
	if !ok {
		return nil
	}
	if b, ok := ln.Call.Value.(*ssa.Builtin); !ok || b.Name() != "len" || len(ln.Call.Args) != 1 {
		return nil
	}
	coll := ln.Call.Args[0]
	// induction variable: phi(start, phi+1) in the header
	var phi *ssa.Phi
	plusOne := false
	switch x := idx.(type) {
	case *ssa.Phi:
		phi = x
	case *ssa.BinOp:
		if p, ok := x.X.(*ssa.Phi); ok && x.Op == token.ADD {
			if k, ok := ConstInt(x.Y); ok && k == 1 {
				phi, plusOne = p, true
			}
		}
	}
	if phi == nil || phi.Block() != l.Header || len(phi.Edges) != len(l.Header.Preds) {
		return nil
	}
	for i, p := range l.Header.Preds {
		ed := phi.Edges[i]
		if l.Body[p] { // latch: phi+1
			inc, ok := ed.(*ssa.BinOp)
			if !ok || inc.Op != token.ADD || inc.X != ssa.Value(phi) {
				return nil
			}
			if k, ok := ConstInt(inc.Y); !ok || k != 1 {
				return nil
			}
			if plusOne && ed != idx {
				return nil
			}
		} else { // entry
			k, ok := ConstInt(ed)
			if !ok || (plusOne && k != -1) || (!plusOne && k != 0) {
				return nil
			}
		}
	}
	return &H05Range{Loop: l, Coll: coll, Idx: idx, Test: tb}
}

// elemOf: coll[idx] read in block b is the element visited by a full range loop over coll.
func (e *H05) elemOf(coll, idx ssa.Value, b *ssa.BasicBlock, f *H05Frame) *H05Term {
	for _, l := range e.loopsOf(b.Parent()) {
		if !l.Body[b] {
			continue
		}
		r := e.RangeOf(l)
		if r == nil || r.Idx == nil || r.Idx != idx {
			continue
		}
		ct := e.Term(coll, f)
		if ct.Key() != e.Term(r.Coll, f).Key() {
			continue
		}
		return H05T("elem", "", ct)
	}
	return nil
}

// H05Elem is the term of "the element of coll visited by the current iteration".
func H05Elem(coll *H05Term) *H05Term { return H05T("elem", "", coll) }

func (e *H05) extractTerm(x *ssa.Extract, f *H05Frame) *H05Term {
	switch tp := x.Tuple.(type) {
	case *ssa.Call:
		return e.callTerm(tp, f, x.Index)
	case *ssa.TypeAssert:
		if x.Index == 0 {
			return H05T("assert", h05TypeStr(tp.AssertedType), e.Term(tp.X, f))
		}
		return H05T("assertok", h05TypeStr(tp.AssertedType), e.Term(tp.X, f))
	case *ssa.Lookup:
		if x.Index == 0 {
			return H05T("lookup", "", e.Term(tp.X, f), e.Term(tp.Index, f))
		}
		return H05T("has", "", e.Term(tp.X, f), e.Term(tp.Index, f))
	case *ssa.Next:
		if r, ok := tp.Iter.(*ssa.Range); ok {
			switch x.Index {
			case 1:
				return H05T("key", "", e.Term(r.X, f))
			case 2:
				return H05T("elem", "", e.Term(r.X, f))
			}
		}
	}
	return H05ExtractT(x.Index, e.Term(x.Tuple, f))
}

// callTerm is the term of result idx of the call (idx < 0: the whole result).
func (e *H05) callTerm(c *ssa.Call, f *H05Frame, idx int) *H05Term {
	cc := &c.Call
	args := make([]*H05Term, 0, len(cc.Args)+1)
	var t *H05Term
	switch {
	case cc.IsInvoke():
		args = append(args, e.Term(cc.Value, f))
		for _, a := range cc.Args {
			args = append(args, e.Term(a, f))
		}
		t = H05T("invoke", TypeName(cc.Value.Type())+"."+cc.Method.Name(), args...)
	default:
		if b, ok := cc.Value.(*ssa.Builtin); ok {
			if b.Name() == "append" && len(cc.Args) == 2 {
				// append(nil, x...) is an element-wise copy of x
				if k, ok := cc.Args[0].(*ssa.Const); ok && k.Value == nil {
					if _, isLit := cc.Args[1].(*ssa.Slice); !isLit {
						return e.Term(cc.Args[1], f)
					}
				}
			}
			for _, a := range cc.Args {
				args = append(args, e.Term(a, f))
			}
			t = H05T("builtin", b.Name(), args...)
			break
		}
		callee := cc.StaticCallee()
		if callee != nil && len(cc.Args) == 1 {
			switch FuncName(callee) {
			case "slices.Clone", "maps.Clone":
				return e.Term(cc.Args[0], f)
			}
		}
		if callee == nil {
			args = append(args, e.Term(cc.Value, f))
			for _, a := range cc.Args {
				args = append(args, e.Term(a, f))
			}
			t = H05T("dyn", "", args...)
			break
		}
		if !e.Anchors[FuncName(callee)] {
			if r := e.projection(c, callee, f, idx); r != nil {
				return r
			}
		}
		for _, a := range cc.Args {
			args = append(args, e.Term(a, f))
		}
		t = H05T("call", FuncName(callee), args...)
	}
	t.Val, t.Frame = c, f
	if idx >= 0 {
		x := H05ExtractT(idx, t)
		x.Val, x.Frame = c, f
		return x
	}
	return t
}

// projection: if every non-failing return of the (followable, non-anchor) callee yields the same term
// for result idx (zero constants ignored), the call denotes that term.
func (e *H05) projection(c *ssa.Call, callee *ssa.Function, f *H05Frame, idx int) *H05Term {
	ch := e.Child(f, c)
	if ch == nil {
		return nil
	}
	nres := callee.Signature.Results().Len()
	if nres == 0 || (idx < 0 && nres != 1) || idx >= nres {
		return nil
	}
	if idx < 0 {
		idx = 0
	}
	var found *H05Term
	for _, r := range Returns(callee) {
		if len(r.Results) != nres || e.FailingReturn(r, H05Spec{ErrNil: true, BoolIdx: -1}) {
			continue
		}
		rv := e.Resolve(r.Results[idx])
		if k, ok := rv.(*ssa.Const); ok && (k.Value == nil || h05IsZeroConst(k)) {
			continue
		}
		t := e.Term(r.Results[idx], ch)
		if t.Op == "zero" {
			continue
		}
		if found == nil {
			found = t
		} else if found.Key() != t.Key() {
			return nil
		}
	}
	if found == nil || found.Op == "opaque" {
		return nil
	}
	return found
}

func h05IsZeroConst(k *ssa.Const) bool {
	if k.Value == nil {
		return true
	}
	switch k.Value.Kind() {
	case constant.Bool:
		return !constant.BoolVal(k.Value)
	case constant.Int, constant.Float:
		return constant.Sign(k.Value) == 0
	case constant.String:
		return constant.StringVal(k.Value) == ""
	}
	return false
}

// ---------------------------------------------------------------------------------------------
// abstract values and valuation-driven reachability

// H05Kind classifies what is known about a value.
type H05Kind int

const (
	H05Unknown H05Kind = iota
	H05Const           // K holds the constant
	H05Nil
	H05NonNil
)

// H05Abs is an abstract value.
type H05Abs struct {
	Kind H05Kind
	K    constant.Value
}

// H05Env assigns abstract values to SSA values (looked up on the value itself and on its Resolve).
type H05Env map[ssa.Value]H05Abs

func H05ConstAbs(k constant.Value) H05Abs { return H05Abs{Kind: H05Const, K: k} }

var (
	H05NilAbs    = H05Abs{Kind: H05Nil}
	H05NonNilAbs = H05Abs{Kind: H05NonNil}
)

// nonNilResult: every return of fn yields a non-nil interface (an error constructor such as
// errors.New / errors.Wrap).
func (e *H05) nonNilResult(fn *ssa.Function) bool {
	if fn == nil {
		return false
	}
	switch FuncName(fn) {
	case "errors.New", "fmt.Errorf":
		return true
	}
	if fn.Blocks == nil || fn.Signature.Results().Len() != 1 || !isErrorType(fn.Signature.Results().At(0).Type()) {
		return false
	}
	switch e.nonNil[fn] {
	case 1:
		return true
	case 2, 3:
		return false
	}
	e.nonNil[fn] = 3
	ok := true
	for _, r := range Returns(fn) {
		switch x := r.Results[0].(type) {
		case *ssa.MakeInterface:
			if _, isPtr := x.X.Type().Underlying().(*types.Pointer); isPtr {
				if _, isAlloc := x.X.(*ssa.Alloc); !isAlloc {
					ok = false
				}
			}
		case *ssa.Call:
			if !e.nonNilResult(x.Call.StaticCallee()) {
				ok = false
			}
		default:
			ok = false
		}
	}
	if len(Returns(fn)) == 0 {
		ok = false
	}
	if ok {
		e.nonNil[fn] = 1
	} else {
		e.nonNil[fn] = 2
	}
	return ok
}

type h05eval struct {
	e         *H05
	env       H05Env
	path      h05path // values known along the path being walked (may be nil)
	imprecise bool
}

// eval returns the abstract value of v; b/pred identify the edge by which the block holding the phis
// was entered (pred nil: unknown). touched reports that env was consulted successfully below v.
func (ev *h05eval) eval(v ssa.Value, b, pred *ssa.BasicBlock, d int) (abs H05Abs, touched bool) {
	if d > 12 || v == nil {
		return H05Abs{}, false
	}
	if a, ok := ev.env[v]; ok {
		return a, true
	}
	if pv, ok := ev.path[v]; ok {
		return pv.a, pv.t
	}
	rv := ev.e.Resolve(v)
	if rv != v {
		if a, ok := ev.env[rv]; ok {
			return a, true
		}
		if pv, ok := ev.path[rv]; ok {
			return pv.a, pv.t
		}
	}
	switch x := rv.(type) {
	case *ssa.Const:
		if x.Value == nil {
			if !isBasic(x.Type()) {
				switch x.Type().Underlying().(type) {
				case *types.Pointer, *types.Interface, *types.Map, *types.Slice, *types.Chan, *types.Signature:
					return H05NilAbs, false
				}
			}
			return H05Abs{}, false
		}
		return H05ConstAbs(x.Value), false
	case *ssa.MakeInterface:
		return H05NonNilAbs, false
	case *ssa.Alloc, *ssa.MakeMap, *ssa.MakeSlice, *ssa.MakeChan, *ssa.MakeClosure, *ssa.Function:
		return H05NonNilAbs, false
	case *ssa.UnOp:
		if x.Op == token.NOT {
			a, t := ev.eval(x.X, b, pred, d+1)
			if a.Kind == H05Const && a.K.Kind() == constant.Bool {
				return H05ConstAbs(constant.MakeBool(!constant.BoolVal(a.K))), t
			}
			if t {
				ev.imprecise = true
			}
			return H05Abs{}, t
		}
	case *ssa.BinOp:
		switch x.Op {
		case token.EQL, token.NEQ, token.LSS, token.LEQ, token.GTR, token.GEQ:
			l, t1 := ev.eval(x.X, b, pred, d+1)
			r, t2 := ev.eval(x.Y, b, pred, d+1)
			t := t1 || t2
			if res, ok := h05Compare(l, x.Op, r); ok {
				return H05ConstAbs(constant.MakeBool(res)), t
			}
			if t {
				ev.imprecise = true
			}
			return H05Abs{}, t
		}
		_, t1 := ev.eval(x.X, b, pred, d+1)
		_, t2 := ev.eval(x.Y, b, pred, d+1)
		if t1 || t2 {
			ev.imprecise = true
		}
		return H05Abs{}, t1 || t2
	case *ssa.Phi:
		if x.Block() == b && pred != nil {
			for i, q := range b.Preds {
				if q == pred {
					return ev.eval(x.Edges[i], b, pred, d+1)
				}
			}
		}
		var first H05Abs
		touched := false
		for i, ed := range x.Edges {
			if ed == ssa.Value(x) {
				continue
			}
			a, t := ev.eval(ed, nil, nil, d+1)
			touched = touched || t
			if a.Kind == H05Unknown {
				if touched {
					ev.imprecise = true
				}
				return H05Abs{}, touched
			}
			if i == 0 || first.Kind == H05Unknown {
				first = a
			} else if !h05AbsEqual(first, a) {
				if touched {
					ev.imprecise = true
				}
				return H05Abs{}, touched
			}
		}
		return first, touched
	case *ssa.Extract:
		if c, ok := x.Tuple.(*ssa.Call); ok {
			if a, t, ok := ev.throughCall(c, x.Index, b, pred, d); ok {
				return a, t
			}
		}
	case *ssa.Call:
		if !x.Call.IsInvoke() && ev.e.nonNilResult(x.Call.StaticCallee()) {
			return H05NonNilAbs, false
		}
		if x.Call.Signature().Results().Len() == 1 {
			if a, t, ok := ev.throughCall(x, 0, b, pred, d); ok {
				return a, t
			}
			if a, t, ok := ev.predicateCall(x, b, pred, d); ok {
				return a, t
			}
		}
		for _, a := range x.Call.Args {
			if _, ok := ev.env[a]; ok {
				ev.imprecise = true
				return H05Abs{}, true
			}
			if ra := ev.e.Resolve(a); ra != a {
				if _, ok := ev.env[ra]; ok {
					ev.imprecise = true
					return H05Abs{}, true
				}
			}
		}
	}
	return H05Abs{}, false
}

// throughCall: result idx of a call to a followable helper or function literal that hands on one of its
// parameters, a constant or a freshly built error on every return (`fail(err)`, `wrap(err)`) has the
// abstract value of that.
func (ev *h05eval) throughCall(c *ssa.Call, idx int, b, pred *ssa.BasicBlock, d int) (H05Abs, bool, bool) {
	callee := c.Call.StaticCallee()
	if c.Call.IsInvoke() || callee == nil || callee.Blocks == nil || d > 8 || !ev.e.Follow(callee) || ev.e.Anchors[FuncName(callee)] {
		return H05Abs{}, false, false
	}
	var out H05Abs
	touched, n := false, 0
	for _, r := range Returns(callee) {
		if r.Block().Comment == "recover" || idx >= len(r.Results) {
			continue
		}
		var a H05Abs
		t := false
		switch res := Unwrap(r.Results[idx]).(type) {
		case *ssa.Parameter:
			pi := -1
			for i, p := range callee.Params {
				if p == res {
					pi = i
				}
			}
			if pi < 0 || pi >= len(c.Call.Args) {
				return H05Abs{}, false, false
			}
			a, t = ev.eval(c.Call.Args[pi], b, pred, d+1)
		case *ssa.Const:
			a, _ = ev.eval(res, nil, nil, d+1)
		case *ssa.Call:
			if res.Call.IsInvoke() || !ev.e.nonNilResult(res.Call.StaticCallee()) {
				return H05Abs{}, false, false
			}
			a = H05NonNilAbs
		default:
			return H05Abs{}, false, false
		}
		if a.Kind == H05Unknown {
			return H05Abs{}, t, false
		}
		if n > 0 && !h05AbsEqual(out, a) {
			return H05Abs{}, touched || t, false
		}
		out, touched = a, touched || t
		n++
	}
	if n == 0 {
		return H05Abs{}, false, false
	}
	return out, touched, true
}

// predicateCall: the single basic-typed result of a call to a small followable helper (a named test such as
// `isExpiredOrExempt(status)`), found by walking the helper with the abstract values of the arguments: the
// value every return that can be reached yields, if they all agree. Side effects of the helper are of no
// concern here (only the value is asked for).
func (ev *h05eval) predicateCall(c *ssa.Call, b, pred *ssa.BasicBlock, d int) (H05Abs, bool, bool) {
	callee := c.Call.StaticCallee()
	if c.Call.IsInvoke() || callee == nil || callee.Blocks == nil || len(callee.Blocks) > 24 || d > 4 || !ev.e.Follow(callee) ||
		ev.e.Anchors[FuncName(callee)] || ev.e.inPredicate[callee] || len(callee.Params) != len(c.Call.Args) {
		return H05Abs{}, false, false
	}
	if bt, ok := callee.Signature.Results().At(0).Type().Underlying().(*types.Basic); !ok || bt.Info()&(types.IsBoolean|types.IsInteger|types.IsString) == 0 {
		return H05Abs{}, false, false
	}
	env := H05Env{}
	touched := false
	for i, p := range callee.Params {
		if a, t := ev.eval(c.Call.Args[i], b, pred, d+1); a.Kind != H05Unknown {
			env[p] = a
			touched = touched || t
		}
	}
	entry := callee.Blocks[0]
	if len(env) == 0 || len(entry.Instrs) == 0 {
		return H05Abs{}, false, false
	}
	if ev.e.inPredicate == nil {
		ev.e.inPredicate = map[*ssa.Function]bool{}
	}
	ev.e.inPredicate[callee] = true
	savedAvoid := ev.e.avoid
	ev.e.avoid = nil
	defer func() { delete(ev.e.inPredicate, callee); ev.e.avoid = savedAvoid }()
	var out H05Abs
	n, agree := 0, true
	for _, r := range Returns(callee) {
		if r.Block().Comment == "recover" || len(r.Results) != 1 {
			continue
		}
		r := r
		acc := func(p *ssa.BasicBlock, full H05Env) bool {
			a := ev.e.ResultsAt(r, p, full)[0]
			switch {
			case a.Kind == H05Unknown, n > 0 && !h05AbsEqual(out, a):
				agree = false
			default:
				out = a
				n++
			}
			return false // every arrival is inspected
		}
		if r == entry.Instrs[0] {
			acc(nil, env)
			continue
		}
		if _, imp := ev.e.ReachUnder(entry.Instrs[0], r, env, acc); imp {
			agree = false
		}
		if !agree {
			break
		}
	}
	if !agree || n == 0 {
		return H05Abs{}, touched, false
	}
	return out, touched, true
}

func h05AbsEqual(a, b H05Abs) bool {
	if a.Kind != b.Kind {
		return false
	}
	if a.Kind == H05Const {
		return a.K.Kind() == b.K.Kind() && constant.Compare(a.K, token.EQL, b.K)
	}
	return true
}

func h05Compare(l H05Abs, op token.Token, r H05Abs) (bool, bool) {
	nilness := func(a H05Abs) int {
		switch a.Kind {
		case H05Nil:
			return 1
		case H05NonNil:
			return 2
		}
		return 0
	}
	if nl, nr := nilness(l), nilness(r); nl != 0 && nr != 0 {
		if nl == 2 && nr == 2 {
			return false, false // two non-nil values: equality unknown
		}
		switch op {
		case token.EQL:
			return nl == nr, true
		case token.NEQ:
			return nl != nr, true
		}
		return false, false
	}
	if l.Kind == H05Const && r.Kind == H05Const && l.K.Kind() == r.K.Kind() && l.K.Kind() != constant.Unknown {
		if l.K.Kind() == constant.Bool && op != token.EQL && op != token.NEQ {
			return false, false
		}
		return constant.Compare(l.K, op, r.K), true
	}
	return false, false
}

// Eval evaluates v under env without edge knowledge.
func (e *H05) Eval(v ssa.Value, env H05Env) H05Abs {
	ev := &h05eval{e: e, env: env}
	a, _ := ev.eval(v, nil, nil, 0)
	return a
}

// Assumptions returns what the branches dominating block b imply: for every dominator whose If has
// exactly one successor that dominates b, the condition's truth value is known; comparisons with nil
// or constants and (negated) boolean values are decomposed.
func (e *H05) Assumptions(b *ssa.BasicBlock) H05Env {
	env := H05Env{}
	for d := b.Idom(); d != nil; d = d.Idom() {
		iff, ok := d.Instrs[len(d.Instrs)-1].(*ssa.If)
		if !ok {
			continue
		}
		t, f := d.Succs[0], d.Succs[1]
		td := (t == b || t.Dominates(b)) && len(t.Preds) == 1
		fd := (f == b || f.Dominates(b)) && len(f.Preds) == 1
		if td == fd {
			continue
		}
		e.assume(iff.Cond, td, env, 0)
	}
	return env
}

func (e *H05) assume(cond ssa.Value, truth bool, env H05Env, d int) {
	if d > 6 {
		return
	}
	cond = e.Resolve(cond)
	if _, ok := env[cond]; !ok {
		env[cond] = H05ConstAbs(constant.MakeBool(truth))
	}
	switch x := cond.(type) {
	case *ssa.UnOp:
		if x.Op == token.NOT {
			e.assume(x.X, !truth, env, d+1)
		}
	case *ssa.BinOp:
		if x.Op != token.EQL && x.Op != token.NEQ {
			return
		}
		eq := (x.Op == token.EQL) == truth
		for _, pr := range [][2]ssa.Value{{x.X, x.Y}, {x.Y, x.X}} {
			v, o := e.Resolve(pr[0]), e.Resolve(pr[1])
			k, ok := o.(*ssa.Const)
			if !ok {
				continue
			}
			if _, isC := v.(*ssa.Const); isC {
				continue
			}
			if _, have := env[v]; have {
				continue
			}
			switch {
			case k.Value == nil && !isBasic(k.Type()):
				if eq {
					env[v] = H05NilAbs
				} else {
					env[v] = H05NonNilAbs
				}
			case k.Value != nil && eq:
				env[v] = H05ConstAbs(k.Value)
			case k.Value != nil && k.Value.Kind() == constant.Bool:
				env[v] = H05ConstAbs(constant.MakeBool(!constant.BoolVal(k.Value)))
			}
		}
	}
}

// H05Accept decides whether an arrival at the sink's block through the edge from pred counts
// (pred is nil when the sink is reached inside the starting block). nil accepts everything.
type H05Accept func(pred *ssa.BasicBlock, env H05Env) bool

// ReachUnder reports whether control can flow from just after instruction from to sink when every
// branch whose condition is decided by env takes only the decided successor (all others take both).
// The walk is path-sensitive: along each path it remembers the abstract values of phis (decided by the
// edge the block was entered from), of trackable locals kept in memory (stores and loads in program
// order) and what the branches taken imply (`err == nil` taken false: err is non-nil), so an error
// accumulated in a variable and tested later, a named flag, a single-exit function are followed the
// same way as an early return. The block of from is not re-entered (a second execution of from would
// produce a new value). imprecise is set when a condition that involves an env-known value could not
// be decided (or the walk was cut off).
func (e *H05) ReachUnder(from, sink ssa.Instruction, env H05Env, acc H05Accept) (reach, imprecise bool) {
	if from.Parent() != sink.Parent() {
		return true, true
	}
	w := e.newWalker(sink, env, acc)
	w.fromB = from.Block()
	path := w.initialPath(from)
	// the rest of the starting block
	fi := index(from)
	if from.Block() == sink.Block() && fi < index(sink) {
		p := w.scan(from.Block(), path, fi+1, index(sink))
		if w.arrive(nil, p) {
			return true, false
		}
	}
	path = w.scan(from.Block(), path, fi+1, len(from.Block().Instrs))
	w.branch(from.Block(), nil, path)
	return w.run()
}

// ReachUnderAvoiding is ReachUnder on the graph without the given block.
func (e *H05) ReachUnderAvoiding(from, sink ssa.Instruction, env H05Env, acc H05Accept, avoid *ssa.BasicBlock) (bool, bool) {
	e.avoid = map[*ssa.BasicBlock]bool{avoid: true}
	defer func() { e.avoid = nil }()
	return e.ReachUnder(from, sink, env, acc)
}

// ReachFromEdge is ReachUnder starting with the edge pred→b already taken.
func (e *H05) ReachFromEdge(pred, b *ssa.BasicBlock, sink ssa.Instruction, env H05Env, acc H05Accept) bool {
	w := e.newWalker(sink, env, acc)
	path := h05path{}
	if n := len(pred.Instrs); n > 0 {
		path = w.initialPath(pred.Instrs[n-1])
		// what the branches that confine pred imply
		for v, a := range e.Assumptions(pred) {
			if _, ok := path[v]; !ok {
				if _, isC := v.(*ssa.Const); !isC {
					path[v] = h05pv{a, false}
				}
			}
		}
		if iff, ok := pred.Instrs[n-1].(*ssa.If); ok && len(pred.Succs) == 2 && pred.Succs[0] != pred.Succs[1] {
			path = w.refine(path, iff.Cond, pred.Succs[0] == b)
		}
	}
	w.push(b, pred, path)
	reach, _ := w.run()
	return reach
}

// h05pv is a path-local abstract value (t: derived from an env-known value).
type h05pv struct {
	a H05Abs
	t bool
}

type h05path map[ssa.Value]h05pv

type h05wstate struct {
	b, pred *ssa.BasicBlock
	path    h05path
}

type h05walker struct {
	e     *H05
	ev    *h05eval
	env   H05Env
	acc   H05Accept
	sink  ssa.Instruction
	fromB *ssa.BasicBlock
	ids   map[ssa.Value]int
	seen  map[string]bool
	work  []h05wstate
	cut   bool
}

const h05MaxStates = 40000

func (e *H05) newWalker(sink ssa.Instruction, env H05Env, acc H05Accept) *h05walker {
	return &h05walker{e: e, ev: &h05eval{e: e, env: env}, env: env, acc: acc, sink: sink,
		ids: map[ssa.Value]int{}, seen: map[string]bool{}}
}

func (w *h05walker) id(v ssa.Value) int {
	n, ok := w.ids[v]
	if !ok {
		n = len(w.ids) + 1
		w.ids[v] = n
	}
	return n
}

func (w *h05walker) key(b, pred *ssa.BasicBlock, p h05path) string {
	ks := make([]string, 0, len(p))
	for v, pv := range p {
		s := ""
		switch pv.a.Kind {
		case H05Const:
			s = "c" + pv.a.K.ExactString()
		case H05Nil:
			s = "n"
		case H05NonNil:
			s = "N"
		}
		ks = append(ks, fmt.Sprintf("%d=%s", w.id(v), s))
	}
	sort.Strings(ks)
	pi := -1
	if pred != nil {
		pi = pred.Index
	}
	return fmt.Sprintf("%d<%d|%s", b.Index, pi, strings.Join(ks, ","))
}

func (w *h05walker) push(b, pred *ssa.BasicBlock, p h05path) {
	w.work = append(w.work, h05wstate{b, pred, p})
}

// arrive: an arrival at the sink's block through pred with the path values p counts.
func (w *h05walker) arrive(pred *ssa.BasicBlock, p h05path) bool {
	if w.acc == nil {
		return true
	}
	full := H05Env{}
	for v, pv := range p {
		full[v] = pv.a
	}
	for v, a := range w.env {
		full[v] = a
	}
	return w.acc(pred, full)
}

func h05ZeroAbs(t types.Type) H05Abs {
	switch u := t.Underlying().(type) {
	case *types.Pointer, *types.Interface, *types.Map, *types.Slice, *types.Chan, *types.Signature:
		return H05NilAbs
	case *types.Basic:
		switch {
		case u.Info()&types.IsBoolean != 0:
			return H05ConstAbs(constant.MakeBool(false))
		case u.Info()&types.IsInteger != 0:
			return H05ConstAbs(constant.MakeInt64(0))
		case u.Info()&types.IsString != 0:
			return H05ConstAbs(constant.MakeString(""))
		}
	}
	return H05Abs{}
}

// initialPath: what the trackable locals of the function hold when `at` executes (where that is one value).
func (w *h05walker) initialPath(at ssa.Instruction) h05path {
	p := h05path{}
	fn := at.Parent()
	if len(fn.Blocks) == 0 {
		return p
	}
	for _, b := range fn.Blocks {
		for _, in := range b.Instrs {
			al, ok := in.(*ssa.Alloc)
			if !ok || !w.e.trackable(al) {
				continue
			}
			vals, ok := w.e.ReachingStores(al, at)
			if !ok || len(vals) != 1 {
				continue
			}
			if vals[0] == nil {
				if a := h05ZeroAbs(al.Type().Underlying().(*types.Pointer).Elem()); a.Kind != H05Unknown {
					p[al] = h05pv{a, false}
				}
				continue
			}
			w.ev.path = nil
			if a, t := w.ev.eval(vals[0], nil, nil, 0); a.Kind != H05Unknown {
				p[al] = h05pv{a, t}
			}
		}
	}
	return p
}

func (p h05path) with(v ssa.Value, pv h05pv, known bool) h05path {
	if old, ok := p[v]; ok == known && (!known || (h05AbsEqual(old.a, pv.a) && old.t == pv.t)) {
		return p
	}
	q := make(h05path, len(p)+1)
	for k, x := range p {
		q[k] = x
	}
	if known {
		q[v] = pv
	} else {
		delete(q, v)
	}
	return q
}

// scan executes the stores to and loads from trackable locals of b.Instrs[lo:hi] on the path values.
func (w *h05walker) scan(b *ssa.BasicBlock, p h05path, lo, hi int) h05path {
	for i := lo; i < hi && i < len(b.Instrs); i++ {
		switch x := b.Instrs[i].(type) {
		case *ssa.Alloc:
			if w.e.trackable(x) {
				a := h05ZeroAbs(x.Type().Underlying().(*types.Pointer).Elem())
				p = p.with(x, h05pv{a, false}, a.Kind != H05Unknown)
			}
		case *ssa.Store:
			al, ok := x.Addr.(*ssa.Alloc)
			if !ok || al.Parent() != b.Parent() || !w.e.trackable(al) {
				continue
			}
			w.ev.path = p
			a, t := w.ev.eval(x.Val, nil, nil, 0)
			p = p.with(al, h05pv{a, t}, a.Kind != H05Unknown)
		case *ssa.UnOp:
			if x.Op != token.MUL {
				continue
			}
			al, ok := x.X.(*ssa.Alloc)
			if !ok || al.Parent() != b.Parent() || !w.e.trackable(al) {
				continue
			}
			pv, known := p[al]
			p = p.with(x, pv, known)
		}
	}
	return p
}

// enter computes the path values after taking the edge pred→b: phis by their edge, values defined in b
// forgotten (they are about to be recomputed), values whose definition does not dominate b dropped (they
// cannot be used before being redefined).
func (w *h05walker) enter(b, pred *ssa.BasicBlock, p h05path) h05path {
	type upd struct {
		phi *ssa.Phi
		pv  h05pv
		ok  bool
	}
	var ups []upd
	edge := -1
	for i, q := range b.Preds {
		if q == pred {
			edge = i
		}
	}
	w.ev.path = p
	for _, in := range b.Instrs {
		phi, ok := in.(*ssa.Phi)
		if !ok {
			break
		}
		if edge < 0 || edge >= len(phi.Edges) {
			ups = append(ups, upd{phi: phi})
			continue
		}
		if _, fixed := w.env[phi]; fixed {
			continue
		}
		a, t := w.ev.eval(phi.Edges[edge], nil, nil, 0)
		ups = append(ups, upd{phi, h05pv{a, t}, a.Kind != H05Unknown})
	}
	q := make(h05path, len(p))
	for v, pv := range p {
		if in, ok := v.(ssa.Instruction); ok && in.Block() != nil {
			if in.Block() == b {
				if _, isAlloc := v.(*ssa.Alloc); !isAlloc {
					continue
				}
			} else if in.Parent() == b.Parent() && !in.Block().Dominates(b) {
				continue
			}
		}
		q[v] = pv
	}
	for _, u := range ups {
		if u.ok {
			q[u.phi] = u.pv
		} else {
			delete(q, u.phi)
		}
	}
	return q
}

// refine adds what taking the branch on cond with the given outcome implies.
func (w *h05walker) refine(p h05path, cond ssa.Value, truth bool) h05path {
	tmp := H05Env{}
	w.e.assume(cond, truth, tmp, 0)
	var q h05path
	for v, a := range tmp {
		if _, ok := w.env[v]; ok {
			continue
		}
		if _, ok := p[v]; ok {
			continue
		}
		if _, isC := v.(*ssa.Const); isC {
			continue
		}
		if q == nil {
			q = make(h05path, len(p)+len(tmp))
			for k, x := range p {
				q[k] = x
			}
		}
		q[v] = h05pv{a, false}
	}
	if q == nil {
		return p
	}
	return q
}

// branch pushes the successors of b that can be taken with the path values p.
func (w *h05walker) branch(b, pred *ssa.BasicBlock, p h05path) {
	if n := len(b.Instrs); n > 0 {
		if iff, ok := b.Instrs[n-1].(*ssa.If); ok && len(b.Succs) == 2 {
			w.ev.path = p
			a, _ := w.ev.eval(iff.Cond, b, pred, 0)
			if a.Kind == H05Const && a.K.Kind() == constant.Bool {
				if constant.BoolVal(a.K) {
					w.push(b.Succs[0], b, p)
				} else {
					w.push(b.Succs[1], b, p)
				}
				return
			}
			if b.Succs[0] != b.Succs[1] {
				w.push(b.Succs[0], b, w.refine(p, iff.Cond, true))
				w.push(b.Succs[1], b, w.refine(p, iff.Cond, false))
				return
			}
		}
	}
	for _, s := range b.Succs {
		w.push(s, b, p)
	}
}

func (w *h05walker) run() (reach, imprecise bool) {
	for len(w.work) > 0 {
		st := w.work[len(w.work)-1]
		w.work = w.work[:len(w.work)-1]
		p := w.enter(st.b, st.pred, st.path)
		k := w.key(st.b, st.pred, p)
		if w.seen[k] {
			continue
		}
		if len(w.seen) > h05MaxStates {
			return true, true
		}
		w.seen[k] = true
		if st.b == w.sink.Block() {
			q := w.scan(st.b, p, 0, index(w.sink))
			if w.arrive(st.pred, q) {
				return true, w.ev.imprecise
			}
			// the sink terminates its block or the walk may go on behind it
		}
		if st.b == w.fromB || w.e.avoid[st.b] {
			continue
		}
		p = w.scan(st.b, p, 0, len(st.b.Instrs))
		w.branch(st.b, st.pred, p)
	}
	return false, w.ev.imprecise
}

// ---------------------------------------------------------------------------------------------
// success of a call / of a return

// H05Spec says what "the call succeeded" means.
type H05Spec struct {
	ErrNil   bool           // every error result is nil
	BoolIdx  int            // index of a boolean result that must equal BoolWant (-1: none)
	BoolWant bool           //
	NotConst constant.Value // the (single) result must differ from this constant (nil: not used)
}

// H05ErrNil is the usual spec.
var H05ErrNil = H05Spec{ErrNil: true, BoolIdx: -1}

// H05Bool wants boolean result idx to be want (and error results nil).
func H05Bool(idx int, want bool) H05Spec { return H05Spec{ErrNil: true, BoolIdx: idx, BoolWant: want} }

// AcceptReturn builds the arrival filter "return r is reached and reports success in the sense of spec":
// arrivals on which the returned error is known to be non-nil (or the returned boolean is known to be
// the wrong one) do not count.
func (e *H05) AcceptReturn(r *ssa.Return, spec H05Spec) H05Accept {
	base := e.Assumptions(r.Block())
	sig := r.Parent().Signature.Results()
	return func(pred *ssa.BasicBlock, env H05Env) bool {
		full := H05Env{}
		for k, v := range base {
			full[k] = v
		}
		for k, v := range env {
			full[k] = v
		}
		ev := &h05eval{e: e, env: full}
		for i, res := range r.Results {
			if i >= sig.Len() {
				break
			}
			if spec.ErrNil && isErrorType(sig.At(i).Type()) {
				if a, _ := ev.eval(res, r.Block(), pred, 0); a.Kind == H05NonNil {
					return false
				}
			}
			if spec.BoolIdx == i {
				if a, _ := ev.eval(res, r.Block(), pred, 0); a.Kind == H05Const && a.K.Kind() == constant.Bool && constant.BoolVal(a.K) != spec.BoolWant {
					return false
				}
			}
		}
		return true
	}
}

// ResultsAt evaluates the results of return r for an arrival at its block through the edge from pred
// (nil: inside the block) with the values env known: one abstract value per result (Unknown when the
// result is not decided). It lets a caller-side walk go on with what a helper reported.
func (e *H05) ResultsAt(r *ssa.Return, pred *ssa.BasicBlock, env H05Env) []H05Abs {
	full := H05Env{}
	for k, v := range e.Assumptions(r.Block()) {
		full[k] = v
	}
	for k, v := range env {
		full[k] = v
	}
	ev := &h05eval{e: e, env: full}
	out := make([]H05Abs, len(r.Results))
	for i, res := range r.Results {
		out[i], _ = ev.eval(res, r.Block(), pred, 0)
	}
	return out
}

// FailingReturn: the return reports failure (in the sense of spec) however it is reached.
func (e *H05) FailingReturn(r *ssa.Return, spec H05Spec) bool {
	acc := e.AcceptReturn(r, spec)
	b := r.Block()
	if len(b.Preds) == 0 {
		return !acc(nil, nil)
	}
	for _, p := range b.Preds {
		if acc(p, nil) {
			return false
		}
	}
	return true
}

// SuccessReturns lists the returns of fn that may report success.
func (e *H05) SuccessReturns(fn *ssa.Function, spec H05Spec) []*ssa.Return {
	var out []*ssa.Return
	for _, r := range Returns(fn) {
		if r.Block().Comment == "recover" {
			continue
		}
		if !e.FailingReturn(r, spec) {
			out = append(out, r)
		}
	}
	return out
}

// IterationEnd returns the site that stands for "the iteration of l for one element is over and the loop
// goes on to the next element" — the first instruction of the body, entered from the block `test` that ends
// the loop by exhaustion — and the arrival filter that goes with it. (Not simply "the back edge is taken":
// a loop that records a failure in a variable and lets the loop condition end it takes the back edge too.)
func (e *H05) IterationEnd(l *Loop, test *ssa.BasicBlock) (ssa.Instruction, H05Accept) {
	if test == nil {
		test = l.Header
	}
	site := test.Succs[0].Instrs[0]
	e.iterSite[site] = l
	if e.iterTest == nil {
		e.iterTest = map[ssa.Instruction]*ssa.BasicBlock{}
	}
	e.iterTest[site] = test
	return site, func(pred *ssa.BasicBlock, env H05Env) bool { return pred == test }
}

// Dom reports whether a is executed on every path to site: plain dominance, or — for an iteration-end
// site — on every path from the start of an iteration to the start of the next one.
func (e *H05) Dom(a, site ssa.Instruction, acc H05Accept) bool {
	if l, ok := e.iterSite[site]; ok {
		if a.Parent() != site.Parent() || !l.Body[a.Block()] {
			return false
		}
		if a.Block() == site.Block() {
			return true
		}
		if ok := func() bool {
			for _, la := range l.Latches {
				if !a.Block().Dominates(la) {
					return false
				}
			}
			return true
		}(); ok {
			return true
		}
		// every feasible path from the start of an iteration to the next one passes a
		test := e.iterTest[site]
		reach, _ := e.ReachUnderAvoiding(site, site, nil, func(pred *ssa.BasicBlock, env H05Env) bool { return pred == test }, a.Block())
		return !reach
	}
	if Dominates(a, site) {
		return true
	}
	if a.Parent() != site.Parent() || a.Block() == site.Block() {
		return false
	}
	// feasible-path dominance: no path from the entry reaches site around a's block once branches on
	// known values (an error just constructed, a constant flag) are decided
	entry := a.Parent().Blocks[0]
	if len(entry.Instrs) == 0 || entry == a.Block() {
		return false
	}
	from := entry.Instrs[0]
	if from == site {
		return false
	}
	reach, _ := e.ReachUnderAvoiding(from, site, nil, acc, a.Block())
	return !reach
}

// Checked decides whether site can only be reached (in a way accepted by acc) when call g succeeded in
// the sense of spec: g dominates site and under "g failed" the site is unreachable.
func (e *H05) Checked(g ssa.CallInstruction, spec H05Spec, site ssa.Instruction, acc H05Accept) H05Verdict {
	gi := g.(ssa.Instruction)
	if _, isCall := g.(*ssa.Call); !isCall {
		return H05Verdict{Why: "the guard is deferred or started as a goroutine", Cand: true}
	}
	if !e.Dom(gi, site, acc) {
		return H05Verdict{Why: "guard does not dominate sink", Cand: true}
	}
	try := func(v ssa.Value, a H05Abs, what string) *H05Verdict {
		reach, imp := e.ReachUnder(gi, site, H05Env{v: a}, acc)
		if !reach {
			return nil
		}
		if imp {
			return &H05Verdict{Unsure: true, Cand: true, Why: what + " is tested in a way the checker cannot evaluate"}
		}
		return &H05Verdict{Cand: true, Why: "the sink is reachable although " + what}
	}
	errs, boolv := StatusOf(g, spec.BoolIdx)
	res := g.Common().Signature().Results()
	nErr := 0
	for i := 0; i < res.Len(); i++ {
		if isErrorType(res.At(i).Type()) {
			nErr++
		}
	}
	if spec.ErrNil {
		if nErr > len(errs) {
			return H05Verdict{Why: "error result of guard is discarded", Cand: true}
		}
		for _, ev := range errs {
			if v := try(ev, H05NonNilAbs, "the guard returned an error"); v != nil {
				return *v
			}
		}
	}
	if spec.BoolIdx >= 0 {
		if boolv == nil {
			return H05Verdict{Why: "boolean result of guard is discarded", Cand: true}
		}
		if v := try(boolv, H05ConstAbs(constant.MakeBool(!spec.BoolWant)), fmt.Sprintf("the guard returned %v", !spec.BoolWant)); v != nil {
			return *v
		}
	}
	if spec.NotConst != nil {
		val := g.Value()
		if val == nil {
			return H05Verdict{Why: "result of guard is discarded", Cand: true}
		}
		if v := try(val, H05ConstAbs(spec.NotConst), "the guard returned the rejected status"); v != nil {
			return *v
		}
	}
	return H05Verdict{Yes: true, Cand: true, Wit: gi, Why: "checked"}
}

// ---------------------------------------------------------------------------------------------
// established facts

// H05Verdict is the outcome of a query.
type H05Verdict struct {
	Yes, Unsure bool
	Cand        bool // a candidate (matching call / comparison / loop) was seen
	Why         string
	Wit         ssa.Instruction
	WitFrame    *H05Frame
}

func (v H05Verdict) rank() int {
	switch {
	case v.Yes:
		return 4
	case v.Unsure:
		return 3
	case v.Cand:
		return 2
	case v.Why != "":
		return 1
	}
	return 0
}

func h05Better(a, b H05Verdict) H05Verdict {
	if b.rank() > a.rank() {
		return b
	}
	return a
}

// H05Query is a fact that can be looked for directly inside one function.
type H05Query interface {
	// ID identifies the query for memoisation.
	ID() string
	// Direct tries to establish the fact at site using only the instructions of f.Fn.
	Direct(e *H05, site ssa.Instruction, f *H05Frame, acc H05Accept) H05Verdict
}

// Established decides whether the fact holds whenever control reaches site in frame f (acc filters the
// arrivals that count): directly in f.Fn, through the summary of a helper whose success is checked
// before site (the fact holds at every successful return of the helper), or — if up — at the call site
// of f in its parent frame (and so on up to the root).
func (e *H05) Established(q H05Query, site ssa.Instruction, f *H05Frame, acc H05Accept, up bool) H05Verdict {
	key := ""
	if acc == nil {
		key = fmt.Sprintf("%s|%p|%s|%v", q.ID(), site, f.id, up)
		if v, ok := e.estMemo[key]; ok {
			return v
		}
	}
	best := q.Direct(e, site, f, acc)
	if best.Yes && best.WitFrame == nil {
		best.WitFrame = f
	}
	if !best.Yes {
		best = h05Better(best, e.viaHelpers(q, site, f, acc))
	}
	if !best.Yes && up && f.Parent != nil {
		if ci, ok := f.Call.(ssa.Instruction); ok {
			best = h05Better(best, e.Established(q, ci, f.Parent, nil, true))
		}
	}
	if key != "" {
		e.estMemo[key] = best
	}
	return best
}

// helperSpecs lists the ways a call to callee can report success.
func h05HelperSpecs(callee *ssa.Function) []H05Spec {
	res := callee.Signature.Results()
	hasErr, boolIdx := false, -1
	for i := 0; i < res.Len(); i++ {
		if isErrorType(res.At(i).Type()) {
			hasErr = true
		} else if b, ok := res.At(i).Type().Underlying().(*types.Basic); ok && b.Kind() == types.Bool {
			boolIdx = i
		}
	}
	var out []H05Spec
	if boolIdx >= 0 {
		out = append(out, H05Spec{ErrNil: hasErr, BoolIdx: boolIdx, BoolWant: true}, H05Spec{ErrNil: hasErr, BoolIdx: boolIdx, BoolWant: false})
	}
	if hasErr {
		out = append(out, H05ErrNil)
	}
	return out
}

func (e *H05) viaHelpers(q H05Query, site ssa.Instruction, f *H05Frame, acc H05Accept) H05Verdict {
	var best H05Verdict
	for _, b := range f.Fn.Blocks {
		for _, in := range b.Instrs {
			g, ok := in.(*ssa.Call)
			if !ok {
				continue
			}
			ch := e.Child(f, g)
			if ch == nil {
				continue
			}
			if !e.Dom(g, site, acc) {
				continue
			}
			for _, spec := range h05HelperSpecs(ch.Fn) {
				if v := e.Checked(g, spec, site, acc); !v.Yes {
					continue
				}
				rets := e.SuccessReturns(ch.Fn, spec)
				if len(rets) == 0 {
					continue
				}
				all := H05Verdict{Yes: true}
				for _, r := range rets {
					v := e.Established(q, r, ch, e.AcceptReturn(r, spec), false)
					if !v.Yes {
						all = v
						all.Yes = false
						break
					}
					if all.Wit == nil {
						all.Wit, all.WitFrame = v.Wit, v.WitFrame
					}
				}
				if all.Yes {
					return all
				}
				best = h05Better(best, all)
				break
			}
		}
	}
	return best
}

// ---- call facts

// H05CallQ: a call matching Match succeeded in the sense of Spec.
type H05CallQ struct {
	Name  string
	Match func(e *H05, g *ssa.Call, f *H05Frame) bool
	Spec  H05Spec
	// Missing is the reason reported when no candidate exists.
	Missing string
}

func (q *H05CallQ) ID() string { return "call:" + q.Name }

func (q *H05CallQ) Direct(e *H05, site ssa.Instruction, f *H05Frame, acc H05Accept) H05Verdict {
	best := H05Verdict{Why: q.Missing}
	for _, b := range f.Fn.Blocks {
		for _, in := range b.Instrs {
			g, ok := in.(*ssa.Call)
			if !ok || !q.Match(e, g, f) {
				continue
			}
			v := e.Checked(g, q.Spec, site, acc)
			if v.Yes {
				v.WitFrame = f
				return v
			}
			best = h05Better(best, v)
		}
	}
	return best
}

// CalleeIs reports whether g statically calls the named function.
func H05CalleeIs(g *ssa.Call, name string) bool {
	if g.Call.IsInvoke() {
		return false
	}
	c := g.Call.StaticCallee()
	return c != nil && FuncName(c) == name
}

// ArgsAre reports whether the arguments of g have the given terms (nil entries match anything).
func (e *H05) ArgsAre(g *ssa.Call, f *H05Frame, want ...*H05Term) bool {
	if len(g.Call.Args) != len(want) {
		return false
	}
	for i, w := range want {
		if w != nil && e.Term(g.Call.Args[i], f).Key() != w.Key() {
			return false
		}
	}
	return true
}

// ---- equality facts

// H05EqQ: the values with terms A and B were compared and found equal.
type H05EqQ struct {
	A, B    *H05Term
	Missing string
}

func (q *H05EqQ) ID() string { return "eq:" + q.A.Key() + "==" + q.B.Key() }

func (q *H05EqQ) Direct(e *H05, site ssa.Instruction, f *H05Frame, acc H05Accept) H05Verdict {
	best := H05Verdict{Why: q.Missing}
	for _, b := range f.Fn.Blocks {
		for _, in := range b.Instrs {
			bin, ok := in.(*ssa.BinOp)
			if !ok || (bin.Op != token.EQL && bin.Op != token.NEQ) {
				continue
			}
			x, y := e.TermAt(bin.X, f, bin, f).Key(), e.TermAt(bin.Y, f, bin, f).Key()
			if !(x == q.A.Key() && y == q.B.Key()) && !(x == q.B.Key() && y == q.A.Key()) {
				continue
			}
			if !e.Dom(bin, site, acc) {
				best = h05Better(best, H05Verdict{Cand: true, Why: "the comparison does not dominate the sink"})
				continue
			}
			differ := constant.MakeBool(bin.Op == token.NEQ)
			reach, imp := e.ReachUnder(bin, site, H05Env{bin: H05ConstAbs(differ)}, acc)
			switch {
			case !reach:
				return H05Verdict{Yes: true, Cand: true, Wit: bin, WitFrame: f}
			case imp:
				best = h05Better(best, H05Verdict{Unsure: true, Cand: true, Why: "the comparison result is tested in a way the checker cannot evaluate"})
			default:
				best = h05Better(best, H05Verdict{Cand: true, Why: "the sink is reachable although the compared values differ"})
			}
		}
	}
	return best
}

// ---- for-all facts

// H05ForallQ: Inner(elem) holds for every element of the collection with term Coll.
type H05ForallQ struct {
	Name    string
	Coll    *H05Term
	Inner   func(elem *H05Term) H05Query
	Missing string
}

func (q *H05ForallQ) ID() string { return "forall:" + q.Name + ":" + q.Coll.Key() }

func (q *H05ForallQ) Direct(e *H05, site ssa.Instruction, f *H05Frame, acc H05Accept) H05Verdict {
	best := H05Verdict{Why: q.Missing}
	for _, l := range e.loopsOf(f.Fn) {
		r := e.RangeOf(l)
		if r == nil {
			if e.loopTouches(l, q.Coll, f) {
				best = h05Better(best, H05Verdict{Unsure: true, Cand: true, Why: "a loop reads the collection but is not recognised as visiting every element once"})
			}
			continue
		}
		if e.Term(r.Coll, f).Key() != q.Coll.Key() {
			continue
		}
		if l.Body[site.Block()] {
			best = h05Better(best, H05Verdict{Cand: true, Why: "sink is inside the loop"})
			continue
		}
		if !l.Header.Dominates(site.Block()) && e.bypassWhenNonEmpty(l, q.Coll, site, f, acc) {
			best = h05Better(best, H05Verdict{Cand: true, Why: "loop does not dominate the sink"})
			continue
		}
		inner := q.Inner(H05Elem(q.Coll))
		ok := H05Verdict{Yes: true, Cand: true}
		{
			end, endAcc := e.IterationEnd(l, r.Test)
			v := e.Established(inner, end, f, endAcc, false)
			if !v.Yes {
				ok = v
				if v.Cand {
					ok.Why = "an iteration can go on to the next element without passing the guard (" + v.Why + ")"
				}
			} else {
				ok.Wit, ok.WitFrame = v.Wit, v.WitFrame
			}
		}
		if !ok.Yes {
			best = h05Better(best, ok)
			continue
		}
		if ex := e.earlyExit(l, r.Test, site, acc); ex != nil {
			best = h05Better(best, H05Verdict{Cand: true, Why: "the loop can be left early (break) towards the sink before every element passed the guard"})
			continue
		}
		return ok
	}
	return best
}

// bypassWhenNonEmpty: the site can be reached around the loop although the collection has elements
// (a loop wrapped in `if len(coll) > 0 { … }` is bypassed only by the empty collection, for which the
// for-all holds trivially).
func (e *H05) bypassWhenNonEmpty(l *Loop, coll *H05Term, site ssa.Instruction, f *H05Frame, acc H05Accept) bool {
	entry := f.Fn.Blocks[0]
	if len(entry.Instrs) == 0 {
		return true
	}
	for _, n := range []int64{1, 2, 1000} {
		env := H05Env{}
		for _, b := range f.Fn.Blocks {
			for _, in := range b.Instrs {
				v, ok := in.(ssa.Value)
				if !ok {
					continue
				}
				if c, ok := v.(*ssa.Call); ok {
					if bi, ok := c.Call.Value.(*ssa.Builtin); ok && bi.Name() == "len" && len(c.Call.Args) == 1 && e.Term(c.Call.Args[0], f).Key() == coll.Key() {
						env[v] = H05ConstAbs(constant.MakeInt64(n))
					}
					continue
				}
				switch v.Type().Underlying().(type) {
				case *types.Slice, *types.Map:
					if e.Term(v, f).Key() == coll.Key() {
						env[v] = H05NonNilAbs
					}
				}
			}
		}
		if len(env) == 0 {
			return true
		}
		from := entry.Instrs[0]
		if from == site {
			return true
		}
		if reach, _ := e.ReachUnderAvoiding(from, site, env, acc, l.Header); reach {
			return true
		}
	}
	return false
}

// loopTouches: the loop body indexes or ranges the collection.
func (e *H05) loopTouches(l *Loop, coll *H05Term, f *H05Frame) bool {
	for b := range l.Body {
		for _, in := range b.Instrs {
			switch x := in.(type) {
			case *ssa.IndexAddr:
				if e.Term(x.X, f).Key() == coll.Key() {
					return true
				}
			case *ssa.Index:
				if e.Term(x.X, f).Key() == coll.Key() {
					return true
				}
			case *ssa.Range:
				if e.Term(x.X, f).Key() == coll.Key() {
					return true
				}
			}
		}
	}
	return false
}

// earlyExit returns a block of the loop other than the header with an edge out of the loop from which
// site can be reached (in a way accepted by acc).
func (e *H05) earlyExit(l *Loop, test *ssa.BasicBlock, site ssa.Instruction, acc H05Accept) *ssa.BasicBlock {
	var blocks []*ssa.BasicBlock
	for b := range l.Body {
		blocks = append(blocks, b)
	}
	sort.Slice(blocks, func(i, j int) bool { return blocks[i].Index < blocks[j].Index })
	for _, b := range blocks {
		if b == test {
			continue
		}
		for _, s := range b.Succs {
			if !l.Body[s] && e.ReachFromEdge(b, s, site, nil, acc) {
				return b
			}
		}
	}
	return nil
}

// ---------------------------------------------------------------------------------------------
// origins

// H05Origin is one place a value can come from: Val in Frame, selected at Site (the store, the end of
// the phi's predecessor block or the return of a helper; nil when Val is used directly).
type H05Origin struct {
	Val   ssa.Value
	Frame *H05Frame
	Site  ssa.Instruction
	Zero  bool // the zero value / nil constant
}

// Origins traces v backwards through conversions, phis, trackable locals, parameters of non-root
// frames and the returns of followable non-anchor helpers.
func (e *H05) Origins(v ssa.Value, f *H05Frame) []H05Origin {
	var out []H05Origin
	seen := map[h05tkey]bool{}
	var walk func(v ssa.Value, f *H05Frame, site ssa.Instruction, d int)
	leaf := func(v ssa.Value, f *H05Frame, site ssa.Instruction) {
		o := H05Origin{Val: v, Frame: f, Site: site}
		if k, ok := v.(*ssa.Const); ok && h05IsZeroConst(k) {
			o.Zero = true
		}
		out = append(out, o)
	}
	walk = func(v ssa.Value, f *H05Frame, site ssa.Instruction, d int) {
		v = Unwrap(v)
		k := h05tkey{v, f}
		if d > 24 {
			leaf(v, f, site)
			return
		}
		switch x := v.(type) {
		case *ssa.Phi:
			if seen[k] {
				return
			}
			seen[k] = true
			for i, ed := range x.Edges {
				p := x.Block().Preds[i]
				walk(ed, f, p.Instrs[len(p.Instrs)-1], d+1)
			}
			return
		case *ssa.UnOp:
			if al, ok := x.X.(*ssa.Alloc); ok && x.Op == token.MUL {
				if vals, ok := e.ReachingStores(al, x); ok {
					if seen[k] {
						return
					}
					seen[k] = true
					for _, sv := range vals {
						if sv == nil {
							out = append(out, H05Origin{Frame: f, Site: site, Zero: true})
							continue
						}
						st := site
						for _, ref := range *al.Referrers() {
							if s, ok := ref.(*ssa.Store); ok && s.Addr == ssa.Value(al) && s.Val == sv {
								st = s
							}
						}
						walk(sv, f, st, d+1)
					}
					return
				}
			}
		case *ssa.Parameter:
			if f.Call != nil {
				for i, p := range f.Fn.Params {
					if p == x && i < len(f.Call.Common().Args) {
						walk(f.Call.Common().Args[i], f.Parent, nil, d+1)
						return
					}
				}
			}
		case *ssa.Extract:
			if c, ok := x.Tuple.(*ssa.Call); ok && e.originsOfCall(c, x.Index, f, d, walk) {
				return
			}
		case *ssa.Call:
			if x.Call.Signature().Results().Len() == 1 && e.originsOfCall(x, 0, f, d, walk) {
				return
			}
		}
		leaf(v, f, site)
	}
	walk(v, f, nil, 0)
	return out
}

func (e *H05) originsOfCall(c *ssa.Call, idx int, f *H05Frame, d int, walk func(ssa.Value, *H05Frame, ssa.Instruction, int)) bool {
	callee := c.Call.StaticCallee()
	if c.Call.IsInvoke() || callee == nil || e.Anchors[FuncName(callee)] {
		return false
	}
	ch := e.Child(f, c)
	if ch == nil {
		return false
	}
	any := false
	for _, r := range Returns(callee) {
		if idx >= len(r.Results) || r.Block().Comment == "recover" || e.FailingReturn(r, H05ErrNil) {
			continue
		}
		any = true
		walk(r.Results[idx], ch, r, d+1)
	}
	return any
}
