package an

// H09: a bounded, path-sensitive symbolic walker over go/ssa.
//
// The shape-dependent queries (dominance of one block over another, "the instruction is in the
// loop over X") break on behaviour-preserving refactorings: an error threaded through
// `if err == nil { … err = f() }` chains, a condition stored in a named bool, a result produced
// by a local closure (`return fail(err)`), logic moved into an in-package helper. This walker
// decides such obligations as properties of *paths*:
//
//   - it enumerates the CFG paths of a root function depth-first, every block entered at most
//     MaxVisits times per activation (loops are unrolled 0, 1, … MaxVisits-1 times);
//   - every executed value is an *instance* (SSA value, activation, visit number): a value
//     recomputed by a later loop iteration is a different instance, a phi denotes the instance
//     selected by the edge it was entered from, a load of a local that is only stored/loaded
//     (spill slots of `defer`, captured variables, `var x T; x = …`) denotes the last instance
//     stored on the path;
//   - branch conditions are evaluated under the facts collected on the path (nil-ness of an
//     instance, truth of a boolean instance); an undecided atom forks the path and is recorded as
//     an `assume` event, so the same named bool / the same error value tested twice is decided
//     consistently and infeasible paths are not explored;
//   - static in-package callees and directly called local closures selected by Config.Inline are
//     executed in a fresh activation with parameters/free variables bound to the caller's
//     instances; their results flow back through the call (tuple extraction included);
//   - calls, map updates, range steps and assumptions are appended to the path's trace; rules
//     inspect the trace at their sinks (OnEvent) and at the root's returns (OnReturn).
//
// Whatever the walker cannot follow stays an opaque instance: rules must report UNDECIDED for
// an opaque instance they needed, never a violation.

import (
	"go/constant"
	"go/token"
	"go/types"

	"golang.org/x/tools/go/ssa"
)

// H09SV is an instance of an SSA value on a path.
type H09SV struct {
	V ssa.Value
	F int // activation (0: constants, globals, functions)
	N int // visit number of the defining block in that activation
}

// H09Step is one step of an access path.
type H09Step struct {
	Kind  string // field | index | deref | rangekey | rangeval
	Field string // FieldKey for field steps
	Idx   H09SV  // index/key instance for index steps, the Next instance for range steps
}

// H09Path is base.step.step…
type H09Path struct {
	Base  H09SV
	Steps []H09Step
}

// H09Event is one trace entry.
type H09Event struct {
	Kind    string // call | defer | go | mapupdate | store | next | assume
	In      ssa.Instruction
	SV      H09SV   // instance of the instruction when it is a value
	Callee  H09SV   // function value of a dynamic call / receiver of an invoke
	Args    []H09SV // call arguments (receiver first for static method calls)
	Inlined bool
	Map     H09SV // mapupdate
	Key     H09SV // mapupdate: key; store: the address (not a followed local) stored to
	Val     H09SV
	Target  *ssa.Function // inlined callee
	Atom    H09SV         // assume: the instance decided
	NilTest bool          // assume: Atom == nil is Truth (otherwise boolean Atom is Truth)
	Truth   bool
	Depth   int // call depth of the activation (0 = root)
}

// H09Config configures a walk.
type H09Config struct {
	Inline    func(callee *ssa.Function) bool
	NonNil    func(c *ssa.CallCommon) bool // results of these callees are never nil (error constructors)
	OnEvent   func(st *H09State, ev *H09Event)
	OnReturn  func(st *H09State, ret *ssa.Return, vals []H09SV)
	MaxVisits int // default 3
	MaxPaths  int // default 20000
	MaxDepth  int // default 4
	// MaxVisitsAt, when set, gives the visit bound of blocks of activations at the given call depth
	// (0 = root); values < 1 fall back to MaxVisits.
	MaxVisitsAt func(depth int) int
	// InnerVisits, when > 0, is the visit bound of blocks that lie inside two or more dynamically nested
	// loops (loops of the callers around the call site included): outermost loops are unrolled up to
	// MaxVisits-1 times, loops nested in them InnerVisits-1 times.
	InnerVisits int
	// Tail: the root returns a function value (a closure, a bound method, a named function); when the
	// root returns, that function is entered with symbolic parameters (instances H09Param(p)) and free
	// variables bound to the instances the closure captured on the path. OnReturn is then called at the
	// returns of that function. OnTail is called when it is entered; OnTailFail when the returned value
	// cannot be resolved to a function with a body.
	Tail       bool
	OnTail     func(st *H09State, fn *ssa.Function)
	OnTailFail func(st *H09State, ret *ssa.Return)
}

// H09Result summarises a walk.
type H09Result struct {
	Paths    int    // completed paths (root returns)
	Pruned   int    // paths cut by the visit bound
	Complete bool   // false when a budget was exhausted
	Why      string // reason when not complete
}

type h09Frame struct {
	id     int
	depth  int
	fn     *ssa.Function
	visits map[*ssa.BasicBlock]int
	env    map[ssa.Value]H09SV
	block  *ssa.BasicBlock
	pc     int
	callSV H09SV
	call   *ssa.Call
	outer  int // number of loops (of the callers) around the call site of this activation
}

// H09State is the state of one path.
type H09State struct {
	w      *h09Walker
	stack  []*h09Frame
	mem    map[H09SV]H09SV
	nilf   map[H09SV]bool
	boolf  map[H09SV]bool
	rets   map[H09SV][]H09SV
	clos   map[H09SV][]H09SV
	ops    map[H09SV][]H09SV
	cont   map[H09SV]H09SV
	fmem   map[h09FKey]H09SV       // fields of followed struct locals assigned one by one
	agg    map[H09SV]map[int]H09SV // struct values loaded whole from such locals: field -> instance (absent = zero)
	Trace  []H09Event
	nextID int
	steps  int
	tailFn *ssa.Function
}

// TailFn is the function entered by the tail call of the root (nil before it happened).
func (st *H09State) TailFn() *ssa.Function { return st.tailFn }

type h09FKey struct {
	base  H09SV
	field int
}

type h09Walker struct {
	cfg    H09Config
	root   *ssa.Function
	res    H09Result
	steps  int
	abort  bool
	tracks map[*ssa.Alloc]bool
	nest   map[*ssa.BasicBlock]int
}

// loopDepth: number of natural loops of its function that contain b.
func (w *h09Walker) loopDepth(b *ssa.BasicBlock) int {
	if n, ok := w.nest[b]; ok {
		return n
	}
	if w.nest == nil {
		w.nest = map[*ssa.BasicBlock]int{}
	}
	for _, x := range b.Parent().Blocks {
		w.nest[x] = 0
	}
	for _, l := range Loops(b.Parent()) {
		for x := range l.Body {
			w.nest[x]++
		}
	}
	return w.nest[b]
}

// H09Walk explores fn.
func H09Walk(fn *ssa.Function, cfg H09Config) H09Result {
	if cfg.MaxVisits == 0 {
		cfg.MaxVisits = 3
	}
	if cfg.MaxPaths == 0 {
		cfg.MaxPaths = 20000
	}
	if cfg.MaxDepth == 0 {
		cfg.MaxDepth = 4
	}
	w := &h09Walker{cfg: cfg, root: fn, tracks: map[*ssa.Alloc]bool{}}
	w.res.Complete = true
	if fn == nil || len(fn.Blocks) == 0 {
		w.res.Complete, w.res.Why = false, "function has no body"
		return w.res
	}
	st := &H09State{w: w, mem: map[H09SV]H09SV{}, nilf: map[H09SV]bool{}, boolf: map[H09SV]bool{},
		rets: map[H09SV][]H09SV{}, clos: map[H09SV][]H09SV{}, ops: map[H09SV][]H09SV{}, cont: map[H09SV]H09SV{}, fmem: map[h09FKey]H09SV{}, agg: map[H09SV]map[int]H09SV{}, nextID: 1}
	fr := st.push(fn, 0)
	if !w.enter(st, fr, fn.Blocks[0]) {
		return w.res
	}
	w.run(st)
	return w.res
}

// RootID is the activation id of the root function.
const H09RootID = 1

// H09Param is the instance of a parameter (or free variable) of the root function.
func H09Param(p ssa.Value) H09SV { return H09SV{V: p, F: H09RootID} }

func (st *H09State) push(fn *ssa.Function, depth int) *h09Frame {
	fr := &h09Frame{id: st.nextID, depth: depth, fn: fn, visits: map[*ssa.BasicBlock]int{}, env: map[ssa.Value]H09SV{}}
	st.nextID++
	st.stack = append(st.stack, fr)
	return fr
}

func (st *H09State) top() *h09Frame { return st.stack[len(st.stack)-1] }

func cloneSV(m map[H09SV]H09SV) map[H09SV]H09SV {
	out := make(map[H09SV]H09SV, len(m)+8)
	for k, v := range m {
		out[k] = v
	}
	return out
}

func cloneB(m map[H09SV]bool) map[H09SV]bool {
	out := make(map[H09SV]bool, len(m)+8)
	for k, v := range m {
		out[k] = v
	}
	return out
}

func cloneL(m map[H09SV][]H09SV) map[H09SV][]H09SV {
	out := make(map[H09SV][]H09SV, len(m)+8)
	for k, v := range m {
		out[k] = v // slices are never mutated after insertion
	}
	return out
}

func (st *H09State) clone() *H09State {
	c := &H09State{w: st.w, mem: cloneSV(st.mem), nilf: cloneB(st.nilf), boolf: cloneB(st.boolf), rets: cloneL(st.rets),
		clos: cloneL(st.clos), ops: cloneL(st.ops), cont: cloneSV(st.cont), nextID: st.nextID, steps: st.steps, tailFn: st.tailFn}
	c.fmem = make(map[h09FKey]H09SV, len(st.fmem)+4)
	for k, v := range st.fmem {
		c.fmem[k] = v
	}
	c.agg = make(map[H09SV]map[int]H09SV, len(st.agg)+4)
	for k, v := range st.agg {
		c.agg[k] = v // snapshots are immutable
	}
	c.Trace = append(make([]H09Event, 0, len(st.Trace)+16), st.Trace...)
	for _, f := range st.stack {
		g := *f
		g.visits = make(map[*ssa.BasicBlock]int, len(f.visits))
		for k, v := range f.visits {
			g.visits[k] = v
		}
		g.env = make(map[ssa.Value]H09SV, len(f.env)+8)
		for k, v := range f.env {
			g.env[k] = v
		}
		c.stack = append(c.stack, &g)
	}
	return c
}

func (st *H09State) emit(ev H09Event) {
	ev.Depth = st.top().depth
	st.Trace = append(st.Trace, ev)
	if st.w.cfg.OnEvent != nil {
		st.w.cfg.OnEvent(st, &st.Trace[len(st.Trace)-1])
	}
}

// enter moves the activation to block b (binding its phis by the edge taken); false when the
// visit bound is exceeded.
func (w *h09Walker) enter(st *H09State, fr *h09Frame, b *ssa.BasicBlock) bool {
	max := w.cfg.MaxVisits
	if w.cfg.MaxVisitsAt != nil {
		if m := w.cfg.MaxVisitsAt(fr.depth); m >= 1 {
			max = m
		}
	}
	if w.cfg.InnerVisits > 0 && fr.outer+w.loopDepth(b) >= 2 {
		max = w.cfg.InnerVisits
	}
	if fr.visits[b] >= max {
		w.res.Pruned++
		return false
	}
	fr.visits[b]++
	if fr.block != nil {
		edge := -1
		for i, p := range b.Preds {
			if p == fr.block {
				edge = i
				break
			}
		}
		var phis []*ssa.Phi
		var vals []H09SV
		for _, in := range b.Instrs {
			ph, ok := in.(*ssa.Phi)
			if !ok {
				break
			}
			phis = append(phis, ph)
			if edge >= 0 && edge < len(ph.Edges) {
				vals = append(vals, st.val(fr, ph.Edges[edge]))
			} else {
				vals = append(vals, H09SV{V: ph, F: fr.id, N: fr.visits[b]})
			}
		}
		for i, ph := range phis {
			fr.env[ph] = vals[i]
		}
	}
	fr.block = b
	fr.pc = 0
	return true
}

func (st *H09State) inst(fr *h09Frame, v ssa.Value) H09SV {
	n := 0
	if in, ok := v.(ssa.Instruction); ok && in.Block() != nil {
		n = fr.visits[in.Block()]
	}
	return H09SV{V: v, F: fr.id, N: n}
}

// val resolves an operand in the activation.
func (st *H09State) val(fr *h09Frame, v ssa.Value) H09SV {
	switch v.(type) {
	case nil:
		return H09SV{}
	case *ssa.Const, *ssa.Global, *ssa.Function, *ssa.Builtin:
		return H09SV{V: v}
	}
	if sv, ok := fr.env[v]; ok {
		return sv
	}
	switch v.(type) {
	case *ssa.Parameter, *ssa.FreeVar:
		return H09SV{V: v, F: fr.id}
	}
	return st.inst(fr, v)
}

func (w *h09Walker) trackable(al *ssa.Alloc) bool {
	if t, ok := w.tracks[al]; ok {
		return t
	}
	w.tracks[al] = false // recursion guard
	t := h09AddrSimple(al, 0)
	w.tracks[al] = t
	return t
}

// h09AddrSimple: the address value (an Alloc or the FreeVar a closure sees it through) is only
// stored to as a whole, loaded, read through derived field/element addresses, or captured by a
// closure that is only ever called directly and treats it the same way.
func h09AddrSimple(addr ssa.Value, depth int) bool {
	refs := addr.Referrers()
	if refs == nil || depth > 4 {
		return false
	}
	for _, ref := range *refs {
		switch r := ref.(type) {
		case *ssa.Store:
			if r.Addr != addr || r.Val == addr {
				return false
			}
		case *ssa.UnOp:
			if r.Op != token.MUL {
				return false
			}
		case *ssa.DebugRef:
		case *ssa.FieldAddr:
			if !h09ReadOnlyAddr(r, 0) && !h09FieldSimple(r) {
				return false
			}
		case *ssa.IndexAddr:
			if !h09ReadOnlyAddr(r, 0) {
				return false
			}
		case *ssa.Slice:
			if r.X != addr {
				return false
			}
		case *ssa.Call:
			// the address handed to a static callee with a body (`job.run(ctx)` with a pointer receiver, a
			// helper filling an out-parameter) that treats its parameter the same way. When such a call is
			// not executed by the walker the content becomes opaque (see call).
			f := r.Call.StaticCallee()
			if f == nil || len(f.Blocks) == 0 || r.Call.Value == addr || len(f.Params) != len(r.Call.Args) {
				return false
			}
			for i, a := range r.Call.Args {
				if a == addr && !h09AddrSimple(f.Params[i], depth+1) {
					return false
				}
			}
		case *ssa.MakeClosure:
			if h09ClosureOnlyReads(r, addr, depth) {
				continue // e.g. a deferred closure that inspects the named results
			}
			for _, mref := range *r.Referrers() {
				switch m := mref.(type) {
				case *ssa.Call:
					if m.Call.Value != ssa.Value(r) {
						return false
					}
					for _, a := range m.Call.Args {
						if a == ssa.Value(r) {
							return false
						}
					}
				case *ssa.DebugRef:
				default:
					return false
				}
			}
			fn, ok := r.Fn.(*ssa.Function)
			if !ok {
				return false
			}
			for i, b := range r.Bindings {
				if b == addr {
					if i >= len(fn.FreeVars) || !h09AddrSimple(fn.FreeVars[i], depth+1) {
						return false
					}
				}
			}
		default:
			return false
		}
	}
	return true
}

// h09FieldSimple: the field address is only stored to as a whole and loaded (`x.f = v`, `x.f`).
func h09FieldSimple(fa *ssa.FieldAddr) bool {
	for _, ref := range *fa.Referrers() {
		switch r := ref.(type) {
		case *ssa.Store:
			if r.Addr != ssa.Value(fa) || r.Val == ssa.Value(fa) {
				return false
			}
		case *ssa.UnOp:
			if r.Op != token.MUL {
				return false
			}
		case *ssa.DebugRef:
		case *ssa.FieldAddr:
			if !h09ReadOnlyAddr(r, 0) {
				return false
			}
		case *ssa.IndexAddr:
			if !h09ReadOnlyAddr(r, 0) {
				return false
			}
		default:
			return false
		}
	}
	return true
}

// h09ClosureOnlyReads: the closure (however it is used: deferred, started, stored) never writes
// through the captured address, so the stores of the enclosing function alone determine the content.
func h09ClosureOnlyReads(mc *ssa.MakeClosure, addr ssa.Value, depth int) bool {
	fn, ok := mc.Fn.(*ssa.Function)
	if !ok || depth > 4 {
		return false
	}
	for i, b := range mc.Bindings {
		if b != addr {
			continue
		}
		if i >= len(fn.FreeVars) {
			return false
		}
		fv := fn.FreeVars[i]
		for _, ref := range *fv.Referrers() {
			switch r := ref.(type) {
			case *ssa.UnOp:
				if r.Op != token.MUL {
					return false
				}
			case *ssa.DebugRef:
			case *ssa.FieldAddr:
				if !h09ReadOnlyAddr(r, 0) {
					return false
				}
			case *ssa.IndexAddr:
				if !h09ReadOnlyAddr(r, 0) {
					return false
				}
			case *ssa.MakeClosure:
				if !h09ClosureOnlyReads(r, fv, depth+1) {
					return false
				}
			default:
				return false
			}
		}
	}
	return true
}

func h09ReadOnlyAddr(a ssa.Value, depth int) bool {
	if depth > 6 {
		return false
	}
	for _, ref := range *a.Referrers() {
		switch r := ref.(type) {
		case *ssa.UnOp:
			if r.Op != token.MUL {
				return false
			}
		case *ssa.DebugRef:
		case *ssa.FieldAddr:
			if !h09ReadOnlyAddr(r, depth+1) {
				return false
			}
		case *ssa.IndexAddr:
			if !h09ReadOnlyAddr(r, depth+1) {
				return false
			}
		default:
			return false
		}
	}
	return true
}

func (w *h09Walker) run(st *H09State) {
	for {
		if w.abort {
			return
		}
		fr := st.top()
		if fr.pc >= len(fr.block.Instrs) {
			return
		}
		in := fr.block.Instrs[fr.pc]
		st.steps++
		w.steps++
		if st.steps > 40000 || w.steps > 8000000 {
			w.abort, w.res.Complete, w.res.Why = true, false, "step budget exhausted"
			return
		}
		switch x := in.(type) {
		case *ssa.Phi, *ssa.DebugRef, *ssa.RunDefers:
			fr.pc++
		case *ssa.Jump:
			if !w.enter(st, fr, fr.block.Succs[0]) {
				return
			}
		case *ssa.If:
			known, truth, atom, nilTest := st.evalBool(st.val(fr, x.Cond), 0)
			if !known {
				if atom.V == nil {
					atom, nilTest = st.val(fr, x.Cond), false
				}
				alt := st.clone()
				alt.assume(atom, nilTest, false, x)
				w.run(alt)
				if w.abort {
					return
				}
				st.assume(atom, nilTest, true, x)
				continue // re-evaluate the branch under the new fact
			}
			idx := 1
			if truth {
				idx = 0
			}
			if !w.enter(st, fr, fr.block.Succs[idx]) {
				return
			}
		case *ssa.Return:
			vals := make([]H09SV, len(x.Results))
			for i, r := range x.Results {
				vals[i] = st.val(fr, r)
			}
			if len(st.stack) == 1 && w.cfg.Tail && st.tailFn == nil {
				var fn *ssa.Function
				var binds []H09SV
				if len(vals) == 1 {
					switch f := vals[0].V.(type) {
					case *ssa.MakeClosure:
						fn, _ = f.Fn.(*ssa.Function)
						binds = st.clos[vals[0]]
					case *ssa.Function:
						fn = f
					}
				}
				if fn == nil || len(fn.Blocks) == 0 || len(binds) != len(fn.FreeVars) {
					w.res.Paths++
					if w.cfg.OnTailFail != nil {
						w.cfg.OnTailFail(st, x)
					}
					return
				}
				st.stack = st.stack[:0]
				nf := st.push(fn, 0)
				for _, p := range fn.Params {
					nf.env[p] = H09Param(p)
				}
				for i, fv := range fn.FreeVars {
					nf.env[fv] = binds[i]
				}
				st.tailFn = fn
				if w.cfg.OnTail != nil {
					w.cfg.OnTail(st, fn)
				}
				if !w.enter(st, nf, fn.Blocks[0]) {
					return
				}
				continue
			}
			if len(st.stack) == 1 {
				w.res.Paths++
				if w.res.Paths > w.cfg.MaxPaths {
					w.abort, w.res.Complete, w.res.Why = true, false, "path budget exhausted"
					return
				}
				if w.cfg.OnReturn != nil {
					w.cfg.OnReturn(st, x, vals)
				}
				return
			}
			st.stack = st.stack[:len(st.stack)-1]
			caller := st.top()
			st.rets[fr.callSV] = vals
			if len(vals) == 1 {
				caller.env[fr.call] = vals[0]
			}
			caller.pc++
		case *ssa.Panic:
			return
		case *ssa.Call:
			w.call(st, fr, x)
		case *ssa.Defer:
			st.emit(H09Event{Kind: "defer", In: x, Callee: st.calleeSV(fr, &x.Call), Args: st.vals(fr, x.Call.Args)})
			fr.pc++
		case *ssa.Go:
			st.emit(H09Event{Kind: "go", In: x, Callee: st.calleeSV(fr, &x.Call), Args: st.vals(fr, x.Call.Args)})
			fr.pc++
		case *ssa.Store:
			addr := st.val(fr, x.Addr)
			if al, ok := addr.V.(*ssa.Alloc); ok && w.trackable(al) {
				st.mem[addr] = st.val(fr, x.Val)
				for k := range st.fmem {
					if k.base == addr {
						delete(st.fmem, k)
					}
				}
			} else if base, field, ok := st.fieldOfTracked(addr); ok {
				st.fmem[h09FKey{base, field}] = st.val(fr, x.Val)
			} else {
				st.emit(H09Event{Kind: "store", In: x, Key: addr, Val: st.val(fr, x.Val)})
			}
			fr.pc++
		case *ssa.MapUpdate:
			st.emit(H09Event{Kind: "mapupdate", In: x, Map: st.val(fr, x.Map), Key: st.val(fr, x.Key), Val: st.val(fr, x.Value)})
			fr.pc++
		default:
			if v, ok := in.(ssa.Value); ok {
				w.define(st, fr, v)
			}
			fr.pc++
		}
	}
}

func (st *H09State) vals(fr *h09Frame, vs []ssa.Value) []H09SV {
	out := make([]H09SV, len(vs))
	for i, v := range vs {
		out[i] = st.val(fr, v)
	}
	return out
}

func (st *H09State) calleeSV(fr *h09Frame, c *ssa.CallCommon) H09SV {
	if c.IsInvoke() || c.StaticCallee() == nil {
		return st.val(fr, c.Value)
	}
	return H09SV{}
}

// define executes a value instruction: its meaning is fixed here (not at its uses).
func (w *h09Walker) define(st *H09State, fr *h09Frame, v ssa.Value) {
	self := st.inst(fr, v)
	switch x := v.(type) {
	case *ssa.ChangeType:
		fr.env[v] = st.val(fr, x.X)
		return
	case *ssa.Convert:
		fr.env[v] = st.val(fr, x.X)
		return
	case *ssa.ChangeInterface:
		fr.env[v] = st.val(fr, x.X)
		return
	case *ssa.UnOp:
		if x.Op == token.MUL {
			addr := st.val(fr, x.X)
			if base, field, ok := st.fieldOfTracked(addr); ok {
				if c, ok := st.fmem[h09FKey{base, field}]; ok {
					fr.env[v] = c
					return
				}
				whole, has := st.mem[base]
				switch {
				case has && whole.F == -1:
					// opaque
				case has:
					if snap, ok := st.agg[whole]; ok {
						if c, ok := snap[field]; ok {
							fr.env[v] = c
						} else {
							fr.env[v] = H09SV{V: ssa.NewConst(nil, x.Type())}
						}
						return
					}
				default:
					fr.env[v] = H09SV{V: ssa.NewConst(nil, x.Type())} // never assigned on this path: zero
					return
				}
			}
			if al, ok := addr.V.(*ssa.Alloc); ok && w.trackable(al) {
				var snap map[int]H09SV
				for k, c := range st.fmem {
					if k.base == addr {
						if snap == nil {
							snap = map[int]H09SV{}
						}
						snap[k.field] = c
					}
				}
				c, ok := st.mem[addr]
				switch {
				case ok && c.F == -1:
					// assigned by code that was not executed: opaque
				case snap != nil:
					// a struct assembled field by field and read as a whole: remember its fields
					if ok {
						if under, isAgg := st.agg[c]; isAgg {
							for f, fv := range under {
								if _, set := snap[f]; !set {
									snap[f] = fv
								}
							}
						} else {
							break // fields over an unknown whole value
						}
					}
					st.agg[self] = snap
				case ok:
					fr.env[v] = c
					return
				default:
					fr.env[v] = H09SV{V: ssa.NewConst(nil, x.Type())}
					return
				}
			}
		}
	case *ssa.Field:
		// a field of a struct value assembled field by field in a followed local and passed around as a whole
		// (a parameter object handed over by value)
		if snap, ok := st.agg[st.val(fr, x.X)]; ok {
			if c, ok := snap[x.Field]; ok {
				fr.env[v] = c
			} else {
				fr.env[v] = H09SV{V: ssa.NewConst(nil, x.Type())}
			}
			return
		}
	case *ssa.Extract:
		t := st.inst(fr, x.Tuple)
		if r, ok := st.rets[t]; ok && x.Index < len(r) {
			fr.env[v] = r[x.Index]
			return
		}
		st.ops[self] = []H09SV{t}
		fr.env[v] = self
		return
	case *ssa.MakeClosure:
		st.clos[self] = st.vals(fr, x.Bindings)
	case *ssa.Next:
		st.ops[self] = []H09SV{st.val(fr, x.Iter)}
		fr.env[v] = self
		st.emit(H09Event{Kind: "next", In: x, SV: self})
		return
	}
	var ops []H09SV
	for _, p := range v.(ssa.Instruction).Operands(nil) {
		if p != nil && *p != nil {
			ops = append(ops, st.val(fr, *p))
		}
	}
	st.ops[self] = ops
	if _, isSlice := v.(*ssa.Slice); isSlice && len(ops) > 0 {
		if al, ok := ops[0].V.(*ssa.Alloc); ok && w.trackable(al) {
			if c, ok := st.mem[ops[0]]; ok && c.F != -1 {
				st.cont[self] = c
			}
			st.mem[ops[0]] = H09SV{F: -1} // the array can be written through the slice from here on
		}
	}
	switch v.(type) {
	case *ssa.FieldAddr, *ssa.IndexAddr:
		if len(ops) > 0 {
			if al, ok := ops[0].V.(*ssa.Alloc); ok && w.trackable(al) {
				if c, ok := st.mem[ops[0]]; ok && c.F != -1 {
					st.cont[self] = c
				}
			}
		}
	}
	fr.env[v] = self
}

func (w *h09Walker) call(st *H09State, fr *h09Frame, x *ssa.Call) {
	self := st.inst(fr, x)
	args := st.vals(fr, x.Call.Args)
	callee := st.calleeSV(fr, &x.Call)
	st.ops[self] = args
	fr.env[x] = self
	var fn *ssa.Function
	var binds []H09SV
	if !x.Call.IsInvoke() {
		if f := x.Call.StaticCallee(); f != nil {
			fn = f
			if mc, ok := x.Call.Value.(*ssa.MakeClosure); ok {
				binds = st.clos[st.val(fr, mc)]
			}
		} else if mc, ok := callee.V.(*ssa.MakeClosure); ok {
			if f, ok := mc.Fn.(*ssa.Function); ok {
				fn, binds = f, st.clos[callee]
			}
		} else if f, ok := callee.V.(*ssa.Function); ok {
			fn = f // a function literal without captures (or a named function) held in a followed local
		}
	}
	inline := fn != nil && len(fn.Blocks) > 0 && w.cfg.Inline != nil && fr.depth+1 <= w.cfg.MaxDepth && w.cfg.Inline(fn)
	if inline {
		for _, f := range st.stack {
			if f.fn == fn {
				inline = false // recursion is not unfolded
			}
		}
	}
	if inline && (len(args) != len(fn.Params) || len(binds) != len(fn.FreeVars)) {
		inline = false
	}
	ev := H09Event{Kind: "call", In: x, SV: self, Callee: callee, Args: args, Inlined: inline}
	if inline {
		ev.Target = fn
	}
	st.emit(ev)
	if !inline {
		// a callee that is not executed may assign the followed locals whose address it is given
		for _, a := range args {
			if al, ok := a.V.(*ssa.Alloc); ok && w.trackable(al) {
				st.mem[a] = H09SV{F: -1}
				for k := range st.fmem {
					if k.base == a {
						delete(st.fmem, k)
					}
				}
			}
		}
		// a directly called closure that is not executed may assign the locals it captured
		for _, b := range binds {
			if al, ok := b.V.(*ssa.Alloc); ok && w.trackable(al) {
				st.mem[b] = H09SV{F: -1}
				for k := range st.fmem {
					if k.base == b {
						delete(st.fmem, k)
					}
				}
			}
		}
		fr.pc++
		return
	}
	nf := st.push(fn, fr.depth+1)
	nf.callSV, nf.call = self, x
	nf.outer = fr.outer + w.loopDepth(x.Block())
	for i, p := range fn.Params {
		nf.env[p] = args[i]
	}
	for i, fv := range fn.FreeVars {
		nf.env[fv] = binds[i]
	}
	if !w.enter(st, nf, fn.Blocks[0]) {
		w.abort, w.res.Complete, w.res.Why = true, false, "cannot enter callee"
	}
}

// fieldOfTracked: addr is the address of a direct field of a followed local.
func (st *H09State) fieldOfTracked(addr H09SV) (base H09SV, field int, ok bool) {
	fa, isFA := addr.V.(*ssa.FieldAddr)
	if !isFA {
		return H09SV{}, 0, false
	}
	ops := st.ops[addr]
	if len(ops) < 1 {
		return H09SV{}, 0, false
	}
	al, isAl := ops[0].V.(*ssa.Alloc)
	if !isAl || !st.w.trackable(al) {
		return H09SV{}, 0, false
	}
	return ops[0], fa.Field, true
}

func (st *H09State) assume(atom H09SV, nilTest, truth bool, at ssa.Instruction) {
	if nilTest {
		st.nilf[atom] = truth
	} else {
		st.boolf[atom] = truth
	}
	st.emit(H09Event{Kind: "assume", In: at, Atom: atom, NilTest: nilTest, Truth: truth})
}

func h09Nillable(t types.Type) bool {
	switch t.Underlying().(type) {
	case *types.Pointer, *types.Interface, *types.Map, *types.Slice, *types.Chan, *types.Signature:
		return true
	case *types.Basic:
		return t.Underlying().(*types.Basic).Kind() == types.UnsafePointer || t.Underlying().(*types.Basic).Kind() == types.UntypedNil
	}
	return false
}

// NilOf reports what the path knows about the nil-ness of an instance.
func (st *H09State) NilOf(sv H09SV) (known, isNil bool) {
	if sv.V == nil {
		return false, false
	}
	if f, ok := st.nilf[sv]; ok {
		return true, f
	}
	switch x := sv.V.(type) {
	case *ssa.Const:
		if x.Value == nil && h09Nillable(x.Type()) {
			return true, true
		}
		return true, false
	case *ssa.MakeInterface, *ssa.MakeMap, *ssa.MakeSlice, *ssa.MakeChan, *ssa.MakeClosure, *ssa.Alloc, *ssa.Function,
		*ssa.FieldAddr, *ssa.IndexAddr, *ssa.Global:
		return true, false
	case *ssa.Call:
		if st.w.cfg.NonNil != nil && st.w.cfg.NonNil(&x.Call) {
			return true, false
		}
	case *ssa.Extract:
		if c, ok := x.Tuple.(*ssa.Call); ok && st.w.cfg.NonNil != nil && st.w.cfg.NonNil(&c.Call) {
			return true, false
		}
	}
	if !h09Nillable(sv.V.Type()) {
		return true, false
	}
	return false, false
}

// BoolOf reports the truth of a boolean instance when the path decided it.
func (st *H09State) BoolOf(sv H09SV) (known, truth bool) {
	k, t, _, _ := st.evalBool(sv, 0)
	return k, t
}

// evalBool evaluates a boolean instance under the path facts; when undecided it names the atom to
// fork on (nilTest: "atom == nil", otherwise the boolean atom itself).
func (st *H09State) evalBool(sv H09SV, depth int) (known, truth bool, atom H09SV, nilTest bool) {
	if sv.V == nil || depth > 12 {
		return false, false, H09SV{}, false
	}
	if f, ok := st.boolf[sv]; ok {
		return true, f, H09SV{}, false
	}
	switch x := sv.V.(type) {
	case *ssa.Const:
		if x.Value != nil && x.Value.Kind() == constant.Bool {
			return true, constant.BoolVal(x.Value), H09SV{}, false
		}
		if bt, ok := x.Type().Underlying().(*types.Basic); ok && x.Value == nil && bt.Info()&types.IsBoolean != 0 {
			return true, false, H09SV{}, false // zero value of a bool local never assigned on this path
		}
		return false, false, H09SV{}, false
	case *ssa.Extract:
		// the ok of `v, ok := x.(T)` (also the arms of a type switch) when x is an interface made from a value of a
		// statically known type on this path
		if ta, isTA := x.Tuple.(*ssa.TypeAssert); isTA && ta.CommaOk && x.Index == 1 {
			if tops := st.ops[sv]; len(tops) == 1 {
				if xs := st.ops[tops[0]]; len(xs) >= 1 {
					if mi, isMI := xs[0].V.(*ssa.MakeInterface); isMI {
						dyn := mi.X.Type()
						if types.IsInterface(ta.AssertedType) {
							if it, ok := ta.AssertedType.Underlying().(*types.Interface); ok {
								return true, types.Implements(dyn, it), H09SV{}, false
							}
						} else {
							return true, types.Identical(dyn, ta.AssertedType), H09SV{}, false
						}
					}
				}
			}
		}
	case *ssa.UnOp:
		if ops := st.ops[sv]; x.Op == token.NOT && len(ops) == 1 {
			k, t, a, n := st.evalBool(ops[0], depth+1)
			if k {
				return true, !t, H09SV{}, false
			}
			return false, false, a, n
		}
	case *ssa.BinOp:
		ops := st.ops[sv]
		if len(ops) != 2 || (x.Op != token.EQL && x.Op != token.NEQ) {
			break
		}
		a, b := ops[0], ops[1]
		isNilC := func(s H09SV) bool {
			c, ok := s.V.(*ssa.Const)
			return ok && c.Value == nil && h09Nillable(c.Type())
		}
		if isNilC(b) || isNilC(a) {
			o := a
			if isNilC(a) {
				o = b
			}
			k, n := st.NilOf(o)
			if !k {
				return false, false, o, true
			}
			return true, n == (x.Op == token.EQL), H09SV{}, false
		}
		if bt, ok := a.V.Type().Underlying().(*types.Basic); ok && bt.Info()&types.IsBoolean != 0 {
			ka, ta, aa, na := st.evalBool(a, depth+1)
			if !ka {
				if aa.V == nil {
					aa, na = a, false
				}
				return false, false, aa, na
			}
			kb, tb, ab, nb := st.evalBool(b, depth+1)
			if !kb {
				if ab.V == nil {
					ab, nb = b, false
				}
				return false, false, ab, nb
			}
			return true, (ta == tb) == (x.Op == token.EQL), H09SV{}, false
		}
		ca, oka := a.V.(*ssa.Const)
		cb, okb := b.V.(*ssa.Const)
		if oka && okb && ca.Value != nil && cb.Value != nil && ca.Value.Kind() == cb.Value.Kind() {
			return true, constant.Compare(ca.Value, x.Op, cb.Value), H09SV{}, false
		}
	}
	return false, false, sv, false
}

// Ops returns the operand instances recorded when sv was executed.
func (st *H09State) Ops(sv H09SV) []H09SV { return st.ops[sv] }

// TupleOf returns the instance of the tuple an Extract instance was taken from.
func (st *H09State) TupleOf(sv H09SV) (H09SV, int, bool) {
	ex, ok := sv.V.(*ssa.Extract)
	if !ok {
		return H09SV{}, 0, false
	}
	ops := st.ops[sv]
	if len(ops) != 1 {
		return H09SV{}, 0, false
	}
	return ops[0], ex.Index, true
}

// CallEvent returns the trace entry of a call instance.
func (st *H09State) CallEvent(sv H09SV) *H09Event {
	for i := len(st.Trace) - 1; i >= 0; i-- {
		if e := &st.Trace[i]; e.Kind == "call" && e.SV == sv {
			return e
		}
	}
	return nil
}

// ResultOf decodes "result idx of call instance c" for an instance produced by a call that was not
// inlined (a single-result call is its own result 0).
func (st *H09State) ResultOf(sv H09SV) (call H09SV, idx int, ok bool) {
	if _, isCall := sv.V.(*ssa.Call); isCall {
		return sv, 0, true
	}
	t, i, ok := st.TupleOf(sv)
	if !ok {
		return H09SV{}, 0, false
	}
	if _, isCall := t.V.(*ssa.Call); !isCall {
		return H09SV{}, 0, false
	}
	return t, i, true
}

// PathOf peels loads, field selections, indexing, range steps and type assertions off an instance.
func (st *H09State) PathOf(sv H09SV) H09Path {
	var rev []H09Step
	cur := sv
loop:
	for i := 0; i < 32; i++ {
		ops := st.ops[cur]
		switch x := cur.V.(type) {
		case *ssa.UnOp:
			if x.Op != token.MUL || len(ops) != 1 {
				break loop
			}
			switch ops[0].V.(type) {
			case *ssa.FieldAddr, *ssa.IndexAddr:
				cur = ops[0]
			case *ssa.Alloc, *ssa.Global:
				break loop
			default:
				rev = append(rev, H09Step{Kind: "deref"})
				cur = ops[0]
			}
		case *ssa.FieldAddr:
			if len(ops) < 1 {
				break loop
			}
			rev = append(rev, H09Step{Kind: "field", Field: FieldKey(x.X.Type(), x.Field)})
			if c, ok := st.cont[cur]; ok {
				cur = c
			} else {
				cur = ops[0]
			}
		case *ssa.Field:
			if len(ops) < 1 {
				break loop
			}
			rev = append(rev, H09Step{Kind: "field", Field: FieldKey(x.X.Type(), x.Field)})
			cur = ops[0]
		case *ssa.IndexAddr:
			if len(ops) < 2 {
				break loop
			}
			rev = append(rev, H09Step{Kind: "index", Idx: ops[1]})
			if c, ok := st.cont[cur]; ok {
				cur = c
			} else {
				cur = ops[0]
			}
		case *ssa.Index:
			if len(ops) < 2 {
				break loop
			}
			rev = append(rev, H09Step{Kind: "index", Idx: ops[1]})
			cur = ops[0]
		case *ssa.Lookup:
			if len(ops) < 2 || x.CommaOk {
				break loop
			}
			rev = append(rev, H09Step{Kind: "index", Idx: ops[1]})
			cur = ops[0]
		case *ssa.TypeAssert:
			if len(ops) < 1 || x.CommaOk {
				break loop
			}
			cur = ops[0]
		case *ssa.Slice:
			c, ok := st.cont[cur]
			if !ok {
				break loop
			}
			cur = c
		case *ssa.Extract:
			if len(ops) != 1 {
				break loop
			}
			t := ops[0]
			tops := st.ops[t]
			switch tx := t.V.(type) {
			case *ssa.Next:
				if len(tops) != 1 || x.Index == 0 {
					break loop
				}
				rng := st.ops[tops[0]]
				if _, ok := tops[0].V.(*ssa.Range); !ok || len(rng) != 1 {
					break loop
				}
				k := "rangekey"
				if x.Index == 2 {
					k = "rangeval"
				}
				rev = append(rev, H09Step{Kind: k, Idx: t})
				cur = rng[0]
			case *ssa.TypeAssert:
				if x.Index != 0 || len(tops) < 1 {
					break loop
				}
				cur = tops[0]
			case *ssa.Lookup:
				if x.Index != 0 || len(tops) < 2 || !tx.CommaOk {
					break loop
				}
				rev = append(rev, H09Step{Kind: "index", Idx: tops[1]})
				cur = tops[0]
			default:
				break loop
			}
		default:
			break loop
		}
	}
	p := H09Path{Base: cur}
	for i := len(rev) - 1; i >= 0; i-- {
		p.Steps = append(p.Steps, rev[i])
	}
	return p
}

// IsLenOf reports whether sv is an instance of len(of).
func (st *H09State) IsLenOf(sv, of H09SV) bool {
	c, ok := sv.V.(*ssa.Call)
	if !ok {
		return false
	}
	b, ok := c.Call.Value.(*ssa.Builtin)
	ops := st.ops[sv]
	return ok && b.Name() == "len" && len(ops) == 1 && ops[0] == of
}

// Results returns the result instances of an inlined call instance.
func (st *H09State) Results(call H09SV) ([]H09SV, bool) {
	r, ok := st.rets[call]
	return r, ok
}

// ErrOf reports the nil-ness the path knows for the error result of a call instance
// (known=false also when the error result is discarded).
func (st *H09State) ErrOf(call H09SV) (known, isNil bool) {
	cv, ok := call.V.(*ssa.Call)
	if !ok {
		return false, false
	}
	res := cv.Call.Signature().Results()
	if r, ok := st.rets[call]; ok {
		for i := 0; i < res.Len() && i < len(r); i++ {
			if isErrorType(res.At(i).Type()) {
				return st.NilOf(r[i])
			}
		}
		return false, false
	}
	if res.Len() == 1 {
		if isErrorType(res.At(0).Type()) {
			return st.NilOf(call)
		}
		return false, false
	}
	for _, ref := range *cv.Referrers() {
		if ex, ok := ref.(*ssa.Extract); ok && ex.Index < res.Len() && isErrorType(res.At(ex.Index).Type()) {
			return st.NilOf(H09SV{V: ex, F: call.F, N: call.N})
		}
	}
	return false, false
}

// ExtractOf returns the instance of the Extract #idx taken from a tuple instance (zero if the
// program never extracts it).
func (st *H09State) ExtractOf(tuple H09SV, idx int) H09SV {
	if r, ok := st.rets[tuple]; ok && idx < len(r) {
		return r[idx]
	}
	refs := tuple.V.Referrers()
	if refs == nil {
		return H09SV{}
	}
	for _, ref := range *refs {
		if ex, ok := ref.(*ssa.Extract); ok && ex.Index == idx {
			return H09SV{V: ex, F: tuple.F, N: tuple.N}
		}
	}
	return H09SV{}
}

// Depth of the current activation (0 = root).
func (st *H09State) Depth() int { return st.top().depth }

// Facts returns the assume events of the path in order (for witnesses).
func (st *H09State) Len() int { return len(st.Trace) }

// H09ReadOnlyAddr: the address is only loaded from (directly or through derived field/element addresses).
func H09ReadOnlyAddr(a ssa.Value) bool { return h09ReadOnlyAddr(a, 0) }

// FieldsOf returns the fields of a struct value that was assembled field by field in a followed local and then read
// as a whole (field index -> instance; an absent field is zero).
func (st *H09State) FieldsOf(sv H09SV) (map[int]H09SV, bool) {
	m, ok := st.agg[sv]
	return m, ok
}
