package an

// A small path-sensitive symbolic walker over go/ssa ("tracer"), written for the C16/C17 rules.
//
// It enumerates the control-flow paths from a start point (a block of a root function) to the
// end of the root function (or to a stop block, e.g. the head of an event loop), stepping INTO
// static in-package callees and closures (parameter/argument and free-variable substitution),
// running deferred calls at `rundefers`, forking at `select` (one path per state, plus the default
// of a non-blocking select) and at branches whose condition is not decided by what the path already
// assumed. Values are symbolic: the same executed instruction instance, the same field of the same
// struct value, the same element of the same slice are the same symbol wherever they are carried
// (locals, spilled locals, phis, parameters, results, struct literals). Each path yields the ordered
// list of the observable events (calls, sends, selects, map reads/writes, field loads/stores,
// branch decisions, lock operations...) with the symbols involved, and the final memory.
//
// Rules are then written as predicates on event sequences, which makes them independent of how the
// code is cut into blocks, helpers and closures. The walker never decides a property itself.

import (
	"fmt"
	"go/constant"
	"go/token"
	"go/types"
	"sort"
	"strconv"
	"strings"

	"golang.org/x/tools/go/ssa"
)

// SymKind classifies symbolic values.
type SymKind int

const (
	KConst   SymKind = iota // constant C of type T (C == nil: nil/zero constant)
	KOpaque                 // result of an instruction executed on the path (ID > 0) or before it began (ID == 0)
	KInit                   // content of memory cell Cell not written on this path (ID identifies the individual load)
	KParam                  // unbound parameter / free variable of the root function
	KTuple                  // results of an inlined call (Args)
	KExtract                // component Index of the opaque tuple Args[0]
	KNot                    // !Args[0]
	KBin                    // Args[0] Op Args[1]
	KField                  // field Index of the struct value Args[0]
	KAddr                   // address of memory cell Cell
	KAppend                 // append(Args[0], Args[1:]...)
	KClosure                // closure Fn with bindings Args
	KFunc                   // function value Fn / builtin V
	KStruct                 // struct value: base Args[0] (may be nil) overridden by Fields
	KFresh                  // fresh object made on the path (make chan/map/slice): V, ID
	KPure                   // pure operation named Name over Args
)

// Sym is a symbolic value. Syms are immutable once built.
type Sym struct {
	Kind   SymKind
	V      ssa.Value
	ID     int
	Index  int
	Op     token.Token
	Args   []*Sym
	Cell   string
	Field  string // qualified struct field ("core.deadliner.deadlineChan") a KAddr points to / a KInit was loaded from
	Fn     *ssa.Function
	Fields map[int]*Sym
	Name   string
	C      constant.Value
	T      types.Type
	Spread bool  // KAppend with a spread slice argument
	Min    int64 // lower bound of an integer value (len of a slice that was appended to)
	key    string
}

// Key is the canonical identity of a symbol: two symbols with the same key denote the same value
// on the path. Individual loads of an unwritten cell share a key (single-threaded view).
func (s *Sym) Key() string {
	if s == nil {
		return "<nil>"
	}
	if s.key != "" {
		return s.key
	}
	var k string
	args := func() string {
		var p []string
		for _, a := range s.Args {
			p = append(p, a.Key())
		}
		return strings.Join(p, ",")
	}
	switch s.Kind {
	case KConst:
		if s.C == nil {
			k = "nil"
		} else {
			k = "c:" + s.C.ExactString()
		}
	case KOpaque:
		if s.ID > 0 {
			k = "o" + strconv.Itoa(s.ID)
		} else {
			k = "pre:" + valName(s.V)
		}
	case KInit:
		k = "init:" + s.Cell
	case KParam:
		k = "param:" + valName(s.V)
	case KTuple:
		k = "tuple(" + args() + ")"
	case KExtract:
		k = "ex(" + args() + "," + strconv.Itoa(s.Index) + ")"
	case KNot:
		k = "!(" + args() + ")"
	case KBin:
		k = "(" + s.Args[0].Key() + " " + s.Op.String() + " " + s.Args[1].Key() + ")"
	case KField:
		k = "(" + args() + ").#" + strconv.Itoa(s.Index)
	case KAddr:
		k = "&" + s.Cell
	case KAppend:
		k = "append(" + args() + ")"
	case KClosure:
		k = "closure:" + FuncName(s.Fn) + "[" + args() + "]"
	case KFunc:
		if s.Fn != nil {
			k = "func:" + FuncName(s.Fn)
		} else {
			k = "func:" + s.V.Name()
		}
	case KStruct:
		var idx []int
		for i := range s.Fields {
			idx = append(idx, i)
		}
		sort.Ints(idx)
		k = "struct{" + args()
		for _, i := range idx {
			k += ";" + strconv.Itoa(i) + "=" + s.Fields[i].Key()
		}
		k += "}"
	case KFresh:
		k = "fresh" + strconv.Itoa(s.ID)
	case KPure:
		k = s.Name + "(" + args() + ")"
	}
	s.key = k
	return k
}

func valName(v ssa.Value) string {
	if v == nil {
		return "?"
	}
	fn := ""
	switch x := v.(type) {
	case *ssa.Parameter:
		fn = FuncName(x.Parent())
	case *ssa.FreeVar:
		fn = FuncName(x.Parent())
	case ssa.Instruction:
		fn = FuncName(x.Parent())
	}
	return fn + "." + v.Name()
}

// SymEq reports whether two symbols denote the same value.
func SymEq(a, b *Sym) bool {
	if a == nil || b == nil {
		return false
	}
	return a == b || a.Key() == b.Key()
}

// IsConstBool reports a boolean constant.
func (s *Sym) IsConstBool() (val, ok bool) {
	if s != nil && s.Kind == KConst && s.C != nil && s.C.Kind() == constant.Bool {
		return constant.BoolVal(s.C), true
	}
	return false, false
}

// IsConstInt reports an integer constant.
func (s *Sym) IsConstInt() (int64, bool) {
	if s != nil && s.Kind == KConst && s.C != nil && s.C.Kind() == constant.Int {
		n, ok := constant.Int64Val(s.C)
		return n, ok
	}
	return 0, false
}

// IsNil reports the nil constant.
func (s *Sym) IsNil() bool { return s != nil && s.Kind == KConst && s.C == nil }

// FieldName returns the struct field a symbol was loaded from (KInit) or points to (KAddr).
func (s *Sym) FieldName() string {
	if s != nil && (s.Kind == KInit || s.Kind == KAddr) {
		return s.Field
	}
	return ""
}

// RootedAt reports whether s is root or derived from it by field selection / loads of its cells only.
func (s *Sym) RootedAt(root *Sym) bool {
	for i := 0; s != nil && i < 16; i++ {
		if SymEq(s, root) {
			return true
		}
		switch s.Kind {
		case KField:
			s = s.Args[0]
		case KInit:
			// cell of the form *(root).#i or <rootcell>.#i
			return strings.HasPrefix(s.Cell, "*("+root.Key()+")") || (root.Kind == KAddr && strings.HasPrefix(s.Cell, root.Cell+"."))
		default:
			return false
		}
	}
	return false
}

// ---------------------------------------------------------------------------------------------
// Events

// SelState is one state of an executed select.
type SelState struct {
	Dir  types.ChanDir
	Chan *Sym
	Send *Sym
	Recv *Sym // value received if this state was chosen
	Pos  token.Pos
}

// Ev is one observable step of a path.
type Ev struct {
	Kind     string // select send recv call enter exit builtin store load lookup mapupdate branch go range next alloc
	In       ssa.Instruction
	Fn       *ssa.Function // function containing In
	Frame    int
	Depth    int
	Name     string // callee (an.CalleeName form) or builtin name
	Callee   *ssa.Function
	Args     []*Sym
	Res      *Sym
	States   []SelState
	Chosen   int // select: chosen state, -1 = default
	Blocking bool
	Taken    bool // branch: truth of Args[0]
	Deferred bool // call/builtin executed by rundefers
}

// Path is one explored path.
type Path struct {
	Evs     []Ev
	End     string // return | stop | panic
	Results []*Sym // results of the root function (End == "return")
	Mem     map[string]*Sym
	Assume  map[string]bool
}

// TraceResult is the outcome of an exploration.
type TraceResult struct {
	Paths     []*Path
	Truncated bool // MaxPaths exceeded: not all paths were explored
	Pruned    int  // paths abandoned at the loop-unrolling bound
	Visited   map[ssa.Instruction]bool
}

// Tracer configures an exploration.
type Tracer struct {
	Root  *ssa.Function
	Start *ssa.BasicBlock // nil: entry block
	// Stop ends a path when the root frame enters this block again (event-loop head). May be nil.
	Stop *ssa.BasicBlock
	// Inline decides whether a static callee / closure is stepped into (default: same package as Root).
	Inline    func(fn *ssa.Function) bool
	MaxPaths  int // default 20000
	MaxVisits int // per block and activation, default 3
	MaxDepth  int // inlining depth, default 8

	nextID int
	res    *TraceResult
}

type frame struct {
	id      int
	fn      *ssa.Function
	depth   int
	parent  *frame
	root    bool
	lexical bool // synthetic frame of a lexical ancestor of the root (never executed)
}

type envKey struct {
	frame int
	v     ssa.Value
}

type visitKey struct {
	frame int
	b     *ssa.BasicBlock
}

type deferred struct {
	in   *ssa.Defer
	fn   *Sym
	args []*Sym
}

type tstate struct {
	env    map[envKey]*Sym
	mem    map[string]*Sym
	assume map[string]bool
	visits map[visitKey]int
	defers map[int][]deferred
	evs    []Ev
}

func (st *tstate) clone() *tstate {
	n := &tstate{env: make(map[envKey]*Sym, len(st.env)), mem: make(map[string]*Sym, len(st.mem)),
		assume: make(map[string]bool, len(st.assume)), visits: make(map[visitKey]int, len(st.visits)),
		defers: make(map[int][]deferred, len(st.defers))}
	for k, v := range st.env {
		n.env[k] = v
	}
	for k, v := range st.mem {
		n.mem[k] = v
	}
	for k, v := range st.assume {
		n.assume[k] = v
	}
	for k, v := range st.visits {
		n.visits[k] = v
	}
	for k, v := range st.defers {
		n.defers[k] = append([]deferred(nil), v...)
	}
	n.evs = append([]Ev(nil), st.evs...)
	return n
}

type tcont func(st *tstate, res []*Sym)

// Run explores the paths.
func (t *Tracer) Run() *TraceResult {
	if t.MaxPaths == 0 {
		t.MaxPaths = 20000
	}
	if t.MaxVisits == 0 {
		t.MaxVisits = 3
	}
	if t.MaxDepth == 0 {
		t.MaxDepth = 8
	}
	if t.Inline == nil {
		t.Inline = func(fn *ssa.Function) bool { return fn.Pkg == t.Root.Pkg || fn.Parent() != nil }
	}
	t.res = &TraceResult{Visited: map[ssa.Instruction]bool{}}
	if len(t.Root.Blocks) == 0 {
		return t.res
	}
	st := &tstate{env: map[envKey]*Sym{}, mem: map[string]*Sym{}, assume: map[string]bool{}, visits: map[visitKey]int{}, defers: map[int][]deferred{}}
	t.nextID++
	fr := &frame{id: t.nextID, fn: t.Root, root: true}
	// lexical ancestors of a root that is a function literal: their variables (captured by the root) are
	// resolved lazily, like values computed before the path began
	child := fr
	for p := t.Root.Parent(); p != nil; p = p.Parent() {
		t.nextID++
		anc := &frame{id: t.nextID, fn: p, depth: 0, lexical: true}
		child.parent = anc
		child = anc
	}
	start := t.Start
	if start == nil {
		start = t.Root.Blocks[0]
	}
	t.block(st, fr, start, nil, true, func(st *tstate, res []*Sym) {
		n := len(t.res.Paths)
		t.end(st, "return")
		if len(t.res.Paths) > n {
			t.res.Paths[n].Results = res
		}
	})
	return t.res
}

func (t *Tracer) id() int { t.nextID++; return t.nextID }

func (t *Tracer) end(st *tstate, why string) {
	if len(t.res.Paths) >= t.MaxPaths {
		t.res.Truncated = true
		return
	}
	t.res.Paths = append(t.res.Paths, &Path{Evs: st.evs, End: why, Mem: st.mem, Assume: st.assume})
}

func (t *Tracer) full() bool { return len(t.res.Paths) >= t.MaxPaths }

func (t *Tracer) emit(st *tstate, fr *frame, e Ev) {
	if e.In != nil {
		e.Fn = e.In.Parent()
	}
	e.Frame, e.Depth = fr.id, fr.depth
	st.evs = append(st.evs, e)
}

// block enters block b of frame fr coming from pred.
func (t *Tracer) block(st *tstate, fr *frame, b, pred *ssa.BasicBlock, first bool, k tcont) {
	if t.full() {
		t.res.Truncated = true
		return
	}
	if fr.root && !first && t.Stop != nil && b == t.Stop {
		t.end(st, "stop")
		return
	}
	vk := visitKey{fr.id, b}
	st.visits[vk]++
	if st.visits[vk] > t.MaxVisits {
		t.res.Pruned++
		return
	}
	// phis: simultaneous assignment from the edge we came along
	i := 0
	if pred != nil {
		pi := -1
		for j, p := range b.Preds {
			if p == pred {
				pi = j
			}
		}
		var vals []*Sym
		var phis []*ssa.Phi
		for ; i < len(b.Instrs); i++ {
			phi, ok := b.Instrs[i].(*ssa.Phi)
			if !ok {
				break
			}
			phis = append(phis, phi)
			if pi >= 0 && pi < len(phi.Edges) {
				vals = append(vals, t.val(st, fr, phi.Edges[pi]))
			} else {
				vals = append(vals, &Sym{Kind: KOpaque, V: phi, ID: t.id()})
			}
		}
		for j, phi := range phis {
			st.env[envKey{fr.id, phi}] = vals[j]
		}
	} else {
		for ; i < len(b.Instrs); i++ {
			phi, ok := b.Instrs[i].(*ssa.Phi)
			if !ok {
				break
			}
			st.env[envKey{fr.id, phi}] = &Sym{Kind: KOpaque, V: phi, ID: 0}
		}
	}
	t.instrs(st, fr, b, i, k)
}

func constSym(c constant.Value, typ types.Type) *Sym { return &Sym{Kind: KConst, C: c, T: typ} }

// val evaluates an operand in frame fr.
func (t *Tracer) val(st *tstate, fr *frame, v ssa.Value) *Sym {
	if v == nil {
		return nil
	}
	switch x := v.(type) {
	case *ssa.Const:
		return constSym(x.Value, x.Type())
	case *ssa.Function:
		return &Sym{Kind: KFunc, Fn: x, V: x}
	case *ssa.Builtin:
		return &Sym{Kind: KFunc, V: x}
	case *ssa.Global:
		return &Sym{Kind: KAddr, Cell: "g:" + x.Pkg.Pkg.Path() + "." + x.Name(), V: x}
	}
	if s, ok := st.env[envKey{fr.id, v}]; ok {
		return s
	}
	// not executed on this path: a parameter of the root, or a value computed before the path began
	s := t.lazy(st, fr, v, 0)
	st.env[envKey{fr.id, v}] = s
	return s
}

func (t *Tracer) lazy(st *tstate, fr *frame, v ssa.Value, d int) *Sym {
	if d > 12 {
		return &Sym{Kind: KOpaque, V: v}
	}
	sub := func(w ssa.Value) *Sym {
		switch w.(type) {
		case *ssa.Const, *ssa.Function, *ssa.Builtin, *ssa.Global:
			return t.val(st, fr, w)
		}
		if s, ok := st.env[envKey{fr.id, w}]; ok {
			return s
		}
		return t.lazy(st, fr, w, d+1)
	}
	switch x := v.(type) {
	case *ssa.FreeVar:
		// captured variable of an unbound function literal: the variable of the enclosing function it is bound to
		if fr.parent != nil && fr.parent.fn == fr.fn.Parent() {
			var bound ssa.Value
			n := 0
			for j, fv := range fr.fn.FreeVars {
				if fv != x {
					continue
				}
				for _, in := range Instrs(fr.fn.Parent(), false) {
					if mc, ok := in.(*ssa.MakeClosure); ok && mc.Fn == ssa.Value(fr.fn) && j < len(mc.Bindings) {
						bound = mc.Bindings[j]
						n++
					}
				}
			}
			if n == 1 {
				if s, ok := st.env[envKey{fr.parent.id, bound}]; ok {
					return s
				}
				return t.lazy(st, fr.parent, bound, d+1)
			}
		}
		return &Sym{Kind: KParam, V: v}
	case *ssa.Parameter:
		return &Sym{Kind: KParam, V: v}
	case *ssa.Alloc:
		return &Sym{Kind: KAddr, Cell: "alloc:" + valName(x), V: x}
	case *ssa.MakeClosure:
		s := &Sym{Kind: KClosure, Fn: x.Fn.(*ssa.Function), V: x}
		for _, b := range x.Bindings {
			s.Args = append(s.Args, sub(b))
		}
		return s
	case *ssa.FieldAddr:
		return t.fieldAddr(sub(x.X), x)
	case *ssa.IndexAddr:
		return t.indexAddr(sub(x.X), sub(x.Index))
	case *ssa.Field:
		return fieldOfT(sub(x.X), x.Field, FieldKey(x.X.Type(), x.Field))
	case *ssa.ChangeType:
		return sub(x.X)
	case *ssa.Convert:
		return sub(x.X)
	case *ssa.MakeInterface:
		return sub(x.X)
	case *ssa.ChangeInterface:
		return sub(x.X)
	case *ssa.Extract:
		return extractOf(sub(x.Tuple), x.Index)
	case *ssa.UnOp:
		switch x.Op {
		case token.MUL:
			// value loaded before the path began: only resolvable for write-once cells holding a time-invariant value
			if al, ok := x.X.(*ssa.Alloc); ok {
				if s := t.writeOnce(st, fr, al, d); s != nil {
					return s
				}
			}
			return &Sym{Kind: KOpaque, V: v}
		case token.NOT:
			return notOf(sub(x.X))
		case token.ARROW:
			return &Sym{Kind: KOpaque, V: v}
		}
		return &Sym{Kind: KPure, Name: "unop" + x.Op.String(), Args: []*Sym{sub(x.X)}}
	case *ssa.BinOp:
		return binOf(x.Op, sub(x.X), sub(x.Y))
	case *ssa.Slice:
		return &Sym{Kind: KPure, Name: "slice", Args: []*Sym{sub(x.X), sub(x.Low), sub(x.High)}}
	}
	return &Sym{Kind: KOpaque, V: v}
}

// AllStores lists every store into the variable cell al, including stores made by closures that capture it.
func AllStores(al *ssa.Alloc) []*ssa.Store {
	var out []*ssa.Store
	seen := map[ssa.Value]bool{}
	var walk func(addr ssa.Value)
	walk = func(addr ssa.Value) {
		if seen[addr] {
			return
		}
		seen[addr] = true
		refs := addr.Referrers()
		if refs == nil {
			return
		}
		for _, ref := range *refs {
			switch x := ref.(type) {
			case *ssa.Store:
				if x.Addr == addr {
					out = append(out, x)
				}
			case *ssa.MakeClosure:
				cl := x.Fn.(*ssa.Function)
				for i, b := range x.Bindings {
					if b == addr && i < len(cl.FreeVars) {
						walk(cl.FreeVars[i])
					}
				}
			}
		}
	}
	walk(al)
	return out
}

// AddrEscapes reports whether the address of the variable cell is used other than by loads, stores and capture.
func AddrEscapes(al *ssa.Alloc) bool {
	esc := false
	seen := map[ssa.Value]bool{}
	var walk func(addr ssa.Value)
	walk = func(addr ssa.Value) {
		if seen[addr] {
			return
		}
		seen[addr] = true
		refs := addr.Referrers()
		if refs == nil {
			return
		}
		for _, ref := range *refs {
			switch x := ref.(type) {
			case *ssa.Store:
				if x.Addr != addr {
					esc = true
				}
			case *ssa.UnOp:
				if x.Op != token.MUL {
					esc = true
				}
			case *ssa.MakeClosure:
				cl := x.Fn.(*ssa.Function)
				for i, b := range x.Bindings {
					if b == addr && i < len(cl.FreeVars) {
						walk(cl.FreeVars[i])
					}
				}
			case *ssa.DebugRef:
			case *ssa.FieldAddr, *ssa.IndexAddr:
				// partial writes: treat as escaping for the purposes of write-once resolution
				esc = true
			default:
				esc = true
			}
		}
	}
	walk(al)
	return esc
}

// writeOnce resolves the content of a variable that is assigned exactly once with a value that does not
// depend on when it is read (parameter, function, closure, constant, address).
func (t *Tracer) writeOnce(st *tstate, fr *frame, al *ssa.Alloc, d int) *Sym {
	stores := AllStores(al)
	if len(stores) != 1 || stores[0].Parent() != al.Parent() || AddrEscapes(al) {
		return nil
	}
	if al.Parent() != fr.fn {
		return nil
	}
	switch v := stores[0].Val.(type) {
	case *ssa.Parameter, *ssa.FreeVar, *ssa.MakeClosure, *ssa.Const, *ssa.Function, *ssa.Alloc:
		if s, ok := st.env[envKey{fr.id, v}]; ok {
			return s
		}
		switch v.(type) {
		case *ssa.Const, *ssa.Function:
			return t.val(st, fr, v)
		}
		return t.lazy(st, fr, v, d+1)
	}
	return nil
}

func notOf(s *Sym) *Sym {
	if b, ok := s.IsConstBool(); ok {
		return constSym(constant.MakeBool(!b), types.Typ[types.Bool])
	}
	if s.Kind == KNot {
		return s.Args[0]
	}
	return &Sym{Kind: KNot, Args: []*Sym{s}}
}

func binOf(op token.Token, a, b *Sym) *Sym {
	// comparisons of a lower-bounded integer (len of append(...)) with a smaller constant
	if n, ok := b.IsConstInt(); ok && a.Min > 0 {
		if v, dec := cmpMin(op, a.Min, n); dec {
			return constSym(constant.MakeBool(v), types.Typ[types.Bool])
		}
	}
	if n, ok := a.IsConstInt(); ok && b.Min > 0 {
		if v, dec := cmpMin(flip(op), b.Min, n); dec {
			return constSym(constant.MakeBool(v), types.Typ[types.Bool])
		}
	}
	if a.Kind == KConst && b.Kind == KConst {
		switch op {
		case token.EQL, token.NEQ:
			if a.C == nil || b.C == nil {
				if a.C == nil && b.C == nil {
					return constSym(constant.MakeBool(op == token.EQL), types.Typ[types.Bool])
				}
			} else if a.C.Kind() == b.C.Kind() {
				return constSym(constant.MakeBool(constant.Compare(a.C, op, b.C)), types.Typ[types.Bool])
			}
		case token.LSS, token.LEQ, token.GTR, token.GEQ:
			if a.C != nil && b.C != nil && a.C.Kind() == b.C.Kind() {
				return constSym(constant.MakeBool(constant.Compare(a.C, op, b.C)), types.Typ[types.Bool])
			}
		case token.ADD, token.SUB, token.MUL:
			if a.C != nil && b.C != nil && a.C.Kind() == constant.Int && b.C.Kind() == constant.Int {
				return constSym(constant.BinaryOp(a.C, op, b.C), a.T)
			}
		}
	}
	return &Sym{Kind: KBin, Op: op, Args: []*Sym{a, b}}
}

// cmpMin decides (x op c) for an unknown x >= min, when it is decided.
func cmpMin(op token.Token, min, c int64) (val, decided bool) {
	switch op {
	case token.EQL:
		if c < min {
			return false, true
		}
	case token.NEQ:
		if c < min {
			return true, true
		}
	case token.GTR:
		if min > c {
			return true, true
		}
	case token.GEQ:
		if min >= c {
			return true, true
		}
	case token.LSS:
		if min >= c {
			return false, true
		}
	case token.LEQ:
		if min > c {
			return false, true
		}
	}
	return false, false
}

func extractOf(tuple *Sym, idx int) *Sym {
	if tuple.Kind == KTuple && idx < len(tuple.Args) {
		return tuple.Args[idx]
	}
	return &Sym{Kind: KExtract, Args: []*Sym{tuple}, Index: idx}
}

func fieldOf(x *Sym, idx int) *Sym { return fieldOfT(x, idx, "") }

// fieldOfT selects field idx of a struct value; fieldKey (may be empty) is the qualified name of the field.
func fieldOfT(x *Sym, idx int, fieldKey string) *Sym {
	if x.Kind == KInit {
		// a field of the unwritten content of a cell is the unwritten content of the field's cell: `v := *p; v.f`
		// and `p.f` denote the same value
		return &Sym{Kind: KInit, Cell: x.Cell + ".#" + strconv.Itoa(idx), Field: fieldKey, ID: x.ID, V: x.V}
	}
	if x.Kind == KStruct {
		if f, ok := x.Fields[idx]; ok {
			return f
		}
		if len(x.Args) == 1 && x.Args[0] != nil {
			return fieldOf(x.Args[0], idx)
		}
		return &Sym{Kind: KPure, Name: "zerofield" + strconv.Itoa(idx), Args: nil}
	}
	return &Sym{Kind: KField, Args: []*Sym{x}, Index: idx}
}

func (t *Tracer) fieldAddr(base *Sym, fa *ssa.FieldAddr) *Sym {
	cell := ""
	if base.Kind == KAddr {
		cell = base.Cell + ".#" + strconv.Itoa(fa.Field)
	} else {
		cell = "*(" + base.Key() + ").#" + strconv.Itoa(fa.Field)
	}
	return &Sym{Kind: KAddr, Cell: cell, Field: FieldKey(fa.X.Type(), fa.Field), V: fa, Args: []*Sym{base}}
}

func (t *Tracer) indexAddr(base, idx *Sym) *Sym {
	cell := ""
	if base.Kind == KAddr {
		cell = base.Cell + "[" + idx.Key() + "]"
	} else {
		cell = "*(" + base.Key() + ")[" + idx.Key() + "]"
	}
	return &Sym{Kind: KAddr, Cell: cell, Args: []*Sym{base, idx}}
}

func cellOf(addr *Sym) string {
	if addr.Kind == KAddr {
		return addr.Cell
	}
	return "*(" + addr.Key() + ")"
}

func (t *Tracer) store(st *tstate, addr, val *Sym) {
	cell := cellOf(addr)
	prefix := cell + ".#"
	for k := range st.mem {
		if strings.HasPrefix(k, prefix) {
			delete(st.mem, k)
		}
	}
	st.mem[cell] = val
}

// known returns the content of a cell if the path determines it (nil otherwise).
func (t *Tracer) known(st *tstate, cell string, d int) *Sym {
	whole := st.mem[cell]
	var fields map[int]*Sym
	prefix := cell + ".#"
	for k, v := range st.mem {
		if strings.HasPrefix(k, prefix) {
			if i, err := strconv.Atoi(k[len(prefix):]); err == nil {
				if fields == nil {
					fields = map[int]*Sym{}
				}
				fields[i] = v
			}
		}
	}
	if len(fields) > 0 {
		return &Sym{Kind: KStruct, Args: []*Sym{whole}, Fields: fields}
	}
	if whole != nil {
		return whole
	}
	// a field of a cell whose whole content is known
	if i := strings.LastIndex(cell, ".#"); i > 0 && d < 4 {
		if idx, err := strconv.Atoi(cell[i+2:]); err == nil {
			if pv := t.known(st, cell[:i], d+1); pv != nil {
				return fieldOf(pv, idx)
			}
		}
	}
	return nil
}

func (t *Tracer) load(st *tstate, fr *frame, addr *Sym, in ssa.Instruction) *Sym {
	cell := cellOf(addr)
	if v := t.known(st, cell, 0); v != nil {
		return v
	}
	if al, ok := addr.V.(*ssa.Alloc); ok && addr.Kind == KAddr && strings.HasPrefix(addr.Cell, "alloc:") {
		// variable declared before the path began
		var owner *frame
		for f := fr; f != nil; f = f.parent {
			if f.fn == al.Parent() {
				owner = f
			}
		}
		if owner != nil {
			if s := t.writeOnce(st, owner, al, 0); s != nil {
				return s
			}
		}
	}
	// an element (or a field of an element) of a slice built on this path by appending to nil
	if el := appendElemAt(addr); el != nil {
		return el
	}
	if fa, ok := addr.V.(*ssa.FieldAddr); ok && addr.Kind == KAddr && len(addr.Args) == 1 {
		if el := appendElemAt(addr.Args[0]); el != nil {
			return fieldOfT(el, fa.Field, addr.Field)
		}
	}
	return &Sym{Kind: KInit, Cell: cell, Field: addr.Field, ID: t.id(), V: valueOf(in), Args: []*Sym{addr}}
}

// emptySliceSym: the symbol is a slice that certainly has no elements (nil, make([]T, 0, n), []T{}).
func emptySliceSym(s *Sym) bool {
	if s == nil {
		return false
	}
	if s.IsNil() {
		return true
	}
	switch s.Kind {
	case KFresh:
		if mk, ok := s.V.(*ssa.MakeSlice); ok {
			if c, ok := mk.Len.(*ssa.Const); ok && c.Value != nil {
				n, exact := constant.Int64Val(c.Value)
				return exact && n == 0
			}
		}
	case KPure:
		if s.Name == "slice" && len(s.Args) == 3 && s.Args[0] != nil && s.Args[0].V != nil {
			if pt, ok := s.Args[0].V.Type().Underlying().(*types.Pointer); ok {
				if at, ok := pt.Elem().Underlying().(*types.Array); ok {
					return at.Len() == 0
				}
			}
		}
	}
	return false
}

// appendElemAt resolves the address &s[i] (built by indexAddr) of a slice s that is, on this path, a chain of
// non-spread appends to nil with a constant index inside the appended elements: the i-th appended value.
func appendElemAt(addr *Sym) *Sym {
	if addr == nil || addr.Kind != KAddr || addr.V != nil || len(addr.Args) != 2 || addr.Args[0] == nil || addr.Args[0].Kind != KAppend {
		return nil
	}
	base, elems, spread := AppendElems(addr.Args[0])
	if spread || !emptySliceSym(base) {
		return nil
	}
	n, ok := addr.Args[1].IsConstInt()
	if !ok || n < 0 || n >= int64(len(elems)) {
		return nil
	}
	return elems[n]
}

func valueOf(in ssa.Instruction) ssa.Value {
	if v, ok := in.(ssa.Value); ok {
		return v
	}
	return nil
}

// canon reduces a condition to a base symbol and a polarity: cond == (base != neg).
func canon(s *Sym) (base *Sym, neg bool) {
	for i := 0; i < 16; i++ {
		switch s.Kind {
		case KNot:
			s, neg = s.Args[0], !neg
			continue
		case KBin:
			a, b := s.Args[0], s.Args[1]
			switch s.Op {
			case token.EQL, token.NEQ:
				if v, ok := b.IsConstBool(); ok {
					if (s.Op == token.EQL) != v {
						neg = !neg
					}
					s = a
					continue
				}
				if v, ok := a.IsConstBool(); ok {
					if (s.Op == token.EQL) != v {
						neg = !neg
					}
					s = b
					continue
				}
				if a.Key() > b.Key() {
					a, b = b, a
				}
				if s.Op == token.NEQ {
					neg = !neg
				}
				return &Sym{Kind: KBin, Op: token.EQL, Args: []*Sym{a, b}}, neg
			case token.GTR: // a > b  ==  b < a
				return &Sym{Kind: KBin, Op: token.LSS, Args: []*Sym{b, a}}, neg
			case token.GEQ: // a >= b == !(a < b)
				return &Sym{Kind: KBin, Op: token.LSS, Args: []*Sym{a, b}}, !neg
			case token.LEQ: // a <= b == !(b < a)
				return &Sym{Kind: KBin, Op: token.LSS, Args: []*Sym{b, a}}, !neg
			}
		}
		return s, neg
	}
	return s, neg
}

func (t *Tracer) instrs(st *tstate, fr *frame, b *ssa.BasicBlock, i int, k tcont) {
	for ; i < len(b.Instrs); i++ {
		if t.full() {
			t.res.Truncated = true
			return
		}
		in := b.Instrs[i]
		t.res.Visited[in] = true
		set := func(s *Sym) {
			if v, ok := in.(ssa.Value); ok {
				st.env[envKey{fr.id, v}] = s
			}
		}
		op := func(v ssa.Value) *Sym { return t.val(st, fr, v) }
		switch x := in.(type) {
		case *ssa.DebugRef:
		case *ssa.Alloc:
			id := t.id()
			s := &Sym{Kind: KAddr, Cell: "alloc" + strconv.Itoa(id), V: x, ID: id}
			set(s)
		case *ssa.Store:
			a, v := op(x.Addr), op(x.Val)
			t.store(st, a, v)
			t.emit(st, fr, Ev{Kind: "store", In: in, Args: []*Sym{a, v}})
		case *ssa.UnOp:
			switch x.Op {
			case token.MUL:
				a := op(x.X)
				s := t.load(st, fr, a, in)
				set(s)
				t.emit(st, fr, Ev{Kind: "load", In: in, Args: []*Sym{a}, Res: s})
			case token.ARROW:
				ch := op(x.X)
				s := &Sym{Kind: KOpaque, V: x, ID: t.id()}
				set(s)
				t.emit(st, fr, Ev{Kind: "recv", In: in, Args: []*Sym{ch}, Res: s, Blocking: true})
			case token.NOT:
				set(notOf(op(x.X)))
			default:
				set(&Sym{Kind: KPure, Name: "unop" + x.Op.String(), Args: []*Sym{op(x.X)}})
			}
		case *ssa.BinOp:
			set(binOf(x.Op, op(x.X), op(x.Y)))
		case *ssa.FieldAddr:
			set(t.fieldAddr(op(x.X), x))
		case *ssa.IndexAddr:
			set(t.indexAddr(op(x.X), op(x.Index)))
		case *ssa.Field:
			set(fieldOfT(op(x.X), x.Field, FieldKey(x.X.Type(), x.Field)))
		case *ssa.Index:
			set(&Sym{Kind: KPure, Name: "index", Args: []*Sym{op(x.X), op(x.Index)}})
		case *ssa.ChangeType:
			set(op(x.X))
		case *ssa.Convert:
			set(op(x.X))
		case *ssa.MakeInterface:
			set(op(x.X))
		case *ssa.ChangeInterface:
			set(op(x.X))
		case *ssa.MultiConvert:
			set(op(x.X))
		case *ssa.SliceToArrayPointer:
			set(op(x.X))
		case *ssa.TypeAssert:
			s := &Sym{Kind: KPure, Name: "assert:" + x.AssertedType.String(), Args: []*Sym{op(x.X)}}
			set(s)
		case *ssa.Slice:
			set(&Sym{Kind: KPure, Name: "slice", Args: []*Sym{op(x.X), op(x.Low), op(x.High)}})
		case *ssa.MakeChan, *ssa.MakeMap, *ssa.MakeSlice:
			set(&Sym{Kind: KFresh, V: in.(ssa.Value), ID: t.id()})
		case *ssa.MakeClosure:
			s := &Sym{Kind: KClosure, Fn: x.Fn.(*ssa.Function), V: x}
			for _, bd := range x.Bindings {
				s.Args = append(s.Args, op(bd))
			}
			set(s)
		case *ssa.Lookup:
			m, key := op(x.X), op(x.Index)
			s := &Sym{Kind: KOpaque, V: x, ID: t.id()}
			set(s)
			t.emit(st, fr, Ev{Kind: "lookup", In: in, Args: []*Sym{m, key}, Res: s})
		case *ssa.MapUpdate:
			t.emit(st, fr, Ev{Kind: "mapupdate", In: in, Args: []*Sym{op(x.Map), op(x.Key), op(x.Value)}})
		case *ssa.Range:
			s := &Sym{Kind: KOpaque, V: x, ID: t.id()}
			set(s)
			t.emit(st, fr, Ev{Kind: "range", In: in, Args: []*Sym{op(x.X)}, Res: s})
		case *ssa.Next:
			s := &Sym{Kind: KOpaque, V: x, ID: t.id()}
			set(s)
			t.emit(st, fr, Ev{Kind: "next", In: in, Args: []*Sym{op(x.Iter)}, Res: s})
		case *ssa.Extract:
			set(extractOf(op(x.Tuple), x.Index))
		case *ssa.Send:
			t.emit(st, fr, Ev{Kind: "send", In: in, Args: []*Sym{op(x.Chan), op(x.X)}, Blocking: true})
		case *ssa.Go:
			t.emit(st, fr, t.callEv(st, fr, "go", in, &x.Call))
		case *ssa.Defer:
			d := deferred{in: x, fn: t.calleeSym(st, fr, &x.Call)}
			for _, a := range x.Call.Args {
				d.args = append(d.args, op(a))
			}
			if x.Call.IsInvoke() {
				d.args = append([]*Sym{op(x.Call.Value)}, d.args...)
			}
			st.defers[fr.id] = append(st.defers[fr.id], d)
		case *ssa.RunDefers:
			list := st.defers[fr.id]
			delete(st.defers, fr.id)
			bb, ii := b, i
			t.runDefers(st, fr, list, func(st2 *tstate) { t.instrs(st2, fr, bb, ii+1, k) })
			return
		case *ssa.Select:
			t.sel(st, fr, x, b, i, k)
			return
		case *ssa.Call:
			var args []*Sym
			if x.Call.IsInvoke() {
				args = append(args, op(x.Call.Value))
			}
			for _, a := range x.Call.Args {
				args = append(args, op(a))
			}
			fnSym := t.calleeSym(st, fr, &x.Call)
			bb, ii := b, i
			if t.invoke(st, fr, in, &x.Call, fnSym, args, false, func(st2 *tstate, res *Sym) {
				if res != nil {
					st2.env[envKey{fr.id, x}] = res
				}
				t.instrs(st2, fr, bb, ii+1, k)
			}) {
				return
			}
		case *ssa.Return:
			var res []*Sym
			for _, r := range x.Results {
				res = append(res, op(r))
			}
			k(st, res)
			return
		case *ssa.Panic:
			t.end(st, "panic")
			return
		case *ssa.Jump:
			t.block(st, fr, b.Succs[0], b, false, k)
			return
		case *ssa.If:
			c := op(x.Cond)
			if v, ok := c.IsConstBool(); ok {
				s := b.Succs[1]
				if v {
					s = b.Succs[0]
				}
				t.block(st, fr, s, b, false, k)
				return
			}
			base, neg := canon(c)
			if v, ok := base.IsConstBool(); ok {
				truth := v != neg
				s := b.Succs[1]
				if truth {
					s = b.Succs[0]
				}
				t.block(st, fr, s, b, false, k)
				return
			}
			key := base.Key()
			if known, ok := st.assume[key]; ok {
				t.emit(st, fr, Ev{Kind: "branch", In: in, Args: []*Sym{base}, Taken: known})
				s := b.Succs[1]
				if known != neg {
					s = b.Succs[0]
				}
				t.block(st, fr, s, b, false, k)
				return
			}
			for _, truth := range []bool{true, false} {
				st2 := st.clone()
				st2.assume[key] = truth
				t.emit(st2, fr, Ev{Kind: "branch", In: in, Args: []*Sym{base}, Taken: truth})
				s := b.Succs[1]
				if truth != neg {
					s = b.Succs[0]
				}
				t.block(st2, fr, s, b, false, k)
			}
			return
		default:
			if v, ok := in.(ssa.Value); ok {
				st.env[envKey{fr.id, v}] = &Sym{Kind: KOpaque, V: v, ID: t.id()}
			}
		}
	}
}

func (t *Tracer) calleeSym(st *tstate, fr *frame, c *ssa.CallCommon) *Sym {
	if c.IsInvoke() {
		return nil
	}
	return t.val(st, fr, c.Value)
}

func (t *Tracer) callEv(st *tstate, fr *frame, kind string, in ssa.Instruction, c *ssa.CallCommon) Ev {
	e := Ev{Kind: kind, In: in, Name: CalleeName(c)}
	if c.IsInvoke() {
		e.Args = append(e.Args, t.val(st, fr, c.Value))
	} else if f := c.StaticCallee(); f != nil {
		e.Callee = f
	}
	for _, a := range c.Args {
		e.Args = append(e.Args, t.val(st, fr, a))
	}
	return e
}

// invoke executes a call (or a deferred call). It returns true if control continues through kk
// (asynchronously, because the callee was stepped into); false if the caller's loop simply goes on.
func (t *Tracer) invoke(st *tstate, fr *frame, in ssa.Instruction, c *ssa.CallCommon, fnSym *Sym, args []*Sym, isDefer bool, kk func(st *tstate, res *Sym)) bool {
	name := CalleeName(c)
	// builtins
	if bi, ok := c.Value.(*ssa.Builtin); ok && !c.IsInvoke() {
		var res *Sym
		switch bi.Name() {
		case "append":
			res = t.appendSym(st, args)
		case "len", "cap", "min", "max", "real", "imag", "complex":
			res = &Sym{Kind: KPure, Name: bi.Name(), Args: args}
			if bi.Name() == "len" || bi.Name() == "cap" {
				// length of mutable containers changes with time
				res = &Sym{Kind: KOpaque, V: valueOf(in), ID: t.id(), Name: bi.Name(), Args: args}
				if len(args) == 1 && args[0] != nil && args[0].Kind == KAppend && !args[0].Spread {
					res.Min = int64(len(args[0].Args) - 1)
					// a chain of non-spread appends to nil has exactly the appended elements
					if base, elems, spread := AppendElems(args[0]); bi.Name() == "len" && !spread && emptySliceSym(base) {
						res = constSym(constant.MakeInt64(int64(len(elems))), types.Typ[types.Int])
					}
				}
			}
		default:
			if v := valueOf(in); v != nil {
				res = &Sym{Kind: KOpaque, V: v, ID: t.id()}
			}
		}
		t.emit(st, fr, Ev{Kind: "builtin", In: in, Name: bi.Name(), Args: args, Res: res, Deferred: isDefer})
		if isDefer {
			kk(st, res)
			return true
		}
		if res != nil {
			if v, ok := in.(ssa.Value); ok {
				st.env[envKey{fr.id, v}] = res
			}
		}
		return false
	}
	var callee *ssa.Function
	var bindings []*Sym
	if !c.IsInvoke() {
		if f := c.StaticCallee(); f != nil {
			callee = f
			if fnSym != nil && fnSym.Kind == KClosure {
				bindings = fnSym.Args
			}
		} else if fnSym != nil {
			switch fnSym.Kind {
			case KClosure:
				callee, bindings = fnSym.Fn, fnSym.Args
			case KFunc:
				callee = fnSym.Fn
			}
		}
	}
	if callee != nil && name == "" {
		name = FuncName(callee)
	}
	inl := callee != nil && len(callee.Blocks) > 0 && fr.depth < t.MaxDepth && t.Inline(callee)
	if inl {
		for f := fr; f != nil; f = f.parent {
			if f.fn == callee {
				inl = false // recursion
			}
		}
	}
	if !inl {
		var res *Sym
		if v := valueOf(in); v != nil && !isDefer {
			res = &Sym{Kind: KOpaque, V: v, ID: t.id()}
		}
		t.emit(st, fr, Ev{Kind: "call", In: in, Name: name, Callee: callee, Args: args, Res: res, Deferred: isDefer})
		if isDefer {
			kk(st, res)
			return true
		}
		if res != nil {
			st.env[envKey{fr.id, res.V}] = res
		}
		return false
	}
	nf := &frame{id: t.id(), fn: callee, depth: fr.depth + 1, parent: fr}
	for i, p := range callee.Params {
		if i < len(args) {
			st.env[envKey{nf.id, p}] = args[i]
		}
	}
	for i, fv := range callee.FreeVars {
		if i < len(bindings) {
			st.env[envKey{nf.id, fv}] = bindings[i]
		}
	}
	t.emit(st, fr, Ev{Kind: "enter", In: in, Name: name, Callee: callee, Args: args, Deferred: isDefer})
	t.block(st, nf, callee.Blocks[0], nil, true, func(st2 *tstate, res []*Sym) {
		var r *Sym
		switch len(res) {
		case 0:
		case 1:
			r = res[0]
		default:
			r = &Sym{Kind: KTuple, Args: res}
		}
		e := Ev{Kind: "exit", In: in, Name: name, Callee: callee, Args: res, Res: r, Deferred: isDefer}
		e.Fn = in.Parent()
		e.Frame, e.Depth = fr.id, fr.depth
		st2.evs = append(st2.evs, e)
		kk(st2, r)
	})
	return true
}

// appendSym models append(base, elems...): the elements of the implicit varargs array are enumerated; a spread
// slice is kept opaque.
func (t *Tracer) appendSym(st *tstate, args []*Sym) *Sym {
	if len(args) != 2 {
		return &Sym{Kind: KAppend, Args: args, Spread: true}
	}
	if args[1].IsNil() {
		return args[0]
	}
	sl := args[1]
	if sl.Kind == KPure && sl.Name == "slice" && len(sl.Args) == 3 && sl.Args[0] != nil && sl.Args[0].Kind == KAddr && sl.Args[1] == nil && sl.Args[2] == nil {
		prefix := sl.Args[0].Cell + "[c:"
		type el struct {
			i int64
			s *Sym
		}
		var els []el
		for k, v := range st.mem {
			if strings.HasPrefix(k, prefix) && strings.HasSuffix(k, "]") {
				if n, err := strconv.ParseInt(k[len(prefix):len(k)-1], 10, 64); err == nil {
					els = append(els, el{n, v})
				}
			}
		}
		if len(els) > 0 {
			sort.Slice(els, func(i, j int) bool { return els[i].i < els[j].i })
			out := &Sym{Kind: KAppend, Args: []*Sym{args[0]}}
			for _, e := range els {
				out.Args = append(out.Args, e.s)
			}
			return out
		}
	}
	return &Sym{Kind: KAppend, Args: args, Spread: true}
}

func (t *Tracer) runDefers(st *tstate, fr *frame, list []deferred, k func(st *tstate)) {
	if len(list) == 0 {
		k(st)
		return
	}
	d := list[len(list)-1]
	rest := list[:len(list)-1]
	t.invoke(st, fr, d.in, &d.in.Call, d.fn, d.args, true, func(st2 *tstate, _ *Sym) {
		t.runDefers(st2, fr, rest, k)
	})
}

func (t *Tracer) sel(st *tstate, fr *frame, x *ssa.Select, b *ssa.BasicBlock, i int, k tcont) {
	var states []SelState
	for _, s := range x.States {
		ss := SelState{Dir: s.Dir, Chan: t.val(st, fr, s.Chan), Pos: s.Pos}
		if s.Send != nil {
			ss.Send = t.val(st, fr, s.Send)
		}
		states = append(states, ss)
	}
	choices := make([]int, 0, len(states)+1)
	for j := range states {
		choices = append(choices, j)
	}
	if !x.Blocking {
		choices = append(choices, -1)
	}
	for _, ch := range choices {
		st2 := st.clone()
		tuple := &Sym{Kind: KTuple}
		tuple.Args = append(tuple.Args, constSym(constant.MakeInt64(int64(ch)), types.Typ[types.Int]))
		tuple.Args = append(tuple.Args, &Sym{Kind: KOpaque, V: x, ID: t.id(), Name: "recvOk"})
		sts := append([]SelState(nil), states...)
		for j, s := range x.States {
			if s.Dir != types.RecvOnly {
				continue
			}
			r := &Sym{Kind: KOpaque, V: x, ID: t.id(), Name: "recv" + strconv.Itoa(j)}
			if j == ch {
				sts[j].Recv = r
			}
			tuple.Args = append(tuple.Args, r)
		}
		st2.env[envKey{fr.id, x}] = tuple
		t.emit(st2, fr, Ev{Kind: "select", In: x, States: sts, Chosen: ch, Blocking: x.Blocking})
		t.instrs(st2, fr, b, i+1, k)
	}
}

// ---------------------------------------------------------------------------------------------
// Helpers for rules

// String renders an event (debugging aid and evidence).
func (e Ev) String() string {
	var a []string
	for _, s := range e.Args {
		a = append(a, s.Key())
	}
	r := ""
	if e.Res != nil {
		r = " -> " + e.Res.Key()
	}
	extra := ""
	switch e.Kind {
	case "select":
		extra = fmt.Sprintf(" chosen=%d", e.Chosen)
		for _, s := range e.States {
			extra += " [" + s.Chan.Key() + "]"
		}
	case "branch":
		extra = fmt.Sprintf(" taken=%v", e.Taken)
	}
	return fmt.Sprintf("%s %s(%s)%s%s", e.Kind, e.Name, strings.Join(a, ", "), r, extra)
}

// AppendElems flattens an append chain: the base the chain starts from and the appended elements
// (spread is true if some append spreads a slice, whose elements are not enumerated).
func AppendElems(s *Sym) (base *Sym, elems []*Sym, spread bool) {
	var rev [][]*Sym
	for s != nil && s.Kind == KAppend && len(s.Args) >= 1 {
		if s.Spread {
			spread = true
			rev = append(rev, nil)
		} else {
			rev = append(rev, s.Args[1:])
		}
		s = s.Args[0]
	}
	for i := len(rev) - 1; i >= 0; i-- {
		elems = append(elems, rev[i]...)
	}
	return s, elems, spread
}

// ConfinedTo computes the functions of pkgFuncs that can only run as part of root: root itself, function
// literals nested in confined functions, and unexported functions whose every use in the package is a direct
// static call from a confined function.
func ConfinedTo(root *ssa.Function, pkgFuncs []*ssa.Function) map[*ssa.Function]bool {
	type use struct {
		by     *ssa.Function
		direct bool
	}
	inPkg := map[*ssa.Function]bool{}
	for _, fn := range pkgFuncs {
		inPkg[fn] = true
	}
	uses := map[*ssa.Function][]use{}
	for _, g := range pkgFuncs {
		for _, in := range Instrs(g, false) {
			for _, op := range Operands(in) {
				fn, ok := op.(*ssa.Function)
				if !ok || !inPkg[fn] || fn.Parent() != nil {
					continue
				}
				ci, isCall := in.(*ssa.Call)
				uses[fn] = append(uses[fn], use{g, isCall && ci.Call.Value == op})
			}
		}
	}
	confined := map[*ssa.Function]bool{root: true}
	for changed := true; changed; {
		changed = false
		for _, fn := range pkgFuncs {
			if confined[fn] {
				continue
			}
			if fn.Parent() != nil {
				if confined[fn.Parent()] && ClosureStaysLocal(fn) == "" {
					confined[fn] = true
					changed = true
				}
				continue
			}
			if fn.Object() != nil && fn.Object().Exported() {
				continue
			}
			ok := len(uses[fn]) > 0
			for _, u := range uses[fn] {
				if !u.direct || !confined[u.by] {
					ok = false
				}
			}
			if ok {
				confined[fn] = true
				changed = true
			}
		}
	}
	return confined
}

// ClosureStaysLocal decides whether the function literal fn can only run synchronously inside its parent:
// every closure value made from it is called or deferred directly, or kept in a local variable that is only
// loaded in order to be called (also from sibling closures capturing that variable). It returns "" if so,
// "go" if the literal is started as a goroutine, and a description of the other use otherwise.
func ClosureStaysLocal(fn *ssa.Function) string {
	par := fn.Parent()
	if par == nil {
		return "not a function literal"
	}
	found := false
	var calleeOnly func(v ssa.Value, seen map[ssa.Value]bool) string
	calleeOnly = func(v ssa.Value, seen map[ssa.Value]bool) string {
		if seen[v] {
			return ""
		}
		seen[v] = true
		refs := v.Referrers()
		if refs == nil {
			return ""
		}
		for _, ref := range *refs {
			switch x := ref.(type) {
			case *ssa.Go:
				if x.Call.Value == v {
					return "go"
				}
				return "passed to a goroutine"
			case *ssa.Call:
				if x.Call.Value != v {
					return "passed as an argument"
				}
			case *ssa.Defer:
				if x.Call.Value != v {
					return "passed as an argument"
				}
			case *ssa.DebugRef:
			case *ssa.Store:
				if x.Val != v {
					continue
				}
				al, ok := x.Addr.(*ssa.Alloc)
				if !ok {
					if fv, isFV := x.Addr.(*ssa.FreeVar); isFV {
						_ = fv
						return "assigned to a captured variable"
					}
					return "stored"
				}
				if why := cellCalleeOnly(al, calleeOnly, seen); why != "" {
					return why
				}
			default:
				return "used as a value"
			}
		}
		return ""
	}
	for _, in := range Instrs(par, false) {
		mc, ok := in.(*ssa.MakeClosure)
		if !ok || mc.Fn != ssa.Value(fn) {
			continue
		}
		found = true
		if why := calleeOnly(mc, map[ssa.Value]bool{}); why != "" {
			return why
		}
	}
	if !found {
		return "no closure value found"
	}
	return ""
}

// cellCalleeOnly: the variable cell is only stored to and loaded, and every loaded value is only called.
func cellCalleeOnly(addr ssa.Value, calleeOnly func(ssa.Value, map[ssa.Value]bool) string, seen map[ssa.Value]bool) string {
	if seen[addr] {
		return ""
	}
	seen[addr] = true
	refs := addr.Referrers()
	if refs == nil {
		return ""
	}
	for _, ref := range *refs {
		switch x := ref.(type) {
		case *ssa.Store:
			if x.Addr != addr {
				return "address stored"
			}
		case *ssa.UnOp:
			if x.Op != token.MUL {
				return "used as a value"
			}
			if why := calleeOnly(x, seen); why != "" {
				return why
			}
		case *ssa.MakeClosure:
			cl := x.Fn.(*ssa.Function)
			for i, b := range x.Bindings {
				if b == addr && i < len(cl.FreeVars) {
					if why := cellCalleeOnly(cl.FreeVars[i], calleeOnly, seen); why != "" {
						return why
					}
				}
			}
		case *ssa.DebugRef:
		default:
			return "address used"
		}
	}
	return ""
}

// LoopColl is Loop.RangeColl extended to rotated loops (`for i := range n`, do-while shaped loops), where the
// bound test `i < len(coll)` sits at the latch instead of the header: it returns the slice whose length bounds
// the loop's induction variable, or nil.
func LoopColl(l *Loop) ssa.Value {
	if c := l.RangeColl(); c != nil {
		return c
	}
	lenOf := func(v ssa.Value) ssa.Value {
		call, ok := Unwrap(v).(*ssa.Call)
		if !ok {
			return nil
		}
		if b, ok := call.Call.Value.(*ssa.Builtin); ok && b.Name() == "len" && len(call.Call.Args) == 1 {
			return call.Call.Args[0]
		}
		return nil
	}
	for _, b := range l.Header.Parent().Blocks {
		if !l.Body[b] || len(b.Instrs) == 0 {
			continue
		}
		iff, ok := b.Instrs[len(b.Instrs)-1].(*ssa.If)
		if !ok {
			continue
		}
		leaves := false
		for _, s := range b.Succs {
			if !l.Body[s] {
				leaves = true
			}
		}
		bin, ok := iff.Cond.(*ssa.BinOp)
		if !ok || !leaves {
			continue
		}
		x, y := bin.X, bin.Y
		switch bin.Op {
		case token.LSS:
		case token.GTR:
			x, y = y, x
		default:
			continue
		}
		if !l.isIndexVar(x) {
			continue
		}
		if c := lenOf(y); c != nil {
			return c
		}
	}
	return nil
}

// ElemOfColl is Loop.ElemOf for an explicitly given collection (see LoopColl).
func ElemOfColl(l *Loop, coll ssa.Value, v ssa.Value) bool {
	if coll == nil {
		return false
	}
	for i := 0; i < 24; i++ {
		v = Unwrap(v)
		switch x := v.(type) {
		case *ssa.UnOp:
			if x.Op != token.MUL {
				return false
			}
			v = x.X
		case *ssa.FieldAddr:
			v = x.X
		case *ssa.Field:
			v = x.X
		case *ssa.IndexAddr:
			return l.Body[x.Block()] && Equiv(x.X, coll) && l.isIndexVar(x.Index)
		case *ssa.Index:
			return l.Body[x.Block()] && Equiv(x.X, coll) && l.isIndexVar(x.Index)
		case *ssa.Extract:
			if n, ok := x.Tuple.(*ssa.Next); ok {
				if r, ok := n.Iter.(*ssa.Range); ok {
					return l.Body[n.Block()] && Equiv(r.X, coll)
				}
				return false
			}
			v = x.Tuple
		case *ssa.Alloc:
			src := UniqueStore(x)
			if src == nil {
				return false
			}
			v = src
		default:
			return false
		}
	}
	return false
}

// LoopEarlyExitColl is LoopEarlyExit for loops over coll that may be rotated: leaving the loop at the header or
// at a block whose branch is the bound test of the induction variable against len(coll) is the regular end
// of the iteration; any other edge out of the loop (break, return) is reported.
func LoopEarlyExitColl(l *Loop, coll ssa.Value) *ssa.BasicBlock {
	boundTest := func(b *ssa.BasicBlock) bool {
		iff, ok := b.Instrs[len(b.Instrs)-1].(*ssa.If)
		if !ok {
			return false
		}
		bin, ok := iff.Cond.(*ssa.BinOp)
		if !ok {
			return false
		}
		x, y := bin.X, bin.Y
		switch bin.Op {
		case token.LSS:
		case token.GTR:
			x, y = y, x
		default:
			return false
		}
		if !l.isIndexVar(x) {
			return false
		}
		call, ok := Unwrap(y).(*ssa.Call)
		if !ok {
			return false
		}
		bi, ok := call.Call.Value.(*ssa.Builtin)
		return ok && bi.Name() == "len" && len(call.Call.Args) == 1 && Equiv(call.Call.Args[0], coll)
	}
	for _, b := range l.Header.Parent().Blocks {
		if !l.Body[b] || b == l.Header || len(b.Instrs) == 0 {
			continue
		}
		for _, s := range b.Succs {
			if l.Body[s] {
				continue
			}
			if len(s.Instrs) > 0 {
				if _, isPanic := s.Instrs[len(s.Instrs)-1].(*ssa.Panic); isPanic {
					continue
				}
			}
			if coll != nil && boundTest(b) {
				continue
			}
			return b
		}
	}
	return nil
}
