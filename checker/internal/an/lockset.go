package an

import (
	"fmt"
	"go/token"
	"go/types"
	"sort"
	"strings"

	"golang.org/x/tools/go/ssa"
)

// E2 lockset: a guarded-by analysis. Fields named in Guarded may be read only while the mutex
// at the sibling field path is held (R or W) and written only while it is held for writing.
// Lock identity is (access path of the base value, mutex field name), never the type name.

// LockTable maps a guarded field key ("core/dutydb.MemDB.attDuties") to the name of the mutex
// field in the same struct ("mu", or "RWMutex" for an embedded one).
type LockTable map[string]string

// LockFinding is one access decided by the lockset analysis.
type LockFinding struct {
	Fn     *ssa.Function
	Instr  ssa.Instruction
	Field  string
	Write  bool
	OK     bool
	Unsure bool
	Detail string
}

type lockReq struct {
	path  string // access path rooted at a parameter or free variable of the function
	write bool
	field string
	at    ssa.Instruction
}

type mode int

const (
	none mode = iota
	rd
	wr
)

// accessPath renders the address path of v relative to params / free vars / allocs.
func accessPath(v ssa.Value) string {
	for i := 0; i < 24; i++ {
		v = Unwrap(v)
		switch x := v.(type) {
		case *ssa.Parameter:
			for i, p := range x.Parent().Params {
				if p == x {
					return fmt.Sprintf("p%d", i)
				}
			}
			return "p?"
		case *ssa.FreeVar:
			return "fv:" + x.Name()
		case *ssa.Alloc:
			// a spilled variable (captured by a closure / address taken) holding a single value
			var src ssa.Value
			n := 0
			for _, ref := range *x.Referrers() {
				if st, ok := ref.(*ssa.Store); ok && st.Addr == ssa.Value(x) {
					src = st.Val
					n++
				}
			}
			if n == 1 {
				v = src
				continue
			}
			if n > 1 {
				return "?multi-assigned"
			}
			return "alloc:" + x.Name()
		case *ssa.FieldAddr:
			return accessPath(x.X) + "." + fieldName(x.X.Type(), x.Field)
		case *ssa.Field:
			return accessPath(x.X) + "." + fieldName(x.X.Type(), x.Field)
		case *ssa.UnOp:
			if x.Op == token.MUL {
				v = x.X
				continue
			}
			return "?"
		case *ssa.Phi:
			var p string
			for _, e := range x.Edges {
				q := accessPath(e)
				if p == "" {
					p = q
				} else if p != q {
					return "?"
				}
			}
			return p
		case *ssa.Global:
			return "g:" + x.Name()
		case *ssa.Call:
			return "?call"
		default:
			return "?"
		}
	}
	return "?"
}

func fieldName(t types.Type, idx int) string {
	if p, ok := t.Underlying().(*types.Pointer); ok {
		t = p.Elem()
	}
	if st, ok := t.Underlying().(*types.Struct); ok && idx < st.NumFields() {
		return st.Field(idx).Name()
	}
	return "?"
}

func rootOf(path string) string {
	if i := strings.Index(path, "."); i >= 0 {
		return path[:i]
	}
	return path
}

// lockOp decodes sync.(RW)Mutex calls: returns the mutex path and what happens.
func lockOp(c *ssa.CallCommon) (path string, acquire bool, m mode, ok bool) {
	f := c.StaticCallee()
	if f == nil || len(c.Args) == 0 {
		return
	}
	switch FuncName(f) {
	case "sync.Mutex.Lock", "sync.RWMutex.Lock":
		return accessPath(c.Args[0]), true, wr, true
	case "sync.RWMutex.RLock":
		return accessPath(c.Args[0]), true, rd, true
	case "sync.Mutex.Unlock", "sync.RWMutex.Unlock", "sync.RWMutex.RUnlock":
		return accessPath(c.Args[0]), false, none, true
	}
	return
}

type held map[string]mode

func (h held) clone() held {
	o := held{}
	for k, v := range h {
		o[k] = v
	}
	return o
}

func meet(a, b held) held {
	o := held{}
	for k, v := range a {
		if w, ok := b[k]; ok {
			if w < v {
				v = w
			}
			o[k] = v
		}
	}
	return o
}

func equalHeld(a, b held) bool {
	if len(a) != len(b) {
		return false
	}
	for k, v := range a {
		if b[k] != v {
			return false
		}
	}
	return true
}

// Lockset runs the analysis over the given functions (typically all functions of a package).
type Lockset struct {
	Table    LockTable
	Funcs    []*ssa.Function
	requires map[*ssa.Function][]lockReq
	Findings []LockFinding
	// Requires lists, after Run, the functions that need a lock on entry (name -> paths).
	Requires map[string][]string
	// SeenFields records every guarded field that has at least one access in Funcs.
	SeenFields map[string]bool
}

// access describes one guarded access inside a function.
type access struct {
	in    ssa.Instruction
	field string
	lock  string // required lock path
	write bool
}

func (ls *Lockset) guardedAccesses(fn *ssa.Function) []access {
	var out []access
	need := func(in ssa.Instruction, key string, base ssa.Value, write bool) {
		mu, ok := ls.Table[key]
		if !ok {
			return
		}
		if ls.SeenFields == nil {
			ls.SeenFields = map[string]bool{}
		}
		ls.SeenFields[key] = true
		out = append(out, access{in: in, field: key, lock: accessPath(base) + "." + mu, write: write})
	}
	for _, b := range fn.Blocks {
		for _, in := range b.Instrs {
			switch x := in.(type) {
			case *ssa.Store:
				if fa, ok := x.Addr.(*ssa.FieldAddr); ok {
					need(in, FieldKey(fa.X.Type(), fa.Field), fa.X, true)
				} else if ia, ok := x.Addr.(*ssa.IndexAddr); ok {
					if k, base, ok := FieldOf(ia.X); ok {
						need(in, k, base, true)
					}
				}
			case *ssa.UnOp:
				if x.Op == token.MUL {
					if fa, ok := x.X.(*ssa.FieldAddr); ok {
						need(in, FieldKey(fa.X.Type(), fa.Field), fa.X, false)
					}
				}
			case *ssa.Field:
				need(in, FieldKey(x.X.Type(), x.Field), x.X, false)
			case *ssa.MapUpdate:
				if k, base, ok := FieldOf(x.Map); ok {
					need(in, k, base, true)
				}
			case *ssa.Lookup:
				if _, isMap := x.X.Type().Underlying().(*types.Map); isMap {
					if k, base, ok := FieldOf(x.X); ok {
						need(in, k, base, false)
					}
				}
			case *ssa.Range:
				if k, base, ok := FieldOf(x.X); ok {
					need(in, k, base, false)
				}
			case *ssa.Next:
				if k, base, ok := FieldOf(x.Iter); ok {
					need(in, k, base, false)
				}
			case *ssa.Call:
				if b, ok := x.Call.Value.(*ssa.Builtin); ok && len(x.Call.Args) > 0 {
					if k, base, ok := FieldOf(x.Call.Args[0]); ok {
						if _, isMap := x.Call.Args[0].Type().Underlying().(*types.Map); isMap {
							switch b.Name() {
							case "delete", "clear":
								need(in, k, base, true)
							case "len":
								need(in, k, base, false)
							}
						}
					}
				}
			}
		}
	}
	return out
}

// Run computes summaries to a fixed point and records findings.
func (ls *Lockset) Run() {
	ls.requires = map[*ssa.Function][]lockReq{}
	inSet := map[*ssa.Function]bool{}
	for _, f := range ls.Funcs {
		inSet[f] = true
	}
	for round := 0; round < 8; round++ {
		changed := false
		ls.Findings = nil
		for _, fn := range ls.Funcs {
			reqs := ls.analyse(fn, inSet)
			if len(reqs) != len(ls.requires[fn]) {
				changed = true
			}
			ls.requires[fn] = reqs
		}
		if !changed {
			break
		}
	}
	ls.Requires = map[string][]string{}
	for fn, rs := range ls.requires {
		seen := map[string]bool{}
		for _, r := range rs {
			if !seen[r.path] {
				seen[r.path] = true
				ls.Requires[FuncName(fn)] = append(ls.Requires[FuncName(fn)], r.path)
			}
		}
		sort.Strings(ls.Requires[FuncName(fn)])
	}
	sort.SliceStable(ls.Findings, func(i, j int) bool { return ls.Findings[i].Instr.Pos() < ls.Findings[j].Instr.Pos() })
}

func (ls *Lockset) analyse(fn *ssa.Function, inSet map[*ssa.Function]bool) []lockReq {
	if len(fn.Blocks) == 0 {
		return nil
	}
	accByInstr := map[ssa.Instruction][]access{}
	for _, a := range ls.guardedAccesses(fn) {
		accByInstr[a.in] = append(accByInstr[a.in], a)
	}
	// forward must-analysis
	in := make([]held, len(fn.Blocks))
	out := make([]held, len(fn.Blocks))
	var reqs []lockReq
	reqSeen := map[string]bool{}
	transfer := func(b *ssa.BasicBlock, h held, record bool) held {
		h = h.clone()
		for _, ins := range b.Instrs {
			// guarded accesses at this instruction
			for _, a := range accByInstr[ins] {
				ls.decide(fn, a.in, a.field, a.lock, a.write, h, record, &reqs, reqSeen)
			}
			switch x := ins.(type) {
			case *ssa.Call:
				if p, acq, m, ok := lockOp(&x.Call); ok {
					if acq {
						h[p] = m
					} else {
						delete(h, p)
					}
					continue
				}
				ls.callSite(fn, x, &x.Call, h, record, &reqs, reqSeen, inSet, false)
			case *ssa.Go:
				ls.callSite(fn, x, &x.Call, held{}, record, &reqs, reqSeen, inSet, true)
			case *ssa.Defer:
				// defer mu.Unlock(): lock stays held to the exit. A deferred call to a function that
				// needs a lock is evaluated against the locks held here (they are still held at exit
				// iff released only by defers; explicit unlocks before return are rare and flagged below).
				if _, _, _, ok := lockOp(&x.Call); ok {
					continue
				}
				ls.callSite(fn, x, &x.Call, h, record, &reqs, reqSeen, inSet, false)
			}
		}
		return h
	}
	// initialise: entry has nothing held; others start as "top" (nil = unvisited)
	work := []*ssa.BasicBlock{fn.Blocks[0]}
	in[0] = held{}
	visited := map[int]bool{}
	for len(work) > 0 {
		b := work[0]
		work = work[1:]
		o := transfer(b, in[b.Index], false)
		if visited[b.Index] && equalHeld(o, out[b.Index]) {
			continue
		}
		visited[b.Index] = true
		out[b.Index] = o
		for _, s := range b.Succs {
			var n held
			if in[s.Index] == nil {
				n = o.clone()
			} else {
				n = meet(in[s.Index], o)
			}
			if in[s.Index] == nil || !equalHeld(n, in[s.Index]) || !visited[s.Index] {
				in[s.Index] = n
				work = append(work, s)
			}
		}
	}
	for _, b := range fn.Blocks {
		if in[b.Index] == nil {
			continue // unreachable
		}
		transfer(b, in[b.Index], true)
	}
	return reqs
}

func (ls *Lockset) decide(fn *ssa.Function, at ssa.Instruction, field, lock string, write bool, h held, record bool,
	reqs *[]lockReq, seen map[string]bool) {
	if !record {
		return
	}
	root := rootOf(lock)
	if strings.HasPrefix(root, "alloc:") {
		return // object under construction in this function: not yet shared
	}
	m := h[lock]
	if (write && m == wr) || (!write && m >= rd) {
		ls.Findings = append(ls.Findings, LockFinding{Fn: fn, Instr: at, Field: field, Write: write, OK: true, Detail: "holds " + lock})
		return
	}
	if strings.HasPrefix(root, "?") {
		ls.Findings = append(ls.Findings, LockFinding{Fn: fn, Instr: at, Field: field, Write: write, Unsure: true,
			Detail: "cannot name the base object of the access (" + lock + ")"})
		return
	}
	if m == rd && write {
		ls.Findings = append(ls.Findings, LockFinding{Fn: fn, Instr: at, Field: field, Write: true, Detail: "write under read lock " + lock})
		return
	}
	// not held: becomes an entry requirement if rooted at a parameter / free variable
	if strings.HasPrefix(root, "p") || strings.HasPrefix(root, "fv:") {
		k := fmt.Sprintf("%s|%v", lock, write)
		if !seen[k] {
			seen[k] = true
			*reqs = append(*reqs, lockReq{path: lock, write: write, field: field, at: at})
		}
		return
	}
	ls.Findings = append(ls.Findings, LockFinding{Fn: fn, Instr: at, Field: field, Write: write, Detail: "lock " + lock + " not held"})
}

func (ls *Lockset) callSite(fn *ssa.Function, at ssa.Instruction, c *ssa.CallCommon, h held, record bool,
	reqs *[]lockReq, seen map[string]bool, inSet map[*ssa.Function]bool, isGo bool) {
	var callee *ssa.Function
	var bindings []ssa.Value
	if mc, ok := c.Value.(*ssa.MakeClosure); ok {
		callee = mc.Fn.(*ssa.Function)
		bindings = mc.Bindings
	} else {
		callee = c.StaticCallee()
	}
	if callee == nil {
		return
	}
	callee = Orig(callee)
	for _, r := range ls.requires[callee] {
		root := rootOf(r.path)
		rest := strings.TrimPrefix(r.path, root)
		var base ssa.Value
		if strings.HasPrefix(root, "fv:") {
			for i, fv := range callee.FreeVars {
				if "fv:"+fv.Name() == root && i < len(bindings) {
					base = bindings[i]
				}
			}
		} else {
			var idx int
			fmt.Sscanf(root, "p%d", &idx)
			if idx < len(c.Args) {
				base = c.Args[idx]
			}
		}
		if base == nil {
			if record {
				ls.Findings = append(ls.Findings, LockFinding{Fn: fn, Instr: at, Field: r.field, Write: r.write, Unsure: true,
					Detail: "cannot map requirement " + r.path + " of " + FuncName(callee)})
			}
			continue
		}
		lock := accessPath(base) + rest
		if isGo {
			if record {
				ls.Findings = append(ls.Findings, LockFinding{Fn: fn, Instr: at, Field: r.field, Write: r.write,
					Detail: "goroutine started on " + FuncName(callee) + " which needs " + r.path + " held on entry"})
			}
			continue
		}
		ls.decideCall(fn, at, r.field, lock, r.write, h, record, reqs, seen, callee)
	}
}

func (ls *Lockset) decideCall(fn *ssa.Function, at ssa.Instruction, field, lock string, write bool, h held, record bool,
	reqs *[]lockReq, seen map[string]bool, callee *ssa.Function) {
	if !record {
		return
	}
	n := len(ls.Findings)
	ls.decide(fn, at, field, lock, write, h, record, reqs, seen)
	for i := n; i < len(ls.Findings); i++ {
		ls.Findings[i].Detail = "call to " + FuncName(callee) + ": " + ls.Findings[i].Detail
	}
}

// EntryRequirements returns, for reporting, the functions needing a lock at entry, and flags
// those that are exported API (name not ending in Unsafe) or have their address taken.
func (ls *Lockset) EntryRequirements() map[*ssa.Function][]string {
	out := map[*ssa.Function][]string{}
	for fn, rs := range ls.requires {
		for _, r := range rs {
			out[fn] = append(out[fn], fmt.Sprintf("%s(write=%v) for %s", r.path, r.write, r.field))
		}
	}
	return out
}

// SplitRMW is a check-then-act hazard: a guarded field is read and later written in the same function
// with an explicit unlock of its mutex on some path in between (the write acts on a stale read).
type SplitRMW struct {
	Fn     *ssa.Function
	Field  string
	Read   ssa.Instruction
	Write  ssa.Instruction
	Unlock ssa.Instruction
}

// AtomicRMW lists, for every function, the (read, write) pairs of one guarded field and whether an explicit
// (non-deferred) unlock of the guarding mutex lies on a path from the read to the write.
func (ls *Lockset) AtomicRMW() (pairs int, split []SplitRMW) {
	for _, fn := range ls.Funcs {
		acc := ls.guardedAccesses(fn)
		byField := map[string][]access{}
		for _, a := range acc {
			byField[a.field] = append(byField[a.field], a)
		}
		for field, as := range byField {
			var firstSplit *SplitRMW
			n := 0
			for _, r := range as {
				if r.write {
					continue
				}
				for _, w := range as {
					if !w.write || w.lock != r.lock || !InstrReaches(r.in, w.in) {
						continue
					}
					n++
					lock := r.lock
					u := PathThrough(r.in, w.in, func(x ssa.Instruction) bool {
						call, ok := x.(*ssa.Call)
						if !ok {
							return false
						}
						p, acq, _, isLock := lockOp(&call.Call)
						return isLock && !acq && p == lock
					})
					// a path that runs through the read again (next loop iteration) re-validates: only count an
					// unlock from which the write is reachable without re-executing the read
					if u != nil && !reachesAvoiding(u, w.in, r.in.Block()) {
						u = nil
					}
					if u != nil && firstSplit == nil {
						firstSplit = &SplitRMW{Fn: fn, Field: field, Read: r.in, Write: w.in, Unlock: u}
					}
				}
			}
			if n > 0 {
				pairs++
			}
			if firstSplit != nil {
				split = append(split, *firstSplit)
			}
		}
	}
	return pairs, split
}

// reachesAvoiding: control can flow from just after a to b without entering block avoid (a's own block is
// allowed for the straight-line part after a).
func reachesAvoiding(a, b ssa.Instruction, avoid *ssa.BasicBlock) bool {
	if a.Block() == b.Block() && index(a) < index(b) {
		return true
	}
	av := map[*ssa.BasicBlock]bool{avoid: true}
	for _, s := range a.Block().Succs {
		if s == avoid {
			continue
		}
		if s == b.Block() || CanReach(s, b.Block(), av) {
			return true
		}
	}
	return false
}
