// Package rules holds the per-property rule tables.
package rules

import (
	"sort"

	"charonverif/internal/rt"
)

// Mutant is a seeded one-edit variant used to test a rule both ways (DESIGN §4.4): the edit must
// still type-check and the named rule must report it.
type Mutant struct {
	ID     string
	File   string // repo-relative
	Old    string // unique text to replace (stale if absent)
	New    string
	Expect string      // rule id that must report a new violation ("P2" or "P2|construct substring")
	More   [][2]string // further (old, new) replacements in the same file, each old unique
}

// Prop is one property's checker.
type Prop struct {
	ID          string
	Decides     string // the structural clause(s) decided
	NotDecided  string // clauses of the statement left undecided
	Assumptions []string
	Run         func(c *rt.Ctx) // rules run in both tiers
	Thorough    func(c *rt.Ctx) // extra rules (discovery sweeps) for the thorough tier
	Mutants     []Mutant
}

var all = map[string]*Prop{}

type extension struct {
	run     func(c *rt.Ctx)
	mutants []Mutant
	decides string
}

var extensions = map[string][]extension{}
var extended = map[string]bool{}

// Extend adds cross-cutting rules (and their mutants) to a property registered in another file.
func Extend(id, decides string, run func(c *rt.Ctx), mutants ...Mutant) {
	extensions[id] = append(extensions[id], extension{run, mutants, decides})
}

// Register adds a property checker.
func Register(p *Prop) { all[p.ID] = p }

// Get returns a property checker.
func Get(id string) *Prop {
	p := all[id]
	if p == nil || extended[id] {
		return p
	}
	extended[id] = true
	for _, e := range extensions[id] {
		base := p.Run
		p.Run = func(c *rt.Ctx) { base(c); e.run(c) }
		p.Mutants = append(p.Mutants, e.mutants...)
		p.Decides += " " + e.decides
	}
	return p
}

// IDs lists registered property ids.
func IDs() []string {
	var ids []string
	for id := range all {
		ids = append(ids, id)
	}
	sort.Strings(ids)
	return ids
}

// Link makes the named rules of property `source` obligations of property `target` as well (the design's
// "re-uses"): the source's rule table is run on the same program and the selected findings are imported under
// the ids "<source>.<rule>".
func Link(target, source, decides string, rules []string, mutants ...Mutant) {
	Extend(target, decides, func(c *rt.Ctx) {
		src := all[source]
		if src == nil {
			c.Rule(source+".link", 1, func() { c.Bail("linked property %s is not registered", source) })
			return
		}
		sub := &rt.Ctx{P: c.P, Prop: source, Tier: c.Tier}
		Get(source).Run(sub)
		c.Import(sub, source, rules...)
	}, mutants...)
}
