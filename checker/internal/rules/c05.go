package rules

import (
	"go/constant"
	"go/token"
	"go/types"
	"strings"

	"golang.org/x/tools/go/ssa"

	"charonverif/internal/an"
	"charonverif/internal/rt"
)

const (
	c05Q  = "core/consensus/qbft"
	c05PB = "core/corepb/v1"
)

func c05(c *rt.Ctx) {
	e := &c05env{c: c, getters: map[string]*ssa.Function{}}
	c.Rule("A1", 11, func() { c05A1(e) })
	c.Rule("A2", 13, func() { c05A2(e) })
	c.Rule("A3", 10, func() { c05A3(e) })
	c.Rule("A4", 9, func() { c05A4(e) })
	c.Rule("A5", 4, func() { c05A5(e) })
	c.Rule("A6", 4, func() { c05A6(e) })
}

// ---------------------------------------------------------------------------------------------
// shared helpers

type c05env struct {
	c       *rt.Ctx
	getters map[string]*ssa.Function
}

// getter resolves the generated accessor of a protobuf field ("QBFTMsg.PeerIdx") and confirms
// that it returns exactly that field of its receiver (or a zero constant for a nil receiver).
func (e *c05env) getter(tf string) *ssa.Function {
	if g, ok := e.getters[tf]; ok {
		return g
	}
	typ, field, _ := strings.Cut(tf, ".")
	fn := e.c.FnOpt(c05PB + "." + typ + ".Get" + field)
	if fn == nil || len(fn.Params) == 0 {
		e.c.Bail("accessor Get%s of %s.%s not found", field, c05PB, typ)
	}
	found := false
	for _, r := range an.Returns(fn) {
		if len(r.Results) != 1 {
			e.c.Bail("accessor %s: unexpected result count", an.FuncName(fn))
		}
		if _, isConst := r.Results[0].(*ssa.Const); isConst {
			continue
		}
		ld, ok := r.Results[0].(*ssa.UnOp)
		if ok && ld.Op == token.MUL {
			if fa, ok := ld.X.(*ssa.FieldAddr); ok && fa.X == ssa.Value(fn.Params[0]) && an.FieldKey(fa.X.Type(), fa.Field) == c05PB+"."+tf {
				found = true
				continue
			}
		}
		e.c.Bail("accessor %s does not return field %s", an.FuncName(fn), tf)
	}
	if !found {
		e.c.Bail("accessor %s never returns field %s", an.FuncName(fn), tf)
	}
	e.getters[tf] = fn
	return fn
}

// read reports whether v is a read of protobuf field tf ("QBFTMsg.Duty") — through the generated
// accessor or a direct field load — and returns the message it is read from.
func (e *c05env) read(v ssa.Value, tf string) (ssa.Value, bool) {
	switch x := c05Local(v).(type) {
	case *ssa.Call:
		if !x.Call.IsInvoke() && x.Call.StaticCallee() == e.getter(tf) && len(x.Call.Args) == 1 {
			return c05Local(x.Call.Args[0]), true
		}
	case *ssa.UnOp:
		if x.Op == token.MUL {
			if fa, ok := x.X.(*ssa.FieldAddr); ok && an.FieldKey(fa.X.Type(), fa.Field) == c05PB+"."+tf {
				return c05Local(fa.X), true
			}
		}
	}
	return nil, false
}

// c05Local looks through conversions and through loads of a local variable that is assigned exactly
// once and whose address does not escape (a local spilled to memory only because one of its fields is
// selected, e.g. `duty.Slot`). Anything else is returned unchanged.
func c05Local(v ssa.Value) ssa.Value {
	for i := 0; i < 8; i++ {
		v = an.Unwrap(v)
		ld, ok := v.(*ssa.UnOp)
		if !ok || ld.Op != token.MUL {
			return v
		}
		al, ok := ld.X.(*ssa.Alloc)
		if !ok {
			return v
		}
		src, ok := c05SingleStore(al)
		if !ok {
			return v
		}
		v = src
	}
	return v
}

// c05SingleStore returns the only value ever stored into a local whose address is used for nothing
// but that store, loads and field reads.
func c05SingleStore(al *ssa.Alloc) (ssa.Value, bool) {
	var src ssa.Value
	for _, ref := range *al.Referrers() {
		switch r := ref.(type) {
		case *ssa.Store:
			if r.Addr != ssa.Value(al) || src != nil {
				return nil, false
			}
			src = r.Val
		case *ssa.UnOp, *ssa.DebugRef:
		case *ssa.FieldAddr:
			for _, r2 := range *r.Referrers() {
				if u, ok := r2.(*ssa.UnOp); !ok || u.Op != token.MUL {
					return nil, false
				}
			}
		default:
			return nil, false
		}
	}
	return src, src != nil
}

// c05CallsTo returns the plain calls (not go/defer) in fn whose static callee is target.
func c05CallsTo(fn, target *ssa.Function) []*ssa.Call {
	var out []*ssa.Call
	for _, in := range an.Instrs(fn, false) {
		if call, ok := in.(*ssa.Call); ok && !call.Call.IsInvoke() && call.Call.StaticCallee() == target {
			out = append(out, call)
		}
	}
	return out
}

// c05Extract returns the `extract tuple #idx` value (nil if the component is unused).
func c05Extract(tuple ssa.Value, idx int) ssa.Value {
	if tuple == nil || tuple.Referrers() == nil {
		return nil
	}
	for _, ref := range *tuple.Referrers() {
		if ex, ok := ref.(*ssa.Extract); ok && ex.Index == idx {
			return ex
		}
	}
	return nil
}

// c05IsExtractOf: v is component idx of the tuple produced by call.
func c05IsExtractOf(v ssa.Value, call ssa.Value, idx int) bool {
	ex, ok := c05Local(v).(*ssa.Extract)
	return ok && ex.Index == idx && ex.Tuple == call
}

// c05ErrFail returns, for every branch on the error value errv, the If and its failing successor
// (the one taken when errv != nil).
func c05ErrFail(fn *ssa.Function, errv ssa.Value) (out []struct {
	If   *ssa.If
	Fail *ssa.BasicBlock
}) {
	if errv == nil {
		return nil
	}
	for _, cd := range an.CondsOn(fn, errv) {
		if cd.Other == nil || !an.IsNilConst(cd.Other) || (cd.Op != token.EQL && cd.Op != token.NEQ) {
			continue
		}
		out = append(out, struct {
			If   *ssa.If
			Fail *ssa.BasicBlock
		}{cd.If, cd.Succ(cd.Op == token.NEQ)})
	}
	return out
}

// c05Forall is the complete forall-loop obligation: ForallGuard plus "the loop cannot be left
// early towards the sink".
func c05Forall(l *an.Loop, iff *ssa.If, fail *ssa.BasicBlock, sink ssa.Instruction) (bool, string) {
	if ok, why := an.ForallGuard(l, iff, fail, sink); !ok {
		return false, why
	}
	if b := an.C05LoopLeavesOnlyAtHeader(l, sink); b != nil {
		return false, "the loop can be left early (break) towards the sink before every element was checked"
	}
	return true, "every element passes the guard before the sink"
}

// c05VariadicElems returns the elements of a variadic argument slice built at the call site.
func c05VariadicElems(v ssa.Value) ([]ssa.Value, bool) {
	if k, ok := v.(*ssa.Const); ok && k.Value == nil {
		return nil, true
	}
	sl, ok := v.(*ssa.Slice)
	if !ok {
		return nil, false
	}
	al, ok := sl.X.(*ssa.Alloc)
	if !ok {
		return nil, false
	}
	var out []ssa.Value
	for _, ref := range *al.Referrers() {
		switch r := ref.(type) {
		case *ssa.IndexAddr:
			for _, r2 := range *r.Referrers() {
				if st, ok := r2.(*ssa.Store); ok && st.Addr == ssa.Value(r) {
					out = append(out, st.Val)
				}
			}
		case *ssa.Slice:
		default:
			return nil, false
		}
	}
	return out, true
}

// c05Spilled resolves a load of a local (named result spilled because of defer, address-taken
// local) to the value last stored into it in the same block before `at`.
func c05Spilled(v ssa.Value, at ssa.Instruction) ssa.Value {
	ld, ok := v.(*ssa.UnOp)
	if !ok || ld.Op != token.MUL {
		return v
	}
	al, ok := ld.X.(*ssa.Alloc)
	if !ok {
		return v
	}
	var last ssa.Value
	for _, in := range at.Block().Instrs {
		if in == at || in == ssa.Instruction(ld) {
			break
		}
		if st, ok := in.(*ssa.Store); ok && st.Addr == ssa.Value(al) {
			last = st.Val
		}
	}
	if last == nil {
		return v
	}
	return last
}

func c05IsNilErr(v ssa.Value) bool {
	k, ok := v.(*ssa.Const)
	return ok && k.Value == nil
}

func c05Builtin(v ssa.Value, name string) (*ssa.Call, bool) {
	call, ok := v.(*ssa.Call)
	if !ok {
		return nil, false
	}
	b, ok := call.Call.Value.(*ssa.Builtin)
	return call, ok && b.Name() == name
}

// ---------------------------------------------------------------------------------------------
// A1: nothing is sent to the per-duty receive buffer unless every check passed

type c05sink struct {
	in      ssa.Instruction
	ch, val ssa.Value
}

func c05MsgChan(t types.Type) bool {
	ch, ok := t.Underlying().(*types.Chan)
	return ok && an.TypeName(ch.Elem()) == c05Q+".Msg" && !c05IsPtr(ch.Elem())
}

func c05IsPtr(t types.Type) bool { _, ok := t.(*types.Pointer); return ok }

// c05Handle bundles the resolved entities of Consensus.handle shared by A1 and A3.
type c05Handle struct {
	fn     *ssa.Function
	pb     ssa.Value // the *pbv1.QBFTConsensusMsg under inspection
	sinks  []c05sink
	isMain func(ssa.Value) bool
	isDuty func(ssa.Value) bool
}

func c05ResolveHandle(e *c05env) *c05Handle {
	c := e.c
	h := &c05Handle{fn: c.Fn(c05Q + ".Consensus.handle")}
	dfp := c.Fn("core.DutyFromProto")
	for _, in := range an.Instrs(h.fn, false) {
		ta, ok := in.(*ssa.TypeAssert)
		if !ok || an.TypeName(ta.AssertedType) != c05PB+".QBFTConsensusMsg" {
			continue
		}
		if _, isParam := ta.X.(*ssa.Parameter); !isParam {
			continue
		}
		var v ssa.Value = ta
		if ta.CommaOk {
			v = c05Extract(ta, 0)
		}
		if h.pb != nil || v == nil {
			c.Bail("handle: cannot identify the single type assertion of the request to *QBFTConsensusMsg")
		}
		h.pb = v
	}
	if h.pb == nil {
		c.Bail("handle: request is not asserted to *QBFTConsensusMsg")
	}
	h.isMain = func(v ssa.Value) bool {
		b, ok := e.read(v, "QBFTConsensusMsg.Msg")
		return ok && b == h.pb
	}
	h.isDuty = func(v ssa.Value) bool {
		call, ok := c05Local(v).(*ssa.Call)
		if !ok || call.Call.IsInvoke() || call.Call.StaticCallee() != dfp || len(call.Call.Args) != 1 {
			return false
		}
		b, ok := e.read(call.Call.Args[0], "QBFTMsg.Duty")
		return ok && h.isMain(b)
	}
	// a tracked value kept in a local whose address escapes (captured by a closure, passed by pointer)
	// cannot be followed: undecided rather than a wrong verdict
	for _, in := range an.Instrs(h.fn, false) {
		st, ok := in.(*ssa.Store)
		if !ok {
			continue
		}
		al, ok := st.Addr.(*ssa.Alloc)
		if !ok {
			continue
		}
		if v := c05Local(st.Val); v == h.pb || h.isDuty(v) {
			if _, ok := c05SingleStore(al); !ok {
				c.Bail("handle: the request or its duty is kept in local %q whose address escapes or which is reassigned; the rule cannot follow it", al.Comment)
			}
		}
	}
	for _, in := range an.Instrs(h.fn, true) {
		switch x := in.(type) {
		case *ssa.Send:
			if c05MsgChan(x.Chan.Type()) {
				h.sinks = append(h.sinks, c05sink{x, x.Chan, x.X})
			}
		case *ssa.Select:
			for _, st := range x.States {
				if st.Dir == types.SendOnly && c05MsgChan(st.Chan.Type()) {
					h.sinks = append(h.sinks, c05sink{x, st.Chan, st.Send})
				}
			}
		}
	}
	if len(h.sinks) == 0 {
		c.Bail("handle: no send of a Msg to a receive buffer found")
	}
	return h
}

func c05A1(e *c05env) {
	c := e.c
	h := c05ResolveHandle(e)
	fn := h.fn
	vm := c.Fn(c05Q + ".verifyMsg")
	vl := c.Fn(c05Q + ".verifyMsgLimits")
	vbh := c.Fn(c05Q + ".valuesByHash")
	nm := c.Fn(c05Q + ".newMsg")
	grb := c.Fn(c05Q + ".Consensus.getRecvBuffer")
	expired := constOf(c, "core", "DeadlineExpired")
	const cons = c05Q + ".Consensus"
	isPubkeys := func(v ssa.Value) bool { return isLoadOfValueField(v, cons+".pubkeys") }
	fromPB := func(v ssa.Value, field string) bool {
		b, ok := e.read(v, "QBFTConsensusMsg."+field)
		return ok && b == h.pb
	}

	for _, sk := range h.sinks {
		if sk.in.Parent() != fn {
			c.Unsure("handle send in closure", posOf(sk.in), "a Msg is sent from a function literal inside handle; dominance by the checks cannot be decided")
			continue
		}
		sink := sk.in
		guarded := func(construct string, cands []ssa.CallInstruction, opt an.GuardOpt, missing string) ssa.CallInstruction {
			why := missing
			phi := false
			for _, g := range cands {
				ok, w := an.Guarded(g, sink, opt)
				if ok {
					c.Good(construct, g.Pos(), "checked guard dominates the send")
					return g
				}
				why = w
				phi = phi || c05StatusMerged(g)
			}
			if phi {
				c.Unsure(construct, posOf(sink), "the guard's status is merged with other values before it is tested; not decidable by dominance ("+why+")")
				return nil
			}
			c.Bad(construct, posOf(sink), why)
			return nil
		}

		// G1 main message verified against the cluster keys
		var cands []ssa.CallInstruction
		for _, g := range c05CallsTo(fn, vm) {
			if h.isMain(g.Call.Args[0]) && isPubkeys(g.Call.Args[1]) {
				cands = append(cands, g)
			}
		}
		guarded("handle verifyMsg(msg)→recvBuffer", cands, an.DefaultGuard, "no verifyMsg(pbMsg.GetMsg(), c.pubkeys) call in handle")

		// G2 duty gater
		cands = nil
		for _, g := range an.Calls(fn, an.FieldCall(cons+".gaterFunc"), false) {
			if _, isCall := g.(*ssa.Call); isCall && len(g.Common().Args) == 1 && h.isDuty(g.Common().Args[0]) {
				cands = append(cands, g)
			}
		}
		guarded("handle gaterFunc(duty)→recvBuffer", cands, an.GuardOpt{BoolIdx: 0, BoolWant: true, NoErr: true}, "no c.gaterFunc(duty) call on the message's duty in handle")

		// G3 count limits
		cands = nil
		for _, g := range c05CallsTo(fn, vl) {
			if c05Local(g.Call.Args[0]) != h.pb {
				continue
			}
			if ln, ok := c05Builtin(g.Call.Args[1], "len"); ok && (isPubkeys(ln.Call.Args[0]) || isLoadOfValueField(ln.Call.Args[0], cons+".peers")) {
				cands = append(cands, g)
			}
		}
		limits := guarded("handle verifyMsgLimits(pbMsg)→recvBuffer", cands, an.DefaultGuard, "no verifyMsgLimits(pbMsg, len(c.pubkeys)) call in handle")

		// G4 every justification verified
		var justVerify *ssa.Call
		{
			good, why := false, "no verifyMsg call on the elements of a loop over pbMsg.GetJustification()"
			for _, g := range c05CallsTo(fn, vm) {
				l := an.InnermostLoop(fn, g.Block())
				if l == nil || !l.ElemOf(g.Call.Args[0]) || l.RangeColl() == nil || !fromPB(l.RangeColl(), "Justification") {
					continue
				}
				if !isPubkeys(g.Call.Args[1]) {
					why = "justification verified against something other than c.pubkeys"
					continue
				}
				justVerify = g
				why = "error of the per-justification verifyMsg is not branched on"
				for _, br := range c05ErrFail(fn, g) {
					ok, w := c05Forall(l, br.If, br.Fail, sink)
					if ok {
						good = true
					} else {
						why = w
					}
				}
				if good {
					break
				}
			}
			switch {
			case !good && justVerify != nil && c05StatusMerged(justVerify):
				c.Unsure("handle forall justification verifyMsg→recvBuffer", posOf(sink), "the error of the per-justification verifyMsg is merged with other values before it is tested ("+why+")")
			case !good && justVerify == nil && c05Delegated(e, h, sink) != "":
				c.Unsure("handle forall justification verifyMsg→recvBuffer", posOf(sink), "justifications are handed to "+c05Delegated(e, h, sink)+"; the per-justification checks are not in handle")
			default:
				c.Check("handle forall justification verifyMsg→recvBuffer", posOf(sink), good, why)
			}
		}

		// G3b limits are checked before the per-justification signature work
		if limits != nil && justVerify != nil {
			ok, w := an.Guarded(limits, justVerify, an.DefaultGuard)
			c.Check("handle verifyMsgLimits before justification loop", limits.Pos(), ok, "verifyMsgLimits does not guard the per-justification verification: "+w)
		}

		// G5 every justification refers to the message's duty
		{
			good, why := false, "no comparison of DutyFromProto(justification.GetDuty()) with the message duty in a loop over pbMsg.GetJustification()"
			dfp := c.Fn("core.DutyFromProto")
			for _, blk := range fn.Blocks {
				iff, ok := blk.Instrs[len(blk.Instrs)-1].(*ssa.If)
				if !ok {
					continue
				}
				l := an.InnermostLoop(fn, blk)
				if l == nil || l.RangeColl() == nil || !fromPB(l.RangeColl(), "Justification") {
					continue
				}
				cond, neg := iff.Cond, false
				for {
					u, ok := cond.(*ssa.UnOp)
					if !ok || u.Op != token.NOT {
						break
					}
					cond, neg = u.X, !neg
				}
				bin, ok := cond.(*ssa.BinOp)
				if !ok || (bin.Op != token.EQL && bin.Op != token.NEQ) {
					continue
				}
				isJustDuty := func(v ssa.Value) bool {
					jd, ok := c05Local(v).(*ssa.Call)
					if !ok || jd.Call.IsInvoke() || jd.Call.StaticCallee() != dfp {
						return false
					}
					b, ok := e.read(jd.Call.Args[0], "QBFTMsg.Duty")
					return ok && l.ElemOf(b)
				}
				if !(isJustDuty(bin.X) && h.isDuty(bin.Y)) && !(isJustDuty(bin.Y) && h.isDuty(bin.X)) {
					continue
				}
				differs := (bin.Op == token.NEQ) != neg // condition true means "duties differ"
				fail := blk.Succs[1]
				if differs {
					fail = blk.Succs[0]
				}
				ok2, w := c05Forall(l, iff, fail, sink)
				if ok2 {
					good = true
				} else {
					why = "duty comparison: " + w
				}
			}
			if d := c05Delegated(e, h, sink); !good && d != "" {
				c.Unsure("handle forall justification duty==msg duty→recvBuffer", posOf(sink), "justifications are handed to "+d+"; the duty comparison is not in handle")
			} else {
				c.Check("handle forall justification duty==msg duty→recvBuffer", posOf(sink), good, why)
			}
		}

		// G6 values re-indexed by recomputed hash
		cands = nil
		for _, g := range c05CallsTo(fn, vbh) {
			if fromPB(g.Call.Args[0], "Values") {
				cands = append(cands, g)
			}
		}
		values := guarded("handle valuesByHash(values)→recvBuffer", cands, an.DefaultGuard, "no valuesByHash(pbMsg.GetValues()) call in handle")

		// G7 message construction (hash presence) from the same three parts
		cands = nil
		for _, g := range c05CallsTo(fn, nm) {
			if values != nil && h.isMain(g.Call.Args[0]) && fromPB(g.Call.Args[1], "Justification") && c05IsExtractOf(g.Call.Args[2], values.Value(), 0) {
				cands = append(cands, g)
			}
		}
		built := guarded("handle newMsg(msg,justification,values)→recvBuffer", cands, an.DefaultGuard,
			"no newMsg(pbMsg.GetMsg(), pbMsg.GetJustification(), values) call over the verified parts in handle")

		// G8 expired duties are dropped
		{
			good, why := false, "no c.deadliner.Add(duty) on the message's duty before the send"
			for _, g := range an.Calls(fn, an.Invoke("core.Deadliner.Add"), false) {
				call, ok := g.(*ssa.Call)
				if !ok || !isLoadOfValueField(call.Call.Value, cons+".deadliner") || !h.isDuty(call.Call.Args[0]) {
					continue
				}
				if !an.Dominates(call, sink) {
					why = "deadliner.Add does not dominate the send"
					continue
				}
				env := func(v ssa.Value) (constant.Value, bool) {
					if v == ssa.Value(call) {
						return constant.MakeInt64(expired), true
					}
					return nil, false
				}
				if an.C05ReachUnder(call, sink, env) {
					why = "the send is reachable when deadliner.Add reports DeadlineExpired"
					continue
				}
				good = true
			}
			c.Check("handle deadliner.Add(duty) expired→no send", posOf(sink), good, why)
		}

		// the value sent and the buffer it is sent to
		c.Check("handle sent value is newMsg result", posOf(sink), built != nil && c05IsExtractOf(sk.val, built.Value(), 0),
			"the Msg sent to the receive buffer is not the result of the checked newMsg call")
		chOK := false
		if call, ok := sk.ch.(*ssa.Call); ok && !call.Call.IsInvoke() && call.Call.StaticCallee() == grb && len(call.Call.Args) == 2 {
			chOK = h.isDuty(call.Call.Args[1])
		}
		c.Check("handle buffer is getRecvBuffer(msg duty)", posOf(sink), chOK, "the channel is not c.getRecvBuffer(duty) for the duty of the verified message")
	}
}

// ---------------------------------------------------------------------------------------------
// A2: the signature covers every field of the message

const (
	c05Clone   = "google.golang.org/protobuf/proto.Clone"
	c05Marshal = "google.golang.org/protobuf/proto.MarshalOptions.Marshal"
	c05Hasher  = "github.com/ferranbt/fastssz.Hasher"
)

// c05HashOf: v is `hash[:]` (or hash) of the [32]byte produced by call hp.
func c05HashOf(v ssa.Value, hp ssa.Value) bool {
	v = an.Unwrap(v)
	if sl, ok := v.(*ssa.Slice); ok {
		al, ok := sl.X.(*ssa.Alloc)
		if !ok || sl.Low != nil || sl.High != nil {
			return false
		}
		n := 0
		good := false
		for _, ref := range *al.Referrers() {
			if st, ok := ref.(*ssa.Store); ok && st.Addr == ssa.Value(al) {
				n++
				good = c05IsExtractOf(st.Val, hp, 0)
			}
		}
		return n == 1 && good
	}
	return c05IsExtractOf(v, hp, 0)
}

// c05SignedClone checks, in verifyMsgSig/signMsg, that the value hashed is proto.Clone(msg) with
// only Signature cleared. Returns the hashProto call and the clone.
func c05SignedClone(e *c05env, fn *ssa.Function, short string) (hp *ssa.Call, clone ssa.Value) {
	c := e.c
	hashProto := c.Fn(c05Q + ".hashProto")
	hps := c05CallsTo(fn, hashProto)
	if len(hps) != 1 {
		c.Bail("%s: expected exactly one hashProto call, found %d", short, len(hps))
	}
	hp = hps[0]
	msgP := fn.Params[0]
	arg := an.Unwrap(hp.Call.Args[0])
	var ta *ssa.TypeAssert
	switch x := arg.(type) {
	case *ssa.Extract:
		if x.Index == 0 {
			ta, _ = x.Tuple.(*ssa.TypeAssert)
		}
	case *ssa.TypeAssert:
		ta = x
	}
	isClone := false
	if ta != nil {
		if cl, ok := ta.X.(*ssa.Call); ok && an.Static(c05Clone)(&cl.Call) && an.Unwrap(cl.Call.Args[0]) == ssa.Value(msgP) {
			isClone = true
		}
	}
	c.Check(short+" hashes proto.Clone(msg)", hp.Pos(), isClone, "the value given to hashProto is not the proto.Clone of the whole message parameter")
	if !isClone {
		return hp, nil
	}
	clone = arg
	cleared := false
	bad, unsure := "", ""
	var visit func(v ssa.Value)
	visit = func(v ssa.Value) {
		for _, ref := range *v.Referrers() {
			if ref == ssa.Instruction(hp) {
				continue
			}
			switch r := ref.(type) {
			case *ssa.FieldAddr:
				key := an.FieldKey(r.X.Type(), r.Field)
				for _, r2 := range *r.Referrers() {
					switch st := r2.(type) {
					case *ssa.Store:
						if st.Addr != ssa.Value(r) || !an.C05MayPrecede(st, hp) {
							continue
						}
						if key == c05PB+".QBFTMsg.Signature" && an.IsNilConst(st.Val) {
							if an.Dominates(st, hp) {
								cleared = true
							}
							continue
						}
						bad = "field " + key + " of the clone is overwritten before hashing: the signature no longer covers it"
					case *ssa.UnOp:
					default:
						if in, ok := r2.(ssa.Instruction); ok && an.C05MayPrecede(in, hp) {
							unsure = "address of " + key + " of the clone escapes before hashing"
						}
					}
				}
			case *ssa.MakeInterface:
				visit(r)
			case ssa.CallInstruction:
				if !an.C05MayPrecede(r, hp) {
					continue
				}
				if callee := r.Common().StaticCallee(); callee != nil && strings.HasPrefix(an.FuncName(callee), c05PB+".QBFTMsg.Get") {
					continue
				}
				unsure = "the clone is passed to " + an.CalleeName(r.Common()) + " before hashing"
			case *ssa.Store:
				if an.C05MayPrecede(r, hp) {
					unsure = "the clone is stored before hashing"
				}
			}
		}
	}
	visit(clone)
	switch {
	case bad != "":
		c.Bad(short+" only Signature cleared before hashing", hp.Pos(), bad)
	case unsure != "":
		c.Unsure(short+" only Signature cleared before hashing", hp.Pos(), unsure)
	default:
		c.Check(short+" only Signature cleared before hashing", hp.Pos(), cleared, "clone.Signature = nil does not precede hashProto on every path")
	}
	return hp, clone
}

func c05A2(e *c05env) {
	c := e.c
	// --- verifyMsgSig
	{
		fn := c.Fn(c05Q + ".verifyMsgSig")
		hp, _ := c05SignedClone(e, fn, "verifyMsgSig")
		rec := c.OneCall(fn, an.Static("app/k1util.Recover"), "k1util.Recover", false).(*ssa.Call)
		ok, why := an.Guarded(hp, rec, an.DefaultGuard)
		if ok && !c05HashOf(rec.Call.Args[0], hp) {
			ok, why = false, "the digest given to k1util.Recover is not the hashProto result"
		}
		c.Check("verifyMsgSig Recover(hash)", rec.Pos(), ok, why)
		b, isSig := e.read(rec.Call.Args[1], "QBFTMsg.Signature")
		c.Check("verifyMsgSig Recover(msg signature)", rec.Pos(), isSig && b == ssa.Value(fn.Params[0]), "the signature given to k1util.Recover is not the message's own Signature field")
		n := 0
		for _, r := range an.Returns(fn) {
			if len(r.Results) != 2 {
				continue
			}
			res := r.Results[0]
			if k, isC := res.(*ssa.Const); isC && k.Value != nil && !constant.BoolVal(k.Value) {
				continue
			}
			n++
			good, w := false, "a result other than `recovered.IsEqual(pubkey)` is returned as the verdict"
			if call, isCall := res.(*ssa.Call); isCall && !call.Call.IsInvoke() && call.Call.StaticCallee() != nil &&
				call.Call.StaticCallee().Name() == "IsEqual" && len(call.Call.Args) == 2 {
				a0, a1 := call.Call.Args[0], call.Call.Args[1]
				pk := ssa.Value(fn.Params[1])
				if (c05IsExtractOf(a0, rec, 0) && a1 == pk) || (c05IsExtractOf(a1, rec, 0) && a0 == pk) {
					good, w = an.Guarded(rec, r, an.DefaultGuard)
				} else {
					w = "IsEqual does not compare the recovered key with the pubkey parameter"
				}
			}
			c.Check("verifyMsgSig verdict is recovered.IsEqual(pubkey)", posOf(r), good, w)
		}
		if n == 0 {
			c.Bad("verifyMsgSig verdict is recovered.IsEqual(pubkey)", fn.Pos(), "verifyMsgSig never returns a computed verdict")
		}
	}
	// --- signMsg
	{
		fn := c.Fn(c05Q + ".signMsg")
		hp, clone := c05SignedClone(e, fn, "signMsg")
		sg := c.OneCall(fn, an.Static("app/k1util.Sign"), "k1util.Sign", false).(*ssa.Call)
		ok, why := an.Guarded(hp, sg, an.DefaultGuard)
		if ok && !c05HashOf(sg.Call.Args[1], hp) {
			ok, why = false, "the digest given to k1util.Sign is not the hashProto result"
		}
		c.Check("signMsg Sign(hash)", sg.Pos(), ok, why)
		for _, r := range an.Returns(fn) {
			if len(r.Results) != 2 || !c05IsNilErr(r.Results[1]) {
				continue
			}
			good, w := false, "signMsg does not return the clone it hashed"
			if clone != nil && an.Unwrap(r.Results[0]) == clone {
				w = "the clone's Signature is not set from k1util.Sign before the successful return"
				for _, in := range an.Instrs(fn, false) {
					st, isSt := in.(*ssa.Store)
					if !isSt || !c05IsExtractOf(st.Val, sg, 0) || !an.Dominates(st, r) {
						continue
					}
					if fa, isFA := st.Addr.(*ssa.FieldAddr); isFA && an.Unwrap(fa.X) == clone && an.FieldKey(fa.X.Type(), fa.Field) == c05PB+".QBFTMsg.Signature" {
						good, w = an.Guarded(sg, r, an.DefaultGuard)
					}
				}
			}
			c.Check("signMsg returns the hashed clone with its signature", posOf(r), good, w)
		}
	}
	// --- hashProto
	{
		fn := c.Fn(c05Q + ".hashProto")
		ms := c.OneCall(fn, an.Static(c05Marshal), "proto.MarshalOptions.Marshal", false).(*ssa.Call)
		c.Check("hashProto marshals its whole argument", ms.Pos(), len(ms.Call.Args) == 2 && an.Unwrap(ms.Call.Args[1]) == ssa.Value(fn.Params[0]),
			"the value marshalled is not hashProto's argument")
		det, why := false, "MarshalOptions receiver is not a local literal"
		if ld, ok := ms.Call.Args[0].(*ssa.UnOp); ok && ld.Op == token.MUL {
			if al, ok := ld.X.(*ssa.Alloc); ok {
				why = "Deterministic is not set to true in the MarshalOptions literal"
				for _, ref := range *al.Referrers() {
					fa, ok := ref.(*ssa.FieldAddr)
					if !ok || an.FieldKey(fa.X.Type(), fa.Field) != "google.golang.org/protobuf/proto.MarshalOptions.Deterministic" {
						continue
					}
					n, allTrue := 0, true
					for _, r2 := range *fa.Referrers() {
						if st, ok := r2.(*ssa.Store); ok {
							n++
							k, isC := st.Val.(*ssa.Const)
							if !isC || k.Value == nil || !constant.BoolVal(k.Value) || !an.Dominates(st, ld) {
								allTrue = false
							}
						}
					}
					det = n > 0 && allTrue
				}
			}
		}
		c.Check("hashProto Deterministic marshalling", ms.Pos(), det, why)
		put := c.OneCall(fn, an.Static(c05Hasher+".PutBytes"), "Hasher.PutBytes", false).(*ssa.Call)
		ok, w := an.Guarded(ms, put, an.DefaultGuard)
		if ok && !c05IsExtractOf(put.Call.Args[1], ms, 0) {
			ok, w = false, "the bytes hashed are not the marshalled message"
		}
		c.Check("hashProto hashes the marshalled bytes", put.Pos(), ok, w)
		root := c.OneCall(fn, an.Static(c05Hasher+".HashRoot"), "Hasher.HashRoot", false).(*ssa.Call)
		n := 0
		for _, r := range an.Returns(fn) {
			if len(r.Results) != 2 || r.Block().Comment == "recover" {
				continue
			}
			if !c05IsNilErr(c05Spilled(r.Results[1], r)) {
				continue
			}
			n++
			good, w := false, "the hash returned on success is not the HashRoot of the hasher fed with the marshalled bytes"
			if c05IsExtractOf(c05Spilled(r.Results[0], r), root, 0) && root.Call.Args[0] == put.Call.Args[0] && an.Dominates(put, root) {
				good, w = an.Guarded(root, r, an.DefaultGuard)
			}
			c.Check("hashProto returns HashRoot of the marshalled bytes", posOf(r), good, w)
		}
		if n == 0 {
			c.Unsure("hashProto returns HashRoot of the marshalled bytes", fn.Pos(), "no successful return recognised")
		}
	}
}

// ---------------------------------------------------------------------------------------------
// A3: every wire field has a checked consumer; Msg is built only from checked parts

func c05ExportedFields(c *rt.Ctx, typ string) []string {
	obj := c.Pkg(c05PB).Types.Scope().Lookup(typ)
	if obj == nil {
		c.Bail("type %s.%s not found", c05PB, typ)
	}
	st, ok := obj.Type().Underlying().(*types.Struct)
	if !ok {
		c.Bail("%s.%s is not a struct", c05PB, typ)
	}
	var out []string
	for i := 0; i < st.NumFields(); i++ {
		if st.Field(i).Exported() {
			out = append(out, st.Field(i).Name())
		}
	}
	return out
}

func c05A3(e *c05env) {
	c := e.c
	// (a) every exported field of the wire envelope is consumed by a checked guard in handle
	h := c05ResolveHandle(e)
	fn := h.fn
	fields := c05ExportedFields(c, "QBFTConsensusMsg")
	if len(fields) < 3 {
		c.Bail("QBFTConsensusMsg has %d exported fields, expected at least Msg, Justification, Values", len(fields))
	}
	sink := h.sinks[0].in
	for _, f := range fields {
		if c.FnOpt(c05PB+".QBFTConsensusMsg.Get"+f) == nil {
			c.Bad("QBFTConsensusMsg."+f+" consumed by a checked guard in handle", fn.Pos(), "wire field has no accessor and no consumer in handle")
			continue
		}
		good, why := false, "wire field is never read from the request in handle: a peer-controlled field without any check"
		for _, in := range an.Instrs(fn, false) {
			v, isVal := in.(ssa.Value)
			if !isVal {
				continue
			}
			if b, ok := e.read(v, "QBFTConsensusMsg."+f); !ok || b != h.pb {
				continue
			}
			if why[0] == 'w' {
				why = "wire field is read in handle but no read feeds a checked guard that dominates the send"
			}
			// direct argument of a checked guard call
			for _, ref := range *v.Referrers() {
				g, isCall := ref.(*ssa.Call)
				if !isCall || g.Call.StaticCallee() == nil || sink.Parent() != fn {
					continue
				}
				hasErr := false
				res := g.Call.Signature().Results()
				for i := 0; i < res.Len(); i++ {
					hasErr = hasErr || an.IsErrorType(res.At(i).Type())
				}
				if !hasErr {
					continue
				}
				if ok, _ := an.Guarded(g, sink, an.DefaultGuard); ok {
					good = true
				}
			}
			// collection of a forall-checked loop
			for _, l := range an.Loops(fn) {
				if l.RangeColl() == nil || !an.Equiv(l.RangeColl(), v) || sink.Parent() != fn {
					continue
				}
				for b := range l.Body {
					for _, in2 := range b.Instrs {
						g, isCall := in2.(*ssa.Call)
						if !isCall || g.Call.StaticCallee() == nil || len(g.Call.Args) == 0 || !l.ElemOf(g.Call.Args[0]) {
							continue
						}
						errv := ssa.Value(g)
						if g.Call.Signature().Results().Len() != 1 || !an.IsErrorType(g.Call.Signature().Results().At(0).Type()) {
							continue
						}
						for _, br := range c05ErrFail(fn, errv) {
							if ok, _ := c05Forall(l, br.If, br.Fail, sink); ok {
								good = true
							}
						}
					}
				}
			}
		}
		c.Check("QBFTConsensusMsg."+f+" consumed by a checked guard in handle", fn.Pos(), good, why)
	}

	// (b) provenance of every field of the Msg built by newMsg
	nm := c.Fn(c05Q + ".newMsg")
	toHash := c.Fn(c05Q + ".toHash32")
	pbP, justP, valsP := ssa.Value(nm.Params[0]), ssa.Value(nm.Params[1]), ssa.Value(nm.Params[2])
	var ret *ssa.Return
	for _, r := range an.Returns(nm) {
		if len(r.Results) == 2 && c05IsNilErr(r.Results[1]) {
			if ret != nil {
				c.Bail("newMsg: more than one successful return")
			}
			ret = r
		}
	}
	if ret == nil {
		c.Bail("newMsg: no successful return")
	}
	ld, ok := ret.Results[0].(*ssa.UnOp)
	var lit *ssa.Alloc
	if ok && ld.Op == token.MUL {
		lit, _ = ld.X.(*ssa.Alloc)
	}
	if lit == nil {
		c.Bail("newMsg: successful return is not a Msg literal")
	}
	stored, problem := c05LitFields(lit, 0)
	if problem != "" {
		c.Bail("newMsg: cannot resolve the fields of the returned Msg: %s", problem)
	}
	// hash fields: zero, or toHash32(pbMsg.GetX()) with presence in values checked
	hashProv := func(v ssa.Value, pbField string) (bool, string) {
		edges := []ssa.Value{v}
		var preds []*ssa.BasicBlock
		if phi, ok := v.(*ssa.Phi); ok {
			edges = phi.Edges
			preds = phi.Block().Preds
		}
		nonzero := 0
		for i, ev := range edges {
			if k, ok := ev.(*ssa.Const); ok && k.Value == nil {
				continue
			}
			nonzero++
			ex, ok := ev.(*ssa.Extract)
			if !ok || ex.Index != 0 {
				return false, "hash is not the result of toHash32"
			}
			call, ok := ex.Tuple.(*ssa.Call)
			if !ok || call.Call.StaticCallee() != toHash {
				return false, "hash is not the result of toHash32"
			}
			if b, ok := e.read(call.Call.Args[0], "QBFTMsg."+pbField); !ok || b != pbP {
				return false, "hash is not derived from pbMsg." + pbField
			}
			// toHash32's ok must hold on this edge and presence in values must be checked
			okv := c05Extract(call, 1)
			if okv == nil {
				return false, "validity result of toHash32 is discarded"
			}
			envNot := func(x ssa.Value) an.C05Env {
				return func(v ssa.Value) (constant.Value, bool) {
					if v == x {
						return constant.MakeBool(false), true
					}
					return nil, false
				}
			}
			present := false
			for _, in := range an.Instrs(nm, false) {
				lk, ok := in.(*ssa.Lookup)
				if !ok || !lk.CommaOk || lk.X != valsP || lk.Index != ev {
					continue
				}
				found := c05Extract(lk, 1)
				if found == nil {
					continue
				}
				var from ssa.Instruction = lk
				if preds != nil && !(lk.Block() == preds[i] || lk.Block().Dominates(preds[i])) {
					continue
				}
				if !an.C05ReachUnder(from, ret, envNot(found)) {
					present = true
				}
			}
			if !present {
				return false, "the message is built although values[hash] was not found (or never looked up)"
			}
			if preds != nil {
				// with ok == false the non-zero edge must not be taken: the phi's block is reached from
				// preds[i] only; require call's ok-false path not to pass preds[i]
				if an.C05ReachUnder(call, preds[i].Instrs[len(preds[i].Instrs)-1], envNot(okv)) && preds[i] != call.Block() {
					return false, "hash is used although toHash32 reported it invalid"
				}
			}
		}
		if nonzero == 0 {
			return false, "hash field is always zero"
		}
		return true, ""
	}
	justProv := func(v ssa.Value) (bool, string) {
		phi, ok := v.(*ssa.Phi)
		if !ok {
			return false, "justification list is not accumulated in a loop over the justification parameter"
		}
		seenAppend := false
		for _, ev := range phi.Edges {
			if k, ok := ev.(*ssa.Const); ok && k.Value == nil {
				continue
			}
			app, ok := c05Builtin(ev, "append")
			if !ok || app.Call.Args[0] != ssa.Value(phi) {
				return false, "justification list is not built by appending to itself"
			}
			elems := appendedElems(ev)
			if len(elems) != 1 {
				return false, "unrecognised append"
			}
			ex, ok := an.Unwrap(elems[0]).(*ssa.Extract)
			var call *ssa.Call
			if ok && ex.Index == 0 {
				call, _ = ex.Tuple.(*ssa.Call)
			}
			if call == nil || call.Call.StaticCallee() != nm {
				return false, "an appended justification is not built by newMsg"
			}
			l := an.InnermostLoop(nm, call.Block())
			if l == nil || l.RangeColl() != justP || !l.ElemOf(call.Call.Args[0]) {
				return false, "justification Msg is not built from the element of the justification parameter"
			}
			if call.Call.Args[2] != valsP {
				return false, "justification Msg is built with a different values map"
			}
			if ok, w := an.Guarded(call, app, an.DefaultGuard); !ok {
				return false, "error of the nested newMsg is not checked before the append: " + w
			}
			good := false
			for _, br := range c05ErrFail(nm, c05Extract(call, 1)) {
				if ok, _ := c05Forall(l, br.If, br.Fail, ret); ok {
					good = true
				}
			}
			if !good {
				return false, "a justification can be skipped (hash presence unchecked) before the Msg is returned"
			}
			seenAppend = true
		}
		return seenAppend, "nothing is appended to the justification list"
	}
	st, ok := c.Pkg(c05Q).Types.Scope().Lookup("Msg").Type().Underlying().(*types.Struct)
	if !ok {
		c.Bail("qbft.Msg is not a struct")
	}
	for i := 0; i < st.NumFields(); i++ {
		name := st.Field(i).Name()
		v := stored[name]
		key := "newMsg Msg." + name + " provenance"
		if v == nil {
			c.Good(key, posOf(ret), "field is left at its zero value: carries nothing from the wire")
			continue
		}
		switch name {
		case "msg":
			c.Check(key, posOf(ret), v == pbP, "Msg.msg is not the (verified) message parameter")
		case "values":
			c.Check(key, posOf(ret), v == valsP, "Msg.values is not the recomputed-hash map parameter")
		case "justificationProtos":
			c.Check(key, posOf(ret), v == justP, "Msg.justificationProtos is not the (verified) justification parameter")
		case "valueHash":
			ok, w := hashProv(v, "ValueHash")
			c.Check(key, posOf(ret), ok, w)
		case "preparedValueHash":
			ok, w := hashProv(v, "PreparedValueHash")
			c.Check(key, posOf(ret), ok, w)
		case "justification":
			ok, w := justProv(v)
			c.Check(key, posOf(ret), ok, w)
		default:
			c.Unsure(key, posOf(ret), "new field of qbft.Msg without a provenance rule")
		}
	}

	// (c) valuesByHash: key is the recomputed hash of the very value stored under it
	vbh := c.Fn(c05Q + ".valuesByHash")
	hashProto := c.Fn(c05Q + ".hashProto")
	var okRet *ssa.Return
	for _, r := range an.Returns(vbh) {
		if len(r.Results) == 2 && c05IsNilErr(r.Results[1]) {
			if okRet != nil {
				c.Bail("valuesByHash: more than one successful return")
			}
			okRet = r
		}
	}
	if okRet == nil {
		c.Bail("valuesByHash: no successful return")
	}
	resMap := okRet.Results[0]
	ups := mapUpdates(vbh, func(m ssa.Value) bool { return m == resMap })
	if len(ups) == 0 {
		c.Bad("valuesByHash key is hashProto(inner value)", posOf(okRet), "nothing is inserted into the returned map")
	}
	for _, up := range ups {
		good, why := false, "map key is not the hashProto result"
		if ex, ok := an.Unwrap(up.Key).(*ssa.Extract); ok && ex.Index == 0 {
			if hc, ok := ex.Tuple.(*ssa.Call); ok && hc.Call.StaticCallee() == hashProto {
				why = "hashed message is not UnmarshalNew() of the value stored under the key"
				if ix, ok := an.Unwrap(hc.Call.Args[0]).(*ssa.Extract); ok && ix.Index == 0 {
					if uc, ok := ix.Tuple.(*ssa.Call); ok && uc.Call.StaticCallee() != nil && uc.Call.StaticCallee().Name() == "UnmarshalNew" &&
						len(uc.Call.Args) == 1 {
						l := an.InnermostLoop(vbh, up.Block())
						switch {
						case l == nil || l.RangeColl() != ssa.Value(vbh.Params[0]) || !l.ElemOf(up.Value) || !c05SameElem(up.Value, uc.Call.Args[0]):
							why = "stored value is not the element of the values parameter"
						default:
							ok1, w1 := an.Guarded(uc, up, an.DefaultGuard)
							ok2, w2 := an.Guarded(hc, up, an.DefaultGuard)
							good, why = ok1 && ok2, "unmarshal: "+w1+"; hash: "+w2
						}
					}
				}
			}
		}
		c.Check("valuesByHash key is hashProto(inner value)", posOf(up), good, why)
	}
}

// ---------------------------------------------------------------------------------------------
// A4: verifyMsg accepts only well-formed messages signed by the peer they name as source

func c05A4(e *c05env) {
	c := e.c
	fn := c.Fn(c05Q + ".verifyMsg")
	sig := c.Fn(c05Q + ".verifyMsgSig")
	msgP, keysP := ssa.Value(fn.Params[0]), ssa.Value(fn.Params[1])
	var sinks []*ssa.Return
	for _, r := range an.Returns(fn) {
		if len(r.Results) == 1 && c05IsNilErr(r.Results[0]) {
			sinks = append(sinks, r)
		}
	}
	if len(sinks) == 0 {
		c.Bail("verifyMsg: no `return nil` found")
	}
	readOfMsg := func(v ssa.Value, f string) bool {
		b, ok := e.read(v, "QBFTMsg."+f)
		return ok && b == msgP
	}
	for _, sink := range sinks {
		// enum validity
		validGuard := func(construct, method string, isArg func(ssa.Value) bool) {
			good, why := false, "no "+method+"() test of the message's field"
			for _, g := range an.Calls(fn, an.Static(method), false) {
				if len(g.Common().Args) != 1 || !isArg(g.Common().Args[0]) {
					continue
				}
				ok, w := an.Guarded(g, sink, an.BoolGuard(0, true))
				if ok {
					good = true
				} else {
					why = w
				}
			}
			c.Check(construct, posOf(sink), good, why)
		}
		validGuard("verifyMsg type valid→accept", "core/qbft.MsgType.Valid", func(v ssa.Value) bool { return readOfMsg(v, "Type") })
		validGuard("verifyMsg duty type valid→accept", "core.DutyType.Valid", func(v ssa.Value) bool {
			b, ok := e.read(v, "Duty.Type")
			return ok && readOfMsg(b, "Duty")
		})
		// integer ranges: accept is unreachable for every bad value
		rangeGuard := func(construct, field string, bad func(int64) bool) {
			var reads []ssa.Value
			for _, in := range an.Instrs(fn, false) {
				if v, ok := in.(ssa.Value); ok && readOfMsg(v, field) {
					reads = append(reads, v)
				}
			}
			isRead := func(v ssa.Value) bool {
				for _, r := range reads {
					if r == v {
						return true
					}
				}
				return false
			}
			samples := map[int64]bool{0: true, 1: true, -1: true, -1 << 63: true, 1<<63 - 1: true}
			var first ssa.Instruction
			for _, b := range fn.Blocks {
				iff, ok := b.Instrs[len(b.Instrs)-1].(*ssa.If)
				if !ok {
					continue
				}
				bin, ok := iff.Cond.(*ssa.BinOp)
				if !ok {
					continue
				}
				for _, pair := range [][2]ssa.Value{{bin.X, bin.Y}, {bin.Y, bin.X}} {
					if n, ok := an.ConstInt(pair[1]); ok && isRead(pair[0]) {
						samples[n], samples[n-1], samples[n+1] = true, true, true
						if in, ok := pair[0].(ssa.Instruction); ok && first == nil && an.Dominates(in, sink) {
							first = in
						}
					}
				}
			}
			if first == nil {
				c.Bad(construct, posOf(sink), "no comparison of msg."+field+" with a constant dominates the accepting return")
				return
			}
			good, why := true, ""
			for n := range samples {
				if !bad(n) {
					continue
				}
				n := n
				env := func(v ssa.Value) (constant.Value, bool) {
					if isRead(v) {
						return constant.MakeInt64(n), true
					}
					return nil, false
				}
				if an.C05ReachUnder(first, sink, env) {
					good, why = false, "the accepting return is reachable with an out-of-range "+field
				}
			}
			c.Check(construct, posOf(sink), good, why)
		}
		rangeGuard("verifyMsg round>0→accept", "Round", func(n int64) bool { return n <= 0 })
		rangeGuard("verifyMsg preparedRound>=0→accept", "PreparedRound", func(n int64) bool { return n < 0 })

		// source binding: key looked up by the message's own peer index, signature checked with it
		var lookup *ssa.Lookup
		for _, in := range an.Instrs(fn, false) {
			if lk, ok := in.(*ssa.Lookup); ok && lk.X == keysP && readOfMsg(lk.Index, "PeerIdx") {
				lookup = lk
			}
		}
		if lookup == nil {
			c.Bad("verifyMsg key = pubkeys[msg.PeerIdx]", posOf(sink), "the public key is not looked up by the message's own peer index")
			c.Bad("verifyMsg unknown peer→reject", posOf(sink), "no lookup")
			c.Bad("verifyMsg verifyMsgSig(msg, key)→accept", posOf(sink), "no lookup")
			continue
		}
		c.Good("verifyMsg key = pubkeys[msg.PeerIdx]", lookup.Pos(), "")
		known := false
		if lookup.CommaOk {
			if okv := c05Extract(lookup, 1); okv != nil {
				env := func(v ssa.Value) (constant.Value, bool) {
					if v == okv {
						return constant.MakeBool(false), true
					}
					return nil, false
				}
				known = an.Dominates(lookup, sink) && !an.C05ReachUnder(lookup, sink, env)
			}
		}
		c.Check("verifyMsg unknown peer→reject", lookup.Pos(), known, "a peer index without a key in the cluster is not rejected")
		good, why := false, "no verifyMsgSig(msg, pubkeys[msg.PeerIdx]) call"
		for _, g := range c05CallsTo(fn, sig) {
			keyOK := c05IsExtractOf(g.Call.Args[1], lookup, 0) || (!lookup.CommaOk && an.Unwrap(g.Call.Args[1]) == ssa.Value(lookup))
			if g.Call.Args[0] != msgP || !keyOK {
				why = "verifyMsgSig is not applied to the message and the key of its own source index"
				continue
			}
			ok, w := an.Guarded(g, sink, an.BoolGuard(0, true))
			if ok {
				good = true
			} else {
				why = w
			}
		}
		c.Check("verifyMsg verifyMsgSig(msg, key)→accept", posOf(sink), good, why)
	}

	// Msg.Source() is that same signed field
	src := c.Fn(c05Q + ".Msg.Source")
	for _, r := range an.Returns(src) {
		good := false
		if len(r.Results) == 1 {
			if b, ok := e.read(r.Results[0], "QBFTMsg.PeerIdx"); ok {
				good = isLoadOfValueField(b, c05Q+".Msg.msg") || c05FieldOfParam(b, src, c05Q+".Msg.msg")
			}
		}
		c.Check("Msg.Source returns msg.PeerIdx", posOf(r), good, "Source() is not the PeerIdx of the signed message the key was looked up with")
	}

	// the key table maps index i to the key of peers[i]
	nc := c.Fn(c05Q + ".NewConsensus")
	var keysMap ssa.Value
	for _, in := range an.Instrs(nc, false) {
		if st, ok := in.(*ssa.Store); ok {
			if fa, ok := st.Addr.(*ssa.FieldAddr); ok && an.FieldKey(fa.X.Type(), fa.Field) == c05Q+".Consensus.pubkeys" {
				keysMap = st.Val
			}
		}
	}
	if keysMap == nil {
		c.Bail("NewConsensus: pubkeys field is not initialised")
	}
	ups := mapUpdates(nc, func(m ssa.Value) bool { return m == keysMap })
	if len(ups) == 0 {
		c.Bad("NewConsensus pubkeys[i] = peers[i].PublicKey()", nc.Pos(), "no key is inserted into the pubkeys table")
	}
	var peersP ssa.Value
	for _, p := range nc.Params {
		if p.Name() == "peers" {
			peersP = p
		}
	}
	for _, up := range ups {
		good, why := false, "key table entry is not peers[i].PublicKey() under index i"
		l := an.InnermostLoop(nc, up.Block())
		if l != nil && peersP != nil && l.RangeColl() == peersP {
			if ex, ok := an.Unwrap(up.Value).(*ssa.Extract); ok && ex.Index == 0 {
				if pk, ok := ex.Tuple.(*ssa.Call); ok && pk.Call.StaticCallee() != nil && pk.Call.StaticCallee().Name() == "PublicKey" && l.ElemOf(pk.Call.Args[0]) {
					// index: Convert of the range index == the IndexAddr index of the element
					idx := an.Unwrap(up.Key)
					same := false
					for b := range l.Body {
						for _, in := range b.Instrs {
							if ia, ok := in.(*ssa.IndexAddr); ok && ia.X == peersP && ia.Index == idx {
								same = true
							}
						}
					}
					if same {
						good, why = an.Guarded(pk, up, an.DefaultGuard)
					} else {
						why = "table index is not the position of the peer in the peers list"
					}
				}
			}
		}
		c.Check("NewConsensus pubkeys[i] = peers[i].PublicKey()", posOf(up), good, why)
	}
}

// c05FieldOfParam: v is field `key` of the (value) receiver parameter of fn.
func c05FieldOfParam(v ssa.Value, fn *ssa.Function, key string) bool {
	switch x := v.(type) {
	case *ssa.Field:
		return an.FieldKey(x.X.Type(), x.Field) == key && rootedAt(x.X, fn.Params[0])
	case *ssa.UnOp:
		if fa, ok := x.X.(*ssa.FieldAddr); ok && x.Op == token.MUL {
			return an.FieldKey(fa.X.Type(), fa.Field) == key && rootedAt(fa.X, fn.Params[0])
		}
	}
	return false
}

// ---------------------------------------------------------------------------------------------
// A5: the handler is registered with a read limit below the p2p default

func c05A5(e *c05env) {
	c := e.c
	reg := c.Fn("p2p.RegisterHandler")
	wrl := c.Fn("p2p.WithReadLimit")
	handle := c.Fn(c05Q + ".Consensus.handle")
	def := constOf(c, "p2p", "maxMsgSize")
	n := 0
	for _, fn := range an.PkgFuncs(c.SSAPkg(c05Q)) {
		for _, call := range c05CallsTo(fn, reg) {
			n++
			args := call.Call.Args
			if len(args) != 6 {
				c.Bail("p2p.RegisterHandler: unexpected signature")
			}
			where := an.FuncName(fn)
			isHandle := false
			if mc, ok := an.Unwrap(args[4]).(*ssa.MakeClosure); ok {
				if f, ok := mc.Fn.(*ssa.Function); ok && (an.FuncName(f) == an.FuncName(handle) || strings.HasPrefix(f.Name(), "handle$bound")) {
					isHandle = true
				}
			}
			c.Check(where+" registers Consensus.handle", call.Pos(), isHandle, "the registered stream handler is not Consensus.handle (the function whose checks A1 decides)")
			elems, ok := c05VariadicElems(args[5])
			if !ok {
				c.Unsure(where+" RegisterHandler WithReadLimit", call.Pos(), "options are not a literal argument list")
				continue
			}
			good, why := false, "handler registered without p2p.WithReadLimit: messages up to the p2p default size are decoded"
			for _, el := range elems {
				oc, ok := an.Unwrap(el).(*ssa.Call)
				if !ok || oc.Call.StaticCallee() != wrl {
					continue
				}
				lim, ok := an.ConstInt(oc.Call.Args[0])
				switch {
				case !ok:
					why = "read limit is not a constant"
				case lim <= 0 || lim >= def:
					why = "read limit is not below the p2p default frame size"
				default:
					good = true
				}
			}
			c.Check(where+" RegisterHandler WithReadLimit", call.Pos(), good, why)
		}
	}
	if n == 0 {
		c.Bail("no p2p.RegisterHandler call in %s", c05Q)
	}
	// WithReadLimit really installs a reader bounded by its argument for every protocol
	if len(wrl.AnonFuncs) != 1 || len(wrl.AnonFuncs[0].AnonFuncs) != 1 {
		c.Bail("p2p.WithReadLimit: unexpected closure structure")
	}
	opt, rd := wrl.AnonFuncs[0], wrl.AnonFuncs[0].AnonFuncs[0]
	ndr := c.OneCall(rd, func(cc *ssa.CallCommon) bool {
		f := cc.StaticCallee()
		return f != nil && f.Name() == "NewDelimitedReader"
	}, "pbio.NewDelimitedReader", false)
	c.Check("p2p.WithReadLimit reader bounded by limit", ndr.Pos(), c05FreeVarIsParam(ndr.Common().Args[1], wrl.Params[0]),
		"the reader installed by WithReadLimit is not bounded by the limit argument")
	ups := mapUpdates(opt, isFieldMap("p2p.sendRecvOpts.readersByProtocol"))
	good := false
	for _, up := range ups {
		if mc, ok := an.Unwrap(up.Value).(*ssa.MakeClosure); ok && mc.Fn == ssa.Value(rd) {
			if l := an.InnermostLoop(opt, up.Block()); l != nil {
				if k, _, ok := an.FieldOf(l.RangeColl()); ok && k == "p2p.sendRecvOpts.protocols" && l.ElemOf(up.Key) {
					good = true
				}
			}
		}
	}
	c.Check("p2p.WithReadLimit installs the reader for every protocol", opt.Pos(), good, "the bounded reader is not stored in readersByProtocol for each registered protocol")
}

// c05FreeVarIsParam follows a captured variable through nested closures up to a parameter.
func c05FreeVarIsParam(v ssa.Value, p *ssa.Parameter) bool {
	for i := 0; i < 8; i++ {
		switch x := v.(type) {
		case *ssa.UnOp:
			if x.Op != token.MUL {
				return false
			}
			v = x.X
		case *ssa.FreeVar:
			fn := x.Parent()
			idx := -1
			for j, fv := range fn.FreeVars {
				if fv == x {
					idx = j
				}
			}
			if idx < 0 || fn.Parent() == nil {
				return false
			}
			var bind ssa.Value
			for _, in := range an.Instrs(fn.Parent(), false) {
				if mc, ok := in.(*ssa.MakeClosure); ok && mc.Fn == ssa.Value(fn) {
					if bind != nil {
						return false
					}
					bind = mc.Bindings[idx]
				}
			}
			if bind == nil {
				return false
			}
			v = bind
		case *ssa.Alloc:
			n := 0
			var src ssa.Value
			for _, ref := range *x.Referrers() {
				if st, ok := ref.(*ssa.Store); ok && st.Addr == ssa.Value(x) {
					n++
					src = st.Val
				}
			}
			return n == 1 && src == ssa.Value(p)
		case *ssa.Parameter:
			return x == p
		default:
			return false
		}
	}
	return false
}

// ---------------------------------------------------------------------------------------------
// A6: the duty gater rejects invalid duty types, and it is the gater wired into consensus

func c05A6(e *c05env) {
	c := e.c
	ng := c.Fn("core.NewDutyGater")
	var gater *ssa.Function
	for _, r := range an.Returns(ng) {
		if len(r.Results) != 2 || !c05IsNilErr(r.Results[1]) {
			continue
		}
		mc, ok := an.Unwrap(r.Results[0]).(*ssa.MakeClosure)
		if !ok || gater != nil {
			c.Bail("NewDutyGater: successful result is not a single function literal")
		}
		gater, _ = mc.Fn.(*ssa.Function)
	}
	if gater == nil || len(gater.Params) != 1 {
		c.Bail("NewDutyGater: gater closure not found")
	}
	var valid []ssa.CallInstruction
	for _, g := range an.Calls(gater, an.Static("core.DutyType.Valid"), false) {
		a := an.Unwrap(g.Common().Args[0])
		isType := false
		switch x := a.(type) {
		case *ssa.Field:
			isType = an.FieldKey(x.X.Type(), x.Field) == "core.Duty.Type" && rootedAt(x.X, gater.Params[0])
		case *ssa.UnOp:
			if fa, ok := x.X.(*ssa.FieldAddr); ok && x.Op == token.MUL {
				isType = an.FieldKey(fa.X.Type(), fa.Field) == "core.Duty.Type" && rootedAt(fa.X, gater.Params[0])
			}
		}
		if isType {
			valid = append(valid, g)
		}
	}
	n := 0
	for _, r := range an.Returns(gater) {
		if len(r.Results) != 1 {
			continue
		}
		if k, ok := r.Results[0].(*ssa.Const); ok && k.Value != nil && !constant.BoolVal(k.Value) {
			continue
		}
		n++
		good, why := false, "the gater can allow a duty without testing duty.Type.Valid()"
		for _, g := range valid {
			ok, w := an.Guarded(g, r, an.BoolGuard(0, true))
			if ok {
				good = true
			} else {
				why = w
			}
		}
		c.Check("NewDutyGater closure allows only valid duty types", posOf(r), good, why)
	}
	if n == 0 {
		c.Bad("NewDutyGater closure allows only valid duty types", gater.Pos(), "the gater never allows anything (or its result is not recognised)")
	}
	// wiring: NewDutyGater → NewConsensusController → qbft.NewConsensus → Consensus.gaterFunc
	nc := c.Fn(c05Q + ".NewConsensus")
	var gp *ssa.Parameter
	for _, p := range nc.Params {
		if an.TypeName(p.Type()) == "core.DutyGaterFunc" {
			if gp != nil {
				c.Bail("NewConsensus: several DutyGaterFunc parameters")
			}
			gp = p
		}
	}
	if gp == nil {
		c.Bail("NewConsensus: no DutyGaterFunc parameter")
	}
	stored, pos := false, nc.Pos()
	for _, in := range an.Instrs(nc, false) {
		if st, ok := in.(*ssa.Store); ok {
			if fa, ok := st.Addr.(*ssa.FieldAddr); ok && an.FieldKey(fa.X.Type(), fa.Field) == c05Q+".Consensus.gaterFunc" {
				stored, pos = an.Unwrap(st.Val) == ssa.Value(gp), st.Pos()
			}
		}
	}
	c.Check("NewConsensus stores its gater parameter", pos, stored, "Consensus.gaterFunc is not the gater handed to NewConsensus")
	gidx := -1
	for i, p := range nc.Params {
		if p == gp {
			gidx = i
		}
	}
	ctl := c.Fn("core/consensus.NewConsensusController")
	var cp *ssa.Parameter
	for _, p := range ctl.Params {
		if an.TypeName(p.Type()) == "core.DutyGaterFunc" {
			cp = p
		}
	}
	call := c.OneCall(ctl, func(cc *ssa.CallCommon) bool { return cc.StaticCallee() == nc }, "qbft.NewConsensus", false)
	c.Check("NewConsensusController passes its gater to qbft.NewConsensus", call.Pos(), cp != nil && an.Unwrap(call.Common().Args[gidx]) == ssa.Value(cp),
		"qbft.NewConsensus does not receive the controller's gater")
	cidx := -1
	for i, p := range ctl.Params {
		if p == cp {
			cidx = i
		}
	}
	wire := c.Fn("app.wireCoreWorkflow")
	wcall := c.OneCall(wire, func(cc *ssa.CallCommon) bool { return cc.StaticCallee() == ctl }, "consensus.NewConsensusController", false)
	good := false
	if cidx >= 0 {
		if ex, ok := an.Unwrap(wcall.Common().Args[cidx]).(*ssa.Extract); ok && ex.Index == 0 {
			if gc, ok := ex.Tuple.(*ssa.Call); ok && gc.Call.StaticCallee() == ng {
				good, _ = an.Guarded(gc, wcall, an.DefaultGuard)
			}
		}
	}
	c.Check("wireCoreWorkflow wires core.NewDutyGater into consensus", wcall.Pos(), good, "the consensus gater is not the checked result of core.NewDutyGater")
}

// c05SameElem: a and b are the same value or loads of the same element coll[i].
func c05SameElem(a, b ssa.Value) bool {
	if a == b {
		return true
	}
	la, ok1 := a.(*ssa.UnOp)
	lb, ok2 := b.(*ssa.UnOp)
	if !ok1 || !ok2 || la.Op != token.MUL || lb.Op != token.MUL {
		return false
	}
	ia, ok1 := la.X.(*ssa.IndexAddr)
	ib, ok2 := lb.X.(*ssa.IndexAddr)
	return ok1 && ok2 && ia.X == ib.X && ia.Index == ib.Index
}

// c05LitFields resolves the values stored into the fields of a local struct (a composite literal,
// possibly copied into a named local and amended field by field). Keys are field names. A non-empty
// problem means the shape is not understood (the caller must not decide).
func c05LitFields(a *ssa.Alloc, depth int) (map[string]ssa.Value, string) {
	if depth > 3 {
		return nil, "copy chain too deep"
	}
	out := map[string]ssa.Value{}
	var base map[string]ssa.Value
	var whole *ssa.Store
	var fieldStores []*ssa.Store
	for _, ref := range *a.Referrers() {
		switch r := ref.(type) {
		case *ssa.FieldAddr:
			st, ok := r.X.Type().Underlying().(*types.Pointer).Elem().Underlying().(*types.Struct)
			if !ok {
				return nil, "not a struct"
			}
			name := st.Field(r.Field).Name()
			for _, r2 := range *r.Referrers() {
				switch x := r2.(type) {
				case *ssa.Store:
					if x.Addr != ssa.Value(r) {
						return nil, "address of field " + name + " is stored"
					}
					if _, dup := out[name]; dup {
						return nil, "field " + name + " is assigned more than once"
					}
					out[name] = x.Val
					fieldStores = append(fieldStores, x)
				case *ssa.UnOp:
				default:
					return nil, "address of field " + name + " escapes"
				}
			}
		case *ssa.Store:
			if r.Addr != ssa.Value(a) || whole != nil {
				return nil, "struct address is stored or the struct is assigned twice"
			}
			whole = r
		case *ssa.UnOp:
		case *ssa.DebugRef:
		default:
			return nil, "struct address escapes"
		}
	}
	if whole != nil {
		ld, ok := whole.Val.(*ssa.UnOp)
		if !ok || ld.Op != token.MUL {
			return nil, "struct is assigned from something other than a local literal"
		}
		src, ok := ld.X.(*ssa.Alloc)
		if !ok {
			return nil, "struct is assigned from something other than a local literal"
		}
		for _, fs := range fieldStores {
			if !an.Dominates(whole, fs) {
				return nil, "field assignment may precede the whole-struct assignment"
			}
		}
		var problem string
		base, problem = c05LitFields(src, depth+1)
		if problem != "" {
			return nil, problem
		}
		for k, v := range base {
			if _, ok := out[k]; !ok {
				out[k] = v
			}
		}
	}
	return out, ""
}

// c05StatusMerged: the status (error/bool result) of call g flows into a phi, i.e. it is merged with
// other values before being tested; dominance-based guard checking cannot decide such code.
func c05StatusMerged(g ssa.CallInstruction) bool {
	v := g.Value()
	if v == nil {
		return false
	}
	vals := []ssa.Value{v}
	for _, ref := range *v.Referrers() {
		if ex, ok := ref.(*ssa.Extract); ok {
			vals = append(vals, ex)
		}
	}
	for _, x := range vals {
		for _, ref := range *x.Referrers() {
			if _, ok := ref.(*ssa.Phi); ok {
				return true
			}
		}
	}
	return false
}

// c05Delegated names an in-package helper (other than the known guards) with an error result that is a
// checked guard of the sink and receives the request or its justification list: the per-justification
// checks may have been moved there, which this intraprocedural rule cannot follow.
func c05Delegated(e *c05env, h *c05Handle, sink ssa.Instruction) string {
	known := map[string]bool{c05Q + ".verifyMsg": true, c05Q + ".verifyMsgLimits": true, c05Q + ".valuesByHash": true, c05Q + ".newMsg": true}
	for _, in := range an.Instrs(h.fn, false) {
		call, ok := in.(*ssa.Call)
		if !ok || call.Call.IsInvoke() || call.Call.StaticCallee() == nil {
			continue
		}
		callee := call.Call.StaticCallee()
		if callee.Pkg == nil || callee.Pkg != h.fn.Pkg || known[an.FuncName(callee)] {
			continue
		}
		takes := false
		for _, a := range call.Call.Args {
			if an.Unwrap(a) == h.pb {
				takes = true
			}
			if b, ok := e.read(a, "QBFTConsensusMsg.Justification"); ok && b == h.pb {
				takes = true
			}
		}
		if !takes {
			continue
		}
		if ok, _ := an.Guarded(call, sink, an.DefaultGuard); ok {
			return an.FuncName(callee)
		}
	}
	return ""
}
