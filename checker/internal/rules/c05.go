package rules

import (
	"go/constant"
	"go/token"
	"go/types"
	"regexp"
	"strings"

	"golang.org/x/tools/go/ssa"

	"charonverif/internal/an"
	"charonverif/internal/rt"
)

// The C05 rules are formulated over *terms* and *established facts* (internal/an/h05_ext.go) rather
// than over the instruction shapes of today's functions:
//
//   - every value a rule talks about (the request, its Msg / Justification / Values parts, the duty, the
//     key table) is a canonical term in the space of the anchor function; a helper's parameter is the
//     argument it was called with, a getter is the field it returns, a local kept in memory is the value
//     stored into it;
//   - "check K passed before the sink" means: K (on the right terms) dominates the sink and with K failing
//     the sink is unreachable — decided by valuation-driven path search (named bools, switches, phis,
//     inverted polarity and explicit/early returns are all the same to it) — or a helper whose own status
//     is checked establishes it at each of its successful returns, or it is established at the call site
//     of the helper the sink lives in;
//   - "for every justification" means a loop recognised as visiting every element once (range or index
//     form, also with a compound condition `err == nil && i < len(x)`) in which no iteration goes on to the
//     next element without establishing the fact and which cannot be left early towards the sink;
//   - the path search is path-sensitive (h05_ext.go, h05walker): phis by the edge taken, locals kept in
//     memory, what the branches taken imply — so an error accumulated in a variable and tested later
//     (single-exit style) is the same as an early return; a variable assigned on some paths only is, at a
//     point of use, the value of the paths that can reach it (TermAt);
//   - a parameter object (`in := &inbound{c: c, pbMsg: pbMsg}` handed to helper methods) is looked through:
//     a field read is the single value stored into the field before the read (objField);
//   - the count limits and the signature comparison are stated on their primitives (comparisons of
//     len(Justification)/len(Values) with a bound; IsEqual(k1util.Recover(hashProto(clone), msg.Signature),
//     pubkeys[msg.PeerIdx])), not on the helpers that hold them today; private fields are identified by
//     their type, renamed anchor functions by their signature.
//
// An unrecognised shape (a value the engine cannot trace, a loop it cannot classify) ends UNDECIDED; a
// VIOLATION is only reported when a path or a precisely known different value is exhibited.

const (
	c05Q  = "core/consensus/qbft"
	c05PB = "core/corepb/v1"
)

func c05(c *rt.Ctx) {
	e := &c05env{c: c}
	c05ResolveAnchors(c)
	// a rule whose anchor function is found neither by name nor by signature is undecided as a whole: the
	// absence of calls to a function that does not exist is no evidence
	need := func(roles ...string) {
		for _, r := range roles {
			if c.FnOpt(c05N(r)) == nil {
				c.Bail("anchor function %s.%s not found (renamed or removed, and not identifiable by its signature)", c05Q, r)
			}
		}
	}
	c.Rule("A1", 11, func() {
		need("Consensus.handle", "verifyMsg", "valuesByHash", "newMsg", "Consensus.getRecvBuffer")
		c05A1(e)
	})
	c.Rule("A2", 13, func() { need("verifyMsgSig", "signMsg", "hashProto"); c05A2(e) })
	c.Rule("A3", 10, func() {
		need("Consensus.handle", "verifyMsg", "valuesByHash", "newMsg", "hashProto", "toHash32")
		c05A3(e)
	})
	c.Rule("A4", 9, func() { need("verifyMsg", "hashProto"); c05A4(e) })
	c.Rule("A5", 4, func() { c05A5(e) })
	c.Rule("A6", 4, func() { c05A6(e) })
	c.Rule("A7", 2, func() {
		need("Consensus.handle", "verifyMsg", "valuesByHash", "newMsg", "Consensus.getRecvBuffer")
		c05A7(e)
	})
}

// ---------------------------------------------------------------------------------------------
// shared helpers

type c05env struct {
	c  *rt.Ctx
	en *an.H05
	// helpers found to build the Msg returned by newMsg (their field provenance is checked with it)
	builders []c05builder
	// helpers newMsg hands its whole job to (c05n5_delegate.go) and the parameter values known in the
	// activation being checked
	delegates []c05delegate
	bind      an.H05Env
	tag       string
	vague     bool // a parameter of the activation being checked has a value the checker knows nothing about
}

// c05builder is a call of a helper that builds a Msg from a wire message: callee and argument terms.
type c05builder struct {
	name string
	args []*an.H05Term
}

// c05anyQ holds if one of its alternatives does.
type c05anyQ struct{ qs []an.H05Query }

func (q *c05anyQ) ID() string {
	s := "c05any"
	for _, x := range q.qs {
		s += "[" + x.ID() + "]"
	}
	return s
}

func (q *c05anyQ) Direct(en *an.H05, site ssa.Instruction, f *an.H05Frame, acc an.H05Accept) an.H05Verdict {
	var best an.H05Verdict
	for i, x := range q.qs {
		v := x.Direct(en, site, f, acc)
		if v.Yes {
			return v
		}
		if i == 0 {
			best = v
		} else {
			best = c05Better(best, v)
		}
	}
	return best
}

// c05Subst replaces every occurrence of from in t by to.
func c05Subst(t, from, to *an.H05Term) *an.H05Term {
	if t == nil {
		return nil
	}
	if an.H05Same(t, from) {
		return to
	}
	if len(t.Args) == 0 {
		return t
	}
	args := make([]*an.H05Term, len(t.Args))
	for i, a := range t.Args {
		args[i] = c05Subst(a, from, to)
	}
	n := an.H05T(t.Op, t.Name, args...)
	n.Val, n.Frame = t.Val, t.Frame
	return n
}

// The functions the rules make statements about (never looked through when building terms). They are found
// under their conventional names; a renamed one is identified by its signature if that is unique in the
// package (the handler: by being the one registered with p2p.RegisterHandler).
var c05AnchorRoles = []string{"verifyMsg", "verifyMsgLimits", "valuesByHash", "newMsg", "hashProto", "verifyMsgSig", "signMsg", "toHash32",
	"Consensus.getRecvBuffer", "Consensus.handle"}

// c05Sigs: parameter types -> result types of the anchors (package paths shortened to their last element).
var c05Sigs = map[string]string{
	"verifyMsg":               "*v1.QBFTMsg,map[int64]*v4.PublicKey->error",
	"valuesByHash":            "[]*anypb.Any->map[[32]byte]*anypb.Any,error",
	"newMsg":                  "*v1.QBFTMsg,[]*v1.QBFTMsg,map[[32]byte]*anypb.Any->qbft.Msg,error",
	"hashProto":               "proto.Message->[32]byte,error",
	"verifyMsgSig":            "*v1.QBFTMsg,*v4.PublicKey->bool,error",
	"signMsg":                 "*v1.QBFTMsg,*v4.PrivateKey->*v1.QBFTMsg,error",
	"toHash32":                "[]byte->[32]byte,bool",
	"Consensus.getRecvBuffer": "*qbft.Consensus,core.Duty->chan qbft.Msg",
}

var c05Names = map[string]string{}

// c05N is the full name of the function playing the given role.
func c05N(role string) string {
	if n, ok := c05Names[role]; ok {
		return n
	}
	return c05Q + "." + role
}

var c05PathRe = regexp.MustCompile(`[A-Za-z0-9_.\-]+/`)

func c05SigKey(fn *ssa.Function) string {
	short := func(t types.Type) string { return c05PathRe.ReplaceAllString(types.TypeString(t, nil), "") }
	var ps, rs []string
	for _, p := range fn.Params {
		ps = append(ps, short(p.Type()))
	}
	res := fn.Signature.Results()
	for i := 0; i < res.Len(); i++ {
		rs = append(rs, short(res.At(i).Type()))
	}
	return strings.Join(ps, ",") + "->" + strings.Join(rs, ",")
}

// c05ResolveAnchors fills c05Names for anchors that are not found under their conventional names.
func c05ResolveAnchors(c *rt.Ctx) {
	c05Names = map[string]string{}
	var funcs []*ssa.Function
	for _, role := range c05AnchorRoles {
		if c.FnOpt(c05Q+"."+role) != nil {
			continue
		}
		if funcs == nil {
			for _, fn := range an.PkgFuncs(c.SSAPkg(c05Q)) {
				if fn.Parent() == nil {
					funcs = append(funcs, fn)
				}
			}
		}
		var hits []*ssa.Function
		if role == "Consensus.handle" {
			// the function value registered as the stream handler
			if reg := c.FnOpt("p2p.RegisterHandler"); reg != nil {
				for _, fn := range funcs {
					for _, call := range c05CallsTo(fn, reg) {
						if len(call.Call.Args) >= 5 {
							for _, h := range an.FuncValues(call.Call.Args[4]) {
								hits = append(hits, an.Orig(h))
							}
						}
					}
				}
			}
		} else if want, ok := c05Sigs[role]; ok {
			for _, fn := range funcs {
				if c05SigKey(fn) == want {
					hits = append(hits, fn)
				}
			}
		}
		if len(hits) == 1 {
			c05Names[role] = an.FuncName(hits[0])
		}
	}
}

func (e *c05env) engine() *an.H05 {
	if e.en == nil {
		e.en = an.NewH05(e.c.SSAPkg(c05Q), e.c.SSAPkg(c05PB))
		for _, role := range c05AnchorRoles {
			e.en.Anchors[c05N(role)] = true
		}
	}
	return e.en
}

// c05FieldByType names the field of struct `typ` of the qbft package whose type satisfies match (private
// fields are identified by what they hold, not by what they are called); the conventional name is used when
// the type does not single one out.
func c05FieldByType(c *rt.Ctx, typ, conventional string, match func(t string) bool) string {
	obj := c.Pkg(c05Q).Types.Scope().Lookup(typ)
	if obj == nil {
		c.Bail("type %s.%s not found", c05Q, typ)
	}
	st, ok := obj.Type().Underlying().(*types.Struct)
	if !ok {
		c.Bail("%s.%s is not a struct", c05Q, typ)
	}
	var hits []string
	have := false
	for i := 0; i < st.NumFields(); i++ {
		f := st.Field(i)
		if f.Name() == conventional {
			have = true
		}
		if match(types.TypeString(f.Type(), nil)) {
			hits = append(hits, f.Name())
		}
	}
	if len(hits) == 1 {
		return hits[0]
	}
	if !have {
		c.Bail("%s.%s: the field holding the %s cannot be identified", c05Q, typ, conventional)
	}
	return conventional
}

func c05ConsFields(c *rt.Ctx) (pubkeys, peers, gater, deadliner string) {
	pubkeys = c05FieldByType(c, "Consensus", "pubkeys", func(t string) bool {
		return strings.HasPrefix(t, "map[int64]*") && strings.HasSuffix(t, ".PublicKey")
	})
	peers = c05FieldByType(c, "Consensus", "peers", func(t string) bool { return strings.HasPrefix(t, "[]") && strings.HasSuffix(t, "/p2p.Peer") })
	gater = c05FieldByType(c, "Consensus", "gaterFunc", func(t string) bool { return strings.HasSuffix(t, "/core.DutyGaterFunc") })
	deadliner = c05FieldByType(c, "Consensus", "deadliner", func(t string) bool { return strings.HasSuffix(t, "/core.Deadliner") })
	return
}

// c05MsgFieldRole maps the fields of qbft.Msg to their roles (msg, values, justificationProtos, justification,
// valueHash, preparedValueHash) by type and — for the two hashes — by the accessor that returns them.
func c05MsgFieldRole(e *c05env) map[string]string {
	c := e.c
	role := map[string]string{}
	role[c05FieldByType(c, "Msg", "msg", func(t string) bool { return strings.HasPrefix(t, "*") && strings.HasSuffix(t, "/"+c05PB+".QBFTMsg") })] = "msg"
	role[c05FieldByType(c, "Msg", "values", func(t string) bool { return strings.HasPrefix(t, "map[[32]byte]*") })] = "values"
	role[c05FieldByType(c, "Msg", "justificationProtos", func(t string) bool {
		return strings.HasPrefix(t, "[]*") && strings.HasSuffix(t, "/"+c05PB+".QBFTMsg")
	})] = "justificationProtos"
	role[c05FieldByType(c, "Msg", "justification", func(t string) bool { return strings.HasPrefix(t, "[]") && strings.Contains(t, "/core/qbft.Msg[") })] = "justification"
	// the hashes: what Value() / PreparedValue() return
	en := e.engine()
	for acc, r := range map[string]string{"Value": "valueHash", "PreparedValue": "preparedValueHash"} {
		fn := c.Fn(c05Q + ".Msg." + acc)
		root := en.Root(fn)
		for _, ret := range an.Returns(fn) {
			if len(ret.Results) != 1 {
				continue
			}
			t := en.Term(ret.Results[0], root)
			if t.Is("field") && strings.HasPrefix(t.Name, c05Q+".Msg.") {
				role[strings.TrimPrefix(t.Name, c05Q+".Msg.")] = r
			}
		}
	}
	return role
}

// c05CallsTo returns the plain calls (not go/defer) in fn whose static callee is target.
func c05CallsTo(fn, target *ssa.Function) []*ssa.Call {
	var out []*ssa.Call
	for _, in := range an.Instrs(fn, false) {
		if call, ok := in.(*ssa.Call); ok && !call.Call.IsInvoke() && call.Call.StaticCallee() == target {
			out = append(out, call)
		}
	}
	return out
}

// c05Extract returns the `extract tuple #idx` value (nil if the component is unused).
func c05Extract(tuple ssa.Value, idx int) ssa.Value {
	if tuple == nil || tuple.Referrers() == nil {
		return nil
	}
	for _, ref := range *tuple.Referrers() {
		if ex, ok := ref.(*ssa.Extract); ok && ex.Index == idx {
			return ex
		}
	}
	return nil
}

func c05IsNilErr(v ssa.Value) bool {
	k, ok := v.(*ssa.Const)
	return ok && k.Value == nil
}

// site is an instruction together with the activation it belongs to.
type c05site struct {
	in ssa.Instruction
	f  *an.H05Frame
}

// c05Find lists the calls to the named function reachable from root.
func c05Find(en *an.H05, root *an.H05Frame, name string) []c05site {
	var out []c05site
	en.Walk(root, func(in ssa.Instruction, f *an.H05Frame) {
		if g, ok := in.(*ssa.Call); ok && an.H05CalleeIs(g, name) {
			out = append(out, c05site{g, f})
		}
	})
	return out
}

// c05One returns the single call to name reachable from root or bails.
func c05One(c *rt.Ctx, en *an.H05, root *an.H05Frame, name, short string) (*ssa.Call, *an.H05Frame) {
	s := c05Find(en, root, name)
	if len(s) != 1 {
		c.Bail("%s: expected exactly one call to %s (in the function or the helpers it calls), found %d", short, name, len(s))
	}
	return s[0].in.(*ssa.Call), s[0].f
}

// report turns a verdict into an obligation.
func c05Report(c *rt.Ctx, construct string, pos token.Pos, v an.H05Verdict, okDetail string) bool {
	switch {
	case v.Yes:
		p := pos
		if v.Wit != nil && v.Wit.Pos().IsValid() {
			p = v.Wit.Pos()
		}
		c.Good(construct, p, okDetail)
		return true
	case v.Unsure:
		c.Unsure(construct, pos, v.Why)
	default:
		c.Bad(construct, pos, v.Why)
	}
	return false
}

// c05CallQ builds the query "a call to the named static function on the given argument terms succeeded".
// A call to the function on arguments the engine could not trace makes a missing fact undecided.
func c05CallQ(name string, spec an.H05Spec, missing string, args ...*an.H05Term) *c05callQ {
	return &c05callQ{name: name, spec: spec, missing: missing, args: args,
		callee: func(en *an.H05, g *ssa.Call, f *an.H05Frame) bool { return an.H05CalleeIs(g, name) }}
}

type c05callQ struct {
	name    string
	spec    an.H05Spec
	missing string
	args    []*an.H05Term // nil entries match anything
	callee  func(en *an.H05, g *ssa.Call, f *an.H05Frame) bool
	argsOf  func(g *ssa.Call) []ssa.Value // default: g.Call.Args
}

func (q *c05callQ) ID() string {
	s := "c05call:" + q.name
	for _, a := range q.args {
		s += "|" + a.Key()
	}
	return s
}

func (q *c05callQ) Direct(en *an.H05, site ssa.Instruction, f *an.H05Frame, acc an.H05Accept) an.H05Verdict {
	best := an.H05Verdict{Why: q.missing}
	for _, b := range f.Fn.Blocks {
		for _, in := range b.Instrs {
			g, ok := in.(*ssa.Call)
			if !ok || !q.callee(en, g, f) {
				continue
			}
			args := g.Call.Args
			if q.argsOf != nil {
				args = q.argsOf(g)
			}
			if len(args) != len(q.args) {
				continue
			}
			match, untraced := true, false
			for i, w := range q.args {
				if w == nil {
					continue
				}
				t := en.TermAt(args[i], f, g, f)
				if t.Key() != w.Key() {
					match = false
					untraced = untraced || t.Untraced()
				}
			}
			if !match {
				if untraced {
					best = c05Better(best, an.H05Verdict{Unsure: true, Cand: true, Why: q.name + " is applied to a value the checker cannot trace back to the request"})
				} else if !best.Cand {
					best.Why = q.missing + " (" + q.name + " is applied to something else)"
				}
				continue
			}
			v := en.Checked(g, q.spec, site, acc)
			if v.Yes {
				v.WitFrame = f
				return v
			}
			best = c05Better(best, v)
		}
	}
	return best
}

func c05Rank(v an.H05Verdict) int {
	switch {
	case v.Yes:
		return 4
	case v.Unsure:
		return 3
	case v.Cand:
		return 2
	case v.Why != "":
		return 1
	}
	return 0
}

func c05Better(a, b an.H05Verdict) an.H05Verdict {
	if c05Rank(b) > c05Rank(a) {
		return b
	}
	return a
}

// ---------------------------------------------------------------------------------------------
// A1: nothing is sent to the per-duty receive buffer unless every check passed

type c05sink struct {
	in      ssa.Instruction
	f       *an.H05Frame
	ch, val ssa.Value
}

func c05MsgChan(t types.Type) bool {
	ch, ok := t.Underlying().(*types.Chan)
	return ok && an.TypeName(ch.Elem()) == c05Q+".Msg" && !c05IsPtr(ch.Elem())
}

func c05IsPtr(t types.Type) bool { _, ok := t.(*types.Pointer); return ok }

// c05Handle bundles the resolved entities of Consensus.handle shared by A1 and A3.
type c05Handle struct {
	fn    *ssa.Function
	root  *an.H05Frame
	sinks []c05sink
	// terms
	recv, pb, msg, just, values, duty, pubkeys, peers, gater, deadliner *an.H05Term
	// a dynamic call other than the gater / deadliner receives (part of) the request: it may hold checks
	untraced string
}

func c05SendsIn(fn *ssa.Function) bool {
	for _, in := range an.Instrs(fn, true) {
		switch x := in.(type) {
		case *ssa.Send:
			if c05MsgChan(x.Chan.Type()) {
				return true
			}
		case *ssa.Select:
			for _, st := range x.States {
				if st.Dir == types.SendOnly && c05MsgChan(st.Chan.Type()) {
					return true
				}
			}
		}
	}
	return false
}

func c05ResolveHandle(e *c05env) *c05Handle {
	c := e.c
	en := e.engine()
	h := &c05Handle{fn: c.Fn(c05N("Consensus.handle"))}
	h.root = en.Root(h.fn)
	if len(h.fn.Params) < 2 {
		c.Bail("handle: unexpected signature")
	}
	h.recv = en.Term(h.fn.Params[0], h.root)
	visited := map[*ssa.Function]bool{}
	// the request: the parameter asserted to *QBFTConsensusMsg (in handle or a helper it calls)
	en.Walk(h.root, func(in ssa.Instruction, f *an.H05Frame) {
		visited[f.Fn] = true
		ta, ok := in.(*ssa.TypeAssert)
		if !ok || an.TypeName(ta.AssertedType) != c05PB+".QBFTConsensusMsg" {
			return
		}
		var v ssa.Value = ta
		if ta.CommaOk {
			if v = c05Extract(ta, 0); v == nil {
				return
			}
		}
		t := en.Term(v, f)
		if len(t.Args) != 1 || !t.Args[0].Is("param") || t.Args[0].Frame != h.root {
			return
		}
		if h.pb != nil && !an.H05Same(h.pb, t) {
			c.Bail("handle: more than one parameter is asserted to *QBFTConsensusMsg")
		}
		h.pb = t
	})
	if h.pb == nil {
		c.Bail("handle: request is not asserted to *QBFTConsensusMsg")
	}
	fld := func(typ, f string, base *an.H05Term) *an.H05Term { return an.H05Field(typ+"."+f, base) }
	h.msg = fld(c05PB+".QBFTConsensusMsg", "Msg", h.pb)
	h.just = fld(c05PB+".QBFTConsensusMsg", "Justification", h.pb)
	h.values = fld(c05PB+".QBFTConsensusMsg", "Values", h.pb)
	h.duty = an.H05CallT("core.DutyFromProto", fld(c05PB+".QBFTMsg", "Duty", h.msg))
	fPubkeys, fPeers, fGater, fDeadliner := c05ConsFields(c)
	h.pubkeys = fld(c05Q+".Consensus", fPubkeys, h.recv)
	h.peers = fld(c05Q+".Consensus", fPeers, h.recv)
	gater := fld(c05Q+".Consensus", fGater, h.recv)
	deadliner := fld(c05Q+".Consensus", fDeadliner, h.recv)
	h.gater, h.deadliner = gater, deadliner

	// inside the anchor functions (verifyMsg, newMsg, …) nothing is looked for: their bodies are the
	// subject of their own rules
	inAnchor := func(f *an.H05Frame) bool {
		for g := f; g != nil && g.Parent != nil; g = g.Parent {
			if en.Anchors[an.FuncName(g.Fn)] {
				return true
			}
		}
		return false
	}
	en.Walk(h.root, func(in ssa.Instruction, f *an.H05Frame) {
		if inAnchor(f) {
			return
		}
		switch x := in.(type) {
		case *ssa.Send:
			if c05MsgChan(x.Chan.Type()) {
				h.sinks = append(h.sinks, c05sink{x, f, x.Chan, x.X})
			}
		case *ssa.Select:
			for _, st := range x.States {
				if st.Dir == types.SendOnly && c05MsgChan(st.Chan.Type()) {
					h.sinks = append(h.sinks, c05sink{x, f, st.Chan, st.Send})
				}
			}
		case ssa.CallInstruction:
			cc := x.Common()
			if cc.StaticCallee() != nil {
				if _, isB := cc.Value.(*ssa.Builtin); !isB && en.Child(f, x) == nil && !cc.IsInvoke() {
					// a static callee that is not followed: only in-package ones could hold the checks
					if callee := cc.StaticCallee(); callee.Pkg == h.fn.Pkg && !en.Anchors[an.FuncName(callee)] {
						for _, a := range cc.Args {
							if t := en.Term(a, f); t.Contains(h.pb) {
								h.untraced = an.FuncName(callee)
							}
						}
					}
				}
				return
			}
			if _, isB := cc.Value.(*ssa.Builtin); isB {
				return
			}
			vt := en.Term(cc.Value, f)
			if an.H05Same(vt, gater) || (cc.IsInvoke() && an.H05Same(vt, deadliner)) {
				return
			}
			for _, a := range cc.Args {
				if t := en.Term(a, f); t.Contains(h.pb) {
					if n := an.CalleeName(cc); n != "" {
						h.untraced = "a call through " + n
					} else {
						h.untraced = "a dynamically chosen function"
					}
				}
			}
		case *ssa.Store:
			// the checks and the uses read the request separately: nothing may write to it in between
			if t := en.Term(x.Addr, f); (t.Is("fieldaddr") || t.Is("indexaddr") || t.Is("addrof")) && c05PartOf(t, h.pb) {
				c.Unsure("handle request is not modified", x.Pos(), "handle (or a helper) writes into the request message; checks and later reads may see different values")
			}
		}
	})
	// sends from function literals that are not called directly cannot be ordered against the checks
	for fn := range visited {
		for _, a := range fn.AnonFuncs {
			if visited[a] {
				continue
			}
			if c05SendsIn(a) {
				c.Unsure("handle send in closure", a.Pos(), "a Msg is sent from a function literal that is not called directly; dominance by the checks cannot be decided")
			}
			// a literal that is stored or handed to other code (a list of checks, a worker pool) and calls
			// into the package may hold the checks
			for _, in := range an.Instrs(a, true) {
				if ci, ok := in.(ssa.CallInstruction); ok {
					if callee := ci.Common().StaticCallee(); callee != nil && callee.Pkg == h.fn.Pkg {
						h.untraced = "a function literal that is not called directly"
					}
				}
			}
		}
	}
	if len(h.sinks) == 0 {
		c.Bail("handle: no send of a Msg to a receive buffer found")
	}
	return h
}

// c05PartOf: the term selects a part (field, element, address of one) of the object obj itself — not of a
// copy or of a value computed from it.
func c05PartOf(t, obj *an.H05Term) bool {
	for i := 0; i < 12 && t != nil; i++ {
		if an.H05Same(t, obj) {
			return true
		}
		switch t.Op {
		case "fieldaddr", "field", "indexaddr", "index", "elem", "addrof", "deref":
			if len(t.Args) == 0 {
				return false
			}
			t = t.Args[0]
		default:
			return false
		}
	}
	return false
}

// est evaluates a query at a sink (through helper summaries and up the call chain) and downgrades a plain
// "not found" to undecided when part of the request is handed to code the engine cannot see into.
func (h *c05Handle) est(en *an.H05, q an.H05Query, in ssa.Instruction, f *an.H05Frame) an.H05Verdict {
	v := en.Established(q, in, f, nil, true)
	if !v.Yes && !v.Unsure && !v.Cand && h.untraced != "" {
		v.Unsure = true
		v.Why = v.Why + "; the request is handed to " + h.untraced + ", which the checker cannot look into"
	}
	return v
}

func c05A1(e *c05env) {
	c := e.c
	en := e.engine()
	h := c05ResolveHandle(e)
	g := c05BuildGuards(e, h)
	built := g.built
	qMain, qGater, qJust, qDuty, qValues, qBuilt, qDeadline := g.main, g.gater, g.just, g.duty, g.values, g.newMsg, g.deadline
	limitsAt := g.limitsAt

	for _, sk := range h.sinks {
		sink, f := sk.in, sk.f
		pos := posOf(sink)
		c05Report(c, "handle verifyMsg(msg)→recvBuffer", pos, h.est(en, qMain, sink, f), "checked guard dominates the send")
		c05Report(c, "handle gaterFunc(duty)→recvBuffer", pos, h.est(en, qGater, sink, f), "checked guard dominates the send")
		limits := limitsAt(sink, f)
		c05Report(c, "handle verifyMsgLimits(pbMsg)→recvBuffer", pos, limits, "checked guard dominates the send")

		jv := h.est(en, qJust, sink, f)
		c05Report(c, "handle forall justification verifyMsg→recvBuffer", pos, jv, "every justification passes verifyMsg before the send")
		if limits.Yes && jv.Yes && jv.Wit != nil {
			// the limits are checked before the per-justification signature work
			lv := limitsAt(jv.Wit, jv.WitFrame)
			if !lv.Yes && !lv.Unsure {
				lv.Why = "the count limits do not guard the per-justification verification: " + lv.Why
			}
			c05Report(c, "handle verifyMsgLimits before justification loop", pos, lv, "")
		}
		c05Report(c, "handle forall justification duty==msg duty→recvBuffer", pos, h.est(en, qDuty, sink, f), "every justification's duty equals the message duty")
		c05Report(c, "handle valuesByHash(values)→recvBuffer", pos, h.est(en, qValues, sink, f), "checked guard dominates the send")
		c05Report(c, "handle newMsg(msg,justification,values)→recvBuffer", pos, h.est(en, qBuilt, sink, f), "checked guard dominates the send")
		dv := h.est(en, qDeadline, sink, f)
		if !dv.Yes && !dv.Unsure && dv.Cand && strings.Contains(dv.Why, "reachable although") {
			dv.Why = "the send is reachable when deadliner.Add reports DeadlineExpired"
		}
		c05Report(c, "handle deadliner.Add(duty) expired→no send", pos, dv, "")

		// the value sent and the buffer it is sent to
		sent := en.TermAt(sk.val, f, sink, f)
		switch {
		case an.H05Same(sent, built):
			c.Good("handle sent value is newMsg result", pos, "")
		case sent.Untraced():
			c.Unsure("handle sent value is newMsg result", pos, "the value sent cannot be traced to its origin")
		default:
			c.Bad("handle sent value is newMsg result", pos, "the Msg sent to the receive buffer is not the result of the checked newMsg call")
		}
		ch := en.TermAt(sk.ch, f, sink, f)
		switch {
		case an.H05Same(ch, an.H05CallT(c05N("Consensus.getRecvBuffer"), h.recv, h.duty)):
			c.Good("handle buffer is getRecvBuffer(msg duty)", pos, "")
		case ch.Untraced():
			c.Unsure("handle buffer is getRecvBuffer(msg duty)", pos, "the channel cannot be traced to its origin")
		default:
			c.Bad("handle buffer is getRecvBuffer(msg duty)", pos, "the channel is not c.getRecvBuffer(duty) for the duty of the verified message")
		}
	}
}

// c05boundQ: an upper bound on len(coll) is enforced — a relational comparison of len(coll) with a bound
// dominates the site and with the length on the "too many" side of it the site is unreachable. The bound
// is expected to be computed from one of the `by` terms (the cluster size, the number of justifications).
type c05boundQ struct {
	coll *an.H05Term
	what string
	by   []*an.H05Term
	req  *an.H05Term // the request the collection is part of
}

func (q *c05boundQ) ID() string { return "c05bound:" + q.coll.Key() }

func c05Ungrounded(t *an.H05Term) bool {
	if t == nil || t.Op == "opaque" || t.Op == "fresh" {
		return true
	}
	for _, a := range t.Args {
		if c05Ungrounded(a) {
			return true
		}
	}
	return false
}

func (q *c05boundQ) Direct(en *an.H05, site ssa.Instruction, f *an.H05Frame, acc an.H05Accept) an.H05Verdict {
	best := an.H05Verdict{Why: "the number of " + q.what + "s is not bounded before the per-element work: no comparison of len(" + q.what + "s) with a limit rejects the message"}
	lenT := an.H05T("builtin", "len", q.coll)
	sees := false // the function works on the request
	for _, p := range f.Fn.Params {
		if t := en.Term(p, f); t.Contains(q.req) || t.Contains(q.coll) {
			sees = true
		}
	}
	for _, b := range f.Fn.Blocks {
		for _, in := range b.Instrs {
			if v, ok := in.(ssa.Value); ok && !sees {
				if _, isTA := in.(*ssa.TypeAssert); isTA && en.Term(v, f).Contains(q.req) {
					sees = true
				}
			}
		}
	}
	// the bound test of a loop over the collection itself (`i < len(coll)`) limits nothing
	loopTest := map[ssa.Value]bool{}
	for _, l := range an.Loops(f.Fn) {
		if r := en.RangeOf(l); r != nil && r.Test != nil {
			if iff, ok := r.Test.Instrs[len(r.Test.Instrs)-1].(*ssa.If); ok {
				loopTest[iff.Cond] = true
			}
		}
	}
	for _, b := range f.Fn.Blocks {
		for _, in := range b.Instrs {
			bin, ok := in.(*ssa.BinOp)
			if !ok || loopTest[bin] {
				continue
			}
			var tooManyIfTrue bool
			switch bin.Op {
			case token.GTR, token.GEQ:
				tooManyIfTrue = true
			case token.LSS, token.LEQ:
			default:
				continue
			}
			x, y := en.Term(bin.X, f), en.Term(bin.Y, f)
			var bound *an.H05Term
			switch {
			case an.H05Same(x, lenT):
				bound = y
			case an.H05Same(y, lenT):
				bound, tooManyIfTrue = x, !tooManyIfTrue
			default:
				if sees && (c05Ungrounded(x) || c05Ungrounded(y)) {
					best = c05Better(best, an.H05Verdict{Unsure: true, Why: "a count is compared with a limit through values the checker cannot trace (a table of limits, a merged variable); whether it bounds the number of " + q.what + "s is not decided"})
				}
				continue
			}
			if !en.Dom(bin, site, acc) {
				best = c05Better(best, an.H05Verdict{Cand: true, Why: "the limit on the number of " + q.what + "s does not dominate the site"})
				continue
			}
			reach, imp := en.ReachUnder(bin, site, an.H05Env{bin: an.H05ConstAbs(constant.MakeBool(tooManyIfTrue))}, acc)
			switch {
			case reach && imp:
				best = c05Better(best, an.H05Verdict{Unsure: true, Cand: true, Why: "the limit test on the number of " + q.what + "s is evaluated in a way the checker cannot follow"})
				continue
			case reach:
				best = c05Better(best, an.H05Verdict{Cand: true, Why: "the site is reachable although the number of " + q.what + "s exceeds the limit"})
				continue
			}
			derived := false
			for _, by := range q.by {
				derived = derived || bound.Contains(by)
			}
			if !derived {
				best = c05Better(best, an.H05Verdict{Unsure: true, Cand: true, Why: "the limit on the number of " + q.what + "s is not visibly derived from the cluster size / the justification count"})
				continue
			}
			return an.H05Verdict{Yes: true, Cand: true, Wit: bin, WitFrame: f}
		}
	}
	return best
}

// ---------------------------------------------------------------------------------------------
// A2: the signature covers every field of the message

const (
	c05Clone   = "google.golang.org/protobuf/proto.Clone"
	c05Marshal = "google.golang.org/protobuf/proto.MarshalOptions.Marshal"
	c05Hasher  = "github.com/ferranbt/fastssz.Hasher"
)

// c05SignedClone checks, in verifyMsgSig/signMsg (and the helpers they call), that the value hashed is
// proto.Clone(msg) with only Signature cleared. Returns the hashProto call, its frame and the term of the
// clone (nil if it is not the clone).
func c05SignedClone(e *c05env, root *an.H05Frame, short string) (hp *ssa.Call, hf *an.H05Frame, clone *an.H05Term) {
	c := e.c
	en := e.engine()
	hp, hf = c05One(c, en, root, c05N("hashProto"), short)
	msgT := en.Term(root.Fn.Params[0], root)
	// proto.Clone(msg).(*QBFTMsg) or the generic proto.CloneOf(msg)
	want := an.H05T("assert", "*"+c05PB+".QBFTMsg", an.H05CallT(c05Clone, msgT))
	arg := en.Term(hp.Call.Args[0], hf)
	if an.H05Same(arg, an.H05CallT(c05Clone+"Of", msgT)) {
		want = arg
	}
	switch {
	case an.H05Same(arg, want):
		c.Good(short+" hashes proto.Clone(msg)", hp.Pos(), "")
	case arg.Untraced():
		c.Unsure(short+" hashes proto.Clone(msg)", hp.Pos(), "the value given to hashProto cannot be traced to its origin")
		return hp, hf, nil
	default:
		c.Bad(short+" hashes proto.Clone(msg)", hp.Pos(), "the value given to hashProto is not the proto.Clone of the whole message parameter")
		return hp, hf, nil
	}
	// the life of the object hashed: from its creation (in the hashing function or in a helper that
	// returns it) up to the hashProto call
	type stage struct {
		obj   ssa.Value
		until ssa.Instruction
	}
	var stages []stage
	{
		var origin *an.H05Origin
		for _, o := range en.Origins(hp.Call.Args[0], hf) {
			o := o
			if o.Zero {
				continue
			}
			if origin != nil {
				c.Unsure(short+" only Signature cleared before hashing", hp.Pos(), "the value hashed has more than one origin")
				return hp, hf, want
			}
			origin = &o
		}
		local := en.Resolve(hp.Call.Args[0])
		switch {
		case origin == nil:
			c.Unsure(short+" only Signature cleared before hashing", hp.Pos(), "the origin of the value hashed was not found")
			return hp, hf, want
		case origin.Frame == hf:
			stages = []stage{{origin.Val, hp}}
		case origin.Frame.Parent == hf && origin.Site != nil && origin.Site.Parent() == origin.Frame.Fn:
			stages = []stage{{origin.Val, origin.Site}, {local, hp}}
		default:
			c.Unsure(short+" only Signature cleared before hashing", hp.Pos(), "the clone travels through more than one helper before it is hashed")
			return hp, hf, want
		}
	}
	cleared := false
	bad, unsure := "", ""
	for _, sg := range stages {
		until := sg.until
		var visit func(v ssa.Value)
		seen := map[ssa.Value]bool{}
		visit = func(v ssa.Value) {
			if seen[v] || v.Referrers() == nil {
				return
			}
			seen[v] = true
			for _, ref := range *v.Referrers() {
				if ref == until {
					continue
				}
				switch r := ref.(type) {
				case *ssa.FieldAddr:
					key := an.FieldKey(r.X.Type(), r.Field)
					for _, r2 := range *r.Referrers() {
						switch st := r2.(type) {
						case *ssa.Store:
							if st.Addr != ssa.Value(r) || !an.C05MayPrecede(st, until) {
								continue
							}
							if key == c05PB+".QBFTMsg.Signature" && an.IsNilConst(st.Val) {
								if an.Dominates(st, until) {
									cleared = true
								}
								continue
							}
							bad = "field " + key + " of the clone is overwritten before hashing: the signature no longer covers it"
						case *ssa.UnOp, *ssa.DebugRef:
						default:
							if in, ok := r2.(ssa.Instruction); ok && an.C05MayPrecede(in, until) {
								unsure = "address of " + key + " of the clone escapes before hashing"
							}
						}
					}
				case *ssa.MakeInterface:
					visit(r)
				case *ssa.ChangeType:
					visit(r)
				case *ssa.Phi:
					visit(r)
				case *ssa.Extract:
					visit(r)
				case *ssa.Store:
					// kept in a local: follow the loads of that local
					if al, ok := r.Addr.(*ssa.Alloc); ok && r.Val == v {
						for _, r2 := range *al.Referrers() {
							if ld, ok := r2.(*ssa.UnOp); ok && ld.Op == token.MUL && en.Resolve(ld) == en.Resolve(v) {
								visit(ld)
							}
						}
						continue
					}
					if an.C05MayPrecede(r, until) {
						unsure = "the clone is stored before hashing"
					}
				case *ssa.Return, *ssa.DebugRef:
				case ssa.CallInstruction:
					if !an.C05MayPrecede(r, until) {
						continue
					}
					if callee := r.Common().StaticCallee(); callee != nil && strings.HasPrefix(an.FuncName(callee), c05PB+".QBFTMsg.Get") {
						continue
					}
					unsure = "the clone is passed to " + an.CalleeName(r.Common()) + " before hashing"
				}
			}
		}
		visit(sg.obj)
	}
	switch {
	case bad != "":
		c.Bad(short+" only Signature cleared before hashing", hp.Pos(), bad)
	case unsure != "":
		c.Unsure(short+" only Signature cleared before hashing", hp.Pos(), unsure)
	default:
		c.Check(short+" only Signature cleared before hashing", hp.Pos(), cleared, "clone.Signature = nil does not precede hashProto on every path")
	}
	return hp, hf, want
}

// c05DigestOf: the term is hash[:] (or hash) of the [32]byte produced by hashProto(clone).
func c05DigestOf(t, clone *an.H05Term) bool {
	if clone == nil {
		return false
	}
	h := an.H05ExtractT(0, an.H05CallT(c05N("hashProto"), clone))
	return an.H05Same(t, h) || an.H05Same(t, an.H05T("slice", "", h))
}

func c05A2(e *c05env) {
	c := e.c
	en := e.engine()
	// --- verifyMsgSig
	{
		fn := c.Fn(c05N("verifyMsgSig"))
		root := en.Root(fn)
		msgT, pkT := en.Term(fn.Params[0], root), en.Term(fn.Params[1], root)
		_, _, clone := c05SignedClone(e, root, "verifyMsgSig")
		rec, rf := c05One(c, en, root, "app/k1util.Recover", "verifyMsgSig")
		qHash := c05CallQ(c05N("hashProto"), an.H05ErrNil, "hashProto(clone) does not precede k1util.Recover", clone)
		if clone == nil {
			c.Bad("verifyMsgSig Recover(hash)", rec.Pos(), "the digest given to k1util.Recover is not the hash of the clone of the message")
		} else {
			v := en.Established(qHash, rec, rf, nil, true)
			if v.Yes && !c05DigestOf(en.Term(rec.Call.Args[0], rf), clone) {
				v = an.H05Verdict{Why: "the digest given to k1util.Recover is not the hashProto result", Unsure: en.Term(rec.Call.Args[0], rf).Untraced()}
			}
			c05Report(c, "verifyMsgSig Recover(hash)", rec.Pos(), v, "")
		}
		sigT := en.Term(rec.Call.Args[1], rf)
		switch {
		case an.H05Same(sigT, an.H05Field(c05PB+".QBFTMsg.Signature", msgT)):
			c.Good("verifyMsgSig Recover(msg signature)", rec.Pos(), "")
		case sigT.Untraced():
			c.Unsure("verifyMsgSig Recover(msg signature)", rec.Pos(), "the signature given to k1util.Recover cannot be traced to its origin")
		default:
			c.Bad("verifyMsgSig Recover(msg signature)", rec.Pos(), "the signature given to k1util.Recover is not the message's own Signature field")
		}
		qRec := &c05callQ{name: "k1util.Recover", spec: an.H05ErrNil, missing: "k1util.Recover does not precede the verdict",
			args: []*an.H05Term{nil, nil}, callee: func(en *an.H05, g *ssa.Call, f *an.H05Frame) bool { return g == rec }}
		isRec := func(x *an.H05Term) bool { return x.Is("extract", "0") && x.Val == ssa.Value(rec) }
		isEqualT := func(t *an.H05Term) (bool, bool) { // (is IsEqual, on the right operands)
			if !t.Is("call") || !strings.HasSuffix(t.Name, ".PublicKey.IsEqual") || len(t.Args) != 2 {
				return false, false
			}
			return true, (isRec(t.Args[0]) && an.H05Same(t.Args[1], pkT)) || (isRec(t.Args[1]) && an.H05Same(t.Args[0], pkT))
		}
		qEqual := &c05callQ{name: "IsEqual", spec: an.H05Spec{BoolIdx: 0, BoolWant: true}, missing: "a result other than `recovered.IsEqual(pubkey)` is returned as the verdict",
			args: []*an.H05Term{nil, nil}, callee: func(en *an.H05, g *ssa.Call, f *an.H05Frame) bool {
				_, ok := isEqualT(en.Term(g, f))
				return ok
			}}
		n := 0
		for _, r := range an.Returns(fn) {
			if len(r.Results) != 2 || r.Block().Comment == "recover" {
				continue
			}
			var verdicts []an.H05Verdict
			for _, o := range en.Origins(r.Results[0], root) {
				if k, isC := o.Val.(*ssa.Const); o.Zero || (isC && k.Value != nil && k.Value.Kind() == constant.Bool && !constant.BoolVal(k.Value)) {
					continue // "not signed by pubkey" needs no justification
				}
				// where this verdict is chosen
				site, acc, sf := ssa.Instruction(r), en.AcceptReturn(r, an.H05ErrNil), root
				if o.Site != nil && o.Frame == root && o.Site.Parent() == fn {
					site, acc = o.Site, nil
				} else if o.Frame != root {
					verdicts = append(verdicts, an.H05Verdict{Unsure: true, Why: "the verdict is computed by a helper in a way the checker cannot follow"})
					continue
				}
				v := an.H05Verdict{Why: "a result other than `recovered.IsEqual(pubkey)` is returned as the verdict"}
				t := en.Term(o.Val, o.Frame)
				if k, isC := o.Val.(*ssa.Const); isC && k.Value != nil && k.Value.Kind() == constant.Bool {
					// a literal `true`: only where IsEqual was seen to hold
					if v = en.Established(qEqual, site, sf, acc, false); v.Yes {
						v = en.Established(qRec, site, sf, acc, false)
					}
				} else if is, right := isEqualT(t); is {
					if right {
						v = en.Established(qRec, site, sf, acc, false)
					} else {
						v.Why = "IsEqual does not compare the recovered key with the pubkey parameter"
					}
				} else if t.Is("opaque") {
					v = an.H05Verdict{Unsure: true, Why: "the verdict returned cannot be traced to its origin"}
				}
				verdicts = append(verdicts, v)
			}
			if len(verdicts) == 0 {
				continue
			}
			n++
			worst := verdicts[0]
			for _, v := range verdicts[1:] {
				if c05Rank(v) < c05Rank(worst) {
					worst = v
				}
			}
			c05Report(c, "verifyMsgSig verdict is recovered.IsEqual(pubkey)", posOf(r), worst, "")
		}
		if n == 0 {
			c.Bad("verifyMsgSig verdict is recovered.IsEqual(pubkey)", fn.Pos(), "verifyMsgSig never returns a computed verdict")
		}
	}
	// --- signMsg
	{
		fn := c.Fn(c05N("signMsg"))
		root := en.Root(fn)
		hp, hpf, clone := c05SignedClone(e, root, "signMsg")
		sg, sf := c05One(c, en, root, "app/k1util.Sign", "signMsg")
		if clone == nil {
			c.Bad("signMsg Sign(hash)", sg.Pos(), "the digest given to k1util.Sign is not the hash of the clone of the message")
		} else {
			qHash := c05CallQ(c05N("hashProto"), an.H05ErrNil, "hashProto(clone) does not precede k1util.Sign", clone)
			v := en.Established(qHash, sg, sf, nil, true)
			if v.Yes && !c05DigestOf(en.Term(sg.Call.Args[1], sf), clone) {
				v = an.H05Verdict{Why: "the digest given to k1util.Sign is not the hashProto result", Unsure: en.Term(sg.Call.Args[1], sf).Untraced()}
			}
			c05Report(c, "signMsg Sign(hash)", sg.Pos(), v, "")
		}
		qSign := &c05callQ{name: "k1util.Sign", spec: an.H05ErrNil, missing: "k1util.Sign does not precede the successful return",
			args: []*an.H05Term{nil, nil}, callee: func(en *an.H05, g *ssa.Call, f *an.H05Frame) bool { return g == sg }}
		// the stores of the signature into the clone
		var sigStores []c05site
		en.Walk(root, func(in ssa.Instruction, f *an.H05Frame) {
			st, ok := in.(*ssa.Store)
			if !ok {
				return
			}
			fa, ok := st.Addr.(*ssa.FieldAddr)
			if !ok || an.FieldKey(fa.X.Type(), fa.Field) != c05PB+".QBFTMsg.Signature" || clone == nil || !an.H05Same(en.Term(fa.X, f), clone) {
				return
			}
			if t := en.Term(st.Val, f); t.Is("extract", "0") && t.Val == ssa.Value(sg) {
				sigStores = append(sigStores, c05site{st, f})
			}
		})
		// after hashing, the only change to the clone is the signature produced by k1util.Sign
		// beforeHash: the instruction (in frame f) can only execute before the hashProto call
		beforeHash := func(in ssa.Instruction, f *an.H05Frame) bool {
			// bring both to a common frame: climb from f to an ancestor-or-self of hpf, or the other way round
			at := func(x ssa.Instruction, from, to *an.H05Frame) ssa.Instruction {
				for g := from; g != nil; g = g.Parent {
					if g == to {
						return x
					}
					if g.Call == nil {
						return nil
					}
					x = g.Call.(ssa.Instruction)
				}
				return nil
			}
			if x := at(in, f, hpf); x != nil {
				return an.C05MayPrecede(x, hp) && !an.C05MayPrecede(hp, x)
			}
			if h := at(hp, hpf, f); h != nil {
				return an.C05MayPrecede(in, h) && !an.C05MayPrecede(h, in)
			}
			return false
		}
		tampered := ""
		en.Walk(root, func(in ssa.Instruction, f *an.H05Frame) {
			st, ok := in.(*ssa.Store)
			if !ok || clone == nil {
				return
			}
			fa, ok := st.Addr.(*ssa.FieldAddr)
			if !ok || !an.H05Same(en.Term(fa.X, f), clone) || beforeHash(st, f) {
				return // stores before hashing are judged by "only Signature cleared before hashing"
			}
			key := an.FieldKey(fa.X.Type(), fa.Field)
			if key != c05PB+".QBFTMsg.Signature" {
				tampered = "field " + key + " of the clone is modified after hashing: the signature does not cover the message returned"
			} else if t := en.Term(st.Val, f); !(t.Is("extract", "0") && t.Val == ssa.Value(sg)) {
				tampered = "the clone's Signature is overwritten with something other than the k1util.Sign result"
			}
		})
		for _, r := range en.SuccessReturns(fn, an.H05ErrNil) {
			if len(r.Results) != 2 {
				continue
			}
			v := an.H05Verdict{Why: "signMsg does not return the clone it hashed"}
			t := en.TermAtAcc(r.Results[0], root, r, root, en.AcceptReturn(r, an.H05ErrNil))
			switch {
			case clone != nil && an.H05Same(t, clone) && tampered != "":
				v.Why = tampered
			case clone != nil && an.H05Same(t, clone):
				v.Why = "the clone's Signature is not set from k1util.Sign before the successful return"
				for _, s := range sigStores {
					if s.f != root {
						v = an.H05Verdict{Unsure: true, Why: "the signature is stored into the clone by a helper"}
						continue
					}
					if en.Dom(s.in, r, en.AcceptReturn(r, an.H05ErrNil)) {
						v = en.Established(qSign, r, root, en.AcceptReturn(r, an.H05ErrNil), false)
						break
					}
				}
			case t.Untraced():
				v = an.H05Verdict{Unsure: true, Why: "the message returned cannot be traced to its origin"}
			}
			c05Report(c, "signMsg returns the hashed clone with its signature", posOf(r), v, "")
		}
	}
	// --- hashProto
	{
		fn := c.Fn(c05N("hashProto"))
		root := en.Root(fn)
		argT := en.Term(fn.Params[0], root)
		ms, mf := c05One(c, en, root, c05Marshal, "hashProto")
		c.Check("hashProto marshals its whole argument", ms.Pos(), len(ms.Call.Args) == 2 && an.H05Same(en.Term(ms.Call.Args[1], mf), argT),
			"the value marshalled is not hashProto's argument")
		det, why := false, "MarshalOptions receiver is not a local literal"
		if ld, ok := ms.Call.Args[0].(*ssa.UnOp); ok && ld.Op == token.MUL {
			if al, ok := ld.X.(*ssa.Alloc); ok {
				why = "Deterministic is not set to true in the MarshalOptions literal"
				for _, ref := range *al.Referrers() {
					fa, ok := ref.(*ssa.FieldAddr)
					if !ok || an.FieldKey(fa.X.Type(), fa.Field) != "google.golang.org/protobuf/proto.MarshalOptions.Deterministic" {
						continue
					}
					n, allTrue := 0, true
					for _, r2 := range *fa.Referrers() {
						if st, ok := r2.(*ssa.Store); ok {
							n++
							k, isC := st.Val.(*ssa.Const)
							if !isC || k.Value == nil || !constant.BoolVal(k.Value) || !an.Dominates(st, ld) {
								allTrue = false
							}
						}
					}
					det = n > 0 && allTrue
				}
			}
		}
		c.Check("hashProto Deterministic marshalling", ms.Pos(), det, why)
		put, pf := c05One(c, en, root, c05Hasher+".PutBytes", "hashProto")
		qMarshal := &c05callQ{name: "Marshal", spec: an.H05ErrNil, missing: "the marshalling does not precede PutBytes",
			args: []*an.H05Term{nil, nil}, callee: func(en *an.H05, g *ssa.Call, f *an.H05Frame) bool { return g == ms }}
		pv := en.Established(qMarshal, put, pf, nil, true)
		if bt := en.Term(put.Call.Args[1], pf); pv.Yes && !(bt.Is("extract", "0") && bt.Val == ssa.Value(ms)) {
			pv = an.H05Verdict{Why: "the bytes hashed are not the marshalled message", Unsure: bt.Untraced()}
		}
		c05Report(c, "hashProto hashes the marshalled bytes", put.Pos(), pv, "")
		rootCall, rtf := c05One(c, en, root, c05Hasher+".HashRoot", "hashProto")
		qRoot := &c05callQ{name: "HashRoot", spec: an.H05ErrNil, missing: "HashRoot does not precede the successful return",
			args: []*an.H05Term{nil}, callee: func(en *an.H05, g *ssa.Call, f *an.H05Frame) bool { return g == rootCall }}
		n := 0
		for _, r := range en.SuccessReturns(fn, an.H05ErrNil) {
			if len(r.Results) != 2 {
				continue
			}
			n++
			v := an.H05Verdict{Why: "the hash returned on success is not the HashRoot of the hasher fed with the marshalled bytes"}
			t := en.TermAtAcc(r.Results[0], root, r, root, en.AcceptReturn(r, an.H05ErrNil))
			// the very same hasher object (not merely an equal expression: the pool hands out distinct objects)
			sameHasher := pf == rtf && en.Resolve(rootCall.Call.Args[0]) == en.Resolve(put.Call.Args[0])
			switch {
			case t.Is("extract", "0") && t.Val == ssa.Value(rootCall) && pf != rtf:
				v = an.H05Verdict{Unsure: true, Why: "PutBytes and HashRoot are in different functions; the hasher cannot be identified"}
			case t.Is("extract", "0") && t.Val == ssa.Value(rootCall) && sameHasher:
				switch {
				case pf != rtf || put.Parent() != rootCall.Parent():
					v = an.H05Verdict{Unsure: true, Why: "PutBytes and HashRoot are in different functions; their order cannot be decided"}
				case !an.Dominates(put, rootCall):
					v.Why = "HashRoot is not preceded by PutBytes of the marshalled bytes"
				default:
					v = en.Established(qRoot, r, root, en.AcceptReturn(r, an.H05ErrNil), false)
				}
			case t.Untraced():
				v = an.H05Verdict{Unsure: true, Why: "the hash returned cannot be traced to its origin"}
			}
			c05Report(c, "hashProto returns HashRoot of the marshalled bytes", posOf(r), v, "")
		}
		if n == 0 {
			c.Unsure("hashProto returns HashRoot of the marshalled bytes", fn.Pos(), "no successful return recognised")
		}
	}
}

// ---------------------------------------------------------------------------------------------
// A3: every wire field has a checked consumer; Msg is built only from checked parts

func c05ExportedFields(c *rt.Ctx, typ string) []string {
	obj := c.Pkg(c05PB).Types.Scope().Lookup(typ)
	if obj == nil {
		c.Bail("type %s.%s not found", c05PB, typ)
	}
	st, ok := obj.Type().Underlying().(*types.Struct)
	if !ok {
		c.Bail("%s.%s is not a struct", c05PB, typ)
	}
	var out []string
	for i := 0; i < st.NumFields(); i++ {
		if st.Field(i).Exported() {
			out = append(out, st.Field(i).Name())
		}
	}
	return out
}

// c05consumerQ: some call with an error result that takes the term as an argument succeeded.
func c05ConsumerQ(t *an.H05Term) *c05anyCallQ { return &c05anyCallQ{arg: t} }

type c05anyCallQ struct{ arg *an.H05Term }

func (q *c05anyCallQ) ID() string { return "c05consumer:" + q.arg.Key() }

func (q *c05anyCallQ) Direct(en *an.H05, site ssa.Instruction, f *an.H05Frame, acc an.H05Accept) an.H05Verdict {
	best := an.H05Verdict{Why: "wire field is never handed to a check whose failure rejects the message: a peer-controlled field without any check"}
	for _, b := range f.Fn.Blocks {
		for _, in := range b.Instrs {
			g, ok := in.(*ssa.Call)
			if !ok || g.Call.StaticCallee() == nil {
				continue
			}
			res := g.Call.Signature().Results()
			hasErr := false
			for i := 0; i < res.Len(); i++ {
				hasErr = hasErr || an.IsErrorType(res.At(i).Type())
			}
			takes := false
			for _, a := range g.Call.Args {
				if an.H05Same(en.TermAt(a, f, g, f), q.arg) {
					takes = true
				}
			}
			if !hasErr || !takes {
				continue
			}
			v := en.Checked(g, an.H05ErrNil, site, acc)
			if v.Yes {
				v.WitFrame = f
				return v
			}
			v.Why = "wire field is read in handle but no read feeds a checked guard that dominates the send"
			best = c05Better(best, v)
		}
	}
	return best
}

func c05A3(e *c05env) {
	c := e.c
	en := e.engine()
	// (a) every exported field of the wire envelope is consumed by a checked guard in handle
	h := c05ResolveHandle(e)
	fn := h.fn
	fields := c05ExportedFields(c, "QBFTConsensusMsg")
	if len(fields) < 3 {
		c.Bail("QBFTConsensusMsg has %d exported fields, expected at least Msg, Justification, Values", len(fields))
	}
	sk := h.sinks[0]
	for _, f := range fields {
		ft := an.H05Field(c05PB+".QBFTConsensusMsg."+f, h.pb)
		v := h.est(en, c05ConsumerQ(ft), sk.in, sk.f)
		if !v.Yes {
			fa := &an.H05ForallQ{Name: "consumer", Coll: ft, Missing: v.Why,
				Inner: func(elem *an.H05Term) an.H05Query { return c05ConsumerQ(elem) }}
			v = c05Better(v, h.est(en, fa, sk.in, sk.f))
		}
		c05Report(c, "QBFTConsensusMsg."+f+" consumed by a checked guard in handle", fn.Pos(), v, "")
	}
	c05NewMsgProvenance(e)
	c05ValuesByHash(e)
}

// c05field is one assignment to a field of a struct under construction.
type c05fieldStore struct {
	val ssa.Value
	st  *ssa.Store
	f   *an.H05Frame // activation the store belongs to
	ret *ssa.Return  // the successful return of f.Fn through which the struct leaves that activation
}

// c05StructFields resolves the values stored into the fields of a local struct (a composite literal,
// possibly copied into a named local and amended field by field). Keys are field names. A non-empty
// problem means the shape is not understood (the caller must not decide).
func c05StructFields(en *an.H05, a *ssa.Alloc, f *an.H05Frame, ret *ssa.Return, depth int, rec *[]c05builder) (map[string][]c05fieldStore, string) {
	if depth > 3 {
		return nil, "copy chain too deep"
	}
	out := map[string][]c05fieldStore{}
	var whole *ssa.Store
	for _, ref := range *a.Referrers() {
		switch r := ref.(type) {
		case *ssa.FieldAddr:
			st, ok := r.X.Type().Underlying().(*types.Pointer).Elem().Underlying().(*types.Struct)
			if !ok {
				return nil, "not a struct"
			}
			name := st.Field(r.Field).Name()
			for _, r2 := range *r.Referrers() {
				switch x := r2.(type) {
				case *ssa.Store:
					if x.Addr != ssa.Value(r) {
						return nil, "address of field " + name + " is stored"
					}
					out[name] = append(out[name], c05fieldStore{x.Val, x, f, ret})
				case *ssa.UnOp, *ssa.DebugRef:
				default:
					return nil, "address of field " + name + " escapes"
				}
			}
		case *ssa.Store:
			if r.Addr != ssa.Value(a) || whole != nil {
				return nil, "struct address is stored or the struct is assigned twice"
			}
			whole = r
		case *ssa.UnOp:
		case *ssa.DebugRef:
		default:
			return nil, "struct address escapes"
		}
	}
	if whole != nil {
		for _, fs := range out {
			for _, s := range fs {
				if !an.Dominates(whole, s.st) {
					return nil, "field assignment may precede the whole-struct assignment"
				}
			}
		}
		var base map[string][]c05fieldStore
		problem := "struct is assigned from something other than a local literal"
		if ld, ok := whole.Val.(*ssa.UnOp); ok && ld.Op == token.MUL {
			if src, ok := ld.X.(*ssa.Alloc); ok {
				base, problem = c05StructFields(en, src, f, ret, depth+1, rec)
			}
		} else if call, idx := c05CallResult(whole.Val); call != nil {
			// the struct is first built by a helper (its single successful return yields a local literal)
			if ch := en.Child(f, call); ch != nil && !en.Anchors[an.FuncName(ch.Fn)] {
				rets := en.SuccessReturns(ch.Fn, an.H05ErrNil)
				if len(rets) == 1 && idx < len(rets[0].Results) {
					if ld, ok := rets[0].Results[idx].(*ssa.UnOp); ok && ld.Op == token.MUL {
						if src, ok := ld.X.(*ssa.Alloc); ok {
							// the helper's status must be checked before the struct is used
							if v := en.Checked(call, an.H05ErrNil, ret, en.AcceptReturn(ret, an.H05ErrNil)); v.Yes {
								base, problem = c05StructFields(en, src, ch, rets[0], depth+1, rec)
								if problem == "" && rec != nil {
									b := c05builder{name: an.FuncName(ch.Fn)}
									for _, arg := range call.Call.Args {
										b.args = append(b.args, en.Term(arg, f))
									}
									*rec = append(*rec, b)
								}
							} else {
								problem = "the struct comes from a helper whose error is not checked before the successful return"
							}
						}
					}
				}
			}
		}
		if problem != "" {
			return nil, problem
		}
		for k, v := range base {
			if _, ok := out[k]; !ok {
				out[k] = v
			}
		}
	}
	return out, ""
}

// c05CallResult: v is result idx of a plain call.
func c05CallResult(v ssa.Value) (*ssa.Call, int) {
	switch x := v.(type) {
	case *ssa.Extract:
		if c, ok := x.Tuple.(*ssa.Call); ok {
			return c, x.Index
		}
	case *ssa.Call:
		if x.Call.Signature().Results().Len() == 1 {
			return x, 0
		}
	}
	return nil, 0
}

// c05NewMsgProvenance: (b) provenance of every field of the Msg built by newMsg.
func c05NewMsgProvenance(e *c05env) {
	c := e.c
	en := e.engine()
	nm := c.Fn(c05N("newMsg"))
	root := en.Root(nm)
	pbT, justT, valsT := en.Term(nm.Params[0], root), en.Term(nm.Params[1], root), en.Term(nm.Params[2], root)
	rets := en.SuccessReturns(nm, an.H05ErrNil)
	if len(rets) == 0 {
		c.Bail("newMsg: no successful return")
	}
	st, ok := c.Pkg(c05Q).Types.Scope().Lookup("Msg").Type().Underlying().(*types.Struct)
	if !ok {
		c.Bail("qbft.Msg is not a struct")
	}
	roles := c05MsgFieldRole(e)
	for _, ret := range rets {
		c05MsgBuiltAt(e, st, roles, root, ret, pbT, justT, valsT, 0)
	}
}

// c05MsgBuiltAt checks the provenance of the Msg yielded by the successful return ret of the activation root
// (newMsg itself, or — depth > 0 — a helper newMsg hands its whole job to: `return build(pb, just, values, …)`).
func c05MsgBuiltAt(e *c05env, st *types.Struct, roles map[string]string, root *an.H05Frame, ret *ssa.Return, pbT, justT, valsT *an.H05Term, depth int) {
	c := e.c
	en := e.engine()
	{
		if len(ret.Results) != 2 {
			c.Bail("newMsg: unexpected result count")
		}
		var lit *ssa.Alloc
		if ld, ok := ret.Results[0].(*ssa.UnOp); ok && ld.Op == token.MUL {
			lit, _ = ld.X.(*ssa.Alloc)
		}
		if lit == nil {
			// single-exit form: `var msg Msg; if err == nil { msg = Msg{…} }; return msg, err`
			n := 0
			for _, o := range en.Origins(ret.Results[0], root) {
				if o.Zero || o.Frame != root {
					continue
				}
				if k, isC := o.Val.(*ssa.Const); isC && k.Value == nil {
					continue // the zero Msg of the failing paths
				}
				n++
				if ld, ok := o.Val.(*ssa.UnOp); ok && ld.Op == token.MUL {
					lit, _ = ld.X.(*ssa.Alloc)
				}
			}
			if n != 1 {
				lit = nil
			}
		}
		if lit == nil && c05Delegated(e, st, roles, root, ret, pbT, justT, valsT, depth) {
			return
		}
		if lit == nil {
			c.Bail("newMsg: a successful return does not yield a Msg built in newMsg itself")
		}
		stored, problem := c05StructFields(en, lit, root, ret, 0, &e.builders)
		if problem != "" {
			c.Bail("newMsg: cannot resolve the fields of the returned Msg: %s", problem)
		}
		acc := en.AcceptReturn(ret, an.H05ErrNil)
		same := func(key string, fs []c05fieldStore, want *an.H05Term, why string) {
			v := an.H05Verdict{Yes: true}
			for _, s := range fs {
				t := en.Term(s.val, s.f)
				switch {
				case an.H05Same(t, want):
				case t.Untraced():
					v = c05Better(an.H05Verdict{Unsure: true, Why: "the value stored cannot be traced to its origin"}, v)
					v.Yes = false
				default:
					v = an.H05Verdict{Why: why}
				}
				if !v.Yes && !v.Unsure {
					break
				}
			}
			c05Report(c, key, posOf(ret), v, "")
		}
		for i := 0; i < st.NumFields(); i++ {
			name := st.Field(i).Name()
			fs := stored[name]
			fieldName := name
			if r, ok := roles[name]; ok {
				name = r // the rule talks about the field's role; the report names it by its conventional name
			}
			key := "newMsg Msg." + name + " provenance" + e.tag
			if len(fs) == 0 {
				c.Good(key, posOf(ret), "field is left at its zero value: carries nothing from the wire")
				continue
			}
			switch name {
			case "msg":
				same(key, fs, pbT, "Msg.msg is not the (verified) message parameter")
			case "values":
				same(key, fs, valsT, "Msg.values is not the recomputed-hash map parameter")
			case "justificationProtos":
				same(key, fs, justT, "Msg.justificationProtos is not the (verified) justification parameter")
			case "valueHash":
				c05Report(c, key, posOf(ret), e.hedge(c05HashProv(e, root, ret, acc, fs, "ValueHash", pbT, valsT)), "")
			case "preparedValueHash":
				c05Report(c, key, posOf(ret), e.hedge(c05HashProv(e, root, ret, acc, fs, "PreparedValueHash", pbT, valsT)), "")
			case "justification":
				c05Report(c, key, posOf(ret), e.hedge(c05JustProv(e, root, ret, acc, lit, fieldName, fs, pbT, justT, valsT)), "")
			default:
				c.Unsure(key, posOf(ret), "new field of qbft.Msg without a provenance rule")
			}
		}
	}
}

// c05HashProv: a hash field of Msg is zero, or toHash32(pbMsg.GetX()) on a path where toHash32 reported
// it valid and its presence in the recomputed values map was checked.
func c05HashProv(e *c05env, root *an.H05Frame, ret *ssa.Return, acc an.H05Accept, fs []c05fieldStore, pbField string, pbT, valsT *an.H05Term) an.H05Verdict {
	en := e.engine()
	want := an.H05ExtractT(0, an.H05CallT(c05N("toHash32"), an.H05Field(c05PB+".QBFTMsg."+pbField, pbT)))
	nonzero := 0
	outerRoot, outerRet, outerAcc := root, ret, acc
	for _, s := range fs {
		root, ret, acc := outerRoot, outerRet, outerAcc
		if s.f != nil && s.f != root {
			// the field is set in the helper that builds the struct: the hash is committed at that helper's
			// successful return
			root, ret, acc = s.f, s.ret, en.AcceptReturn(s.ret, an.H05ErrNil)
		}
		for _, o := range en.Origins(s.val, root) {
			if o.Zero {
				continue
			}
			nonzero++
			t := en.Term(o.Val, o.Frame)
			if !an.H05Same(t, want) {
				if t.Untraced() {
					return an.H05Verdict{Unsure: true, Why: "the hash stored cannot be traced to its origin"}
				}
				if t.Is("extract", "0") && len(t.Args) == 1 && t.Args[0].Is("call", c05N("toHash32")) {
					return an.H05Verdict{Why: "hash is not derived from pbMsg." + pbField}
				}
				return an.H05Verdict{Why: "hash is not the result of toHash32"}
			}
			call, ok := t.Val.(*ssa.Call)
			if !ok || t.Frame == nil {
				return an.H05Verdict{Unsure: true, Why: "toHash32 call not located"}
			}
			tf := t.Frame
			okv := c05Extract(call, 1)
			if okv == nil {
				return an.H05Verdict{Why: "validity result of toHash32 is discarded"}
			}
			// where the hash is committed to: the successful return of newMsg, or the return of the helper
			// that computed it
			var site ssa.Instruction = ret
			sacc := acc
			upImp := false
			if tf != root {
				r, isRet := o.Site.(*ssa.Return)
				if !isRet || r.Parent() != tf.Fn {
					return an.H05Verdict{Unsure: true, Why: "the hash is computed by a helper in a way the checker cannot follow"}
				}
				// the helper may reject itself or report the outcome of the lookup to its caller (a found
				// flag, an error): the walk goes on in the caller with what the helper's return yields
				site, sacc = r, c05UpAccept(en, tf, root, r, ret, acc, &upImp, 0)
			}
			tru, fls := an.H05ConstAbs(constant.MakeBool(true)), an.H05ConstAbs(constant.MakeBool(false))
			// with ok == false the non-zero value must not be selected
			if o.Site != nil && o.Site.Parent() == tf.Fn && o.Site != site {
				if reach, _ := en.ReachUnder(call, o.Site, e.bound(an.H05Env{okv: fls}), nil); reach && o.Site.Block() != call.Block() {
					return an.H05Verdict{Why: "hash is used although toHash32 reported it invalid"}
				}
			}
			present := false
			unsure := false
			for _, in := range an.Instrs(tf.Fn, false) {
				lk, ok := in.(*ssa.Lookup)
				if !ok || !an.H05Same(en.Term(lk.X, tf), valsT) || !an.H05Same(en.Term(lk.Index, tf), t) {
					continue
				}
				env := e.bound(an.H05Env{okv: tru})
				if lk.CommaOk {
					found := c05Extract(lk, 1)
					if found == nil {
						continue
					}
					env[found] = fls
				} else {
					env[lk] = an.H05NilAbs
				}
				// a valid hash reaches the commit point neither with the lookup failing nor around the lookup
				upImp = false
				r1, imp1 := en.ReachUnder(call, site, env, sacc)
				r2, imp2 := false, false
				switch {
				case lk.Block() == call.Block() && an.Dominates(call, lk): // nothing between the two
				case lk.Block() == site.Block() && an.Dominates(lk, site): // the commit point lies behind the lookup in its block
				default:
					r2, imp2 = en.ReachUnderAvoiding(call, site, e.bound(an.H05Env{okv: tru}), sacc, lk.Block())
				}
				imp1 = imp1 || upImp
				if !r1 && !r2 {
					present = true
				} else if imp1 || imp2 {
					unsure = true
				}
			}
			if !present {
				if unsure {
					return an.H05Verdict{Unsure: true, Why: "the presence test of the hash is evaluated in a way the checker cannot follow"}
				}
				return an.H05Verdict{Why: "the message is built although values[hash] was not found (or never looked up)"}
			}
		}
	}
	if nonzero == 0 {
		return an.H05Verdict{Why: "hash field is always zero"}
	}
	return an.H05Verdict{Yes: true}
}

// c05UpAccept is the arrival filter of the return r of the helper activation f (a descendant of root): the
// arrival counts if, with what r yields on that path (a found flag, an error, …), control in the caller
// goes on to the commit point rootSite/rootAcc of root (through the successful returns of intermediate
// helpers). imp is set when the continuation cannot be followed (then the arrival counts).
func c05UpAccept(en *an.H05, f, root *an.H05Frame, r *ssa.Return, rootSite ssa.Instruction, rootAcc an.H05Accept, imp *bool, depth int) an.H05Accept {
	return func(pred *ssa.BasicBlock, env an.H05Env) bool {
		cv, isCall := f.Call.(*ssa.Call)
		if f == root || f.Parent == nil || !isCall || depth > 4 {
			*imp = true
			return true
		}
		abs := en.ResultsAt(r, pred, env)
		env2 := an.H05Env{}
		for i, a := range abs {
			if a.Kind == an.H05Unknown {
				continue
			}
			if len(abs) == 1 {
				env2[cv] = a
			} else if x := c05Extract(cv, i); x != nil {
				env2[x] = a
			}
		}
		parent := f.Parent
		if parent == root {
			reach, im := en.ReachUnder(cv, rootSite, env2, rootAcc)
			if reach && im {
				*imp = true
			}
			return reach
		}
		for _, pr := range en.SuccessReturns(parent.Fn, an.H05ErrNil) {
			if reach, im := en.ReachUnder(cv, pr, env2, c05UpAccept(en, parent, root, pr, rootSite, rootAcc, imp, depth+1)); reach {
				if im {
					*imp = true
				}
				return true
			}
		}
		return false
	}
}

// c05JustProv: Msg.justification is the list of newMsg(j, …, values) results for every element j of the
// justification parameter, each with its error checked.
func c05JustProv(e *c05env, root *an.H05Frame, ret *ssa.Return, acc an.H05Accept, lit *ssa.Alloc, field string, fs []c05fieldStore, pbT, justT, valsT *an.H05Term) an.H05Verdict {
	en := e.engine()
	nmName := c05N("newMsg")
	// a justification is converted by newMsg itself or by the very helper that builds the main message
	// (whose hash presence checks are decided with it), applied to the element and the same values map
	convQ := func(elem *an.H05Term) an.H05Query {
		qs := []an.H05Query{c05CallQ(nmName, an.H05ErrNil, "no newMsg(j, nil, values) in the loop", elem, nil, valsT)}
		for _, b := range e.builders {
			args := make([]*an.H05Term, len(b.args))
			for i, a := range b.args {
				args[i] = c05Subst(a, pbT, elem)
			}
			qs = append(qs, c05CallQ(b.name, an.H05ErrNil, "no conversion of the justification in the loop", args...))
		}
		for _, d := range e.delegates {
			qs = append(qs, c05CallQ(d.name, an.H05ErrNil, "no conversion of the justification in the loop", d.argsFor(elem, valsT)...))
		}
		if len(qs) == 1 {
			return qs[0]
		}
		return &c05anyQ{qs}
	}
	// isConv: the term is the result of such a conversion of the element
	isConv := func(v ssa.Value, f *an.H05Frame) (ok bool, why string) {
		g, idx := c05CallResult(en.Resolve(v))
		if g == nil || idx != 0 || g.Call.IsInvoke() || g.Call.StaticCallee() == nil {
			return false, "an appended justification is not built by newMsg"
		}
		call := an.H05CallT(an.FuncName(g.Call.StaticCallee()))
		for _, a := range g.Call.Args {
			call.Args = append(call.Args, en.Term(a, f))
		}
		elem := an.H05Elem(justT)
		if call.Name == nmName && len(call.Args) == 3 {
			if !an.H05Same(call.Args[0], elem) {
				return false, "justification Msg is not built from the element of the justification parameter"
			}
			if !an.H05Same(call.Args[2], valsT) {
				return false, "justification Msg is built with a different values map"
			}
			return true, ""
		}
		for _, d := range e.delegates {
			if call.Name != d.name || len(call.Args) != len(d.role) {
				continue
			}
			for i, w := range d.argsFor(elem, valsT) {
				if w != nil && !an.H05Same(call.Args[i], w) {
					return false, "justification Msg is not built from the element of the justification parameter and the same values map"
				}
			}
			return true, ""
		}
		for _, b := range e.builders {
			if call.Name != b.name || len(call.Args) != len(b.args) {
				continue
			}
			all := true
			for i, a := range b.args {
				all = all && an.H05Same(call.Args[i], c05Subst(a, pbT, elem))
			}
			if all {
				return true, ""
			}
			return false, "justification Msg is not built from the element of the justification parameter and the same values map"
		}
		return false, "an appended justification is not built by newMsg"
	}
	// every justification converted with its error checked, before the successful return
	fa := &an.H05ForallQ{Name: "newMsg", Coll: justT, Missing: "no newMsg call on the elements of a loop over the justification parameter",
		Inner: convQ}
	fv := en.Established(fa, ret, root, acc, false)
	if !fv.Yes {
		if !fv.Unsure {
			if fv.Cand {
				fv.Why = "a justification can be skipped (hash presence unchecked) before the Msg is returned: " + fv.Why
			} else {
				fv.Why = "justification list is not accumulated in a loop over the justification parameter (" + fv.Why + ")"
			}
		}
		return fv
	}
	// the list itself: an accumulator that only grows by append(acc, newMsg(elem, …, values)#0), once per iteration
	type app struct {
		call *ssa.Call
		f    *an.H05Frame
	}
	var apps []app
	isAppendTo := func(v ssa.Value, f *an.H05Frame, isBase func(ssa.Value) bool) (*ssa.Call, bool) {
		call, ok := en.Resolve(v).(*ssa.Call)
		if !ok {
			return nil, false
		}
		b, ok := call.Call.Value.(*ssa.Builtin)
		if !ok || b.Name() != "append" || len(call.Call.Args) != 2 || !isBase(call.Call.Args[0]) {
			return nil, false
		}
		return call, true
	}
	if len(fs) == 1 && !c05InLoop(fs[0].st) {
		// value form: a loop-carried slice (in newMsg or in the helper that builds the list)
		// collect the appends feeding the accumulator phis
		seen := map[ssa.Value]bool{}
		var collect func(v ssa.Value, f *an.H05Frame) string
		collect = func(v ssa.Value, f *an.H05Frame) string {
			v = en.Resolve(v)
			if seen[v] {
				return ""
			}
			seen[v] = true
			switch x := v.(type) {
			case *ssa.Const:
				if x.Value == nil {
					return ""
				}
			case *ssa.Phi:
				for _, ed := range x.Edges {
					if why := collect(ed, f); why != "" {
						return why
					}
				}
				return ""
			case *ssa.Call:
				if call, ok := isAppendTo(x, f, func(ssa.Value) bool { return true }); ok {
					apps = append(apps, app{call, f})
					return collect(call.Call.Args[0], f)
				}
			}
			if t := en.Term(v, f); t.Untraced() && !t.Is("opaque") {
				return "?the justification list cannot be traced to its origin"
			}
			return "justification list is not built by appending to itself"
		}
		for _, o := range en.Origins(fs[0].val, root) {
			if o.Zero {
				continue
			}
			if why := collect(o.Val, o.Frame); why != "" {
				if strings.HasPrefix(why, "?") {
					return an.H05Verdict{Unsure: true, Why: why[1:]}
				}
				return an.H05Verdict{Why: why}
			}
		}
	} else {
		// memory form: the field of the Msg under construction is extended in place
		for _, s := range fs {
			if k, ok := s.val.(*ssa.Const); ok && k.Value == nil {
				continue
			}
			call, ok := isAppendTo(s.val, root, func(b ssa.Value) bool {
				ld, ok := b.(*ssa.UnOp)
				if !ok || ld.Op != token.MUL {
					return false
				}
				fa, ok := ld.X.(*ssa.FieldAddr)
				return ok && fa.X == ssa.Value(lit) && fa.X.Type().Underlying().(*types.Pointer).Elem().Underlying().(*types.Struct).Field(fa.Field).Name() == field
			})
			if !ok {
				return an.H05Verdict{Why: "justification list is not built by appending to itself"}
			}
			apps = append(apps, app{call, root})
		}
	}
	if len(apps) == 0 {
		return an.H05Verdict{Why: "nothing is appended to the justification list"}
	}
	for _, a := range apps {
		elems := appendedElems(a.call)
		if len(elems) != 1 {
			return an.H05Verdict{Unsure: true, Why: "unrecognised append"}
		}
		t := en.Term(elems[0], a.f)
		if ok, why := isConv(elems[0], a.f); !ok {
			if t.Untraced() {
				return an.H05Verdict{Unsure: true, Why: "an appended justification cannot be traced to its origin"}
			}
			return an.H05Verdict{Why: why}
		}
		// once per iteration, after the error check
		var loop *an.Loop
		var rng *an.H05Range
		for _, l := range an.LoopsContaining(a.call.Parent(), a.call.Block()) {
			if r := en.RangeOf(l); r != nil && an.H05Same(en.Term(r.Coll, a.f), justT) {
				loop, rng = l, r
				break
			}
		}
		if loop == nil {
			return an.H05Verdict{Why: "the append is not inside the loop over the justification parameter"}
		}
		// every iteration that goes on to the next element passes the append (an iteration that fails and
		// ends the loop — by returning or through the loop condition — need not)
		end, endAcc := en.IterationEnd(loop, rng.Test)
		if !en.Dom(a.call, end, endAcc) {
			return an.H05Verdict{Why: "a justification can be skipped: the append is not executed in every iteration"}
		}
		q := convQ(an.H05Elem(justT))
		if v := en.Established(q, a.call, a.f, nil, false); !v.Yes {
			if !v.Unsure {
				v.Why = "error of the nested newMsg is not checked before the append: " + v.Why
			}
			return v
		}
	}
	return an.H05Verdict{Yes: true}
}

func c05InLoop(in ssa.Instruction) bool {
	return an.InnermostLoop(in.Parent(), in.Block()) != nil
}

// c05ValuesByHash: (c) key is the recomputed hash of the very value stored under it.
func c05ValuesByHash(e *c05env) {
	c := e.c
	en := e.engine()
	vbh := c.Fn(c05N("valuesByHash"))
	root := en.Root(vbh)
	valsP := en.Term(vbh.Params[0], root)
	rets := en.SuccessReturns(vbh, an.H05ErrNil)
	if len(rets) == 0 {
		c.Bail("valuesByHash: no successful return")
	}
	var resMap *an.H05Term
	for _, r := range rets {
		t := en.TermAtAcc(r.Results[0], root, r, root, en.AcceptReturn(r, an.H05ErrNil))
		if resMap != nil && !an.H05Same(resMap, t) {
			c.Bail("valuesByHash: successful returns yield different maps")
		}
		resMap = t
	}
	if !resMap.Is("fresh") {
		c.Bail("valuesByHash: the map returned is not created in valuesByHash")
	}
	var ups []c05site
	en.Walk(root, func(in ssa.Instruction, f *an.H05Frame) {
		if mu, ok := in.(*ssa.MapUpdate); ok && an.H05Same(en.Term(mu.Map, f), resMap) {
			ups = append(ups, c05site{mu, f})
		}
	})
	if len(ups) == 0 {
		c.Bad("valuesByHash key is hashProto(inner value)", posOf(rets[0]), "nothing is inserted into the returned map")
	}
	elem := an.H05Elem(valsP)
	for _, u := range ups {
		up := u.in.(*ssa.MapUpdate)
		v := an.H05Verdict{Why: "map key is not the hashProto result"}
		kt := en.Term(up.Key, u.f)
		switch {
		case kt.Is("extract", "0") && len(kt.Args) == 1 && kt.Args[0].Is("call", c05N("hashProto")) && len(kt.Args[0].Args) == 1:
			v.Why = "hashed message is not UnmarshalNew() of the value stored under the key"
			inner := kt.Args[0].Args[0]
			if inner.Is("extract", "0") && len(inner.Args) == 1 && inner.Args[0].Is("call") && strings.HasSuffix(inner.Args[0].Name, ".UnmarshalNew") && len(inner.Args[0].Args) == 1 {
				vt := en.Term(up.Value, u.f)
				switch {
				case !an.H05Same(vt, elem) || !an.H05Same(inner.Args[0].Args[0], elem):
					v.Why = "stored value is not the element of the values parameter"
					if vt.Untraced() || inner.Args[0].Args[0].Untraced() {
						v.Unsure = true
					}
				default:
					qU := &c05callQ{name: "UnmarshalNew", spec: an.H05ErrNil, missing: "UnmarshalNew does not precede the insertion", args: []*an.H05Term{elem},
						callee: func(en *an.H05, g *ssa.Call, f *an.H05Frame) bool {
							cal := g.Call.StaticCallee()
							return cal != nil && cal.Name() == "UnmarshalNew"
						}}
					qH := c05CallQ(c05N("hashProto"), an.H05ErrNil, "hashProto does not precede the insertion", inner)
					v1 := en.Established(qU, up, u.f, nil, true)
					v2 := en.Established(qH, up, u.f, nil, true)
					switch {
					case v1.Yes && v2.Yes:
						v = v1
					case v1.Unsure || v2.Unsure:
						v = an.H05Verdict{Unsure: true, Why: "unmarshal: " + v1.Why + "; hash: " + v2.Why}
					default:
						v = an.H05Verdict{Why: "unmarshal: " + v1.Why + "; hash: " + v2.Why}
					}
				}
			}
		case kt.Untraced():
			v = an.H05Verdict{Unsure: true, Why: "the map key cannot be traced to its origin"}
		}
		c05Report(c, "valuesByHash key is hashProto(inner value)", posOf(up), v, "")
	}
}

// ---------------------------------------------------------------------------------------------
// A4: verifyMsg accepts only well-formed messages signed by the peer they name as source

// c05rangeQ: the site is unreachable for every out-of-range value of the integer field.
type c05rangeQ struct {
	field *an.H05Term
	name  string
	bad   func(int64) bool
}

func (q *c05rangeQ) ID() string { return "c05range:" + q.name }

func (q *c05rangeQ) Direct(en *an.H05, site ssa.Instruction, f *an.H05Frame, acc an.H05Accept) an.H05Verdict {
	var reads []ssa.Value
	isRead := map[ssa.Value]bool{}
	for _, in := range an.Instrs(f.Fn, false) {
		if v, ok := in.(ssa.Value); ok && an.H05Same(en.Term(v, f), q.field) {
			reads = append(reads, v)
			isRead[v] = true
		}
	}
	samples := map[int64]bool{0: true, 1: true, -1: true, -1 << 63: true, 1<<63 - 1: true}
	var first ssa.Instruction
	for _, b := range f.Fn.Blocks {
		for _, in := range b.Instrs {
			bin, ok := in.(*ssa.BinOp)
			if !ok {
				continue
			}
			switch bin.Op {
			case token.EQL, token.NEQ, token.LSS, token.LEQ, token.GTR, token.GEQ:
			default:
				continue
			}
			for _, pair := range [][2]ssa.Value{{bin.X, bin.Y}, {bin.Y, bin.X}} {
				if n, ok := an.ConstInt(pair[1]); ok && isRead[en.Resolve(pair[0])] {
					samples[n], samples[n-1], samples[n+1] = true, true, true
					if first == nil && en.Dom(bin, site, acc) {
						first = bin
					}
				}
			}
		}
	}
	if first == nil {
		return an.H05Verdict{Why: "no comparison of msg." + q.name + " with a constant dominates the accepting return"}
	}
	for n := range samples {
		if !q.bad(n) {
			continue
		}
		env := an.H05Env{}
		for _, r := range reads {
			env[r] = an.H05ConstAbs(constant.MakeInt64(n))
		}
		if reach, imp := en.ReachUnder(first, site, env, acc); reach {
			if imp {
				return an.H05Verdict{Unsure: true, Cand: true, Why: "the range test of msg." + q.name + " is evaluated in a way the checker cannot follow"}
			}
			return an.H05Verdict{Cand: true, Why: "the accepting return is reachable with an out-of-range " + q.name}
		}
	}
	return an.H05Verdict{Yes: true, Cand: true, Wit: first, WitFrame: f}
}

// c05lookupQ: the key table was looked up by the message's own peer index and a missing entry rejects.
type c05lookupQ struct{ table, index *an.H05Term }

func (q *c05lookupQ) ID() string { return "c05lookup" }

func (q *c05lookupQ) Direct(en *an.H05, site ssa.Instruction, f *an.H05Frame, acc an.H05Accept) an.H05Verdict {
	best := an.H05Verdict{Why: "no lookup"}
	for _, in := range an.Instrs(f.Fn, false) {
		lk, ok := in.(*ssa.Lookup)
		if !ok || !an.H05Same(en.Term(lk.X, f), q.table) || !an.H05Same(en.Term(lk.Index, f), q.index) {
			continue
		}
		env := an.H05Env{}
		if lk.CommaOk {
			okv := c05Extract(lk, 1)
			if okv == nil {
				best = c05Better(best, an.H05Verdict{Cand: true, Why: "a peer index without a key in the cluster is not rejected"})
				continue
			}
			env[okv] = an.H05ConstAbs(constant.MakeBool(false))
		} else {
			env[lk] = an.H05NilAbs
		}
		if !en.Dom(lk, site, acc) {
			best = c05Better(best, an.H05Verdict{Cand: true, Why: "the key lookup does not dominate the accepting return"})
			continue
		}
		reach, imp := en.ReachUnder(lk, site, env, acc)
		switch {
		case !reach:
			return an.H05Verdict{Yes: true, Cand: true, Wit: lk, WitFrame: f}
		case imp:
			best = c05Better(best, an.H05Verdict{Unsure: true, Cand: true, Why: "the result of the key lookup is tested in a way the checker cannot follow"})
		default:
			best = c05Better(best, an.H05Verdict{Cand: true, Why: "a peer index without a key in the cluster is not rejected"})
		}
	}
	return best
}

// c05HiddenConsumer names code the engine cannot look into that receives (part of) the value obj in the
// activations reachable from root: a dynamically chosen function (an element of a table of checks, a
// function-typed field or parameter), a function literal that is not called directly. Checks may live
// there, so their absence elsewhere is not evidence. Empty if there is none.
func c05HiddenConsumer(en *an.H05, root *an.H05Frame, obj *an.H05Term) string {
	hidden := ""
	visited := map[*ssa.Function]bool{}
	en.Walk(root, func(in ssa.Instruction, f *an.H05Frame) {
		visited[f.Fn] = true
		ci, ok := in.(ssa.CallInstruction)
		if !ok {
			return
		}
		cc := ci.Common()
		if _, isB := cc.Value.(*ssa.Builtin); isB || cc.IsInvoke() {
			return
		}
		if callee := cc.StaticCallee(); callee != nil {
			if en.Child(f, ci) == nil && callee.Pkg == root.Fn.Pkg && !en.Anchors[an.FuncName(callee)] {
				for _, a := range cc.Args {
					if en.Term(a, f).Contains(obj) {
						hidden = an.FuncName(callee)
					}
				}
			}
			return
		}
		for _, a := range cc.Args {
			if en.Term(a, f).Contains(obj) {
				hidden = "a dynamically chosen function"
			}
		}
	})
	return hidden
}

// c05sigQ: a PublicKey.IsEqual call comparing the key recovered (k1util.Recover) from the message's own
// Signature over hashProto of the proto.Clone of the message with the expected key returned true.
type c05sigQ struct{ msg, key *an.H05Term }

func (q *c05sigQ) ID() string { return "c05sig:" + q.msg.Key() + "|" + q.key.Key() }

// c05RecoveredFrom: t is the key k1util.Recover yields for msg's signature over the hash of msg's clone.
// (yes, untraced)
func c05RecoveredFrom(t, msg *an.H05Term) (bool, bool) {
	if !(t.Is("extract", "0") && len(t.Args) == 1 && t.Args[0].Is("call", "app/k1util.Recover") && len(t.Args[0].Args) == 2) {
		return false, t.Untraced()
	}
	dig, sig := t.Args[0].Args[0], t.Args[0].Args[1]
	if !an.H05Same(sig, an.H05Field(c05PB+".QBFTMsg.Signature", msg)) {
		return false, sig.Untraced()
	}
	for _, clone := range []*an.H05Term{
		an.H05T("assert", "*"+c05PB+".QBFTMsg", an.H05CallT(c05Clone, msg)),
		an.H05CallT(c05Clone+"Of", msg),
	} {
		if c05DigestOf(dig, clone) {
			return true, false
		}
	}
	return false, dig.Untraced()
}

func (q *c05sigQ) Direct(en *an.H05, site ssa.Instruction, f *an.H05Frame, acc an.H05Accept) an.H05Verdict {
	best := an.H05Verdict{Why: "the key recovered from the message's signature is never compared (IsEqual) with pubkeys[msg.PeerIdx]"}
	for _, b := range f.Fn.Blocks {
		for _, in := range b.Instrs {
			g, ok := in.(*ssa.Call)
			if !ok || g.Call.IsInvoke() || g.Call.StaticCallee() == nil || !strings.HasSuffix(an.FuncName(g.Call.StaticCallee()), ".PublicKey.IsEqual") || len(g.Call.Args) != 2 {
				continue
			}
			a0, a1 := en.Term(g.Call.Args[0], f), en.Term(g.Call.Args[1], f)
			var rec *an.H05Term
			switch {
			case an.H05Same(a1, q.key):
				rec = a0
			case an.H05Same(a0, q.key):
				rec = a1
			default:
				if a0.Untraced() || a1.Untraced() {
					best = c05Better(best, an.H05Verdict{Unsure: true, Cand: true, Why: "IsEqual is applied to a value the checker cannot trace"})
				} else if r0, _ := c05RecoveredFrom(a0, q.msg); r0 {
					best = c05Better(best, an.H05Verdict{Cand: true, Why: "verifyMsgSig is not applied to the message and the key of its own source index: the recovered key is compared with something other than pubkeys[msg.PeerIdx]"})
				} else if r1, _ := c05RecoveredFrom(a1, q.msg); r1 {
					best = c05Better(best, an.H05Verdict{Cand: true, Why: "verifyMsgSig is not applied to the message and the key of its own source index: the recovered key is compared with something other than pubkeys[msg.PeerIdx]"})
				}
				continue
			}
			if yes, untraced := c05RecoveredFrom(rec, q.msg); !yes {
				if untraced {
					best = c05Better(best, an.H05Verdict{Unsure: true, Cand: true, Why: "the key compared with pubkeys[msg.PeerIdx] cannot be traced to k1util.Recover"})
				} else {
					best = c05Better(best, an.H05Verdict{Cand: true, Why: "the key compared with pubkeys[msg.PeerIdx] is not the one recovered from the message's own signature over the hash of its clone"})
				}
				continue
			}
			v := en.Checked(g, an.H05Spec{BoolIdx: 0, BoolWant: true}, site, acc)
			if v.Yes {
				v.WitFrame = f
				return v
			}
			best = c05Better(best, v)
		}
	}
	return best
}

func c05A4(e *c05env) {
	c := e.c
	en := e.engine()
	fn := c.Fn(c05N("verifyMsg"))
	root := en.Root(fn)
	msgT, keysT := en.Term(fn.Params[0], root), en.Term(fn.Params[1], root)
	sinks := en.SuccessReturns(fn, an.H05ErrNil)
	if len(sinks) == 0 {
		c.Bail("verifyMsg: no successful return found")
	}
	fld := func(f string) *an.H05Term { return an.H05Field(c05PB+".QBFTMsg."+f, msgT) }
	idxT := fld("PeerIdx")
	keyT := an.H05T("lookup", "", keysT, idxT)
	// the lookup exists at all (in verifyMsg or a helper)
	var lookupPos token.Pos
	haveLookup := false
	en.Walk(root, func(in ssa.Instruction, f *an.H05Frame) {
		if lk, ok := in.(*ssa.Lookup); ok && an.H05Same(en.Term(lk.X, f), keysT) && an.H05Same(en.Term(lk.Index, f), idxT) {
			haveLookup, lookupPos = true, lk.Pos()
		}
	})
	hidden := c05HiddenConsumer(en, root, msgT)
	for _, sink := range sinks {
		acc := en.AcceptReturn(sink, an.H05ErrNil)
		est := func(q an.H05Query) an.H05Verdict {
			v := en.Established(q, sink, root, acc, false)
			if !v.Yes && !v.Unsure && !v.Cand && hidden != "" {
				v.Unsure = true
				v.Why += "; the message is handed to " + hidden + ", which the checker cannot look into"
			}
			return v
		}
		pos := posOf(sink)
		boolTrue := an.H05Spec{BoolIdx: 0, BoolWant: true}
		c05Report(c, "verifyMsg type valid→accept", pos,
			est(c05CallQ("core/qbft.MsgType.Valid", boolTrue, "no core/qbft.MsgType.Valid() test of the message's field", fld("Type"))), "")
		c05Report(c, "verifyMsg duty type valid→accept", pos,
			est(c05CallQ("core.DutyType.Valid", boolTrue, "no core.DutyType.Valid() test of the message's field", an.H05Field(c05PB+".Duty.Type", fld("Duty")))), "")
		c05Report(c, "verifyMsg round>0→accept", pos, est(&c05rangeQ{fld("Round"), "Round", func(n int64) bool { return n <= 0 }}), "")
		c05Report(c, "verifyMsg preparedRound>=0→accept", pos, est(&c05rangeQ{fld("PreparedRound"), "PreparedRound", func(n int64) bool { return n < 0 }}), "")
		if !haveLookup {
			c.Bad("verifyMsg key = pubkeys[msg.PeerIdx]", pos, "the public key is not looked up by the message's own peer index")
			c.Bad("verifyMsg unknown peer→reject", pos, "no lookup")
			c.Bad("verifyMsg verifyMsgSig(msg, key)→accept", pos, "no lookup")
			continue
		}
		c.Good("verifyMsg key = pubkeys[msg.PeerIdx]", lookupPos, "")
		c05Report(c, "verifyMsg unknown peer→reject", lookupPos, est(&c05lookupQ{keysT, idxT}), "")
		// the signature mechanism itself, wherever its steps live (verifyMsgSig, a differently cut helper,
		// inline): the key recovered from the message's signature over the hash of its clone was found equal
		// to the key of the message's own source index
		sv := est(&c05sigQ{msg: msgT, key: keyT})
		c05Report(c, "verifyMsg verifyMsgSig(msg, key)→accept", pos, sv, "")
	}

	// Msg.Source() is that same signed field
	src := c.Fn(c05Q + ".Msg.Source")
	sroot := en.Root(src)
	msgField := "msg"
	for f, r := range c05MsgFieldRole(e) {
		if r == "msg" {
			msgField = f
		}
	}
	want := an.H05Field(c05PB+".QBFTMsg.PeerIdx", an.H05Field(c05Q+".Msg."+msgField, en.Term(src.Params[0], sroot)))
	for _, r := range an.Returns(src) {
		good, unsure := false, false
		if len(r.Results) == 1 {
			t := en.Term(r.Results[0], sroot)
			good, unsure = an.H05Same(t, want), t.Untraced()
		}
		if !good && unsure {
			c.Unsure("Msg.Source returns msg.PeerIdx", posOf(r), "the value returned cannot be traced to its origin")
			continue
		}
		c.Check("Msg.Source returns msg.PeerIdx", posOf(r), good, "Source() is not the PeerIdx of the signed message the key was looked up with")
	}

	// the key table maps index i to the key of peers[i]
	nc := c.Fn(c05Q + ".NewConsensus")
	nroot := en.Root(nc)
	fPubkeys, _, _, _ := c05ConsFields(c)
	var keysMap *an.H05Term
	en.Walk(nroot, func(in ssa.Instruction, f *an.H05Frame) {
		if st, ok := in.(*ssa.Store); ok {
			if fa, ok := st.Addr.(*ssa.FieldAddr); ok && an.FieldKey(fa.X.Type(), fa.Field) == c05Q+".Consensus."+fPubkeys {
				keysMap = en.Term(st.Val, f)
			}
		}
	})
	if keysMap == nil {
		c.Bail("NewConsensus: pubkeys field is not initialised")
	}
	var peersT *an.H05Term
	for _, p := range nc.Params {
		if sl, ok := p.Type().Underlying().(*types.Slice); ok && an.TypeName(sl.Elem()) == "p2p.Peer" {
			peersT = en.Term(p, nroot)
		}
	}
	var ups []c05site
	en.Walk(nroot, func(in ssa.Instruction, f *an.H05Frame) {
		if mu, ok := in.(*ssa.MapUpdate); ok && an.H05Same(en.Term(mu.Map, f), keysMap) {
			ups = append(ups, c05site{mu, f})
		}
	})
	if len(ups) == 0 {
		c.Bad("NewConsensus pubkeys[i] = peers[i].PublicKey()", nc.Pos(), "no key is inserted into the pubkeys table")
	}
	for _, u := range ups {
		up := u.in.(*ssa.MapUpdate)
		v := an.H05Verdict{Why: "key table entry is not peers[i].PublicKey() under index i"}
		vt := en.Term(up.Value, u.f)
		if peersT != nil && vt.Is("extract", "0") && len(vt.Args) == 1 && vt.Args[0].Is("call") && strings.HasSuffix(vt.Args[0].Name, ".PublicKey") &&
			len(vt.Args[0].Args) == 1 && an.H05Same(vt.Args[0].Args[0], an.H05Elem(peersT)) {
			// index: the position of that element in the peers list
			var rg *an.H05Range
			for _, l := range an.LoopsContaining(up.Parent(), up.Block()) {
				if r := en.RangeOf(l); r != nil && r.Idx != nil && an.H05Same(en.Term(r.Coll, u.f), peersT) {
					rg = r
					break
				}
			}
			switch {
			case rg == nil:
				v = an.H05Verdict{Unsure: true, Why: "the loop over the peers list is not recognised"}
			case !an.H05Same(en.Term(up.Key, u.f), en.Term(rg.Idx, u.f)):
				v.Why = "table index is not the position of the peer in the peers list"
			default:
				pk := vt.Args[0].Val.(*ssa.Call)
				q := &c05callQ{name: "PublicKey", spec: an.H05ErrNil, missing: "PublicKey() does not precede the insertion", args: []*an.H05Term{nil},
					callee: func(en *an.H05, g *ssa.Call, f *an.H05Frame) bool { return g == pk }}
				v = en.Established(q, up, u.f, nil, true)
			}
		} else if vt.Untraced() {
			v = an.H05Verdict{Unsure: true, Why: "the key stored cannot be traced to its origin"}
		}
		c05Report(c, "NewConsensus pubkeys[i] = peers[i].PublicKey()", posOf(up), v, "")
	}
}
