package rules

import (
	"go/token"
	"go/types"
	"strconv"
	"strings"

	"golang.org/x/tools/go/ssa"

	"charonverif/internal/an"
	"charonverif/internal/rt"
)

// K1, decided on the explored paths of makeShares (in-package helpers stepped into): on every path that returns
// shares,
//   - each returned share.Share has PubKey derived (through conversion calls only) from <participant>.VerificationKey,
//     SecretShare from <the same participant>.SkShare, and PublicShares = T[<index of that participant>] for a table
//     T made on the path;
//   - every map stored into T is stored under <key>.ValIdx of a round-2 message key, and every public share put into
//     an inner map of T is keyed by <key>.SourceID, derived from <result>.VkShare of the SAME round-2 message, and the
//     inner map is T[<key>.ValIdx] of that message.

// c11ThroughCalls strips conversions: x = f(g(..(y)..)) where every call has one non-constant argument; result
// extraction and full slicing are transparent.
func c11ThroughCalls(x *c11X) *c11X {
	for i := 0; i < 10 && x != nil; i++ {
		switch x.Op {
		case "extract":
			if x.Name == "0" && len(x.Args) == 1 {
				x = x.Args[0]
				continue
			}
		case "slice":
			if len(x.Args) == 1 {
				x = x.Args[0]
				continue
			}
		case "call":
			var inner *c11X
			n := 0
			for _, a := range x.Args {
				if a.Op != "const" {
					inner = a
					n++
				}
			}
			if n == 1 {
				x = inner
				continue
			}
		}
		return x
	}
	return x
}

func c11StructFieldIdx(t types.Type, name string) int {
	st, ok := t.Underlying().(*types.Struct)
	if !ok {
		return -1
	}
	for i := 0; i < st.NumFields(); i++ {
		if st.Field(i).Name() == name {
			return i
		}
	}
	return -1
}

// c11FieldSym selects field idx of a struct-valued symbol.
func c11FieldSym(s *an.Sym, idx int) *an.Sym {
	if s == nil {
		return nil
	}
	if s.Kind == an.KStruct {
		if f, ok := s.Fields[idx]; ok {
			return f
		}
		if len(s.Args) == 1 && s.Args[0] != nil {
			return c11FieldSym(s.Args[0], idx)
		}
		return nil
	}
	return &an.Sym{Kind: an.KField, Args: []*an.Sym{s}, Index: idx}
}

func c11K1(c *rt.Ctx) {
	fn := c.Fn("dkg.makeShares")
	if len(fn.Params) != 2 {
		c.Bail("makeShares: unexpected signature")
	}
	resSl, ok := fn.Signature.Results().At(0).Type().Underlying().(*types.Slice)
	if !ok || an.TypeName(resSl.Elem()) != c11ShareT {
		c.Bail("makeShares: first result is not []share.Share")
	}
	shareT := resSl.Elem()
	iPK, iSK, iPS := c11StructFieldIdx(shareT, "PubKey"), c11StructFieldIdx(shareT, "SecretShare"), c11StructFieldIdx(shareT, "PublicShares")
	if iPK < 0 || iSK < 0 || iPS < 0 {
		c.Bail("share.Share has no PubKey/SecretShare/PublicShares field")
	}
	tr := &an.H11Tracer{Root: fn, MaxVisits: 3}
	paths, res := c11Trace(tr)
	if res.Truncated || len(paths) == 0 {
		c.Bail("makeShares: path enumeration failed or was truncated")
	}
	agg := newAgg(c)
	const (
		kPK  = "makeShares Share.PubKey←participant.VerificationKey"
		kSK  = "makeShares Share.SecretShare←participant.SkShare"
		kPS  = "makeShares Share.PublicShares←pubShares[validator index of participant]"
		kNew = "makeShares pubShares[key.ValIdx]=new map"
		kIn  = "makeShares pubShares[key.ValIdx][key.SourceID]←result.VkShare"
	)
	nShares, nInner := 0, 0
	for _, q := range paths {
		if q.p.End != "return" || len(q.p.Results) != 2 || !q.p.Results[1].IsNil() {
			continue
		}
		validatorsP := q.tm(&an.Sym{Kind: an.KParam, V: fn.Params[0]})
		r2P := q.tm(&an.Sym{Kind: an.KParam, V: fn.Params[1]})
		elems, okElems := q.sliceElems(q.p.Results[0])
		if !okElems {
			agg.unsure(kPK, fn.Pos(), "the returned shares are not a slice filled share by share on the path")
			continue
		}
		// where each element was appended (for positions)
		posOfElem := func(el *an.Sym) token.Pos {
			for _, e := range q.p.Evs {
				if e.Kind == "builtin" && e.Name == "append" && e.Res != nil && e.Res.Kind == an.KAppend {
					for _, a := range e.Res.Args[1:] {
						if a == el || an.SymEq(a, el) {
							return posOf(e.In)
						}
					}
				}
			}
			return fn.Pos()
		}
		var table *c11X // the map[ValIdx]map[SourceID]pubshare
		for _, el := range elems {
			nShares++
			pos := posOfElem(el)
			if el.Kind != an.KStruct {
				agg.unsure(kPK, pos, "a returned share is not built field by field on the path")
				continue
			}
			pk, sk, ps := c11FieldSym(el, iPK), c11FieldSym(el, iSK), c11FieldSym(el, iPS)
			if pk == nil || sk == nil || ps == nil {
				agg.bad(kPK, pos, "not all of PubKey, SecretShare, PublicShares are set on a returned share")
				continue
			}
			// PubKey <- conv(v.VerificationKey)
			pkx := c11ThroughCalls(q.tm(pk))
			part := c11FieldOf(pkx, c11FrostPart+".VerificationKey")
			switch {
			case part != nil:
				agg.ok(kPK, pos)
			case c11Resolved(pkx):
				agg.bad(kPK, pos, "the group public key of a share is not derived from v.VerificationKey of a DKG participant")
			default:
				agg.unsure(kPK, pos, "cannot resolve where the group public key of a share comes from")
			}
			// SecretShare <- conv(v.SkShare), same participant
			skx := c11ThroughCalls(q.tm(sk))
			part2 := c11FieldOf(skx, c11FrostPart+".SkShare")
			switch {
			case part2 != nil && (part == nil || c11Same(part, part2)):
				agg.ok(kSK, pos)
			case part2 != nil && !c11Differ(part, part2):
				agg.unsure(kSK, pos, "cannot tell whether the secret share and the group key come from the same participant")
			case part2 != nil || c11Resolved(skx):
				agg.bad(kSK, pos, "the secret share is not derived from v.SkShare of the participant that supplies the group key")
			default:
				agg.unsure(kSK, pos, "cannot resolve where the secret share comes from")
			}
			if part == nil {
				part = part2
			}
			// PublicShares <- T[index of that participant]
			px := q.tm(ps)
			switch {
			case px.Op != "lookup" || px.Args[0].Op != "make":
				if c11Resolved(px) {
					agg.bad(kPS, pos, "PublicShares is not a lookup in the per-validator public-share map")
				} else {
					agg.unsure(kPS, pos, "cannot resolve where PublicShares comes from")
				}
			case part == nil:
				agg.unsure(kPS, pos, "participant of the share not resolved")
			default:
				good, decided := false, true
				table = px.Args[0]
				switch {
				case part.Op == "lookup" && c11Same(part.Args[0], validatorsP):
					good = c11Same(part.Args[1], px.Args[1])
					decided = good || c11Differ(part.Args[1], px.Args[1])
				case part.Op == "rval" && len(part.Args) == 1 && c11Same(part.Args[0], validatorsP):
					want := c11mk("rkey", part.Name, nil, validatorsP)
					good = c11Same(px.Args[1], want)
					decided = good || c11Differ(px.Args[1], want)
				default:
					decided = false
				}
				if !good && !decided {
					agg.unsure(kPS, pos, "cannot relate the validator index of PublicShares to the participant that supplies the keys")
				} else {
					agg.check(kPS, pos, good, "PublicShares is taken at another validator index than the participant that supplies the keys")
				}
			}
		}
		if table == nil {
			continue
		}
		// the table on this path
		valIdxIter := func(k *c11X) string { // k = <key>.ValIdx of an iteration over r2Result -> iteration name
			r := c11FieldOf(k, "dkg.msgKey.ValIdx")
			if r != nil && r.Op == "rkey" && len(r.Args) == 1 && c11Same(r.Args[0], r2P) {
				return r.Name
			}
			return ""
		}
		type outerUp struct {
			val  *an.Sym
			iter string
		}
		var outers []outerUp
		var tableSym *an.Sym
		for _, e := range q.p.Evs {
			if e.Kind != "mapupdate" || !c11Same(q.tm(e.Args[0]), table) {
				continue
			}
			tableSym = e.Args[0]
			kx := q.tm(e.Args[1])
			it := valIdxIter(kx)
			outers = append(outers, outerUp{e.Args[2], it})
			fresh := e.Args[2].Kind == an.KFresh
			// storing back the map that was read under the same key is a no-op
			if vx := q.tm(e.Args[2]); !fresh && vx.Op == "lookup" && len(vx.Args) == 2 && c11Same(vx.Args[0], table) && c11Same(vx.Args[1], kx) {
				if it != "" {
					agg.ok(kNew, posOf(e.In))
					continue
				}
			}
			switch {
			case fresh && it != "":
				agg.ok(kNew, posOf(e.In))
			case !fresh && (!c11Resolved(q.tm(e.Args[2])) || q.tm(e.Args[2]).Op == "call" || q.tm(e.Args[2]).Op == "extract"), it == "" && !c11Resolved(kx):
				// a map produced by a call the walker did not step into may well be fresh
				agg.unsure(kNew, posOf(e.In), "cannot resolve the map stored into the per-validator table or its key")
			default:
				agg.bad(kNew, posOf(e.In), "the per-validator map is not a fresh map stored under the ValIdx of a round-2 message key")
			}
		}
		if tableSym == nil {
			continue
		}
		mt, isMap := table.V.Type().Underlying().(*types.Map)
		if !isMap {
			continue
		}
		innerT := mt.Elem()
		for _, e := range q.p.Evs {
			if e.Kind != "mapupdate" {
				continue
			}
			mu, isMU := e.In.(*ssa.MapUpdate)
			if !isMU || !types.Identical(mu.Map.Type(), innerT) {
				continue
			}
			nInner++
			pos := posOf(e.In)
			kx, vx := q.tm(e.Args[1]), q.tm(e.Args[2])
			src := c11FieldOf(kx, "dkg.msgKey.SourceID")
			if src == nil || src.Op != "rkey" || len(src.Args) != 1 || !c11Same(src.Args[0], r2P) {
				if c11Resolved(kx) {
					agg.bad(kIn, pos, "public share is not keyed by the SourceID of the round-2 message key")
				} else {
					agg.unsure(kIn, pos, "cannot resolve the key a public share is stored under")
				}
				continue
			}
			it := src.Name
			vin := c11ThroughCalls(vx)
			resx := c11FieldOf(vin, c11FrostR2+".VkShare")
			want := c11mk("rval", it, nil, r2P)
			want2 := c11mk("lookup", "", nil, r2P, c11mk("rkey", it, nil, r2P)) // r2Result[key] of the ranged key
			if resx == nil || !(c11Same(resx, want) || c11Same(resx, want2)) {
				if (resx == nil && c11Resolved(vin)) || (resx != nil && c11Differ(resx, want) && c11Differ(resx, want2)) {
					agg.bad(kIn, pos, "stored public share is not derived from result.VkShare of the same round-2 message")
				} else {
					agg.unsure(kIn, pos, "cannot resolve where the stored public share comes from")
				}
				continue
			}
			// the inner map is T[key.ValIdx] of the same message: read from the table, or the fresh map just stored there
			mx := q.tm(e.Args[0])
			good, decided := false, true
			switch {
			case mx.Op == "lookup" && c11Same(mx.Args[0], table):
				good = valIdxIter(mx.Args[1]) == it
				decided = good || c11Resolved(mx.Args[1])
			case e.Args[0].Kind == an.KFresh:
				for _, ou := range outers {
					if an.SymEq(ou.val, e.Args[0]) {
						good = ou.iter == it
					}
				}
			default:
				decided = c11Resolved(mx)
			}
			if !good && !decided {
				agg.unsure(kIn, pos, "cannot resolve the inner map a public share is put into")
			} else {
				agg.check(kIn, pos, good, "public share is not grouped under the ValIdx of its own message key")
			}
		}
	}
	agg.flush()
	if nShares == 0 {
		c.Unsure("makeShares share.Share", fn.Pos(), "no explored path of makeShares returns a share")
	}
	if nInner == 0 {
		c.Unsure(kIn, fn.Pos(), "no insertion into a per-validator public-share map on the explored paths")
	}
}

// sliceElems lists the elements of a slice value that was built on the path: grown from nothing by append, or made
// and filled by index assignments (whole values or field by field) with constant indexes.
func (q *c11Path) sliceElems(s *an.Sym) ([]*an.Sym, bool) {
	if s == nil {
		return nil, false
	}
	base, elems, spread := an.AppendElems(s)
	if spread {
		return nil, false
	}
	if base != nil && !base.IsNil() {
		if base.Kind != an.KFresh {
			return nil, false
		}
		// elements assigned by index into the made slice
		prefix := "*(" + base.Key() + ")[c:"
		byIdx := map[int]*an.Sym{}
		max := -1
		for cell, v := range q.p.Mem {
			if !strings.HasPrefix(cell, prefix) {
				continue
			}
			rest := cell[len(prefix):]
			end := strings.Index(rest, "]")
			if end < 0 {
				return nil, false
			}
			j, err := strconv.Atoi(rest[:end])
			if err != nil {
				return nil, false
			}
			if j > max {
				max = j
			}
			el := byIdx[j]
			tail := rest[end+1:]
			switch {
			case tail == "":
				if el != nil && el.Kind == an.KStruct && len(el.Args) == 1 && el.Args[0] == nil {
					el.Args[0] = v
				} else {
					byIdx[j] = v
				}
			case strings.HasPrefix(tail, ".#") && !strings.Contains(tail[2:], "."):
				fi, err := strconv.Atoi(tail[2:])
				if err != nil {
					return nil, false
				}
				if el == nil || el.Kind != an.KStruct || el.Fields == nil {
					el = &an.Sym{Kind: an.KStruct, Args: []*an.Sym{el}, Fields: map[int]*an.Sym{}}
					byIdx[j] = el
				}
				el.Fields[fi] = v
			default:
				return nil, false
			}
		}
		var out []*an.Sym
		for j := 0; j <= max; j++ {
			if byIdx[j] == nil {
				return nil, false
			}
			out = append(out, byIdx[j])
		}
		return append(out, elems...), true
	}
	return elems, true
}
