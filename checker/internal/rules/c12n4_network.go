package rules

// C12-NW — in cluster creation the chain identity (network name / fork version) under which deposit data and
// builder registrations are signed, self-checked and written derives, on every path, from the ForkVersion of
// the cluster definition that goes into the lock.
//
// Why it is a necessary condition: lock.fork_version is the only record of the chain the cluster is for, and
// Lock.VerifySignatures / the launchpad verify deposit data and registrations under the domain of that fork
// version. A signing domain computed from anything else (a CLI flag, a constant, a configuration field) agrees
// with the lock only for the inputs where the two happen to coincide.
//
// Formulation (value provenance, no shapes):
//   * sinks: in the functions of package cmd reachable from runCreateCluster, every argument of a call into
//     eth2util/deposit or eth2util/registration whose callee parameter is a *chain-identity parameter* — the
//     parameter flows (through in-module callees, conversions, copies, spilled locals) into the network→fork
//     version lookup of eth2util or into phase0.ForkData.CurrentVersion, the fork version of a signing domain —
//     and every value stored into ForkData.CurrentVersion in those functions directly;
//   * judgement of a sink value v, by a backward walk that is conjunctive over alternatives (phi edges, the
//     stores that reach a load without being overwritten, return statements, call sites) and disjunctive over the
//     arguments of functions outside the package:
//       derived  — a read of cluster.Definition.ForkVersion (also through Lock) or a value that carries a
//                  Definition;
//       other    — a closed source that is not the definition: a parameter of the root (the CLI configuration),
//                  a non-zero constant;
//       unknown  — globals, function values, collections.
//     VIOLATION only when some alternative is positively `other`; zero constants (the error-path results
//     `return "", err`) are neutral.

import (
	"fmt"
	"go/constant"
	"go/token"
	"go/types"
	"strings"

	"golang.org/x/tools/go/ssa"

	"charonverif/internal/an"
	"charonverif/internal/rt"
)

func init() {
	Extend("C12", "(NW) in cmd.runCreateCluster the network / fork version handed to the deposit-data and builder-registration signing, self-check and file writing derives on every path from the definition's ForkVersion (the value recorded in the lock).",
		func(c *rt.Ctx) { c.Rule("NW", 3, func() { c12n4Network(c) }) }, c12n4NWMutants...)
}

var c12n4NWMutants = []Mutant{
	{ID: "C12-NW-deposit-network-from-flag", File: "cmd/createcluster.go", Expect: "NW",
		Old: "\tdepositDatas, err := createDepositDatas(def.WithdrawalAddresses(), network, secrets, depositAmounts, def.Compounding)",
		New: "\tdepositDatas, err := createDepositDatas(def.WithdrawalAddresses(), conf.Network, secrets, depositAmounts, def.Compounding)"},
	{ID: "C12-NW-deposit-files-default-network", File: "cmd/createcluster.go", Expect: "NW",
		Old: "deposit.WriteClusterDepositDataFiles(depositDatas, network, conf.ClusterDir, numNodes)",
		New: "deposit.WriteClusterDepositDataFiles(depositDatas, defaultNetwork, conf.ClusterDir, numNodes)"},
	{ID: "C12-NW-registration-fork-from-flag", File: "cmd/createcluster.go", Expect: "NW",
		Old: "\tvalRegs, err := createValidatorRegistrations(ctx, def.FeeRecipientAddresses(), secrets, def.ForkVersion, conf.SplitKeys, conf.TargetGasLimit)",
		New: "\tregFork, err := eth2util.NetworkToForkVersionBytes(conf.Network)\n\tif err != nil {\n\t\treturn err\n\t}\n\n\tvalRegs, err := createValidatorRegistrations(ctx, def.FeeRecipientAddresses(), secrets, regFork, conf.SplitKeys, conf.TargetGasLimit)"},
	{ID: "C12-NW-sign-network-fallback", File: "cmd/createcluster.go", Expect: "NW",
		Old: "\t\t\tsigRoot, err := deposit.GetMessageSigningRoot(msg, network)",
		New: "\t\t\tif len(withdrawalAddresses) == 1 {\n\t\t\t\tnetwork = defaultNetwork\n\t\t\t}\n\n\t\t\tsigRoot, err := deposit.GetMessageSigningRoot(msg, network)"},
}

type c12n4V int

const (
	c12n4Neutral c12n4V = iota
	c12n4Derived
	c12n4Unknown
	c12n4Other
)

type c12n4Res struct {
	v   c12n4V
	why string
	pos token.Pos
}

// all: every alternative may be the value.
func c12n4All(rs []c12n4Res) c12n4Res {
	out := c12n4Res{v: c12n4Neutral}
	for _, r := range rs {
		if r.v > out.v {
			out = r
		}
	}
	return out
}

// any: the value is a function of all of them.
func c12n4Any(rs []c12n4Res) c12n4Res {
	out := c12n4Res{v: c12n4Neutral}
	rank := func(v c12n4V) int {
		switch v {
		case c12n4Derived:
			return 3
		case c12n4Unknown:
			return 2
		case c12n4Other:
			return 1
		}
		return 0
	}
	for _, r := range rs {
		if rank(r.v) > rank(out.v) {
			out = r
		}
	}
	return out
}

type c12n4Ctx struct {
	call   ssa.CallInstruction
	fn     *ssa.Function
	parent *c12n4Ctx
	depth  int
}

type c12n4Eval struct {
	c     *rt.Ctx
	pkg   *ssa.Package
	root  *ssa.Function
	reach map[*ssa.Function]bool
	order []*ssa.Function
	busy  map[string]bool
	chain map[string]int // chain-identity parameter summaries: 0 unknown, 1 yes, 2 no, 3 in progress
	steps int
}

func (e *c12n4Eval) inPkg(f *ssa.Function) bool {
	for f != nil && f.Parent() != nil {
		f = f.Parent()
	}
	return f != nil && f.Blocks != nil && f.Pkg == e.pkg
}

func c12n4IsDefForkVersion(t types.Type, idx int) bool {
	if p, ok := t.Underlying().(*types.Pointer); ok {
		t = p.Elem()
	}
	st, ok := t.Underlying().(*types.Struct)
	if !ok || idx >= st.NumFields() {
		return false
	}
	return st.Field(idx).Name() == "ForkVersion" && an.TypeName(t) == "cluster.Definition"
}

// c12n4CarriesDef: a value of this type holds a whole cluster definition (and with it its fork version).
func c12n4CarriesDef(t types.Type) bool {
	switch an.TypeName(t) {
	case "cluster.Definition", "cluster.Lock":
		return true
	}
	return false
}

func c12n4IsForkDataVersion(t types.Type, idx int) bool {
	if p, ok := t.Underlying().(*types.Pointer); ok {
		t = p.Elem()
	}
	st, ok := t.Underlying().(*types.Struct)
	if !ok || idx >= st.NumFields() {
		return false
	}
	n, ok := types.Unalias(t).(*types.Named)
	return ok && n.Obj().Name() == "ForkData" && st.Field(idx).Name() == "CurrentVersion"
}

func c12n4Path(p []int) string { return fmt.Sprint(p) }

func c12n4Zero(k *ssa.Const) bool {
	if k.Value == nil {
		return true
	}
	switch k.Value.Kind() {
	case constant.String:
		return constant.StringVal(k.Value) == ""
	case constant.Int, constant.Float:
		return constant.Sign(k.Value) == 0
	case constant.Bool:
		return !constant.BoolVal(k.Value)
	}
	return false
}

// eval judges the field `path` of value v (path nil: v itself) in calling context cx.
func (e *c12n4Eval) eval(v ssa.Value, path []int, cx *c12n4Ctx) c12n4Res {
	if v == nil {
		return c12n4Res{v: c12n4Neutral}
	}
	e.steps++
	if e.steps > 200000 {
		return c12n4Res{v: c12n4Unknown, why: "provenance walk too large", pos: v.Pos()}
	}
	if len(path) == 0 && c12n4CarriesDef(v.Type()) {
		return c12n4Res{v: c12n4Derived}
	}
	key := fmt.Sprintf("v%p%s%p", v, c12n4Path(path), cx)
	if e.busy[key] {
		return c12n4Res{v: c12n4Neutral}
	}
	e.busy[key] = true
	defer delete(e.busy, key)
	unknown := func(msg string) c12n4Res { return c12n4Res{v: c12n4Unknown, why: msg, pos: v.Pos()} }
	switch x := v.(type) {
	case *ssa.Const:
		if len(path) > 0 || c12n4Zero(x) {
			return c12n4Res{v: c12n4Neutral}
		}
		return c12n4Res{v: c12n4Other, why: "the constant " + x.Value.String(), pos: x.Pos()}
	case *ssa.Parameter:
		return e.param(x, path, cx, false)
	case *ssa.FreeVar:
		var rs []c12n4Res
		for _, b := range e.bindings(x) {
			rs = append(rs, e.eval(b, path, nil))
		}
		if len(rs) == 0 {
			return unknown("free variable " + x.Name() + " without a visible closure creation")
		}
		return c12n4All(rs)
	case *ssa.Phi:
		var rs []c12n4Res
		for _, ed := range x.Edges {
			rs = append(rs, e.eval(ed, path, cx))
		}
		return c12n4All(rs)
	case *ssa.UnOp:
		if x.Op == token.MUL {
			return e.evalAddr(x.X, path, cx, x)
		}
		return e.eval(x.X, path, cx)
	case *ssa.Convert:
		return e.eval(x.X, path, cx)
	case *ssa.ChangeType:
		return e.eval(x.X, path, cx)
	case *ssa.ChangeInterface:
		return e.eval(x.X, path, cx)
	case *ssa.MakeInterface:
		return e.eval(x.X, path, cx)
	case *ssa.TypeAssert:
		return e.eval(x.X, path, cx)
	case *ssa.Slice:
		return e.eval(x.X, path, cx)
	case *ssa.SliceToArrayPointer:
		return e.eval(x.X, path, cx)
	case *ssa.BinOp:
		return c12n4Any([]c12n4Res{e.eval(x.X, nil, cx), e.eval(x.Y, nil, cx)})
	case *ssa.Field:
		if c12n4IsDefForkVersion(x.X.Type(), x.Field) {
			return c12n4Res{v: c12n4Derived}
		}
		return e.eval(x.X, append([]int{x.Field}, path...), cx)
	case *ssa.Extract:
		if call, ok := x.Tuple.(*ssa.Call); ok {
			return e.evalCall(call, x.Index, path, cx)
		}
		return unknown(fmt.Sprintf("component of %T", x.Tuple))
	case *ssa.Call:
		return e.evalCall(x, 0, path, cx)
	case *ssa.Alloc, *ssa.FieldAddr, *ssa.IndexAddr:
		// a pointer used as a value (e.g. *Definition): what it points to
		return e.evalAddr(v, path, cx, nil)
	case *ssa.Global:
		return unknown("global " + x.Name())
	}
	return unknown(fmt.Sprintf("%T", v))
}

func (e *c12n4Eval) bindings(fv *ssa.FreeVar) []ssa.Value {
	fn := fv.Parent()
	fi := -1
	for i, f := range fn.FreeVars {
		if f == fv {
			fi = i
		}
	}
	var out []ssa.Value
	if fn.Parent() == nil || fi < 0 {
		return nil
	}
	for _, in := range an.Instrs(fn.Parent(), false) {
		if mc, ok := in.(*ssa.MakeClosure); ok && mc.Fn == ssa.Value(fn) && fi < len(mc.Bindings) {
			out = append(out, mc.Bindings[fi])
		}
	}
	return out
}

// param: the arguments bound to a parameter — the one of the calling context when it is the context's callee, else
// every call site in the functions reachable from the root.
func (e *c12n4Eval) param(p *ssa.Parameter, path []int, cx *c12n4Ctx, asAddr bool) c12n4Res {
	fn := p.Parent()
	pi := -1
	for i, q := range fn.Params {
		if q == p {
			pi = i
		}
	}
	judge := func(arg ssa.Value, up *c12n4Ctx) c12n4Res {
		if asAddr {
			return e.evalAddr(arg, path, up, nil)
		}
		return e.eval(arg, path, up)
	}
	if cx != nil && cx.fn == fn && pi >= 0 && pi < len(cx.call.Common().Args) {
		return judge(cx.call.Common().Args[pi], cx.parent)
	}
	var rs []c12n4Res
	for _, g := range e.order {
		for _, in := range g.Blocks {
			for _, ins := range in.Instrs {
				ci, ok := ins.(ssa.CallInstruction)
				if !ok || ci.Common().IsInvoke() || an.Orig(c12n4Callee(ci.Common())) != an.Orig(fn) {
					continue
				}
				if pi >= 0 && pi < len(ci.Common().Args) {
					rs = append(rs, judge(ci.Common().Args[pi], nil))
				}
			}
		}
	}
	if len(rs) == 0 {
		if fn == e.root {
			return c12n4Res{v: c12n4Other, why: "the parameter " + p.Name() + " of " + an.FuncName(fn) + " (caller-supplied configuration)", pos: p.Pos()}
		}
		return c12n4Res{v: c12n4Unknown, why: "parameter " + p.Name() + " of " + an.FuncName(fn) + ": no resolvable call site", pos: p.Pos()}
	}
	return c12n4All(rs)
}

func c12n4Callee(cc *ssa.CallCommon) *ssa.Function {
	if sc := cc.StaticCallee(); sc != nil {
		return sc
	}
	return nil
}

// c12n4Store is one store that may define (a field path of) a location.
type c12n4Store struct {
	in   ssa.Instruction // *ssa.Store, or a call of builtin copy (a partial write: never kills)
	val  ssa.Value
	path []int // remaining path inside the stored value
	elem bool  // a store of one element of an array variable (the variable is a function of all its elements)
}

// stores collects, for the location rooted at address a, the stores that define field path `path` of it (stores to
// the field address chain and stores of an enclosing whole). unknown is set when the address escapes.
func (e *c12n4Eval) stores(a ssa.Value, path []int, out *[]c12n4Store, escapes *string, d int) {
	refs := a.Referrers()
	if refs == nil || d > 8 {
		return
	}
	for _, ref := range *refs {
		switch r := ref.(type) {
		case *ssa.Store:
			if r.Addr == a {
				*out = append(*out, c12n4Store{in: r, val: r.Val, path: path})
			} else if *escapes == "" {
				*escapes = "its address is stored"
			}
		case *ssa.FieldAddr:
			if r.X == a && len(path) > 0 && r.Field == path[0] {
				e.stores(r, path[1:], out, escapes, d+1)
			}
		case *ssa.IndexAddr:
			// elements of an array variable (variadic argument packs, small literals)
			if r.X != a || len(path) > 0 || r.Referrers() == nil {
				continue
			}
			for _, er := range *r.Referrers() {
				if st, ok := er.(*ssa.Store); ok && st.Addr == ssa.Value(r) {
					*out = append(*out, c12n4Store{in: st, val: st.Val, elem: true})
				}
			}
		case *ssa.UnOp, *ssa.DebugRef:
		case *ssa.Slice:
			// x[:] handed to copy(dst, src) as destination fills the variable from src; as a source, or measured
			// with len/cap, it is only read
			if r.X != a || r.Referrers() == nil {
				continue
			}
			for _, sr := range *r.Referrers() {
				ci, ok := sr.(ssa.CallInstruction)
				if _, dbg := sr.(*ssa.DebugRef); dbg {
					continue
				}
				b, _ := func() (*ssa.Builtin, bool) {
					if !ok {
						return nil, false
					}
					bb, ok2 := ci.Common().Value.(*ssa.Builtin)
					return bb, ok2
				}()
				switch {
				case b != nil && b.Name() == "copy" && len(ci.Common().Args) == 2:
					if ci.Common().Args[0] == ssa.Value(r) && len(path) == 0 {
						*out = append(*out, c12n4Store{in: sr, val: ci.Common().Args[1]})
					}
				case b != nil && (b.Name() == "len" || b.Name() == "cap"):
				case ok && b == nil && len(path) == 0:
					// handed to a callee (a variadic pack that is read, a buffer that is filled): whatever the callee
					// writes is a function of its other arguments
					for _, arg := range ci.Common().Args {
						if arg != ssa.Value(r) {
							*out = append(*out, c12n4Store{in: sr, val: arg, elem: true})
						}
					}
				default:
					if *escapes == "" {
						*escapes = "a slice of it is used elsewhere"
					}
				}
			}
		case *ssa.MakeClosure:
			fn, _ := r.Fn.(*ssa.Function)
			for i, b := range r.Bindings {
				if b == a && fn != nil && i < len(fn.FreeVars) {
					e.stores(fn.FreeVars[i], path, out, escapes, d+1)
				}
			}
		case ssa.CallInstruction:
			// the address is handed to a callee: it may write through it, unless it is a method of a value that
			// carries the definition (receiver) — those are judged as carriers before we get here
			if sc := r.Common().StaticCallee(); sc != nil && e.inPkg(sc) && !r.Common().IsInvoke() {
				// a function of the package: the writes it makes through the pointer parameter
				for j, arg := range r.Common().Args {
					if arg == a && j < len(sc.Params) {
						e.stores(sc.Params[j], path, out, escapes, d+1)
					}
				}
				continue
			}
			if *escapes == "" {
				*escapes = "its address is passed to " + c12n4CallName(r.Common())
			}
		default:
			if _, ok := ref.(ssa.Value); ok && *escapes == "" {
				*escapes = fmt.Sprintf("its address is used by %T", ref)
			}
		}
	}
}

func c12n4CallName(cc *ssa.CallCommon) string {
	if sc := cc.StaticCallee(); sc != nil {
		return an.FuncName(sc)
	}
	if cc.IsInvoke() {
		return cc.Method.Name()
	}
	return "a function value"
}

// reachesUnkilled: is there a path from just after store s to load l that passes no other store of ks?
func c12n4ReachesUnkilled(s ssa.Instruction, l ssa.Instruction, ks []c12n4Store) bool {
	kill := map[ssa.Instruction]bool{}
	for _, k := range ks {
		if _, full := k.in.(*ssa.Store); full && !k.elem && k.in != s {
			kill[k.in] = true
		}
	}
	walk := func(b *ssa.BasicBlock, from int) (found, blocked bool) {
		for i := from; i < len(b.Instrs); i++ {
			if b.Instrs[i] == l {
				return true, false
			}
			if kill[b.Instrs[i]] {
				return false, true
			}
		}
		return false, false
	}
	start := -1
	for i, in := range s.Block().Instrs {
		if in == s {
			start = i + 1
		}
	}
	seen := map[*ssa.BasicBlock]bool{}
	var work []*ssa.BasicBlock
	if f, blk := walk(s.Block(), start); f {
		return true
	} else if !blk {
		work = append(work, s.Block().Succs...)
	}
	for len(work) > 0 {
		b := work[len(work)-1]
		work = work[:len(work)-1]
		if seen[b] {
			continue
		}
		seen[b] = true
		f, blk := walk(b, 0)
		if f {
			return true
		}
		if !blk {
			work = append(work, b.Succs...)
		}
	}
	return false
}

// evalAddr judges field `path` of what address a points to; load is the reading instruction when known (enables
// the overwritten-store test for stores of the same function).
func (e *c12n4Eval) evalAddr(a ssa.Value, path []int, cx *c12n4Ctx, load ssa.Instruction) c12n4Res {
	e.steps++
	if e.steps > 200000 {
		return c12n4Res{v: c12n4Unknown, why: "provenance walk too large", pos: a.Pos()}
	}
	if pt, ok := a.Type().Underlying().(*types.Pointer); ok && len(path) == 0 && c12n4CarriesDef(pt.Elem()) {
		return c12n4Res{v: c12n4Derived}
	}
	key := fmt.Sprintf("a%p%s%p", a, c12n4Path(path), cx)
	if e.busy[key] {
		return c12n4Res{v: c12n4Neutral}
	}
	e.busy[key] = true
	defer delete(e.busy, key)
	unknown := func(msg string) c12n4Res { return c12n4Res{v: c12n4Unknown, why: msg, pos: a.Pos()} }
	switch x := a.(type) {
	case *ssa.FieldAddr:
		if c12n4IsDefForkVersion(x.X.Type(), x.Field) {
			return c12n4Res{v: c12n4Derived}
		}
		return e.evalAddr(x.X, append([]int{x.Field}, path...), cx, load)
	case *ssa.Alloc, *ssa.FreeVar:
		roots := []ssa.Value{a}
		if fv, ok := a.(*ssa.FreeVar); ok {
			// the captured variable: judge the variable of the enclosing function (all its stores, the ones of
			// this and other closures included); no overwritten-store test across functions
			roots = e.bindings(fv)
			if len(roots) == 0 {
				return unknown("free variable " + fv.Name() + " without a visible closure creation")
			}
			var rs []c12n4Res
			for _, r := range roots {
				rs = append(rs, e.evalAddr(r, path, nil, nil))
			}
			return c12n4All(rs)
		}
		var sts []c12n4Store
		esc := ""
		e.stores(a, path, &sts, &esc, 0)
		var rs []c12n4Res
		if esc != "" {
			rs = append(rs, unknown("the variable is written elsewhere: "+esc))
		}
		var elems []c12n4Res
		for _, s := range sts {
			if s.elem {
				elems = append(elems, e.eval(s.val, nil, cx))
			}
		}
		if len(elems) > 0 {
			rs = append(rs, c12n4Any(elems))
		}
		for _, s := range sts {
			if s.elem {
				continue
			}
			if load != nil && s.in.Parent() == load.Parent() && !c12n4ReachesUnkilled(s.in, load, sts) {
				continue
			}
			scx := cx
			if s.in.Parent() != a.Parent() {
				scx = nil
			}
			rs = append(rs, e.eval(s.val, s.path, scx))
		}
		return c12n4All(rs)
	case *ssa.Parameter:
		return e.param(x, path, cx, true)
	case *ssa.Phi:
		var rs []c12n4Res
		for _, ed := range x.Edges {
			rs = append(rs, e.evalAddr(ed, path, cx, nil))
		}
		return c12n4All(rs)
	case *ssa.MakeInterface:
		return e.evalAddr(x.X, path, cx, nil)
	case *ssa.ChangeType:
		return e.evalAddr(x.X, path, cx, nil)
	case *ssa.SliceToArrayPointer:
		// [N]T(slice): the array read through the pointer holds the slice's elements
		return e.eval(x.X, path, cx)
	case *ssa.IndexAddr:
		// an element of an array/slice variable: a function of the collection
		if len(path) == 0 {
			if _, isPtr := x.X.Type().Underlying().(*types.Pointer); isPtr {
				return e.evalAddr(x.X, nil, cx, nil)
			}
			return e.eval(x.X, nil, cx)
		}
	case *ssa.Global:
		return unknown("global " + x.Name())
	}
	return unknown(fmt.Sprintf("memory reached through %T", a))
}

func (e *c12n4Eval) evalCall(call *ssa.Call, idx int, path []int, cx *c12n4Ctx) c12n4Res {
	cc := &call.Call
	unknown := func(msg string) c12n4Res { return c12n4Res{v: c12n4Unknown, why: msg, pos: call.Pos()} }
	if b, ok := cc.Value.(*ssa.Builtin); ok {
		switch b.Name() {
		case "append", "min", "max":
			var rs []c12n4Res
			for _, a := range cc.Args {
				rs = append(rs, e.eval(a, nil, cx))
			}
			return c12n4Any(rs)
		}
		return unknown("builtin " + b.Name())
	}
	sc := cc.StaticCallee()
	if sc == nil && !cc.IsInvoke() {
		return unknown("call of a function value")
	}
	if sc != nil && e.inPkg(sc) {
		if cx != nil && cx.depth > 12 {
			return unknown("call chain too deep")
		}
		ncx := &c12n4Ctx{call: call, fn: sc, parent: cx}
		if cx != nil {
			ncx.depth = cx.depth + 1
		}
		var rs []c12n4Res
		for _, r := range an.Returns(sc) {
			if idx < len(r.Results) {
				rs = append(rs, e.eval(r.Results[idx], path, ncx))
			}
		}
		if len(rs) == 0 {
			return unknown("no return of " + an.FuncName(sc))
		}
		return c12n4All(rs)
	}
	// a function outside the package: a function of its arguments (and receiver)
	if len(path) > 0 {
		return unknown("field of the result of " + c12n4CallName(cc))
	}
	var rs []c12n4Res
	if cc.IsInvoke() {
		rs = append(rs, e.eval(cc.Value, nil, cx))
	}
	for _, a := range cc.Args {
		rs = append(rs, e.eval(a, nil, cx))
	}
	if len(rs) == 0 {
		return unknown("result of " + c12n4CallName(cc) + " (no arguments)")
	}
	return c12n4Any(rs)
}

// ---------------------------------------------------------------------------------------------------------------
// chain-identity parameters (forward summaries)

func c12n4IsNetLookup(fn *ssa.Function) bool {
	return fn != nil && fn.Pkg != nil && strings.HasSuffix(fn.Pkg.Pkg.Path(), "/eth2util") && strings.HasPrefix(fn.Name(), "NetworkToForkVersion")
}

// chainParam: does parameter i of fn flow into the network→fork-version lookup or into ForkData.CurrentVersion?
func (e *c12n4Eval) chainParam(fn *ssa.Function, i int) bool {
	fn = an.Orig(fn)
	if fn == nil || fn.Blocks == nil || i >= len(fn.Params) {
		return false
	}
	key := fmt.Sprintf("%p/%d", fn, i)
	switch e.chain[key] {
	case 1:
		return true
	case 2, 3:
		return false
	}
	e.chain[key] = 3
	ok := e.fwd(fn.Params[i], map[ssa.Value]bool{}, 0)
	if ok {
		e.chain[key] = 1
	} else {
		e.chain[key] = 2
	}
	return ok
}

func (e *c12n4Eval) fwd(v ssa.Value, seen map[ssa.Value]bool, d int) bool {
	if v == nil || seen[v] || d > 40 {
		return false
	}
	seen[v] = true
	refs := v.Referrers()
	if refs == nil {
		return false
	}
	loadsOf := func(a ssa.Value) bool {
		// everything read back from the variable rooted at a
		for {
			switch x := a.(type) {
			case *ssa.Slice:
				a = x.X
				continue
			case *ssa.IndexAddr:
				a = x.X
				continue
			}
			break
		}
		return e.fwd(a, seen, d+1)
	}
	for _, ref := range *refs {
		switch r := ref.(type) {
		case ssa.CallInstruction:
			cc := r.Common()
			if b, ok := cc.Value.(*ssa.Builtin); ok {
				if b.Name() == "copy" && len(cc.Args) == 2 && cc.Args[1] == v && loadsOf(cc.Args[0]) {
					return true
				}
				continue
			}
			sc := cc.StaticCallee()
			if sc == nil {
				continue
			}
			for j, a := range cc.Args {
				if a != v {
					continue
				}
				if c12n4IsNetLookup(sc) || e.chainParam(sc, j) {
					return true
				}
			}
		case *ssa.Store:
			if r.Val != v {
				continue
			}
			if fa, ok := r.Addr.(*ssa.FieldAddr); ok && c12n4IsForkDataVersion(fa.X.Type(), fa.Field) {
				return true
			}
			if loadsOf(r.Addr) {
				return true
			}
		case *ssa.MakeClosure:
			fn, _ := r.Fn.(*ssa.Function)
			for j, b := range r.Bindings {
				if b == v && fn != nil && j < len(fn.FreeVars) && e.fwd(fn.FreeVars[j], seen, d+1) {
					return true
				}
			}
		case *ssa.Convert, *ssa.ChangeType, *ssa.Slice, *ssa.Phi, *ssa.MakeInterface, *ssa.ChangeInterface, *ssa.SliceToArrayPointer, *ssa.IndexAddr:
			if e.fwd(r.(ssa.Value), seen, d+1) {
				return true
			}
		case *ssa.UnOp:
			if r.Op == token.MUL && e.fwd(r, seen, d+1) {
				return true
			}
		}
	}
	return false
}

// ---------------------------------------------------------------------------------------------------------------

func c12n4Network(c *rt.Ctx) {
	sp := c.SSAPkg("cmd")
	root := c.Fn("cmd.runCreateCluster")
	e := &c12n4Eval{c: c, pkg: sp, root: root, reach: map[*ssa.Function]bool{}, busy: map[string]bool{}, chain: map[string]int{}}
	// functions of the package reachable from the root through resolvable calls and closure creations
	opaque := token.NoPos
	work := []*ssa.Function{root}
	for len(work) > 0 {
		fn := work[len(work)-1]
		work = work[:len(work)-1]
		if fn == nil || e.reach[fn] || !e.inPkg(fn) {
			continue
		}
		e.reach[fn] = true
		e.order = append(e.order, fn)
		for _, b := range fn.Blocks {
			for _, in := range b.Instrs {
				switch x := in.(type) {
				case ssa.CallInstruction:
					if sc := x.Common().StaticCallee(); sc != nil {
						work = append(work, sc)
					}
				case *ssa.MakeClosure:
					if f, ok := x.Fn.(*ssa.Function); ok {
						work = append(work, f)
					}
				}
				for _, op := range an.Operands(in) {
					// a package function used as a value (table of steps, callback): followed, its callers unknown
					if f, ok := op.(*ssa.Function); ok && e.inPkg(f) {
						if ci, isCall := in.(ssa.CallInstruction); !isCall || ci.Common().Value != op {
							work = append(work, f)
							if _, isMC := in.(*ssa.MakeClosure); !isMC && !opaque.IsValid() {
								opaque = in.Pos()
							}
						}
					}
				}
			}
		}
	}
	_ = opaque
	anchors := false
	for _, rel := range []string{"eth2util"} {
		if p := c.P.SSAPkg(rel); p != nil {
			for _, m := range p.Members {
				if f, ok := m.(*ssa.Function); ok && c12n4IsNetLookup(f) {
					anchors = true
				}
			}
		}
	}
	if !anchors {
		c.Bail("the network→fork-version lookup of eth2util (NetworkToForkVersion*) cannot be resolved")
	}
	isSinkPkg := func(f *ssa.Function) bool {
		if f == nil || f.Pkg == nil {
			return false
		}
		p := f.Pkg.Pkg.Path()
		return strings.HasSuffix(p, "/eth2util/deposit") || strings.HasSuffix(p, "/eth2util/registration")
	}
	n := 0
	judge := func(fn *ssa.Function, construct string, pos token.Pos, v ssa.Value) {
		n++
		r := e.eval(v, nil, nil)
		switch r.v {
		case c12n4Derived:
			c.Good(construct, pos, "derives from Definition.ForkVersion")
		case c12n4Other:
			c.Bad(construct, pos, "the chain identity used here does not derive from the definition's ForkVersion on every path: it can be "+r.why+" ("+c.P.Pos(r.pos)+"); the lock records Definition.ForkVersion, so deposit data / registrations would be signed for a different chain than the lock names")
		case c12n4Neutral:
			c.Unsure(construct, pos, "no source of the chain identity found (only zero values)")
		default:
			c.Unsure(construct, pos, "the provenance of the chain identity cannot be followed: "+r.why+" ("+c.P.Pos(r.pos)+")")
		}
	}
	for _, fn := range e.order {
		if strings.HasSuffix(c.P.Fset.Position(fn.Pos()).Filename, "_test.go") {
			continue
		}
		for _, b := range fn.Blocks {
			for _, in := range b.Instrs {
				switch x := in.(type) {
				case ssa.CallInstruction:
					sc := x.Common().StaticCallee()
					if !isSinkPkg(sc) || x.Common().IsInvoke() {
						continue
					}
					for i, a := range x.Common().Args {
						if e.chainParam(sc, i) {
							judge(fn, an.FuncName(fn)+" → "+an.FuncName(sc)+" chain identity (argument "+fmt.Sprint(i+1)+")", x.Pos(), a)
						}
					}
				case *ssa.Store:
					if fa, ok := x.Addr.(*ssa.FieldAddr); ok && c12n4IsForkDataVersion(fa.X.Type(), fa.Field) {
						judge(fn, an.FuncName(fn)+" signing-domain fork version", x.Pos(), x.Val)
					}
				}
			}
		}
	}
	if n == 0 {
		c.Bail("no deposit-data / registration signing or writing with a chain-identity parameter found under cmd.runCreateCluster")
	}
}
