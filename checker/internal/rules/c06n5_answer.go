package rules

import (
	"go/constant"
	"go/token"
	"go/types"

	"golang.org/x/tools/go/ssa"

	"charonverif/internal/an"
	"charonverif/internal/rt"
)

// D4 (d): a pending query is answered only with the value looked up under the query's OWN key.
//
// Necessary condition of "all answers for one key are identical / a blocking query returns only stored data": the
// clash detection of the store functions makes the datum under ONE key unique; nothing relates the data stored under
// two different keys. A resolver that answers a query for key K with the value found under another key K' (a
// fall-back entry, a key rebuilt with a field dropped or fixed) hands out a datum the store never compared with what
// is (or later will be) stored under K: two answers for K can differ. So every value that can reach a send on the
// query's response channel must be the result of a lookup, in the resolver's data map, under the key field of that
// very query, and the send must be unreachable on the path on which that lookup found nothing.

// c06Src is one possible origin of the value a resolver sends.
type c06Src struct {
	v    ssa.Value
	fr   *c06Frame
	lk   *ssa.Lookup // the value is the result of this map lookup
	zero bool        // a zero constant (initial value of the answer variable)
}

// c06SentSources follows the value sent back to its origins through conversions, phis, locals assigned on several
// branches, parameters / free variables and the results of in-package helpers.
func c06SentSources(m *c06Model, v ssa.Value, fr *c06Frame) (srcs []c06Src, viaPhi bool) {
	type vk struct {
		v  ssa.Value
		fr *c06Frame
	}
	seen := map[vk]bool{}
	var walk func(v ssa.Value, fr *c06Frame, d int)
	walk = func(v ssa.Value, fr *c06Frame, d int) {
		v = an.Unwrap(v)
		if seen[vk{v, fr}] {
			return
		}
		seen[vk{v, fr}] = true
		if d > 12 {
			srcs = append(srcs, c06Src{v: v, fr: fr})
			return
		}
		switch x := v.(type) {
		case *ssa.Extract:
			if l, isLk := x.Tuple.(*ssa.Lookup); isLk {
				if x.Index == 0 {
					srcs = append(srcs, c06Src{v: v, fr: fr, lk: l})
				} else {
					srcs = append(srcs, c06Src{v: v, fr: fr})
				}
				return
			}
		case *ssa.Lookup:
			if !x.CommaOk {
				srcs = append(srcs, c06Src{v: v, fr: fr, lk: x})
				return
			}
		case *ssa.Const:
			srcs = append(srcs, c06Src{v: v, fr: fr, zero: c06ZeroConst(x)})
			return
		case *ssa.Phi:
			viaPhi = true
			for _, e := range x.Edges {
				walk(e, fr, d+1)
			}
			return
		case *ssa.UnOp:
			if al, ok := x.X.(*ssa.Alloc); ok && x.Op == token.MUL {
				// a local variable that is only stored to and loaded from: every value assigned to it
				var vals []ssa.Value
				plain := true
				for _, ref := range *al.Referrers() {
					switch r := ref.(type) {
					case *ssa.Store:
						if r.Addr != ssa.Value(al) {
							plain = false
						}
						vals = append(vals, r.Val)
					case *ssa.UnOp, *ssa.DebugRef:
					default:
						plain = false
					}
				}
				if plain && len(vals) > 0 {
					if len(vals) > 1 {
						viaPhi = true
					}
					for _, sv := range vals {
						walk(sv, fr, d+1)
					}
					return
				}
			}
		}
		if nv, nf, ok := m.step(v, fr); ok {
			walk(nv, nf, d+1)
			return
		}
		srcs = append(srcs, c06Src{v: v, fr: fr})
	}
	walk(v, fr, 0)
	return srcs, viaPhi
}

const (
	c06KeyOwn = iota
	c06KeyForeign
	c06KeyUnknown
)

// c06KeyClass classifies the key of a lookup made while resolving the element of loop l: the query's own key (the
// element's field of the map's key type, or a literal of that type rebuilt field by field from it), positively another
// key (a constant, a literal with a field left zero / fixed / taken from somewhere else, a value that does not depend
// on the query), or unknown.
func c06KeyClass(m *c06Model, idx ssa.Value, fr *c06Frame, l *an.Loop, lfr *c06Frame, keyT types.Type) (int, string) {
	if !types.Identical(idx.Type(), keyT) {
		return c06KeyUnknown, ""
	}
	if m.elemOf(idx, fr, l, lfr) {
		return c06KeyOwn, ""
	}
	u := an.Unwrap(idx)
	if _, isConst := u.(*ssa.Const); isConst {
		return c06KeyForeign, "a constant key"
	}
	if ld, ok := u.(*ssa.UnOp); ok && ld.Op == token.MUL {
		if al, ok := ld.X.(*ssa.Alloc); ok {
			if src := an.UniqueStore(al); src != nil {
				return c06KeyClass(m, src, fr, l, lfr, keyT)
			}
			st, isStruct := keyT.Underlying().(*types.Struct)
			fields, lit := c06LiteralFields(al)
			if isStruct && lit {
				unknown := false
				for i := 0; i < st.NumFields(); i++ {
					fv, has := fields[i]
					if !has {
						return c06KeyForeign, "field " + st.Field(i).Name() + " of the key is left at its zero value"
					}
					if _, isConst := an.Unwrap(fv).(*ssa.Const); isConst {
						return c06KeyForeign, "field " + st.Field(i).Name() + " of the key is a constant"
					}
					if c06FieldOfOwnKey(m, fv, i, fr, l, lfr, keyT) {
						continue
					}
					if fr == lfr && !c06TouchesElem(fv, l) {
						return c06KeyForeign, "field " + st.Field(i).Name() + " of the key is not taken from the query"
					}
					if j, ok := c06OtherFieldOfOwnKey(m, fv, i, fr, l, lfr, keyT); ok {
						return c06KeyForeign, "field " + st.Field(i).Name() + " of the key is filled from field " + st.Field(j).Name() + " of the query's key"
					}
					unknown = true
				}
				if unknown {
					return c06KeyUnknown, ""
				}
				return c06KeyOwn, ""
			}
		}
	}
	if bin, ok := u.(*ssa.BinOp); ok && (bin.Op == token.ADD || bin.Op == token.SUB) {
		k, isConst := bin.Y.(*ssa.Const)
		if isConst && !c06ZeroConst(k) && m.elemOf(bin.X, fr, l, lfr) && types.Identical(bin.X.Type(), keyT) {
			return c06KeyForeign, "the query's key shifted by a constant"
		}
	}
	if fr == lfr && !c06TouchesElem(u, l) {
		return c06KeyForeign, "a key that does not depend on the query"
	}
	return c06KeyUnknown, ""
}

// c06KeyFieldSel: v selects field #i of a value of type keyT derived from the loop element; returns that field index.
func c06KeyFieldSel(m *c06Model, v ssa.Value, fr *c06Frame, l *an.Loop, lfr *c06Frame, keyT types.Type) (int, bool) {
	v = an.Resolve(v)
	switch x := v.(type) {
	case *ssa.UnOp:
		if x.Op != token.MUL {
			return 0, false
		}
		fa, ok := x.X.(*ssa.FieldAddr)
		if !ok {
			return 0, false
		}
		pt, ok := fa.X.Type().Underlying().(*types.Pointer)
		if !ok || !types.Identical(pt.Elem(), keyT) || !m.elemOf(fa.X, fr, l, lfr) {
			return 0, false
		}
		return fa.Field, true
	case *ssa.Field:
		if !types.Identical(x.X.Type(), keyT) || !m.elemOf(x.X, fr, l, lfr) {
			return 0, false
		}
		return x.Field, true
	}
	return 0, false
}

func c06FieldOfOwnKey(m *c06Model, v ssa.Value, i int, fr *c06Frame, l *an.Loop, lfr *c06Frame, keyT types.Type) bool {
	j, ok := c06KeyFieldSel(m, v, fr, l, lfr, keyT)
	return ok && j == i
}

func c06OtherFieldOfOwnKey(m *c06Model, v ssa.Value, i int, fr *c06Frame, l *an.Loop, lfr *c06Frame, keyT types.Type) (int, bool) {
	j, ok := c06KeyFieldSel(m, v, fr, l, lfr, keyT)
	return j, ok && j != i
}

// c06TouchesElem: the backward slice of v (operands, values stored into locals) contains a value derived from the
// element of loop l. Unknown producers (calls, parameters, free variables) count as touching: only a positively
// element-independent value yields false.
func c06TouchesElem(v ssa.Value, l *an.Loop) bool {
	seen := map[ssa.Value]bool{}
	var walk func(v ssa.Value, d int) bool
	walk = func(v ssa.Value, d int) bool {
		if seen[v] {
			return false
		}
		seen[v] = true
		if d > 24 {
			return true
		}
		if l.ElemOf(v) {
			return true
		}
		switch x := v.(type) {
		case *ssa.Const, *ssa.Global, *ssa.Function, *ssa.Builtin:
			return false
		case *ssa.Parameter:
			// the receiver / a parameter of the resolver is the same for every query
			return x.Parent() != nil && x.Parent().Parent() != nil
		case *ssa.FreeVar:
			return true
		case *ssa.Phi:
			// loop-carried values (index variable, accumulators) select the element
			return true
		case *ssa.Call:
			return true
		case *ssa.Alloc:
			for _, ref := range *x.Referrers() {
				switch r := ref.(type) {
				case *ssa.Store:
					if r.Addr == ssa.Value(x) && walk(r.Val, d+1) {
						return true
					}
				case *ssa.UnOp, *ssa.DebugRef:
				default:
					return true
				}
			}
			return false
		}
		in, ok := v.(ssa.Instruction)
		if !ok {
			return true
		}
		for _, op := range an.Operands(in) {
			if walk(op, d+1) {
				return true
			}
		}
		return false
	}
	return walk(v, 0)
}

// c06ResolverAnswers decides D4 (d) for one resolver.
func c06ResolverAnswers(m *c06Model, r *c06Resolver) (string, string) {
	loop, lfr, sfr := r.loop, r.fr, r.sendFr
	var sends []*ssa.Send
	for _, in := range an.Instrs(sfr.fn, false) {
		if snd, ok := in.(*ssa.Send); ok && m.elemOf(snd.Chan, sfr, loop, lfr) {
			sends = append(sends, snd)
		}
	}
	if len(sends) == 0 {
		return rt.Undecided, "cannot find the send that answers a query"
	}
	isAnswer := func(in ssa.Instruction) bool {
		for _, s := range sends {
			if in == ssa.Instruction(s) {
				return true
			}
		}
		return false
	}
	undecided := ""
	type c06OwnAns struct {
		s   c06Src
		snd *ssa.Send
	}
	var owns []c06OwnAns
	for _, snd := range sends {
		srcs, _ := c06SentSources(m, snd.X, sfr)
		for _, s := range srcs {
			switch {
			case s.zero:
				// the zero value of the answer variable: decided by the zero-answer check of "keeps"
			case s.lk == nil:
				if undecided == "" {
					undecided = "a value sent to a waiting query is not (only) the result of a map lookup; the rule cannot tell where it comes from"
				}
			default:
				mt, isMap := s.lk.X.Type().Underlying().(*types.Map)
				dk, ok := m.fieldOf(s.lk.X, s.fr)
				if !isMap || !ok {
					if undecided == "" {
						undecided = "cannot tell which map an answer is looked up in"
					}
					continue
				}
				if dk != r.data {
					return rt.Violation, "a query waiting on " + r.queries + " (data in " + r.data + ") can be answered with a value looked up in " + dk
				}
				cls, why := c06KeyClass(m, s.lk.Index, s.fr, loop, lfr, mt.Key())
				switch cls {
				case c06KeyForeign:
					return rt.Violation, "a query can be answered with the value stored in " + r.data + " under a key other than its own (" + why +
						", " + posStr(m, s.lk.Pos()) + "): nothing makes the data of two keys equal, so two answers for the same key can differ"
				case c06KeyUnknown:
					if undecided == "" {
						undecided = "cannot tell whether the key of the lookup at " + posStr(m, s.lk.Pos()) + " is the query's own key"
					}
					continue
				}
				owns = append(owns, c06OwnAns{s, snd})
			}
		}
	}
	// presence: with the own-key lookup failing, no answer may be sent in this iteration
	for _, o := range owns {
		s, snd := o.s, o.snd
		if !s.lk.CommaOk || s.fr == nil || s.fr.fn != snd.Parent() {
			continue // presence tested some other way / in another function: not followed
		}
		var okv ssa.Value
		for _, ref := range *s.lk.Referrers() {
			if ex, isEx := ref.(*ssa.Extract); isEx && ex.Index == 1 {
				okv = ex
			}
		}
		if okv == nil {
			continue
		}
		inLoop := s.fr == lfr
		path, esc := an.H06Escape(s.lk, an.H06Opt{
			Env: func(v ssa.Value) (constant.Value, bool) {
				if v == okv {
					return constant.MakeBool(false), true
				}
				return nil, false
			},
			Exit: isAnswer,
			Effect: func(in ssa.Instruction) bool {
				return inLoop && (in.Block() == loop.Header || !loop.Body[in.Block()])
			},
			NoReenter: true,
			ReturnOK:  func(*ssa.Return, an.H06Env) bool { return true }})
		if esc {
			return rt.Violation, "a query can be answered although nothing is stored under its own key: the send is reachable on the path on which the lookup of the query's key in " +
				r.data + " (" + posStr(m, s.lk.Pos()) + ") found nothing (blocks " + blockList(path) + "); the answer then comes from somewhere else (another entry, a zero value)"
		}
	}
	if undecided != "" {
		return rt.Undecided, undecided
	}
	if len(owns) == 0 {
		return rt.Undecided, "no lookup under the query's own key found"
	}
	return rt.OK, ""
}

func posStr(m *c06Model, p token.Pos) string {
	if m.c == nil || m.c.P == nil || !p.IsValid() {
		return "?"
	}
	pos := m.c.P.Fset.Position(p)
	return "line " + itoa(pos.Line)
}
