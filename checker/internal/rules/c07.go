package rules

import (
	"go/constant"
	"go/token"
	"go/types"

	"golang.org/x/tools/go/ssa"

	"charonverif/internal/an"
	"charonverif/internal/rt"
)

func init() {
	Register(&Prop{
		ID: "C07",
		Decides: "parsigdb.MemDB: (P1) entries/keysByDuty/exemptEntries are touched only under mu, append and snapshot in one critical section; " +
			"(P2) once a validator of a batch has reached threshold every path to the exit of StoreExternal reaches the threshold-subscriber fan-out; " +
			"(P3) the set handed to subscribers is one message-root group of exactly `threshold` members built from the stored list; " +
			"(P4) an append is preceded by the same-share scan that returns without appending; (P5) expired duties are dropped before storing; " +
			"(P6) exempt entries are capped; (P7) per-key lists only grow until the whole duty is trimmed.",
		NotDecided: "'exactly once' as a counting statement over arrival orders and interleavings; content equality of partial signatures (JSON comparison) is trusted.",
		Run:        c07,
		Mutants: []Mutant{
			{ID: "C07-P1-unlock-early", File: "core/parsigdb/memory.go", Expect: "P1",
				Old: "\tif k.Duty.Type == core.DutyExit {\n\t\texitCounter.WithLabelValues(k.PubKey.String()).Inc()\n\t}\n\n\treturn append(",
				New: "\tif k.Duty.Type == core.DutyExit {\n\t\texitCounter.WithLabelValues(k.PubKey.String()).Inc()\n\t}\n\n\tdb.mu.Unlock()\n\tdefer db.mu.Lock()\n\n\treturn append("},
			{ID: "C07-P2-early-return", File: "core/parsigdb/memory.go", Expect: "P2",
				Old: "\t\toutput[pubkey] = psigs\n\t}",
				New: "\t\toutput[pubkey] = psigs\n\t\tif ctx.Err() != nil {\n\t\t\treturn ctx.Err()\n\t\t}\n\t}"},
			{ID: "C07-P3-return-all", File: "core/parsigdb/memory.go", Expect: "P3",
				Old: "\t\tif len(set) == threshold {\n\t\t\treturn set, true, nil",
				New: "\t\tif len(set) == threshold {\n\t\t\treturn sigs, true, nil"},
			{ID: "C07-P3-threshold-minus-one", File: "core/parsigdb/memory.go", Expect: "P3",
				Old: "getThresholdMatching(duty.Type, sigs, db.threshold)",
				New: "getThresholdMatching(duty.Type, sigs, db.threshold-1)"},
			{ID: "C07-P3-geq", File: "core/parsigdb/memory.go", Expect: "P3",
				Old: "\t\tif len(set) == threshold {",
				New: "\t\tif len(set) >= threshold {"},
			{ID: "C07-P4-no-scan", File: "core/parsigdb/memory.go", Expect: "P4",
				Old: "\t\tif s.ShareIdx == value.ShareIdx {",
				New: "\t\tif s.ShareIdx == value.ShareIdx && s.ShareIdx < 0 {"},
			{ID: "C07-P8-skip-evaluation", File: "core/parsigdb/memory.go", Expect: "P8",
				Old: "\t\t// Check if sufficient matching partial signed data has been received.\n",
				New: "\t\tif len(sigs) != db.threshold {\n\t\t\tcontinue\n\t\t}\n\n"},
			{ID: "C07-P4-split-critical-section", File: "core/parsigdb/memory.go", Expect: "P4",
				Old: "\tisNewKey := len(db.entries[k]) == 0\n",
				New: "\tdb.mu.Unlock()\n\tdb.mu.Lock()\n\n\tisNewKey := len(db.entries[k]) == 0\n"},
			{ID: "C07-P5-ignore-expired", File: "core/parsigdb/memory.go", Expect: "P5",
				Old: "\tif status == core.DeadlineExpired {",
				New: "\tif status == core.DeadlineExpired && len(signedSet) == 0 {"},
			{ID: "C07-P7-evict-on-dup", File: "core/parsigdb/memory.go", Expect: "P7",
				Old: "\t\t\t} else if !equal {\n\t\t\t\treturn nil, false, errors.New(\"mismatching partial signed data\",",
				New: "\t\t\t} else if !equal {\n\t\t\t\tdelete(db.entries, k)\n\t\t\t\treturn nil, false, errors.New(\"mismatching partial signed data\","},
		},
	})
}

const memdb = "core/parsigdb.MemDB"

func constOf(c *rt.Ctx, pkgRel, name string) int64 {
	obj, ok := c.Pkg(pkgRel).Types.Scope().Lookup(name).(*types.Const)
	if !ok {
		c.Bail("constant %s.%s not found", pkgRel, name)
	}
	v, ok := constant.Int64Val(obj.Val())
	if !ok {
		c.Bail("constant %s.%s is not an integer", pkgRel, name)
	}
	return v
}

func c07(c *rt.Ctx) {
	c.Rule("P1", 8, func() {
		lockRule(c, []string{"core/parsigdb"}, an.LockTable{
			memdb + ".entries":       "mu", // every access in store/Trim/evict* is under mu
			memdb + ".keysByDuty":    "mu", // written in store, drained in Trim
			memdb + ".exemptEntries": "mu", // written only from trackExemptUnsafe (store holds mu)
		})
	})

	c.Rule("P2", 1, func() {
		fn := c.Fn("core/parsigdb.MemDB.StoreExternal")
		fan := callsIn(fn, an.FieldCall(memdb+".threshSubs"))
		if len(fan) == 0 {
			c.Bail("no call through threshSubs in StoreExternal")
		}
		// the per-validator result map: a locally made map whose value flows into the fan-out argument
		ups := mapUpdates(fn, func(m ssa.Value) bool {
			_, isMake := m.(*ssa.MakeMap)
			return isMake && types.Identical(m.Type(), fan[0].Common().Args[2].Type())
		})
		if len(ups) == 0 {
			c.Bail("no write to the threshold-output map found in StoreExternal")
		}
		for _, up := range ups {
			path, esc := an.EscapePath(up, func(in ssa.Instruction) bool { return isLoadOfField(in, memdb+".threshSubs") },
				an.PassOpt{Prune: lenZeroPrune(up.Map)})
			c.Check("StoreExternal output-write→threshSubs", posOf(up), !esc,
				"path from the validator reaching threshold to a return that skips the threshold fan-out: "+an.PathString(c.P, path))
		}
	})

	c.Rule("P3", 4, func() {
		fn := c.Fn("core/parsigdb.getThresholdMatching")
		if len(fn.Params) != 3 {
			c.Bail("getThresholdMatching: unexpected signature")
		}
		sigsP, thrP := fn.Params[1], fn.Params[2]
		lenOf := func(v ssa.Value) ssa.Value { // v == len(x) -> x
			if call, ok := v.(*ssa.Call); ok {
				if b, ok := call.Call.Value.(*ssa.Builtin); ok && b.Name() == "len" {
					return call.Call.Args[0]
				}
			}
			return nil
		}
		for _, r := range an.Returns(fn) {
			if len(r.Results) != 3 {
				continue
			}
			okv := r.Results[1]
			if k, isC := okv.(*ssa.Const); isC && !constant.BoolVal(k.Value) {
				continue
			}
			set := r.Results[0]
			if k, isC := okv.(*ssa.Const); isC && constant.BoolVal(k.Value) {
				// must be a value of the root-grouped map, in a block on the true edge of len(set)==threshold
				ex, ok := set.(*ssa.Extract)
				var m ssa.Value
				if ok && ex.Index == 2 {
					if nx, ok := ex.Tuple.(*ssa.Next); ok {
						if rg, ok := nx.Iter.(*ssa.Range); ok {
							m = rg.X
						}
					}
				}
				if m == nil {
					c.Bad("getThresholdMatching true-return set", posOf(r), "set returned with ok=true is not a value of the message-root grouping map")
					continue
				}
				// size test
				sized := false
				for _, cd := range an.CondsOn(fn, findLen(fn, set)) {
					if cd.Op == token.EQL && cd.Other == ssa.Value(thrP) && !cd.Neg && cd.Succ(true).Dominates(r.Block()) {
						sized = true
					}
				}
				c.Check("getThresholdMatching true-return size", posOf(r), sized, "returned group is not guarded by len(group) == threshold (parameter)")
				// every insertion into m is keyed by MessageRoot() of the element appended
				ups := mapUpdates(fn, func(x ssa.Value) bool { return x == m })
				good := len(ups) > 0
				why := "no insertion into the grouping map"
				for _, up := range ups {
					key := an.Unwrap(up.Key)
					ex, ok := key.(*ssa.Extract)
					var recv ssa.Value
					if ok {
						if call, ok := ex.Tuple.(*ssa.Call); ok && call.Call.Method != nil && call.Call.Method.Name() == "MessageRoot" {
							recv = call.Call.Value
						}
					}
					if recv == nil {
						good, why = false, "grouping key is not the MessageRoot() of the element"
						continue
					}
					elems := appendedElems(up.Value)
					if len(elems) != 1 || !sameSigElem(elems[0], recv) {
						good, why = false, "element appended to a group is not the one whose MessageRoot() is the key"
					}
					if l := an.InnermostLoop(fn, up.Block()); l == nil || !an.Equiv(l.RangeColl(), sigsP) {
						good, why = false, "grouping loop does not range over the stored list parameter"
					}
				}
				c.Check("getThresholdMatching grouping by MessageRoot", posOf(r), good, why)
				continue
			}
			// non-constant ok: the DutySignature shortcut — returns the whole list iff len == threshold
			bin, ok := okv.(*ssa.BinOp)
			good := ok && bin.Op == token.EQL && lenOf(bin.X) == ssa.Value(sigsP) && bin.Y == ssa.Value(thrP) && set == ssa.Value(sigsP)
			c.Check("getThresholdMatching DutySignature shortcut", posOf(r), good, "ok is not `len(sigs) == threshold` over the returned list")
		}
		// call site binding
		se := c.Fn("core/parsigdb.MemDB.StoreExternal")
		call := c.OneCall(se, an.Static("core/parsigdb.getThresholdMatching"), "getThresholdMatching", false)
		args := call.Common().Args
		thr := isLoadOfValueField(args[2], memdb+".threshold")
		var fromStore bool
		if ex, ok := args[1].(*ssa.Extract); ok && ex.Index == 0 {
			if sc, ok := ex.Tuple.(*ssa.Call); ok && an.Static("core/parsigdb.MemDB.store")(&sc.Call) {
				fromStore = true
			}
		}
		c.Check("StoreExternal→getThresholdMatching threshold", call.Pos(), thr, "threshold argument is not the configured db.threshold")
		c.Check("StoreExternal→getThresholdMatching list", call.Pos(), fromStore, "list argument is not the snapshot returned by db.store")
		// the map entry written for the fan-out is the matching set, on the ok edge
		for _, up := range mapUpdates(se, func(m ssa.Value) bool { _, ok := m.(*ssa.MakeMap); return ok }) {
			ex, ok := up.Value.(*ssa.Extract)
			good := ok && ex.Index == 0 && ex.Tuple == call.Value()
			if good {
				g, _ := an.Guarded(call, up, an.BoolGuard(1, true))
				good = g
			}
			c.Check("StoreExternal output value", posOf(up), good, "value published for the validator is not the checked result of getThresholdMatching")
		}
	})

	c.Rule("P4", 1, func() {
		fn := c.Fn("core/parsigdb.MemDB.store")
		ups := mapUpdates(fn, isFieldMap(memdb+".entries"))
		if len(ups) == 0 {
			c.Bail("no append to entries in store")
		}
		valueP := fn.Params[3]
		for _, up := range ups {
			found, why := false, "no same-share scan over the existing entries precedes the append"
			for _, b := range fn.Blocks {
				iff, ok := b.Instrs[len(b.Instrs)-1].(*ssa.If)
				if !ok {
					continue
				}
				bin, ok := iff.Cond.(*ssa.BinOp)
				if !ok || bin.Op != token.EQL {
					continue
				}
				l := an.InnermostLoop(fn, b)
				if l == nil {
					continue
				}
				isShare := func(v ssa.Value) (ssa.Value, bool) {
					switch x := an.Unwrap(v).(type) {
					case *ssa.Field:
						return x.X, an.FieldKey(x.X.Type(), x.Field) == "core.ParSignedData.ShareIdx"
					case *ssa.UnOp:
						if fa, ok := x.X.(*ssa.FieldAddr); ok && x.Op == token.MUL {
							return fa.X, an.FieldKey(fa.X.Type(), fa.Field) == "core.ParSignedData.ShareIdx"
						}
					}
					return nil, false
				}
				xb, xok := isShare(bin.X)
				yb, yok := isShare(bin.Y)
				if !xok || !yok {
					continue
				}
				elem, other := xb, yb
				if !l.ElemOf(elem) {
					elem, other = yb, xb
				}
				if !l.ElemOf(elem) || !rootedAt(other, valueP) {
					continue
				}
				if k, _, ok := an.FieldOf(l.RangeColl()); !ok || k != memdb+".entries" {
					why = "scan does not range over db.entries[k]"
					continue
				}
				ok2, w := an.ForallGuard(l, iff, b.Succs[0], up)
				// here the *equal* edge is the one that must leave
				if ok2 {
					found = true
				} else {
					why = w
				}
			}
			c.Check("store append after same-share scan", posOf(up), found, why)
			// the scan and the append form one critical section: no explicit Unlock between reading the list and appending
			for _, in := range an.Instrs(fn, false) {
				lk, ok := in.(*ssa.Lookup)
				if !ok || !isFieldMap(memdb+".entries")(lk.X) || !an.InstrReaches(lk, up) {
					continue
				}
				u := an.PathThrough(lk, up, func(x ssa.Instruction) bool {
					call, ok := x.(*ssa.Call)
					return ok && an.Static("sync.Mutex.Unlock", "sync.RWMutex.Unlock")(&call.Call)
				})
				pos := posOf(up)
				if u != nil {
					pos = u.Pos()
				}
				c.Check("store scan and append in one critical section", pos, u == nil,
					"the lock is released between reading entries[k] for the duplicate scan and appending: two concurrent stores of the same share both pass the scan and both append")
				break
			}
		}
	})

	c.Rule("P8", 1, func() {
		// every accepted insertion is evaluated against the threshold: from db.store (accepted edge) every path to the
		// next iteration / exit passes getThresholdMatching
		fn := c.Fn("core/parsigdb.MemDB.StoreExternal")
		gtm := c.Fn("core/parsigdb.getThresholdMatching")
		for _, st := range c.SomeCalls(fn, an.Static("core/parsigdb.MemDB.store"), "db.store", false) {
			l := an.InnermostLoop(fn, st.Block())
			errs, okv := an.StatusOf(st, 1)
			prune := func(b *ssa.BasicBlock, succ int) bool {
				iff, ok := b.Instrs[len(b.Instrs)-1].(*ssa.If)
				if !ok {
					return false
				}
				for _, e := range errs {
					for _, cd := range an.CondsOn(fn, e) {
						if cd.If == iff && cd.Other != nil && an.IsNilConst(cd.Other) {
							return b.Succs[succ] == cd.Succ(cd.Op != token.EQL) // err != nil edge: rejected
						}
					}
				}
				if okv != nil {
					for _, cd := range an.CondsOn(fn, okv) {
						if cd.If == iff && cd.Other == nil {
							return b.Succs[succ] == cd.Succ(false) // duplicate ignored
						}
					}
				}
				// `len(list) < db.threshold` is a sound shortcut (getThresholdMatching starts with the same test)
				if bin, ok := iff.Cond.(*ssa.BinOp); ok {
					x, y, op := bin.X, bin.Y, bin.Op
					if op == token.GTR || op == token.GEQ {
						x, y = y, x
						if op == token.GTR {
							op = token.LSS
						} else {
							op = token.LEQ
						}
					}
					if call, ok := x.(*ssa.Call); ok && op == token.LSS && isLoadOfValueField(y, memdb+".threshold") {
						if bi, ok := call.Call.Value.(*ssa.Builtin); ok && bi.Name() == "len" {
							if ex, ok := call.Call.Args[0].(*ssa.Extract); ok && ex.Index == 0 && ex.Tuple == st.Value() {
								return succ == 0
							}
						}
					}
				}
				return false
			}
			opt := an.PassOpt{Prune: prune}
			if l != nil {
				opt.StopAt = func(b *ssa.BasicBlock) bool { return b == l.Header }
			}
			path, esc := an.EscapePath(st, func(in ssa.Instruction) bool {
				ci, ok := in.(ssa.CallInstruction)
				return ok && ci.Common().StaticCallee() == gtm
			}, opt)
			c.Check("StoreExternal accepted insertion→getThresholdMatching", st.Pos(), !esc,
				"an accepted partial signature is not evaluated against the threshold on path "+an.PathString(c.P, path)+": a matching group can reach threshold unnoticed")
		}
	})

	c.Rule("P5", 1, func() {
		fn := c.Fn("core/parsigdb.MemDB.StoreExternal")
		add := c.OneCall(fn, an.Invoke("core.Deadliner.Add"), "deadliner.Add", false)
		expired := constOf(c, "core", "DeadlineExpired")
		stores := c.SomeCalls(fn, an.Static("core/parsigdb.MemDB.store"), "db.store", false)
		for _, st := range stores {
			good := false
			for _, cd := range an.CondsOn(fn, add.Value()) {
				if n, ok := an.ConstInt(cd.Other); ok && n == expired && cd.Op == token.EQL && an.Dominates(cd.If, st) &&
					an.EdgeCuts(cd.Succ(true), st, nil) {
					good = true
				}
			}
			c.Check("StoreExternal expired→no store", st.Pos(), good, "db.store is reachable when deadliner.Add reports DeadlineExpired")
		}
	})

	c.Rule("P6", 2, func() {
		fn := c.Fn("core/parsigdb.MemDB.trackExemptUnsafe")
		limit := constOf(c, "core/parsigdb", "maxExemptEntriesPerShare")
		ups := mapUpdates(fn, isFieldMap(memdb+".exemptEntries"))
		if len(ups) == 0 {
			c.Bail("no write-back of exemptEntries")
		}
		for _, up := range ups {
			good := false
			for _, b := range fn.Blocks {
				iff, ok := b.Instrs[len(b.Instrs)-1].(*ssa.If)
				if !ok {
					continue
				}
				bin, ok := iff.Cond.(*ssa.BinOp)
				if !ok || bin.Op != token.GTR {
					continue
				}
				if n, ok := an.ConstInt(bin.Y); !ok || n != limit {
					continue
				}
				evict := false
				for _, in := range b.Succs[0].Instrs {
					if ci, ok := in.(ssa.CallInstruction); ok && an.Static("core/parsigdb.MemDB.evictExemptShareEntryUnsafe")(ci.Common()) {
						evict = true
					}
				}
				if evict && an.Dominates(iff, up) {
					good = true
				}
			}
			c.Check("trackExemptUnsafe cap before write-back", posOf(up), good, "write-back of the per-share list is not preceded by the cap test that evicts the oldest entry")
		}
		// called iff exempt, from store only
		st := c.Fn("core/parsigdb.MemDB.store")
		call := c.OneCall(st, an.Static("core/parsigdb.MemDB.trackExemptUnsafe"), "trackExemptUnsafe", false)
		good := false
		for _, cd := range an.CondsOn(st, st.Params[4]) {
			if cd.Other == nil && cd.Succ(true).Dominates(call.Block()) {
				good = true
			}
		}
		c.Check("store tracks exempt entries", call.Pos(), good, "trackExemptUnsafe is not called exactly on the exempt edge")
	})

	c.Rule("P7", 3, func() {
		// every removal from entries (delete, or overwrite with something other than append(entries[k], x))
		// must be the whole-key deletion driven by expiry in Trim.
		for _, fn := range an.PkgFuncs(c.SSAPkg("core/parsigdb")) {
			for _, in := range an.Instrs(fn, false) {
				switch x := in.(type) {
				case *ssa.Call:
					b, ok := x.Call.Value.(*ssa.Builtin)
					if !ok || (b.Name() != "delete" && b.Name() != "clear") {
						continue
					}
					if k, _, ok := an.FieldOf(x.Call.Args[0]); !ok || k != memdb+".entries" {
						continue
					}
					c.Check(an.FuncName(fn)+" delete(entries)", x.Pos(), an.FuncName(fn) == "core/parsigdb.MemDB.Trim" && fromDeadlinerC(x),
						"partial signatures are removed from a key outside expiry trimming: a group that already fired can shrink and reach exactly threshold again")
				case *ssa.MapUpdate:
					if !isFieldMap(memdb + ".entries")(x.Map) {
						continue
					}
					grow := false
					if call, ok := x.Value.(*ssa.Call); ok {
						if b, ok := call.Call.Value.(*ssa.Builtin); ok && b.Name() == "append" {
							if lk, ok := call.Call.Args[0].(*ssa.Lookup); ok && isFieldMap(memdb+".entries")(lk.X) && an.Equiv(lk.Index, x.Key) {
								grow = true
							}
						}
					}
					c.Check(an.FuncName(fn)+" entries[k]=", posOf(x), grow,
						"entries[k] is overwritten with something other than append(entries[k], new): stored shares can disappear and threshold be reached again")
				}
			}
		}
	})
}

// fromDeadlinerC: the delete is keyed by the range over keysByDuty[duty] with duty received from deadliner.C().
func fromDeadlinerC(del *ssa.Call) bool {
	fn := del.Parent()
	l := an.InnermostLoop(fn, del.Block())
	if l == nil {
		return false
	}
	coll := l.RangeColl()
	lk, ok := an.Unwrap(coll).(*ssa.Lookup)
	if !ok {
		return false
	}
	if k, _, ok := an.FieldOf(lk.X); !ok || k != memdb+".keysByDuty" {
		return false
	}
	// index originates from a select/recv on deadliner.C()
	return valueFromRecvOf(lk.Index, "iface:core.Deadliner.C") && l.ElemOf(del.Call.Args[1])
}

// valueFromRecvOf: v is received (select or <-) from a channel returned by the named call.
func valueFromRecvOf(v ssa.Value, callee string) bool {
	v = an.Unwrap(v)
	switch x := v.(type) {
	case *ssa.UnOp:
		if x.Op == token.ARROW {
			if call, ok := x.X.(*ssa.Call); ok {
				return an.CalleeName(&call.Call) == callee
			}
		}
	case *ssa.Extract:
		if sel, ok := x.Tuple.(*ssa.Select); ok {
			// recv values follow (index, recvOk): state i's value is at Extract index 2+k
			k := x.Index - 2
			n := 0
			for _, st := range sel.States {
				if st.Dir == types.RecvOnly {
					if n == k {
						if call, ok := st.Chan.(*ssa.Call); ok {
							return an.CalleeName(&call.Call) == callee
						}
						return false
					}
					n++
				}
			}
		}
	}
	return false
}

// findLen returns the `len(v)` call value in fn (or nil).
func findLen(fn *ssa.Function, v ssa.Value) ssa.Value {
	for _, in := range an.Instrs(fn, false) {
		if call, ok := in.(*ssa.Call); ok {
			if b, ok := call.Call.Value.(*ssa.Builtin); ok && b.Name() == "len" && len(call.Call.Args) == 1 && call.Call.Args[0] == v {
				return call
			}
		}
	}
	return nil
}

// appendedElems: v = append(base, e1, e2...) -> the e's (variadic slice literal elements).
func appendedElems(v ssa.Value) []ssa.Value {
	call, ok := v.(*ssa.Call)
	if !ok {
		return nil
	}
	b, ok := call.Call.Value.(*ssa.Builtin)
	if !ok || b.Name() != "append" || len(call.Call.Args) != 2 {
		return nil
	}
	sl, ok := call.Call.Args[1].(*ssa.Slice)
	if !ok {
		return nil
	}
	al, ok := sl.X.(*ssa.Alloc)
	if !ok {
		return nil
	}
	var out []ssa.Value
	for _, ref := range *al.Referrers() {
		if ia, ok := ref.(*ssa.IndexAddr); ok {
			for _, r2 := range *ia.Referrers() {
				if st, ok := r2.(*ssa.Store); ok && st.Addr == ssa.Value(ia) {
					out = append(out, st.Val)
				}
			}
		}
	}
	return out
}

// sameSigElem: elem is the ParSignedData whose embedded SignedData is recv (sig vs sig.SignedData).
func sameSigElem(elem, recv ssa.Value) bool {
	recv = an.Unwrap(recv)
	switch x := recv.(type) {
	case *ssa.Field:
		return an.Equiv(x.X, elem)
	case *ssa.UnOp:
		if fa, ok := x.X.(*ssa.FieldAddr); ok {
			if ld, ok := an.Unwrap(elem).(*ssa.UnOp); ok {
				return an.Equiv(fa.X, ld.X)
			}
		}
	}
	return an.Equiv(recv, elem)
}

// rootedAt: v is a field path / load rooted at value root.
func rootedAt(v ssa.Value, root ssa.Value) bool {
	for i := 0; i < 16; i++ {
		v = an.Unwrap(v)
		if v == root {
			return true
		}
		switch x := v.(type) {
		case *ssa.Field:
			v = x.X
		case *ssa.FieldAddr:
			v = x.X
		case *ssa.UnOp:
			if x.Op != token.MUL {
				return false
			}
			v = x.X
		case *ssa.Alloc:
			// spilled parameter: unique store of the parameter
			for _, ref := range *x.Referrers() {
				if st, ok := ref.(*ssa.Store); ok && st.Addr == ssa.Value(x) && st.Val == root {
					return true
				}
			}
			return false
		default:
			return false
		}
	}
	return false
}

// isLoadOfValueField: v is a load of the named field.
func isLoadOfValueField(v ssa.Value, key string) bool {
	in, ok := an.Unwrap(v).(ssa.Instruction)
	return ok && isLoadOfField(in, key)
}
