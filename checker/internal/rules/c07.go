package rules

import (
	"go/constant"
	"go/token"
	"go/types"
	"strings"

	"golang.org/x/tools/go/ssa"

	"charonverif/internal/an"
	"charonverif/internal/rt"
)

func init() {
	Register(&Prop{
		ID: "C07",
		// every clause is decided on resolved entities (fields, functions, callees) and follows static in-package calls with
		// parameter/argument substitution; shapes that are not recognised end UNDECIDED, never as a violation
		Decides: "parsigdb.MemDB: (P1) entries/keysByDuty/exemptEntries are touched only under mu, append and snapshot in one critical section; " +
			"(P2) once a validator of a batch has reached threshold every path to the exit of StoreExternal reaches the threshold-subscriber fan-out; " +
			"(P3) the set handed to subscribers is one message-root group of exactly `threshold` members built from the stored list; " +
			"(P4) an append is preceded by the same-share scan that returns without appending; (P5) expired duties are dropped before storing; " +
			"(P6) exempt entries are capped; (P7) per-key lists only grow until the whole duty is trimmed.",
		NotDecided: "'exactly once' as a counting statement over arrival orders and interleavings; content equality of partial signatures (JSON comparison) is trusted.",
		Run:        c07,
		Mutants: []Mutant{
			{ID: "C07-P1-unlock-early", File: "core/parsigdb/memory.go", Expect: "P1",
				Old: "\tif k.Duty.Type == core.DutyExit {\n\t\texitCounter.WithLabelValues(k.PubKey.String()).Inc()\n\t}\n\n\treturn append(",
				New: "\tif k.Duty.Type == core.DutyExit {\n\t\texitCounter.WithLabelValues(k.PubKey.String()).Inc()\n\t}\n\n\tdb.mu.Unlock()\n\tdefer db.mu.Lock()\n\n\treturn append("},
			{ID: "C07-P2-early-return", File: "core/parsigdb/memory.go", Expect: "P2",
				Old: "\t\toutput[pubkey] = psigs\n\t}",
				New: "\t\toutput[pubkey] = psigs\n\t\tif ctx.Err() != nil {\n\t\t\treturn ctx.Err()\n\t\t}\n\t}"},
			{ID: "C07-P3-return-all", File: "core/parsigdb/memory.go", Expect: "P3",
				Old: "\t\tif len(set) == threshold {\n\t\t\treturn set, true, nil",
				New: "\t\tif len(set) == threshold {\n\t\t\treturn sigs, true, nil"},
			{ID: "C07-P3-threshold-minus-one", File: "core/parsigdb/memory.go", Expect: "P3",
				Old: "getThresholdMatching(duty.Type, sigs, db.threshold)",
				New: "getThresholdMatching(duty.Type, sigs, db.threshold-1)"},
			{ID: "C07-P3-geq", File: "core/parsigdb/memory.go", Expect: "P3",
				Old: "\t\tif len(set) == threshold {",
				New: "\t\tif len(set) >= threshold {"},
			{ID: "C07-P4-no-scan", File: "core/parsigdb/memory.go", Expect: "P4",
				Old: "\t\tif s.ShareIdx == value.ShareIdx {",
				New: "\t\tif s.ShareIdx == value.ShareIdx && s.ShareIdx < 0 {"},
			{ID: "C07-P8-skip-evaluation", File: "core/parsigdb/memory.go", Expect: "P8",
				Old: "\t\t// Check if sufficient matching partial signed data has been received.\n",
				New: "\t\tif len(sigs) != db.threshold {\n\t\t\tcontinue\n\t\t}\n\n"},
			{ID: "C07-P4-split-critical-section", File: "core/parsigdb/memory.go", Expect: "P4",
				Old: "\tisNewKey := len(db.entries[k]) == 0\n",
				New: "\tdb.mu.Unlock()\n\tdb.mu.Lock()\n\n\tisNewKey := len(db.entries[k]) == 0\n"},
			{ID: "C07-P5-ignore-expired", File: "core/parsigdb/memory.go", Expect: "P5",
				Old: "\tif status == core.DeadlineExpired {",
				New: "\tif status == core.DeadlineExpired && len(signedSet) == 0 {"},
			{ID: "C07-P7-evict-on-dup", File: "core/parsigdb/memory.go", Expect: "P7",
				Old: "\t\t\t} else if !equal {\n\t\t\t\treturn nil, false, errors.New(\"mismatching partial signed data\",",
				New: "\t\t\t} else if !equal {\n\t\t\t\tdelete(db.entries, k)\n\t\t\t\treturn nil, false, errors.New(\"mismatching partial signed data\","},
			// added while hardening the rules against refactorings (one edit each, mechanisms the shape-independent
			// formulations must still decide)
			{ID: "C07-P2-fanout-guard-off-by-one", File: "core/parsigdb/memory.go", Expect: "P2",
				Old: "\tif len(output) == 0 {\n\t\treturn storeErr", New: "\tif len(output) <= 1 {\n\t\treturn storeErr"},
			{ID: "C07-P3-shortcut-wrong-type", File: "core/parsigdb/memory.go", Expect: "P3|DutySignature shortcut",
				Old: "\tif typ == core.DutySignature {", New: "\tif typ != core.DutySignature {"},
			{ID: "C07-P3-group-skips-element", File: "core/parsigdb/memory.go", Expect: "P3|grouping",
				Old: "\t\tsigsByMsgRoot[root] = append(sigsByMsgRoot[root], sig)\n",
				New: "\t\tif sig.ShareIdx == 1 {\n\t\t\tcontinue\n\t\t}\n\n\t\tsigsByMsgRoot[root] = append(sigsByMsgRoot[root], sig)\n"},
			{ID: "C07-P3-group-wrong-element", File: "core/parsigdb/memory.go", Expect: "P3|grouping",
				Old: "\t\tsigsByMsgRoot[root] = append(sigsByMsgRoot[root], sig)\n", New: "\t\tsigsByMsgRoot[root] = append(sigsByMsgRoot[root], sigs[0])\n"},
			{ID: "C07-P3-group-restarted", File: "core/parsigdb/memory.go", Expect: "P3|grouping",
				Old: "\t\tsigsByMsgRoot[root] = append(sigsByMsgRoot[root], sig)\n", New: "\t\tsigsByMsgRoot[root] = append([]core.ParSignedData(nil), sig)\n"},
			{ID: "C07-P3-publish-unchecked", File: "core/parsigdb/memory.go", Expect: "P3|output value",
				Old: "\t\t} else if !ok {\n\t\t\tcontinue\n\t\t}\n\n\t\toutput[pubkey] = psigs", New: "\t\t}\n\n\t\t_ = ok\n\t\toutput[pubkey] = psigs"},
			{ID: "C07-P3-publish-stored-list", File: "core/parsigdb/memory.go", Expect: "P3|output value",
				Old: "\t\toutput[pubkey] = psigs\n", New: "\t\t_ = psigs\n\t\toutput[pubkey] = sigs\n"},
			{ID: "C07-P4-break-on-duplicate", File: "core/parsigdb/memory.go", Expect: "P4",
				Old: "\t\t\treturn nil, false, nil\n\t\t}\n\t}\n\n\t// Clone before storing.", New: "\t\t\tbreak\n\t\t}\n\t}\n\n\t// Clone before storing."},
			{ID: "C07-P4-scan-other-key", File: "core/parsigdb/memory.go", Expect: "P4",
				Old: "\tfor _, s := range db.entries[k] {\n\t\tif s.ShareIdx == value.ShareIdx {", New: "\tfor _, s := range db.entries[key{Duty: k.Duty}] {\n\t\tif s.ShareIdx == value.ShareIdx {"},
			{ID: "C07-P6-cap-doubled", File: "core/parsigdb/memory.go", Expect: "P6",
				Old: "\tif len(stored) > maxExemptEntriesPerShare {", New: "\tif len(stored) > 2*maxExemptEntriesPerShare {"},
			{ID: "C07-P6-track-non-exempt", File: "core/parsigdb/memory.go", Expect: "P6",
				Old: "\texempt := status == core.DeadlineExempt\n", New: "\texempt := status == core.DeadlineScheduled\n"},
			{ID: "C07-P7-trim-on-store", File: "core/parsigdb/memory.go", Expect: "P7",
				Old: "\tisNewKey := len(db.entries[k]) == 0\n",
				New: "\tisNewKey := len(db.entries[k]) == 0\n\n\tfor _, old := range db.keysByDuty[k.Duty] {\n\t\tif old != k {\n\t\t\tdelete(db.entries, old)\n\t\t}\n\t}\n"},
			{ID: "C07-P8-skip-above-threshold", File: "core/parsigdb/memory.go", Expect: "P8",
				Old: "\t\t} else if !ok {\n\t\t\tlog.Debug(ctx, \"Ignoring duplicate partial signature\")", New: "\t\t} else if !ok || len(sigs) > db.threshold {\n\t\t\tlog.Debug(ctx, \"Ignoring duplicate partial signature\")"},
		},
	})
}

const memdb = "core/parsigdb.MemDB"

func constOf(c *rt.Ctx, pkgRel, name string) int64 {
	obj, ok := c.Pkg(pkgRel).Types.Scope().Lookup(name).(*types.Const)
	if !ok {
		c.Bail("constant %s.%s not found", pkgRel, name)
	}
	v, ok := constant.Int64Val(obj.Val())
	if !ok {
		c.Bail("constant %s.%s is not an integer", pkgRel, name)
	}
	return v
}

func c07(c *rt.Ctx) {
	k := newC07k(c)
	const (
		nStoreExternal = "core/parsigdb.MemDB.StoreExternal"
		nStore         = "core/parsigdb.MemDB.store"
		nGTM           = "core/parsigdb.getThresholdMatching"
		nTrack         = "core/parsigdb.MemDB.trackExemptUnsafe"
		nEvict         = "core/parsigdb.MemDB.evictExemptShareEntryUnsafe"
	)

	c.Rule("P1", 8, func() {
		lockRule(c, []string{"core/parsigdb"}, an.LockTable{
			memdb + ".entries":       "mu", // every access in store/Trim/evict* is under mu
			memdb + ".keysByDuty":    "mu", // written in store, drained in Trim
			memdb + ".exemptEntries": "mu", // written only from trackExemptUnsafe (store holds mu)
		})
	})

	// outputMaps: the locally made maps of StoreExternal that are handed (possibly cloned, possibly through
	// an in-package helper) to the calls through threshSubs.
	outputMaps := func(fn *ssa.Function) []ssa.Value {
		var out []ssa.Value
		for _, in := range an.Instrs(fn, false) {
			if mk, ok := in.(*ssa.MakeMap); ok && k.flowsToFan(mk, 0) {
				out = append(out, mk)
			}
		}
		return out
	}

	// fanSources: the functions of the package that make an output map, with their maps (StoreExternal today; a
	// helper that took over its batch loop after a refactoring).
	type fanSource struct {
		fn   *ssa.Function
		maps []ssa.Value
	}
	fanSources := func() []fanSource {
		var out []fanSource
		for _, fn := range k.ix.Funcs {
			if ms := outputMaps(fn); len(ms) > 0 {
				out = append(out, fanSource{fn, ms})
			}
		}
		return out
	}

	c.Rule("P2", 1, func() {
		c.Fn(nStoreExternal)
		srcs := fanSources()
		if len(srcs) == 0 {
			c.Bail("no locally made map of the package flows into a call through threshSubs")
		}
		for _, src := range srcs {
			fn := src.fn
			for _, m := range src.maps {
				writes := k.mapWrites(fn, m)
				if len(writes) == 0 {
					c.Bail("no write to the threshold-output map found in %s", an.FuncName(fn))
				}
				// after an insertion the map is non-empty: `len(output) == 0` (in any spelling) is decided
				env := an.H07Env{LenMin: func(x ssa.Value) (int64, bool) { return 1, an.Resolve(x) == m }}
				for _, w := range writes {
					path, esc := an.H07Path(fn, w, nil, k.fanEffect(m), env.Prune(), nil)
					if esc && c07pathHasFlagBranch(path) {
						// a flag variable decides: follow it from the function entry
						path, esc = an.H07PathVia(fn, w, k.fanEffect(m), env.Prune())
					}
					if esc && c07pathHasFlagBranch(path) && !c07flagsDecided(path) {
						c.Unsure("StoreExternal output-write→threshSubs", posOf(w), "the fan-out is skipped on a branch over a flag variable that is not evaluated: "+an.PathString(c.P, path))
						continue
					}
					c.Check("StoreExternal output-write→threshSubs", posOf(w), !esc,
						"path from the validator reaching threshold to a return that skips the threshold fan-out: "+an.PathString(c.P, path))
				}
			}
		}
	})

	c.Rule("P3", 6, func() {
		fn := c.Fn(nGTM)
		var typP, sigsP, thrP *ssa.Parameter
		for _, p := range fn.Params {
			switch {
			case an.TypeName(p.Type()) == "core.DutyType" && typP == nil:
				typP = p
			case an.TypeName(p.Type()) == "[]core.ParSignedData" && sigsP == nil:
				sigsP = p
			case an.TypeName(p.Type()) == "int" && thrP == nil:
				thrP = p
			}
		}
		if len(fn.Params) != 3 || typP == nil || sigsP == nil || thrP == nil {
			c.Bail("getThresholdMatching: unexpected signature")
		}
		dutySig := constOf(c, "core", "DutySignature")
		nTrue := 0
		// matcher decides the returns of f (getThresholdMatching, or an in-package function it returns the
		// results of) for the stored list sigsP and the threshold thrP. typP (may be nil) is the duty type
		// parameter; sigCtx says that f is only reached for DutySignature.
		var matcher func(f *ssa.Function, typP, sigsP, thrP *ssa.Parameter, sigCtx bool, depth int)
		matcher = func(f *ssa.Function, typP, sigsP, thrP *ssa.Parameter, sigCtx bool, depth int) {
			isThr := func(v ssa.Value) bool { return v != nil && an.Resolve(v) == ssa.Value(thrP) }
			// lenEq: b is `len(set) == threshold` as a value
			lenEq := func(b, set ssa.Value) bool {
				bin, ok := an.Resolve(b).(*ssa.BinOp)
				if !ok || bin.Op != token.EQL {
					return false
				}
				l, o := bin.X, bin.Y
				if an.H07IsLen(l) == nil {
					l, o = bin.Y, bin.X
				}
				x := an.H07IsLen(l)
				return x != nil && an.Resolve(x) == an.Resolve(set) && isThr(o)
			}
			// sizeGuard: the return lies on the `len(set) == threshold` edge of a branch
			sizeGuard := func(r *ssa.Return, set ssa.Value) c07v {
				seen := false
				for _, lc := range an.H07Lens(f, set) {
					for _, cd := range an.CondsOn(f, lc) {
						if !isThr(cd.Other) {
							continue
						}
						seen = true
						if (cd.Op == token.EQL && an.H07CondEdgeDominates(cd, true, r.Block())) ||
							(cd.Op == token.NEQ && an.H07CondEdgeDominates(cd, false, r.Block())) {
							return c07Ok()
						}
					}
				}
				if !seen && set.Referrers() != nil {
					for _, ref := range *set.Referrers() {
						if ci, ok := ref.(ssa.CallInstruction); ok && k.ix.Callee(ci.Common()) != nil {
							return c07Unsure("the size of the returned group is tested by a callee")
						}
					}
				}
				return c07Bad("returned group is not guarded by len(group) == threshold (parameter)")
			}
			typTested := false
			onSigEdge := func(r *ssa.Return) bool {
				if sigCtx {
					return true
				}
				if typP == nil {
					return false
				}
				for _, cd := range an.CondsOn(f, typP) {
					if n, ok := an.ConstInt(cd.Other); !ok || n != dutySig {
						continue
					}
					typTested = true
					if (cd.Op == token.EQL && an.H07CondEdgeDominates(cd, true, r.Block())) ||
						(cd.Op == token.NEQ && an.H07CondEdgeDominates(cd, false, r.Block())) {
						return true
					}
				}
				return false
			}
			for _, r := range an.Returns(f) {
				rv := returnValues(r)
				if len(rv) != 3 {
					continue
				}
				okc, isConst := c07constBool(rv[1])
				if isConst && !okc {
					continue
				}
				// the results of an in-package callee handed on unchanged: decide the callee
				if c0, i0, ok0 := c07resultOf(rv[0]); ok0 && !isConst {
					if c1, i1, ok1 := c07resultOf(rv[1]); ok1 && c0 == c1 && i0 == 0 && i1 == 1 {
						if h := k.ix.Callee(&c0.Call); h != nil && depth < 2 {
							var hTyp, hSigs, hThr *ssa.Parameter
							for i, a := range c0.Call.Args {
								if i >= len(h.Params) {
									break
								}
								switch an.Resolve(a) {
								case ssa.Value(sigsP):
									hSigs = h.Params[i]
								case ssa.Value(thrP):
									hThr = h.Params[i]
								}
								if typP != nil && an.Resolve(a) == ssa.Value(typP) {
									hTyp = h.Params[i]
								}
							}
							if hSigs == nil || hThr == nil {
								nTrue++
								k.report("getThresholdMatching true-return size", posOf(r),
									c07Bad(an.FuncName(h)+" is not given the stored list and the threshold parameter unchanged"))
								continue
							}
							matcher(h, hTyp, hSigs, hThr, onSigEdge(r), depth+1)
							continue
						}
					}
				}
				nTrue++
				set := an.Resolve(rv[0])
				// (a) the group has exactly threshold members
				size := c07Ok()
				switch {
				case isConst:
					size = sizeGuard(r, set)
				case lenEq(rv[1], set):
				default:
					size = c07Unsure("ok is neither a constant nor `len(set) == threshold` over the returned list")
					if bin, isBin := an.Resolve(rv[1]).(*ssa.BinOp); isBin && (an.H07IsLen(bin.X) != nil || an.H07IsLen(bin.Y) != nil) {
						size = c07Bad("ok is not `len(sigs) == threshold` over the returned list")
					}
				}
				// (b) the group is one message-root group of the stored list (the whole list only for DutySignature)
				prov := c07Ok()
				var mapv ssa.Value
				switch x := set.(type) {
				case *ssa.Extract:
					if nx, ok := x.Tuple.(*ssa.Next); ok && x.Index == 2 {
						if rg, ok := nx.Iter.(*ssa.Range); ok && an.IsMapType(rg.X.Type()) {
							mapv = rg.X
						}
					}
				case *ssa.Lookup:
					if an.IsMapType(x.X.Type()) {
						mapv = x.X
					}
				}
				switch {
				case set == ssa.Value(sigsP):
					if !onSigEdge(r) {
						prov = c07Bad("set returned with ok=true is the whole stored list, not a value of the message-root grouping map (allowed for DutySignature only)")
						if typP != nil && !typTested {
							prov = c07Unsure("the whole stored list is returned and the test for DutySignature is not recognised")
						}
					}
				case mapv != nil:
					prov = k.grouping(f, mapv, sigsP, 0)
				case an.IsNilConst(set):
					prov = c07Bad("nil set returned with ok possibly true")
				default:
					prov = c07Unsure("origin of the set returned with ok=true is not recognised")
				}
				if set == ssa.Value(sigsP) {
					k.report("getThresholdMatching DutySignature shortcut", posOf(r), size.and(prov))
				} else {
					k.report("getThresholdMatching true-return size", posOf(r), size)
					k.report("getThresholdMatching grouping by MessageRoot", posOf(r), prov)
				}
			}
		}
		matcher(fn, typP, sigsP, thrP, false, 0)
		if nTrue == 0 {
			c.Bail("getThresholdMatching never returns ok=true")
		}
		// call-site binding: every call evaluates the snapshot returned by db.store against the configured threshold
		store := c.Fn(nStore)
		calls := k.callsOf(fn)
		if len(calls) == 0 {
			c.Bail("no static call of getThresholdMatching in the package")
		}
		var thresholdArg func(v ssa.Value, depth int) c07v
		thresholdArg = func(v ssa.Value, depth int) c07v {
			if isLoadOfValueField(an.Resolve(v), memdb+".threshold") {
				return c07Ok()
			}
			switch x := an.Resolve(v).(type) {
			case *ssa.BinOp, *ssa.Const:
				return c07Bad("threshold argument is not the configured db.threshold")
			case *ssa.Parameter:
				sites, closed := k.ix.Callers(x.Parent())
				if !closed || len(sites) == 0 || depth > 2 {
					break
				}
				out := c07Ok()
				for _, s := range sites {
					a := an.H07ArgFor(s, an.H07ParamIndex(x))
					if a == nil {
						return c07Unsure("cannot map the threshold parameter to an argument")
					}
					out = out.and(thresholdArg(a, depth+1))
				}
				return out
			}
			return c07Unsure("origin of the threshold argument is not recognised")
		}
		for _, call := range calls {
			args := call.Common().Args
			where := an.FuncName(call.Parent())
			where = where[strings.LastIndex(where, ".")+1:]
			k.report(where+"→getThresholdMatching threshold", call.Pos(), thresholdArg(args[an.H07ParamIndex(thrP)], 0))
			var listFrom func(v ssa.Value, depth int) c07v
			listFrom = func(v ssa.Value, depth int) c07v {
				if _, _, isField := an.FieldOf(v); isField {
					return c07Bad("list argument is taken from the store's state, not the snapshot returned by db.store")
				}
				if phi, isPhi := an.Resolve(v).(*ssa.Phi); isPhi && depth <= 2 {
					out, n := c07Ok(), 0
					for _, e := range phi.Edges {
						if an.IsNilConst(an.Resolve(e)) {
							continue // the variable before its assignment
						}
						n++
						out = out.and(listFrom(e, depth+1))
					}
					if n > 0 {
						return out
					}
				}
				sc, idx, ok := c07resultOf(v)
				if !ok || depth > 2 {
					return c07Unsure("origin of the list argument is not recognised")
				}
				h := k.ix.Callee(&sc.Call)
				switch {
				case h == store && idx == 0:
					return c07Ok()
				case h == nil:
					return c07Unsure("list argument is the result of a call that is not followed")
				}
				out, n := c07Ok(), 0
				for _, r := range an.Returns(h) {
					rv := returnValues(r)
					if idx >= len(rv) || an.IsNilConst(an.Resolve(rv[idx])) {
						continue
					}
					n++
					out = out.and(listFrom(rv[idx], depth+1))
				}
				if n == 0 {
					return c07Unsure(an.FuncName(h) + " returns no list")
				}
				return out
			}
			list := listFrom(args[an.H07ParamIndex(sigsP)], 0)
			k.report(where+"→getThresholdMatching list", call.Pos(), list)
		}
		// the map entry written for the fan-out is the matching set, on the ok edge
		var produces func(h *ssa.Function, si, bi, depth int) c07v
		matchOf := func(v ssa.Value, at ssa.Instruction, depth int) c07v {
			mc, idx, ok := c07resultOf(v)
			if !ok {
				return c07Unsure("origin of the published set is not recognised")
			}
			h := k.ix.Callee(&mc.Call)
			if h == nil {
				return c07Unsure("the published set is the result of a call that is not followed")
			}
			if h == store {
				return c07Bad("value published for the validator is the whole stored list, not the checked result of getThresholdMatching")
			}
			if h == fn {
				if g, _ := an.Guarded(mc, at, an.BoolGuard(1, true)); g && idx == 0 {
					return c07Ok()
				}
				return c07Bad("value published for the validator is not the checked result of getThresholdMatching")
			}
			bis := c07boolResults(h.Signature)
			if len(bis) != 1 || depth > 2 {
				return c07Unsure("cannot tell which result of " + an.FuncName(h) + " reports that threshold was reached")
			}
			if g, _ := an.Guarded(mc, at, an.BoolGuard(bis[0], true)); !g {
				return c07Bad("value published for the validator is not guarded by the `reached` result of " + an.FuncName(h))
			}
			return produces(h, idx, bis[0], depth+1)
		}
		produces = func(h *ssa.Function, si, bi, depth int) c07v {
			out, n := c07Ok(), 0
			for _, r := range an.Returns(h) {
				rv := returnValues(r)
				if si >= len(rv) || bi >= len(rv) {
					continue
				}
				b, isConst := c07constBool(rv[bi])
				if isConst && !b {
					continue
				}
				n++
				if !isConst {
					// pass-through of the matcher's own results
					mc, i0, ok0 := c07resultOf(rv[si])
					mc1, i1, ok1 := c07resultOf(rv[bi])
					if ok0 && ok1 && mc == mc1 && k.ix.Callee(&mc.Call) == fn && i0 == 0 && i1 == 1 {
						continue
					}
					out = out.and(c07Unsure(an.FuncName(h) + " computes its `reached` result in an unrecognised way"))
					continue
				}
				out = out.and(matchOf(rv[si], r, depth))
			}
			if n == 0 {
				return c07Bad(an.FuncName(h) + " never reports that threshold was reached")
			}
			return out
		}
		nOut := 0
		for _, src := range fanSources() {
			for _, m := range src.maps {
				for _, w := range k.mapWrites(src.fn, m) {
					nOut++
					up, isUp := w.(*ssa.MapUpdate)
					if call, isCall := w.(*ssa.Call); isCall {
						// a function literal that captured the map: decide its assignments where they are
						for _, inner := range k.closureWrites(call, m) {
							isUp = true
							k.report("StoreExternal output value", posOf(inner), matchOf(inner.Value, inner, 0))
						}
						if isUp {
							continue
						}
					}
					if !isUp {
						c.Unsure("StoreExternal output value", posOf(w), "the threshold-output map is filled by a callee")
						continue
					}
					k.report("StoreExternal output value", posOf(up), matchOf(up.Value, up, 0))
				}
			}
		}
		if nOut == 0 {
			c.Bail("no write to a threshold-output map found")
		}
	})

	c.Rule("P4", 2, func() {
		n := 0
		for _, fn := range k.ix.Funcs {
			for _, up := range mapUpdates(fn, c07entries) {
				if up.Parent() != fn {
					continue
				}
				_, elems, ok := c07growAppend(up, c07entries)
				if !ok {
					continue // not an insertion (P7 decides about it)
				}
				n++
				var vp *ssa.Parameter
				if len(elems) == 1 {
					vp = c07valueRootParam(elems[0])
				}
				name := an.FuncName(fn)
				name = name[strings.LastIndex(name, ".")+1:]
				k.report(name+" append after same-share scan", posOf(up), k.scanBefore(fn, up, up.Key, vp, 0))
				// the scan and the append form one critical section: no explicit Unlock between reading the list and appending
				k.report(name+" scan and append in one critical section", posOf(up), k.oneCriticalSection(fn, up))
			}
		}
		if n == 0 {
			c.Bail("no append to entries in the package")
		}
	})

	c.Rule("P8", 1, func() {
		// every accepted insertion is evaluated against the threshold: from db.store (accepted edge) every path to the
		// next iteration / exit passes getThresholdMatching
		store := c.Fn(nStore)
		gtm := c.Fn(nGTM)
		sites := k.callsOf(store)
		if len(sites) == 0 {
			c.Bail("no static call of db.store in the package")
		}
		bis := c07boolResults(store.Signature)
		if len(bis) != 1 {
			c.Bail("store: expected exactly one boolean result")
		}
		for _, st := range sites {
			fn := st.Parent()
			if st.Value() == nil {
				c.Unsure("StoreExternal accepted insertion→getThresholdMatching", st.Pos(), "db.store is called with go/defer")
				continue
			}
			l := an.InnermostLoop(fn, st.Block())
			var hdr *ssa.BasicBlock
			if l != nil {
				hdr = l.Header
			}
			errs0, okv0 := an.StatusOf(st, bis[0])
			var list0 ssa.Value
			for _, ref := range *st.Value().Referrers() {
				if ex, ok := ref.(*ssa.Extract); ok && ex.Index == 0 {
					list0 = ex
				}
			}
			// the results, and the variables that hold them on every path from the call (`sigs, ok, err = db.store(...)`
			// assigned to variables declared before: phis whose other edges cannot be reached from the call)
			var errs, oks, lists []ssa.Value
			for _, e := range errs0 {
				errs = append(errs, c07aliasesAfter(st, e, hdr)...)
			}
			if okv0 != nil {
				oks = c07aliasesAfter(st, okv0, hdr)
			}
			if list0 != nil {
				lists = c07aliasesAfter(st, list0, hdr)
			}
			prune := func(b *ssa.BasicBlock, succ int) bool {
				iff, ok := b.Instrs[len(b.Instrs)-1].(*ssa.If)
				if !ok {
					return false
				}
				for _, e := range errs {
					for _, cd := range an.CondsOn(fn, e) {
						if cd.If == iff && cd.Other != nil && an.IsNilConst(cd.Other) && (cd.Op == token.EQL || cd.Op == token.NEQ) {
							return b.Succs[succ] == cd.Succ(cd.Op != token.EQL) // err != nil edge: rejected
						}
					}
				}
				for _, okv := range oks {
					for _, cd := range an.CondsOn(fn, okv) {
						if cd.If == iff && cd.Other == nil {
							return b.Succs[succ] == cd.Succ(false) // duplicate ignored
						}
					}
				}
				// `len(list) < db.threshold` is a sound shortcut (getThresholdMatching starts with the same test)
				for _, list := range lists {
					for _, lc := range an.H07Lens(fn, list) {
						for _, cd := range an.CondsOn(fn, lc) {
							if cd.If != iff || cd.Other == nil || !isLoadOfValueField(an.Resolve(cd.Other), memdb+".threshold") {
								continue
							}
							switch cd.Op {
							case token.LSS:
								return b.Succs[succ] == cd.Succ(true)
							case token.GEQ:
								return b.Succs[succ] == cd.Succ(false)
							}
						}
					}
				}
				return false
			}
			var stop func(b *ssa.BasicBlock) bool
			if l != nil {
				stop = func(b *ssa.BasicBlock) bool { return b == l.Header }
			}
			path, esc := an.H07Path(fn, st, nil, k.callEffect(gtm), prune, stop)
			if esc && l == nil && len(path) > 0 {
				// a helper that only stores and hands the result on: the evaluation may follow in its callers
				last := path[len(path)-1]
				if r, ok := last.Instrs[len(last.Instrs)-1].(*ssa.Return); ok && list0 != nil {
					for _, v := range returnValues(r) {
						if an.Resolve(v) == list0 {
							c.Unsure("StoreExternal accepted insertion→getThresholdMatching", st.Pos(),
								an.FuncName(fn)+" returns the stored list to its callers without evaluating it; the evaluation in the callers is not followed")
							esc = false
						}
					}
					if !esc {
						continue
					}
				}
			}
			if esc && c07pathHasFlagBranch(path, oks...) {
				c.Unsure("StoreExternal accepted insertion→getThresholdMatching", st.Pos(), "the evaluation is skipped on a branch over a flag variable that is not evaluated: "+an.PathString(c.P, path))
				continue
			}
			c.Check("StoreExternal accepted insertion→getThresholdMatching", st.Pos(), !esc,
				"an accepted partial signature is not evaluated against the threshold on path "+an.PathString(c.P, path)+": a matching group can reach threshold unnoticed")
		}
	})

	c.Rule("P5", 1, func() {
		fn := c.Fn(nStoreExternal)
		store := c.Fn(nStore)
		add := c.OneCall(fn, an.Invoke("core.Deadliner.Add"), "deadliner.Add", false)
		expired := constOf(c, "core", "DeadlineExpired")
		var sinks []ssa.CallInstruction
		for _, in := range an.Instrs(fn, false) {
			if ci, ok := in.(ssa.CallInstruction); ok {
				if g := k.ix.Callee(ci.Common()); g != nil && k.mayCall(g, store) {
					sinks = append(sinks, ci)
				}
			}
		}
		if len(sinks) == 0 {
			c.Bail("no call (direct or through an in-package helper) of db.store in StoreExternal")
		}
		env := func(v ssa.Value) (constant.Value, bool) {
			if v == add.Value() {
				return constant.MakeInt64(expired), true
			}
			return nil, false
		}
		decided := 0
		for _, b := range fn.Blocks {
			if iff, ok := b.Instrs[len(b.Instrs)-1].(*ssa.If); ok {
				if _, ok := an.C05Eval(iff.Cond, env); ok {
					decided++
				}
			}
		}
		for _, st := range sinks {
			if decided == 0 {
				c.Unsure("StoreExternal expired→no store", st.Pos(), "no branch of StoreExternal is decided by the status returned by deadliner.Add (expiry test not recognised)")
				continue
			}
			good := an.Dominates(add, st) && !an.C05ReachUnder(add, st, env)
			c.Check("StoreExternal expired→no store", st.Pos(), good, "db.store is reachable when deadliner.Add reports DeadlineExpired")
		}
	})

	c.Rule("P6", 2, func() {
		fn := c.Fn(nTrack)
		evict := c.Fn(nEvict)
		limit := constOf(c, "core/parsigdb", "maxExemptEntriesPerShare")
		ups := mapUpdates(fn, c07exempt)
		if len(ups) == 0 {
			c.Bail("no write-back of exemptEntries")
		}
		// prior: the tracked list as looked up; grown: the list with the new key appended. The cap test may be
		// written on either (`len(grown) > max` after, `len(prior) >= max` before the append).
		var grown, prior ssa.Value
		derives := func(v ssa.Value) (direct, ok bool) { // v is prior, or prior re-sliced / merged
			direct = true
			for i := 0; i < 6; i++ {
				v = an.Resolve(v)
				switch x := v.(type) {
				case *ssa.Lookup:
					return direct, c07exempt(x.X)
				case *ssa.Slice:
					v, direct = x.X, false
				case *ssa.Phi:
					for _, e := range x.Edges {
						if lk, isLk := an.Resolve(e).(*ssa.Lookup); isLk && c07exempt(lk.X) {
							return false, true
						}
					}
					return false, false
				default:
					return false, false
				}
			}
			return false, false
		}
		for _, in := range an.Instrs(fn, false) {
			if lk, ok := in.(*ssa.Lookup); ok && c07exempt(lk.X) {
				if prior != nil && !an.Equiv(prior, lk) {
					c.Bail("trackExemptUnsafe: the tracked list is looked up under several keys")
				}
				if prior == nil {
					prior = lk
				}
			}
		}
		appends := 0
		for _, in := range an.Instrs(fn, false) {
			if call, ok := c07isBuiltin2(in, "append"); ok && len(call.Call.Args) == 2 {
				if direct, ok := derives(call.Call.Args[0]); ok {
					appends++
					if direct {
						grown = call
					}
				}
			}
		}
		if prior == nil || appends != 1 {
			c.Bail("trackExemptUnsafe: expected one lookup of exemptEntries[ek] and one append of the new key to it")
		}
		// assume the cap is exceeded (len(prior)+1 > limit): every path to a write-back must evict first
		env := an.H07Env{LenMin: func(x ssa.Value) (int64, bool) {
			switch an.Resolve(x) {
			case grown:
				return limit + 1, grown != nil
			case prior:
				return limit, true
			}
			return 0, false
		}}
		isEvict := func(in ssa.Instruction) bool {
			ci, ok := in.(*ssa.Call)
			if !ok {
				return false
			}
			g := k.ix.Callee(&ci.Call)
			return g != nil && (g == evict || k.mustCallFn(g, evict))
		}
		capTests, evicts := 0, 0
		for _, b := range fn.Blocks {
			for _, in := range b.Instrs {
				if isEvict(in) {
					evicts++
				}
			}
		}
		// a recognised cap test: a branch comparing the length of the tracked list with a constant (decided once the
		// list is assumed arbitrarily long) one edge of which leads to the eviction. Whether its constant is the
		// right one is what the path search below decides.
		huge := an.H07Env{LenMin: func(x ssa.Value) (int64, bool) {
			r := an.Resolve(x)
			return 1 << 40, r == prior || (grown != nil && r == grown)
		}}
		for _, b := range fn.Blocks {
			iff, ok := b.Instrs[len(b.Instrs)-1].(*ssa.If)
			if !ok {
				continue
			}
			if _, isCmp := huge.Eval(iff.Cond); !isCmp {
				continue
			}
			for _, b2 := range fn.Blocks {
				for _, in := range b2.Instrs {
					if isEvict(in) && (an.H07EdgeDominates(b, 0, b2) || an.H07EdgeDominates(b, 1, b2)) {
						capTests++
					}
				}
			}
		}
		for _, up := range ups {
			path, reach := an.H07Path(fn, nil, up, isEvict, env.Prune(), nil)
			if reach && evicts > 0 && (capTests == 0 || c07pathHasFlagBranch(path)) {
				c.Unsure("trackExemptUnsafe cap before write-back", posOf(up), "the entry is evicted under a cap test that is not recognised")
				continue
			}
			c.Check("trackExemptUnsafe cap before write-back", posOf(up), !reach,
				"write-back of the per-share list is not preceded by the cap test that evicts the oldest entry: with more than maxExemptEntriesPerShare tracked keys path "+an.PathString(c.P, path)+" reaches it without evicting")
		}
		// called only on the exempt edge, and `exempt` is `status == DeadlineExempt`
		exemptC := constOf(c, "core", "DeadlineExempt")
		sites := k.callsOf(fn)
		if len(sites) == 0 {
			c.Bail("no static call of trackExemptUnsafe in the package")
		}
		for _, call := range sites {
			caller := call.Parent()
			v := c07Bad("trackExemptUnsafe is not called exactly on the exempt edge")
			seen := false
			for _, p := range caller.Params {
				if b, ok := p.Type().Underlying().(*types.Basic); !ok || b.Kind() != types.Bool {
					continue
				}
				for _, cd := range an.CondsOn(caller, p) {
					if cd.Other != nil {
						continue
					}
					seen = true
					if an.H07CondEdgeDominates(cd, true, call.Block()) {
						v = k.statusIs(p, exemptC, 0)
					}
				}
			}
			if !seen && v.st == c07bad {
				for _, b := range caller.Blocks {
					if iff, ok := b.Instrs[len(b.Instrs)-1].(*ssa.If); ok && an.Dominates(iff, call) {
						v = c07Unsure("the condition under which trackExemptUnsafe is called is not a boolean parameter")
					}
				}
			}
			k.report("store tracks exempt entries", call.Pos(), v)
		}
	})

	c.Rule("P7", 3, func() {
		// every removal from entries (delete, or overwrite with something other than append(entries[k], x))
		// must be the whole-key deletion driven by expiry in Trim.
		for _, fn := range k.ix.Funcs {
			for _, in := range an.Instrs(fn, false) {
				switch x := in.(type) {
				case *ssa.Call:
					b, ok := x.Call.Value.(*ssa.Builtin)
					if !ok || (b.Name() != "delete" && b.Name() != "clear") {
						continue
					}
					if key, _, ok := an.FieldOf(x.Call.Args[0]); !ok || key != memdb+".entries" {
						continue
					}
					v := c07Bad("")
					if b.Name() == "delete" {
						v = k.expiryDelete(x)
					}
					if v.st == c07bad {
						v.why = "partial signatures are removed from a key outside expiry trimming: a group that already fired can shrink and reach exactly threshold again"
					}
					k.report(an.FuncName(fn)+" delete(entries)", x.Pos(), v)
				case *ssa.MapUpdate:
					if !c07entries(x.Map) {
						continue
					}
					_, _, grow := c07growAppend(x, c07entries)
					if call, _, isRes := c07resultOf(x.Value); !grow && isRes && k.ix.Callee(&call.Call) != nil {
						c.Unsure(an.FuncName(fn)+" entries[k]=", posOf(x), "entries[k] is assigned the result of "+an.FuncName(k.ix.Callee(&call.Call))+", which is not followed")
						continue
					}
					c.Check(an.FuncName(fn)+" entries[k]=", posOf(x), grow,
						"entries[k] is overwritten with something other than append(entries[k], new): stored shares can disappear and threshold be reached again")
				}
			}
		}
	})
}

// c07isBuiltin2 matches an instruction that is a call of the named builtin.
func c07isBuiltin2(in ssa.Instruction, name string) (*ssa.Call, bool) {
	call, ok := in.(*ssa.Call)
	if !ok {
		return nil, false
	}
	b, ok := call.Call.Value.(*ssa.Builtin)
	return call, ok && b.Name() == name
}

// expiryDelete: the delete of a key of entries is the whole-key deletion of an expired duty: the key
// is an element of the loop over keysByDuty[duty] and duty was received from deadliner.C() (in this
// function, or in the callers of a helper that is only called statically).
func (k *c07k) expiryDelete(del *ssa.Call) c07v {
	fn := del.Parent()
	l := an.InnermostLoop(fn, del.Block())
	if l == nil {
		return c07Bad("not in a loop")
	}
	coll := an.H07LoopColl(l)
	if coll == nil {
		return c07Unsure("collection of the loop around delete(entries, key) is not recognised")
	}
	lk := c07lookupOf(coll)
	if lk == nil {
		return c07Unsure("the keys to delete are not recognisably keysByDuty[duty]")
	}
	if !c07keysByDuty(lk.X) {
		return c07Bad("loop is not over keysByDuty[duty]")
	}
	if !(an.H07ElemOf(l, del.Call.Args[1]) || l.ElemOf(del.Call.Args[1])) {
		return c07Bad("deleted key is not the loop element")
	}
	return k.fromDeadlinerC(lk.Index, del, 0)
}

// valueFromRecvOf: v is received (select or <-) from a channel returned by the named call.
func valueFromRecvOf(v ssa.Value, callee string) bool {
	v = an.Unwrap(v)
	switch x := v.(type) {
	case *ssa.UnOp:
		if x.Op == token.ARROW {
			if call, ok := x.X.(*ssa.Call); ok {
				return an.CalleeName(&call.Call) == callee
			}
		}
	case *ssa.Extract:
		if sel, ok := x.Tuple.(*ssa.Select); ok {
			// recv values follow (index, recvOk): state i's value is at Extract index 2+k
			k := x.Index - 2
			n := 0
			for _, st := range sel.States {
				if st.Dir == types.RecvOnly {
					if n == k {
						if call, ok := st.Chan.(*ssa.Call); ok {
							return an.CalleeName(&call.Call) == callee
						}
						return false
					}
					n++
				}
			}
		}
	}
	return false
}

// findLen returns the `len(v)` call value in fn (or nil).
func findLen(fn *ssa.Function, v ssa.Value) ssa.Value {
	for _, in := range an.Instrs(fn, false) {
		if call, ok := in.(*ssa.Call); ok {
			if b, ok := call.Call.Value.(*ssa.Builtin); ok && b.Name() == "len" && len(call.Call.Args) == 1 && call.Call.Args[0] == v {
				return call
			}
		}
	}
	return nil
}

// appendedElems: v = append(base, e1, e2...) -> the e's (variadic slice literal elements).
func appendedElems(v ssa.Value) []ssa.Value {
	call, ok := v.(*ssa.Call)
	if !ok {
		return nil
	}
	b, ok := call.Call.Value.(*ssa.Builtin)
	if !ok || b.Name() != "append" || len(call.Call.Args) != 2 {
		return nil
	}
	sl, ok := call.Call.Args[1].(*ssa.Slice)
	if !ok {
		return nil
	}
	al, ok := sl.X.(*ssa.Alloc)
	if !ok {
		return nil
	}
	var out []ssa.Value
	for _, ref := range *al.Referrers() {
		if ia, ok := ref.(*ssa.IndexAddr); ok {
			for _, r2 := range *ia.Referrers() {
				if st, ok := r2.(*ssa.Store); ok && st.Addr == ssa.Value(ia) {
					out = append(out, st.Val)
				}
			}
		}
	}
	return out
}

// sameSigElem: elem is the ParSignedData whose embedded SignedData is recv (sig vs sig.SignedData).
func sameSigElem(elem, recv ssa.Value) bool {
	recv = an.Unwrap(recv)
	switch x := recv.(type) {
	case *ssa.Field:
		return an.Equiv(x.X, elem)
	case *ssa.UnOp:
		if fa, ok := x.X.(*ssa.FieldAddr); ok {
			if ld, ok := an.Unwrap(elem).(*ssa.UnOp); ok {
				return an.Equiv(fa.X, ld.X)
			}
		}
	}
	return an.Equiv(recv, elem)
}

// rootedAt: v is a field path / load rooted at value root.
func rootedAt(v ssa.Value, root ssa.Value) bool {
	for i := 0; i < 16; i++ {
		v = an.Unwrap(v)
		if v == root {
			return true
		}
		switch x := v.(type) {
		case *ssa.Field:
			v = x.X
		case *ssa.FieldAddr:
			v = x.X
		case *ssa.UnOp:
			if x.Op != token.MUL {
				return false
			}
			v = x.X
		case *ssa.Alloc:
			// spilled parameter: unique store of the parameter
			for _, ref := range *x.Referrers() {
				if st, ok := ref.(*ssa.Store); ok && st.Addr == ssa.Value(x) && st.Val == root {
					return true
				}
			}
			return false
		default:
			return false
		}
	}
	return false
}

// isLoadOfValueField: v is a load of the named field.
func isLoadOfValueField(v ssa.Value, key string) bool {
	in, ok := an.Unwrap(v).(ssa.Instruction)
	return ok && isLoadOfField(in, key)
}
