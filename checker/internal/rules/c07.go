package rules

import (
	"go/constant"
	"go/token"
	"go/types"
	"strings"

	"golang.org/x/tools/go/ssa"

	"charonverif/internal/an"
	"charonverif/internal/rt"
)

func init() {
	Register(&Prop{
		ID: "C07",
		// every clause is decided on resolved entities (fields, functions, callees) and follows static in-package calls with
		// parameter/argument substitution; shapes that are not recognised end UNDECIDED, never as a violation
		Decides: "parsigdb.MemDB: (P1) entries/keysByDuty/exemptEntries are touched only under mu, append and snapshot in one critical section; " +
			"(P2) once a validator of a batch has reached threshold every path to the exit of StoreExternal reaches the threshold-subscriber fan-out; " +
			"(P3) the set handed to subscribers is one message-root group of exactly `threshold` members built from the stored list; " +
			"(P4) an append is preceded by the same-share scan that returns without appending; (P5) expired duties are dropped before storing; " +
			"(P6) exempt entries are capped; (P7) per-key lists only grow until the whole duty is trimmed.",
		NotDecided: "'exactly once' as a counting statement over arrival orders and interleavings; content equality of partial signatures (JSON comparison) is trusted.",
		Run:        c07,
		Mutants: []Mutant{
			{ID: "C07-P1-unlock-early", File: "core/parsigdb/memory.go", Expect: "P1",
				Old: "\tif k.Duty.Type == core.DutyExit {\n\t\texitCounter.WithLabelValues(k.PubKey.String()).Inc()\n\t}\n\n\treturn append(",
				New: "\tif k.Duty.Type == core.DutyExit {\n\t\texitCounter.WithLabelValues(k.PubKey.String()).Inc()\n\t}\n\n\tdb.mu.Unlock()\n\tdefer db.mu.Lock()\n\n\treturn append("},
			{ID: "C07-P2-early-return", File: "core/parsigdb/memory.go", Expect: "P2",
				Old: "\t\toutput[pubkey] = psigs\n\t}",
				New: "\t\toutput[pubkey] = psigs\n\t\tif ctx.Err() != nil {\n\t\t\treturn ctx.Err()\n\t\t}\n\t}"},
			{ID: "C07-P3-return-all", File: "core/parsigdb/memory.go", Expect: "P3",
				Old: "\tif set := sigsByMsgRoot[lastRoot]; len(set) == threshold {\n\t\treturn set, true, nil",
				New: "\tif set := sigsByMsgRoot[lastRoot]; len(set) == threshold {\n\t\treturn sigs, true, nil"},
			{ID: "C07-P3-threshold-minus-one", File: "core/parsigdb/memory.go", Expect: "P3",
				Old: "getThresholdMatching(duty.Type, sigs, db.threshold)",
				New: "getThresholdMatching(duty.Type, sigs, db.threshold-1)"},
			{ID: "C07-P3-geq", File: "core/parsigdb/memory.go", Expect: "P3",
				Old: "\tif set := sigsByMsgRoot[lastRoot]; len(set) == threshold {",
				New: "\tif set := sigsByMsgRoot[lastRoot]; len(set) >= threshold {"},
			{ID: "C07-P4-no-scan", File: "core/parsigdb/memory.go", Expect: "P4",
				Old: "\t\tif s.ShareIdx == value.ShareIdx {",
				New: "\t\tif s.ShareIdx == value.ShareIdx && s.ShareIdx < 0 {"},
			{ID: "C07-P8-skip-evaluation", File: "core/parsigdb/memory.go", Expect: "P8",
				Old: "\t\t// Check if sufficient matching partial signed data has been received.\n",
				New: "\t\tif len(sigs) != db.threshold {\n\t\t\tcontinue\n\t\t}\n\n"},
			{ID: "C07-P4-split-critical-section", File: "core/parsigdb/memory.go", Expect: "P4",
				Old: "\tisNewKey := len(db.entries[k]) == 0\n",
				New: "\tdb.mu.Unlock()\n\tdb.mu.Lock()\n\n\tisNewKey := len(db.entries[k]) == 0\n"},
			{ID: "C07-P5-ignore-expired", File: "core/parsigdb/memory.go", Expect: "P5",
				Old: "\tif status == core.DeadlineExpired {",
				New: "\tif status == core.DeadlineExpired && len(signedSet) == 0 {"},
			{ID: "C07-P7-evict-on-dup", File: "core/parsigdb/memory.go", Expect: "P7",
				Old: "\t\t\t} else if !equal {\n\t\t\t\treturn nil, false, errors.New(\"mismatching partial signed data\",",
				New: "\t\t\t} else if !equal {\n\t\t\t\tdelete(db.entries, k)\n\t\t\t\treturn nil, false, errors.New(\"mismatching partial signed data\","},
			// added while hardening the rules against refactorings (one edit each, mechanisms the shape-independent
			// formulations must still decide)
			{ID: "C07-P2-fanout-guard-off-by-one", File: "core/parsigdb/memory.go", Expect: "P2",
				Old: "\tif len(output) == 0 {\n\t\treturn storeErr", New: "\tif len(output) <= 1 {\n\t\treturn storeErr"},
			{ID: "C07-P3-shortcut-wrong-type", File: "core/parsigdb/memory.go", Expect: "P3|DutySignature shortcut",
				Old: "\tif typ == core.DutySignature {", New: "\tif typ != core.DutySignature {"},
			{ID: "C07-P3-group-skips-element", File: "core/parsigdb/memory.go", Expect: "P3|grouping",
				Old: "\t\tsigsByMsgRoot[root] = append(sigsByMsgRoot[root], sig)\n",
				New: "\t\tif sig.ShareIdx == 1 {\n\t\t\tcontinue\n\t\t}\n\n\t\tsigsByMsgRoot[root] = append(sigsByMsgRoot[root], sig)\n"},
			{ID: "C07-P3-group-wrong-element", File: "core/parsigdb/memory.go", Expect: "P3|grouping",
				Old: "\t\tsigsByMsgRoot[root] = append(sigsByMsgRoot[root], sig)\n", New: "\t\tsigsByMsgRoot[root] = append(sigsByMsgRoot[root], sigs[0])\n"},
			{ID: "C07-P3-group-restarted", File: "core/parsigdb/memory.go", Expect: "P3|grouping",
				Old: "\t\tsigsByMsgRoot[root] = append(sigsByMsgRoot[root], sig)\n", New: "\t\tsigsByMsgRoot[root] = append([]core.ParSignedData(nil), sig)\n"},
			{ID: "C07-P3-publish-unchecked", File: "core/parsigdb/memory.go", Expect: "P3|output value",
				Old: "\t\t} else if !ok {\n\t\t\tcontinue\n\t\t}\n\n\t\toutput[pubkey] = psigs", New: "\t\t}\n\n\t\t_ = ok\n\t\toutput[pubkey] = psigs"},
			{ID: "C07-P3-publish-stored-list", File: "core/parsigdb/memory.go", Expect: "P3|output value",
				Old: "\t\toutput[pubkey] = psigs\n", New: "\t\t_ = psigs\n\t\toutput[pubkey] = sigs\n"},
			{ID: "C07-P4-break-on-duplicate", File: "core/parsigdb/memory.go", Expect: "P4",
				Old: "\t\t\treturn nil, false, nil\n\t\t}\n\t}\n\n\t// Clone before storing.", New: "\t\t\tbreak\n\t\t}\n\t}\n\n\t// Clone before storing."},
			{ID: "C07-P4-scan-other-key", File: "core/parsigdb/memory.go", Expect: "P4",
				Old: "\tfor _, s := range db.entries[k] {\n\t\tif s.ShareIdx == value.ShareIdx {", New: "\tfor _, s := range db.entries[key{Duty: k.Duty}] {\n\t\tif s.ShareIdx == value.ShareIdx {"},
			{ID: "C07-P6-cap-doubled", File: "core/parsigdb/memory.go", Expect: "P6",
				Old: "\tif len(stored) > maxExemptEntriesPerShare {", New: "\tif len(stored) > 2*maxExemptEntriesPerShare {"},
			{ID: "C07-P6-track-non-exempt", File: "core/parsigdb/memory.go", Expect: "P6",
				Old: "\texempt := status == core.DeadlineExempt\n", New: "\texempt := status == core.DeadlineScheduled\n"},
			{ID: "C07-P7-trim-on-store", File: "core/parsigdb/memory.go", Expect: "P7",
				Old: "\tisNewKey := len(db.entries[k]) == 0\n",
				New: "\tisNewKey := len(db.entries[k]) == 0\n\n\tfor _, old := range db.keysByDuty[k.Duty] {\n\t\tif old != k {\n\t\t\tdelete(db.entries, old)\n\t\t}\n\t}\n"},
			{ID: "C07-P8-skip-above-threshold", File: "core/parsigdb/memory.go", Expect: "P8",
				Old: "\t\t} else if !ok {\n\t\t\tlog.Debug(ctx, \"Ignoring duplicate partial signature\")", New: "\t\t} else if !ok || len(sigs) > db.threshold {\n\t\t\tlog.Debug(ctx, \"Ignoring duplicate partial signature\")"},
		},
	})
}

const memdb = "core/parsigdb.MemDB"

func constOf(c *rt.Ctx, pkgRel, name string) int64 {
	obj, ok := c.Pkg(pkgRel).Types.Scope().Lookup(name).(*types.Const)
	if !ok {
		c.Bail("constant %s.%s not found", pkgRel, name)
	}
	v, ok := constant.Int64Val(obj.Val())
	if !ok {
		c.Bail("constant %s.%s is not an integer", pkgRel, name)
	}
	return v
}

func c07(c *rt.Ctx) {
	k := newC07k(c)
	const (
		nGTM = "core/parsigdb.getThresholdMatching"
	)

	c.Rule("P1", 8, func() {
		lockRule(c, []string{"core/parsigdb"}, an.LockTable{
			c07f("entries"):       c07fields["mu"], // every access in store/Trim/evict* is under mu
			c07f("keysByDuty"):    c07fields["mu"], // written in store, drained in Trim
			c07f("exemptEntries"): c07fields["mu"], // written only from trackExemptUnsafe (store holds mu)
		})
	})

	c.Rule("P2", 1, func() {
		// every insertion into a map that is handed to the threshold subscribers is followed, on every path to the end
		// of the operation (through the callers of helpers), by the fan-out
		writes := k.outputWrites()
		if k.nOut == 0 {
			c.Bail("no locally made map of the package flows into a call through threshSubs")
		}
		if len(writes) == 0 {
			c.Bail("no write to the threshold-output map found")
		}
		for _, w := range writes {
			k.report("StoreExternal output-write→threshSubs", posOf(w), k.fanAfter(w.Parent(), w, 0))
		}
	})

	c.Rule("P3", 6, func() {
		fn := k.matcherFn(nGTM)
		var typP, sigsP, thrP *ssa.Parameter
		for _, p := range fn.Params {
			switch {
			case an.TypeName(p.Type()) == "core.DutyType" && typP == nil:
				typP = p
			case an.TypeName(p.Type()) == "[]core.ParSignedData" && sigsP == nil:
				sigsP = p
			case an.TypeName(p.Type()) == "int" && thrP == nil:
				thrP = p
			}
		}
		if typP == nil || sigsP == nil || thrP == nil {
			c.Bail("getThresholdMatching: unexpected signature")
		}
		dutySig := constOf(c, "core", "DutySignature")
		m := &c07matcher{k: k, typP: typP, sigsP: sigsP, thr: thrP, dutySig: dutySig}
		m.run(&c07frame{fn: fn}, 0, 1)
		if m.nTrue == 0 {
			c.Bail("getThresholdMatching never returns ok=true")
		}
		// call-site binding: every call evaluates the snapshot returned by db.store against the configured threshold
		calls := k.callsOf(fn)
		if len(calls) == 0 {
			c.Bail("no static call of getThresholdMatching in the package")
		}
		var thresholdArg func(v ssa.Value, depth int) c07v
		thresholdArg = func(v ssa.Value, depth int) c07v {
			if isLoadOfValueField(an.Resolve(v), c07f("threshold")) {
				return c07Ok()
			}
			switch x := an.Resolve(v).(type) {
			case *ssa.BinOp, *ssa.Const:
				return c07Bad("threshold argument is not the configured db.threshold")
			case *ssa.Parameter:
				sites, closed := k.ix.Callers(x.Parent())
				if !closed || len(sites) == 0 || depth > 2 {
					break
				}
				out := c07Ok()
				for _, s := range sites {
					a := an.H07ArgFor(s, an.H07ParamIndex(x))
					if a == nil {
						return c07Unsure("cannot map the threshold parameter to an argument")
					}
					out = out.and(thresholdArg(a, depth+1))
				}
				return out
			}
			return c07Unsure("origin of the threshold argument is not recognised")
		}
		for _, call := range calls {
			args := call.Common().Args
			where := an.FuncName(call.Parent())
			where = where[strings.LastIndex(where, ".")+1:]
			k.report(where+"→getThresholdMatching threshold", call.Pos(), thresholdArg(args[an.H07ParamIndex(thrP)], 0))
			var listFrom func(v ssa.Value, depth int) c07v
			listFrom = func(v ssa.Value, depth int) c07v {
				if _, _, isField := an.FieldOf(v); isField {
					return c07Bad("list argument is taken from the store's state, not the snapshot returned by db.store")
				}
				if phi, isPhi := an.Resolve(v).(*ssa.Phi); isPhi && depth <= 2 {
					out, n := c07Ok(), 0
					for _, e := range phi.Edges {
						if an.IsNilConst(an.Resolve(e)) {
							continue // the variable before its assignment
						}
						n++
						out = out.and(listFrom(e, depth+1))
					}
					if n > 0 {
						return out
					}
				}
				if p, isParam := an.Resolve(v).(*ssa.Parameter); isParam && depth <= 2 {
					// a wrapper of the matcher hands its own list parameter on: the callers say
					if sites, closed := k.ix.Callers(p.Parent()); closed && len(sites) > 0 {
						out := c07Ok()
						for _, s := range sites {
							a := an.H07ArgFor(s, an.H07ParamIndex(p))
							if a == nil {
								return c07Unsure("cannot map the list parameter to an argument")
							}
							out = out.and(listFrom(a, depth+1))
						}
						return out
					}
				}
				sc, idx, ok := c07resultOf(v)
				if !ok || depth > 2 {
					return c07Unsure("origin of the list argument is not recognised")
				}
				h := k.ix.Callee(&sc.Call)
				switch {
				case h == nil:
					return c07Unsure("list argument is the result of a call that is not followed")
				case k.growsEntries(h) && k.returnsSnapshot(h, idx):
					// the function that inserts (directly or through helpers) hands back its snapshot (P9 decides that it is one)
					return c07Ok()
				}
				out, n := c07Ok(), 0
				for _, r := range an.Returns(h) {
					rv := returnValues(r)
					if idx >= len(rv) || an.IsNilConst(an.Resolve(rv[idx])) {
						continue
					}
					n++
					out = out.and(listFrom(rv[idx], depth+1))
				}
				if n == 0 {
					return c07Unsure(an.FuncName(h) + " returns no list")
				}
				return out
			}
			list := listFrom(args[an.H07ParamIndex(sigsP)], 0)
			k.report(where+"→getThresholdMatching list", call.Pos(), list)
		}
		// the map entry written for the fan-out is the matching set, on the ok edge
		var produces func(h *ssa.Function, si, bi, depth int) c07v
		var matchOf func(v ssa.Value, at ssa.Instruction, depth int) c07v
		matchOf = func(v ssa.Value, at ssa.Instruction, depth int) c07v {
			if p, isParam := an.Resolve(v).(*ssa.Parameter); isParam && depth <= 2 {
				// the write sits in a helper or closure that is handed the set: decide at its call sites
				if sites, closed := k.ix.Callers(p.Parent()); closed && len(sites) > 0 {
					out := c07Ok()
					for _, s := range sites {
						a := an.H07ArgFor(s, an.H07ParamIndex(p))
						if a == nil {
							return c07Unsure("cannot map the published set to an argument")
						}
						out = out.and(matchOf(a, s, depth+1))
					}
					return out
				}
			}
			mc, idx, ok := c07resultOf(v)
			if !ok {
				return c07Unsure("origin of the published set is not recognised")
			}
			h := k.ix.Callee(&mc.Call)
			if h == nil {
				return c07Unsure("the published set is the result of a call that is not followed")
			}
			if h != fn && k.growsEntries(h) && k.returnsSnapshot(h, idx) {
				return c07Bad("value published for the validator is the whole stored list, not the checked result of getThresholdMatching")
			}
			if h == fn {
				// published exactly when the matcher reports ok (ok=true is what makes the set a threshold group)
				if g, _ := an.Guarded(mc, at, an.GuardOpt{BoolIdx: 1, BoolWant: true, NoErr: true}); g && idx == 0 {
					return c07Ok()
				}
				return c07Bad("value published for the validator is not the checked result of getThresholdMatching")
			}
			bis := c07boolResults(h.Signature)
			if len(bis) != 1 || depth > 2 {
				return c07Unsure("cannot tell which result of " + an.FuncName(h) + " reports that threshold was reached")
			}
			if g, _ := an.Guarded(mc, at, an.GuardOpt{BoolIdx: bis[0], BoolWant: true, NoErr: true}); !g {
				return c07Bad("value published for the validator is not guarded by the `reached` result of " + an.FuncName(h))
			}
			return produces(h, idx, bis[0], depth+1)
		}
		produces = func(h *ssa.Function, si, bi, depth int) c07v {
			out, n := c07Ok(), 0
			for _, r := range an.Returns(h) {
				rv := returnValues(r)
				if si >= len(rv) || bi >= len(rv) {
					continue
				}
				b, isConst := c07constBool(rv[bi])
				if isConst && !b {
					continue
				}
				n++
				if !isConst {
					// pass-through of the matcher's own results
					mc, i0, ok0 := c07resultOf(rv[si])
					mc1, i1, ok1 := c07resultOf(rv[bi])
					if ok0 && ok1 && mc == mc1 && k.ix.Callee(&mc.Call) == fn && i0 == 0 && i1 == 1 {
						continue
					}
					out = out.and(c07Unsure(an.FuncName(h) + " computes its `reached` result in an unrecognised way"))
					continue
				}
				out = out.and(matchOf(rv[si], r, depth))
			}
			if n == 0 {
				return c07Bad(an.FuncName(h) + " never reports that threshold was reached")
			}
			return out
		}
		nOut := 0
		for _, up := range k.outputWrites() {
			nOut++
			k.report("StoreExternal output value", posOf(up), matchOf(up.Value, up, 0))
		}
		if nOut == 0 {
			c.Bail("no write to a threshold-output map found")
		}
	})

	c.Rule("P4", 2, func() {
		n := 0
		for _, fn := range k.ix.Funcs {
			for _, up := range mapUpdates(fn, c07entries) {
				if up.Parent() != fn {
					continue
				}
				_, elems, ok := c07growAppend(up, c07entries)
				if !ok {
					continue // not an insertion (P7 decides about it)
				}
				n++
				var vp *ssa.Parameter
				if len(elems) == 1 {
					vp = c07valueRootParam(elems[0])
				}
				name := an.FuncName(fn)
				name = name[strings.LastIndex(name, ".")+1:]
				k.report(name+" append after same-share scan", posOf(up), k.scanBefore(fn, up, up.Key, vp, 0))
				// the scan and the append form one critical section: no explicit Unlock between reading the list and appending
				k.report(name+" scan and append in one critical section", posOf(up), k.oneCriticalSection(fn, up))
			}
		}
		if n == 0 {
			c.Bail("no append to entries in the package")
		}
	})

	c.Rule("P8", 1, func() {
		// every accepted insertion is evaluated against the threshold: from the growing append to entries every path to
		// the next iteration of the batch loop / the end of the operation (followed through the callers of the storing
		// helpers, with what their returns say about the results) passes a call of the matcher
		gtm := k.matcherFn(nGTM)
		n := 0
		for _, fn := range k.ix.Funcs {
			for _, up := range mapUpdates(fn, c07entries) {
				if up.Parent() != fn {
					continue
				}
				if _, _, ok := c07growAppend(up, c07entries); !ok {
					continue
				}
				n++
				k.report("StoreExternal accepted insertion→getThresholdMatching", posOf(up), k.evalAfter(fn, up, nil, gtm, 0))
			}
		}
		if n == 0 {
			c.Bail("no append to entries in the package")
		}
	})

	c.Rule("P5", 1, func() {
		// in the function that asks the deadliner: under status == DeadlineExpired no insertion into entries is reachable
		expired := constOf(c, "core", "DeadlineExpired")
		nAdd := 0
		for _, fn := range k.ix.Funcs {
			for _, add := range an.Calls(fn, an.Invoke("core.Deadliner.Add"), false) {
				if add.Value() == nil {
					continue
				}
				nAdd++
				sinks := k.p5sinks(fn)
				addv := add.Value()
				env := k.withSummaries(func(v ssa.Value) (constant.Value, bool) {
					if v == ssa.Value(addv) {
						return constant.MakeInt64(expired), true
					}
					return nil, false
				})
				if len(sinks) == 0 {
					// the deadliner is asked in a helper (`admitDuty(…) (exempt, ok bool)`): what it returns for an expired
					// duty decides in its callers
					if !k.p5viaCallers(fn, add, env) {
						c.Unsure("StoreExternal expired→no store", add.Pos(), "no insertion into entries (direct or through an in-package helper) in the function that asks the deadliner")
					}
					continue
				}
				decided := 0
				for _, b := range fn.Blocks {
					if iff, ok := b.Instrs[len(b.Instrs)-1].(*ssa.If); ok {
						if _, ok := an.C05Eval(iff.Cond, env); ok {
							decided++
						}
					}
				}
				for _, st := range sinks {
					if decided == 0 {
						c.Unsure("StoreExternal expired→no store", st.Pos(), "no branch is decided by the status returned by deadliner.Add (expiry test not recognised)")
						continue
					}
					good := an.Dominates(add, st) && !an.C05ReachUnder(add, st, env)
					c.Check("StoreExternal expired→no store", st.Pos(), good, "db.store is reachable when deadliner.Add reports DeadlineExpired")
				}
			}
		}
		if nAdd == 0 {
			c.Bail("no call of deadliner.Add in the package")
		}
	})

	c.Rule("P6", 2, func() {
		limit := constOf(c, "core/parsigdb", "maxExemptEntriesPerShare")
		exemptC := constOf(c, "core", "DeadlineExempt")
		n := 0
		for _, fn := range k.ix.Funcs {
			var ups []*ssa.MapUpdate
			for _, up := range mapUpdates(fn, c07exempt) {
				if up.Parent() == fn {
					ups = append(ups, up)
				}
			}
			if len(ups) == 0 {
				continue
			}
			n++
			k.p6(fn, ups, limit, exemptC)
		}
		if n == 0 {
			c.Bail("no write-back of exemptEntries")
		}
	})

	c.Rule("P7", 3, func() {
		// every removal from entries (delete, or overwrite with something other than append(entries[k], x))
		// must be the whole-key deletion driven by expiry in Trim.
		for _, fn := range k.ix.Funcs {
			for _, in := range an.Instrs(fn, false) {
				switch x := in.(type) {
				case *ssa.Call:
					b, ok := x.Call.Value.(*ssa.Builtin)
					if !ok || (b.Name() != "delete" && b.Name() != "clear") {
						continue
					}
					if key, _, ok := an.FieldOf(x.Call.Args[0]); !ok || key != c07f("entries") {
						continue
					}
					v := c07Bad("")
					if b.Name() == "delete" {
						v = k.expiryDelete(x)
					}
					if v.st == c07bad {
						v.why = "partial signatures are removed from a key outside expiry trimming: a group that already fired can shrink and reach exactly threshold again"
					}
					k.report(k.removalOwner(x, fn)+" delete(entries)", x.Pos(), v)
				case *ssa.MapUpdate:
					if !c07entries(x.Map) {
						continue
					}
					_, _, grow := c07growAppend(x, c07entries)
					if call, ri, isRes := c07resultOf(x.Value); !grow && isRes && k.ix.Callee(&call.Call) != nil {
						// the result of an in-package helper: a filtered rebuild of entries[k] itself is the removal written out of line
						if p := c07filtersParam(k.ix.Callee(&call.Call), ri); p != nil {
							var lk *ssa.Lookup
							if a := an.H07ArgFor(call, an.H07ParamIndex(p)); a != nil {
								lk = c07lookupOf(a)
							}
							if lk != nil && c07entries(lk.X) && (lk.Index == x.Key || an.Equiv(lk.Index, x.Key)) {
								c.Check(k.removalOwner(x, fn)+" entries[k]=", posOf(x), false,
									"entries[k] is overwritten with something other than append(entries[k], new): stored shares can disappear and threshold be reached again")
								continue
							}
						}
						c.Unsure(k.removalOwner(x, fn)+" entries[k]=", posOf(x), "entries[k] is assigned the result of "+an.FuncName(k.ix.Callee(&call.Call))+", which is not followed")
						continue
					}
					c.Check(k.removalOwner(x, fn)+" entries[k]=", posOf(x), grow,
						"entries[k] is overwritten with something other than append(entries[k], new): stored shares can disappear and threshold be reached again")
				}
			}
		}
	})
}

// p5sinks: the instructions of fn that insert into entries (directly or through an in-package callee).
func (k *c07k) p5sinks(fn *ssa.Function) []ssa.Instruction {
	var sinks []ssa.Instruction
	for _, in := range an.Instrs(fn, false) {
		switch x := in.(type) {
		case *ssa.MapUpdate:
			if _, _, grow := c07growAppend(x, c07entries); grow && c07entries(x.Map) {
				sinks = append(sinks, in)
			}
		case ssa.CallInstruction:
			if g := k.ix.Callee(x.Common()); g != nil && k.growsEntries(g) {
				sinks = append(sinks, in)
			}
		}
	}
	return sinks
}

// p5viaCallers decides P5 when the function that asks the deadliner (fn, at add) does not store itself: the
// constants it returns on the returns reachable under "status == DeadlineExpired" (env) are assumed for the
// results of its calls, and under them no insertion may be reachable in the callers. Reports per sink; false
// when the shape is not followed.
func (k *c07k) p5viaCallers(fn *ssa.Function, add ssa.Instruction, env an.C05Env) bool {
	sites, closed := k.ix.Callers(fn)
	if !closed || len(sites) == 0 {
		return false
	}
	var res []constant.Value
	n := 0
	for _, r := range an.Returns(fn) {
		if !an.Dominates(add, r) || !an.C05ReachUnder(add, r, env) {
			if an.Dominates(add, r) {
				continue
			}
			return false
		}
		rv := returnValues(r)
		if n == 0 {
			res = make([]constant.Value, len(rv))
		}
		for i, v := range rv {
			if i >= len(res) {
				return false
			}
			c, ok := an.C05Eval(an.Resolve(v), env)
			switch {
			case !ok:
				res[i] = nil
			case n == 0:
				res[i] = c
			case res[i] != nil && !constant.Compare(res[i], token.EQL, c):
				res[i] = nil
			}
		}
		n++
	}
	if n == 0 {
		return false
	}
	done := false
	for _, s := range sites {
		call, isCall := s.(*ssa.Call)
		if !isCall {
			return false
		}
		known := map[ssa.Value]constant.Value{}
		if len(res) == 1 && res[0] != nil {
			known[call] = res[0]
		} else if call.Referrers() != nil {
			for _, ref := range *call.Referrers() {
				if ex, ok := ref.(*ssa.Extract); ok && ex.Index < len(res) && res[ex.Index] != nil {
					known[ex] = res[ex.Index]
				}
			}
		}
		env2 := k.withSummaries(func(v ssa.Value) (constant.Value, bool) {
			c, ok := known[v]
			return c, ok
		})
		caller := s.Parent()
		sinks := k.p5sinks(caller)
		if len(sinks) == 0 || len(known) == 0 {
			return false
		}
		decided := 0
		for _, b := range caller.Blocks {
			if iff, ok := b.Instrs[len(b.Instrs)-1].(*ssa.If); ok {
				if _, ok := an.C05Eval(iff.Cond, env2); ok {
					decided++
				}
			}
		}
		for _, st := range sinks {
			if decided == 0 {
				k.c.Unsure("StoreExternal expired→no store", st.Pos(), "no branch is decided by what "+an.FuncName(fn)+" returns for an expired duty (expiry test not recognised)")
				done = true
				continue
			}
			good := an.Dominates(call, st) && !an.C05ReachUnder(call, st, env2)
			k.c.Check("StoreExternal expired→no store", st.Pos(), good, "db.store is reachable when deadliner.Add reports DeadlineExpired")
			done = true
		}
	}
	return done
}

// c07isBuiltin2 matches an instruction that is a call of the named builtin.
func c07isBuiltin2(in ssa.Instruction, name string) (*ssa.Call, bool) {
	call, ok := in.(*ssa.Call)
	if !ok {
		return nil, false
	}
	b, ok := call.Call.Value.(*ssa.Builtin)
	return call, ok && b.Name() == name
}

// expiryDelete: the delete of a key of entries is the whole-key deletion of an expired duty: the key
// is an element of the loop over keysByDuty[duty] and duty was received from deadliner.C() (in this
// function, or in the callers of a helper that is only called statically).
func (k *c07k) expiryDelete(del *ssa.Call) c07v {
	fn := del.Parent()
	l := an.InnermostLoop(fn, del.Block())
	if l == nil {
		return c07Bad("not in a loop")
	}
	coll := an.H07LoopColl(l)
	if coll == nil {
		return c07Unsure("collection of the loop around delete(entries, key) is not recognised")
	}
	lk := c07lookupOf(coll)
	if lk == nil {
		return c07Unsure("the keys to delete are not recognisably keysByDuty[duty]")
	}
	if !c07keysByDuty(lk.X) {
		return c07Bad("loop is not over keysByDuty[duty]")
	}
	if !(an.H07ElemOf(l, del.Call.Args[1]) || l.ElemOf(del.Call.Args[1])) {
		return c07Bad("deleted key is not the loop element")
	}
	return k.fromDeadlinerC(lk.Index, del, 0)
}

// valueFromRecvOf: v is received (select or <-) from a channel returned by the named call.
func valueFromRecvOf(v ssa.Value, callee string) bool {
	v = an.Unwrap(v)
	switch x := v.(type) {
	case *ssa.UnOp:
		if x.Op == token.ARROW {
			if call, ok := x.X.(*ssa.Call); ok {
				return an.CalleeName(&call.Call) == callee
			}
		}
	case *ssa.Extract:
		if sel, ok := x.Tuple.(*ssa.Select); ok {
			// recv values follow (index, recvOk): state i's value is at Extract index 2+k
			k := x.Index - 2
			n := 0
			for _, st := range sel.States {
				if st.Dir == types.RecvOnly {
					if n == k {
						if call, ok := st.Chan.(*ssa.Call); ok {
							return an.CalleeName(&call.Call) == callee
						}
						return false
					}
					n++
				}
			}
		}
	}
	return false
}

// findLen returns the `len(v)` call value in fn (or nil).
func findLen(fn *ssa.Function, v ssa.Value) ssa.Value {
	for _, in := range an.Instrs(fn, false) {
		if call, ok := in.(*ssa.Call); ok {
			if b, ok := call.Call.Value.(*ssa.Builtin); ok && b.Name() == "len" && len(call.Call.Args) == 1 && call.Call.Args[0] == v {
				return call
			}
		}
	}
	return nil
}

// appendedElems: v = append(base, e1, e2...) -> the e's (variadic slice literal elements).
func appendedElems(v ssa.Value) []ssa.Value {
	call, ok := v.(*ssa.Call)
	if !ok {
		return nil
	}
	b, ok := call.Call.Value.(*ssa.Builtin)
	if !ok || b.Name() != "append" || len(call.Call.Args) != 2 {
		return nil
	}
	sl, ok := call.Call.Args[1].(*ssa.Slice)
	if !ok {
		return nil
	}
	al, ok := sl.X.(*ssa.Alloc)
	if !ok {
		return nil
	}
	var out []ssa.Value
	for _, ref := range *al.Referrers() {
		if ia, ok := ref.(*ssa.IndexAddr); ok {
			for _, r2 := range *ia.Referrers() {
				if st, ok := r2.(*ssa.Store); ok && st.Addr == ssa.Value(ia) {
					out = append(out, st.Val)
				}
			}
		}
	}
	return out
}

// sameSigElem: elem is the ParSignedData whose embedded SignedData is recv (sig vs sig.SignedData).
func sameSigElem(elem, recv ssa.Value) bool {
	recv = an.Unwrap(recv)
	switch x := recv.(type) {
	case *ssa.Field:
		return an.Equiv(x.X, elem)
	case *ssa.UnOp:
		if fa, ok := x.X.(*ssa.FieldAddr); ok {
			if ld, ok := an.Unwrap(elem).(*ssa.UnOp); ok {
				return an.Equiv(fa.X, ld.X)
			}
		}
	}
	return an.Equiv(recv, elem)
}

// rootedAt: v is a field path / load rooted at value root.
func rootedAt(v ssa.Value, root ssa.Value) bool {
	for i := 0; i < 16; i++ {
		v = an.Unwrap(v)
		if v == root {
			return true
		}
		switch x := v.(type) {
		case *ssa.Field:
			v = x.X
		case *ssa.FieldAddr:
			v = x.X
		case *ssa.UnOp:
			if x.Op != token.MUL {
				return false
			}
			v = x.X
		case *ssa.Alloc:
			// spilled parameter: unique store of the parameter
			for _, ref := range *x.Referrers() {
				if st, ok := ref.(*ssa.Store); ok && st.Addr == ssa.Value(x) && st.Val == root {
					return true
				}
			}
			return false
		default:
			return false
		}
	}
	return false
}

// isLoadOfValueField: v is a load of the named field.
func isLoadOfValueField(v ssa.Value, key string) bool {
	in, ok := an.Unwrap(v).(ssa.Instruction)
	return ok && isLoadOfField(in, key)
}
