package rules

import (
	"fmt"
	"go/constant"
	"go/token"
	"go/types"
	"sort"
	"strings"

	"golang.org/x/tools/go/ssa"

	"charonverif/internal/an"
)

// C20-Z1, second level: an *effect fingerprint* of a function that is insensitive to the usual
// behaviour-preserving rewrites (local names, range vs index loops, `continue` / early-return inversion,
// operand order of comparisons, `x := m[k]; x = append(x, v); m[k] = x`, hoisted locals, defer vs explicit
// unlock, order of independent statements). Two siblings whose canonical SSA differs are still accepted as the
// same function when their fingerprints agree. The fingerprint is the multiset of
//
//	effect  = kind(operand expressions) @ loops it sits in ? conditions under which it runs
//
// for every call, map update / deletion, store to non-local memory and return, where operand expressions are
// rendered structurally (by what they compute from parameters, fields, lookups and loop elements, not by SSA
// register), conditions are the branch conditions that decide whether the effect is reached within one
// iteration (polarity and operand order normalised), plus one entry per loop saying over what it ranges and
// whether it can be left early.

type c20Finger struct {
	fn      *ssa.Function
	loops   []*an.Loop
	busy    map[ssa.Value]bool
	anon    map[*ssa.Function]int
	back    map[[2]int]bool // back edges (from block index, to block index)
	reachNB map[int]map[int]bool
	memo    map[ssa.Value]string
	// noGuards renders values without the conditions under which merged values arrive (used for the skeleton);
	// the atoms of those conditions are collected in valueAtoms instead
	noGuards   bool
	valueAtoms map[string]int // atom -> polarity mask (1 positive, 2 negative)
}

func newC20Finger(fn *ssa.Function) *c20Finger {
	f := &c20Finger{fn: fn, loops: an.Loops(fn), busy: map[ssa.Value]bool{}, anon: map[*ssa.Function]int{}, back: map[[2]int]bool{}, reachNB: map[int]map[int]bool{}, memo: map[ssa.Value]string{}, valueAtoms: map[string]int{}}
	for i, a := range fn.AnonFuncs {
		f.anon[a] = i
	}
	for _, b := range fn.Blocks {
		for _, s := range b.Succs {
			if s.Dominates(b) {
				f.back[[2]int{b.Index, s.Index}] = true
			}
		}
	}
	return f
}

// reach: blocks reachable from b without taking a back edge (i.e. within the same iteration of every loop).
func (f *c20Finger) reach(b *ssa.BasicBlock) map[int]bool {
	if r, ok := f.reachNB[b.Index]; ok {
		return r
	}
	r := map[int]bool{}
	var walk func(x *ssa.BasicBlock)
	walk = func(x *ssa.BasicBlock) {
		if r[x.Index] {
			return
		}
		r[x.Index] = true
		for _, s := range x.Succs {
			if !f.back[[2]int{x.Index, s.Index}] {
				walk(s)
			}
		}
	}
	walk(b)
	f.reachNB[b.Index] = r
	return r
}

func c20TypeStr(t types.Type) string {
	if t == nil {
		return "-"
	}
	return c20Norm(an.Short(types.TypeString(t, nil)))
}

func c20NegOp(op token.Token) token.Token {
	switch op {
	case token.LSS:
		return token.GEQ
	case token.GEQ:
		return token.LSS
	case token.GTR:
		return token.LEQ
	case token.LEQ:
		return token.GTR
	case token.EQL:
		return token.NEQ
	case token.NEQ:
		return token.EQL
	}
	return op
}

func isCmp(op token.Token) bool {
	switch op {
	case token.LSS, token.GEQ, token.GTR, token.LEQ, token.EQL, token.NEQ:
		return true
	}
	return false
}

// loopOfIndex returns the loop whose induction variable v is.
func (f *c20Finger) loopOfIndex(v ssa.Value) *an.Loop {
	v = an.Unwrap(v)
	for _, l := range f.loops {
		if p, ok := v.(*ssa.Phi); ok && p.Block() == l.Header {
			return l
		}
		if b, ok := v.(*ssa.BinOp); ok && b.Op == token.ADD && l.Body[b.Block()] {
			if p, ok := b.X.(*ssa.Phi); ok && p.Block() == l.Header {
				if k, ok := an.ConstInt(b.Y); ok && k == 1 {
					return l
				}
			}
		}
	}
	return nil
}

// expr renders what v computes.
func (f *c20Finger) expr(v ssa.Value, d int) string {
	if v == nil {
		return "nil"
	}
	if d > 14 {
		return "…"
	}
	switch x := v.(type) {
	case *ssa.Const:
		if x.Value == nil {
			return "zero"
		}
		if x.Value.Kind() == constant.String {
			return "str"
		}
		return x.Value.ExactString()
	case *ssa.Parameter:
		for i, p := range x.Parent().Params {
			if p == x {
				if x.Parent() != f.fn {
					return fmt.Sprintf("cp%d", i)
				}
				return fmt.Sprintf("p%d", i)
			}
		}
		return "p?"
	case *ssa.FreeVar:
		if b := c19Binding(x); b != nil {
			return f.expr(b, d+1)
		}
		return "fv"
	case *ssa.Global:
		return "g:" + c20Norm(x.Name())
	case *ssa.Function:
		if i, ok := f.anon[x]; ok {
			return fmt.Sprintf("anon#%d", i)
		}
		return "fn:" + c20Norm(an.FuncName(x))
	case *ssa.Builtin:
		return "builtin:" + x.Name()
	case *ssa.ChangeType:
		return f.expr(x.X, d)
	case *ssa.MakeInterface:
		return f.expr(x.X, d)
	case *ssa.ChangeInterface:
		return f.expr(x.X, d)
	case *ssa.Convert:
		return "conv(" + c20TypeStr(x.Type()) + "," + f.expr(x.X, d+1) + ")"
	case *ssa.TypeAssert:
		return "assert(" + c20TypeStr(x.AssertedType) + "," + f.expr(x.X, d+1) + ")"
	}
	if f.busy[v] {
		return "self"
	}
	if s, ok := f.memo[v]; ok {
		return s
	}
	f.busy[v] = true
	s := f.expr1(v, d)
	delete(f.busy, v)
	if !strings.Contains(s, "self") && !strings.Contains(s, "…") {
		f.memo[v] = s
	}
	return s
}

func (f *c20Finger) expr1(v ssa.Value, d int) string {
	switch x := v.(type) {
	case *ssa.Alloc:
		return "&" + f.local(x, d)
	case *ssa.UnOp:
		switch x.Op {
		case token.MUL:
			switch a := x.X.(type) {
			case *ssa.Alloc:
				return f.local(a, d)
			case *ssa.FieldAddr:
				return f.expr(a.X, d+1) + "." + c20Norm(c20FieldName(a.X.Type(), a.Field))
			case *ssa.IndexAddr:
				return f.elem(a.X, a.Index, d)
			case *ssa.FreeVar:
				if b := c19Binding(a); b != nil {
					if al, ok := b.(*ssa.Alloc); ok {
						return f.local(al, d)
					}
				}
			}
			return "*" + f.expr(x.X, d+1)
		case token.NOT:
			return "!" + f.expr(x.X, d+1)
		}
		return x.Op.String() + f.expr(x.X, d+1)
	case *ssa.FieldAddr:
		return "&" + f.expr(x.X, d+1) + "." + c20Norm(c20FieldName(x.X.Type(), x.Field))
	case *ssa.Field:
		return f.expr(x.X, d+1) + "." + c20Norm(c20FieldName(x.X.Type(), x.Field))
	case *ssa.IndexAddr:
		return "&" + f.elem(x.X, x.Index, d)
	case *ssa.Index:
		return f.elem(x.X, x.Index, d)
	case *ssa.Lookup:
		return "lookup(" + f.expr(x.X, d+1) + "," + f.expr(x.Index, d+1) + ")"
	case *ssa.Slice:
		return "slice(" + f.expr(x.X, d+1) + "," + f.expr(x.Low, d+1) + "," + f.expr(x.High, d+1) + ")"
	case *ssa.Extract:
		switch t := x.Tuple.(type) {
		case *ssa.Next:
			if r, ok := t.Iter.(*ssa.Range); ok {
				what := []string{"more", "key", "val"}[x.Index%3]
				return what + "(" + f.expr(r.X, d+1) + ")"
			}
		case *ssa.Lookup:
			if x.Index == 0 {
				return f.expr(t, d)
			}
			return "has(" + f.expr(t.X, d+1) + "," + f.expr(t.Index, d+1) + ")"
		case *ssa.UnOp:
			if t.Op == token.ARROW {
				return fmt.Sprintf("recv#%d(%s)", x.Index, f.expr(t.X, d+1))
			}
		}
		return fmt.Sprintf("%s#%d", f.expr(x.Tuple, d+1), x.Index)
	case *ssa.Call:
		return f.call(&x.Call, d)
	case *ssa.BinOp:
		a, b := f.expr(x.X, d+1), f.expr(x.Y, d+1)
		op := x.Op
		switch {
		case isCmp(op):
			if a > b {
				a, b = b, a
				op = c20Flip(op)
			}
		case op == token.ADD || op == token.MUL || op == token.AND || op == token.OR || op == token.XOR:
			if a > b {
				a, b = b, a
			}
		}
		return "(" + a + " " + op.String() + " " + b + ")"
	case *ssa.Phi:
		isHdr := func(p *ssa.Phi) bool {
			for _, l := range f.loops {
				if l.Header == p.Block() {
					return true
				}
			}
			return false
		}
		// leaves of the phi: merges of merges are flattened (an if/else joining in front of a latch and two
		// separate back edges are the same accumulation); every leaf carries the conditions under which it is
		// the value that arrives (relative to the block of the phi)
		type leaf struct {
			v    ssa.Value
			pred *ssa.BasicBlock
			into *ssa.BasicBlock
		}
		var leaves []leaf
		visited := map[*ssa.Phi]bool{x: true}
		var collect func(p *ssa.Phi)
		collect = func(p *ssa.Phi) {
			for i, e := range p.Edges {
				if q, ok := e.(*ssa.Phi); ok && !isHdr(q) {
					if !visited[q] {
						visited[q] = true
						collect(q)
					}
					continue
				}
				leaves = append(leaves, leaf{e, p.Block().Preds[i], p.Block()})
			}
		}
		collect(x)
		base := f.guards(x.Block())
		var es []string
		seen := map[string]bool{}
		for _, lf := range leaves {
			s := f.expr(lf.v, d+1)
			if s == "self" && isHdr(x) {
				continue // unchanged in this iteration
			}
			if !f.noGuards {
				g := f.minus(f.guards(lf.pred), base)
				if iff := c19If(lf.pred); iff != nil && len(lf.pred.Succs) == 2 && lf.pred.Succs[0] != lf.pred.Succs[1] &&
					!f.back[[2]int{lf.pred.Index, lf.into.Index}] {
					g = append(g, f.cond(iff.Cond, lf.pred.Succs[0] == lf.into))
				}
				if len(g) > 0 {
					sort.Strings(g)
					s += "?" + strings.Join(g, "&")
				}
			} else {
				for _, pr := range f.guardPairs(lf.pred) {
					f.noteAtom(pr.iff.Cond, pr.pol)
				}
				if iff := c19If(lf.pred); iff != nil && len(lf.pred.Succs) == 2 && lf.pred.Succs[0] != lf.pred.Succs[1] &&
					!f.back[[2]int{lf.pred.Index, lf.into.Index}] {
					f.noteAtom(iff.Cond, lf.pred.Succs[0] == lf.into)
				}
			}
			if !seen[s] {
				seen[s] = true
				es = append(es, s)
			}
		}
		sort.Strings(es)
		if isHdr(x) {
			return "acc{" + strings.Join(es, "|") + "}"
		}
		if len(es) == 1 && !strings.Contains(es[0], "?") {
			return es[0]
		}
		return "phi{" + strings.Join(es, "|") + "}"
	case *ssa.MakeMap:
		return "makemap(" + c20TypeStr(x.Type()) + ")" + f.mapFill(x, d)
	case *ssa.MakeSlice:
		return "makeslice(" + c20TypeStr(x.Type()) + "," + f.expr(x.Len, d+1) + ")"
	case *ssa.MakeClosure:
		var bs []string
		for _, b := range x.Bindings {
			bs = append(bs, f.expr(b, d+1))
		}
		return f.expr(x.Fn, d) + "[" + strings.Join(bs, ",") + "]"
	case *ssa.Range:
		return "range(" + f.expr(x.X, d+1) + ")"
	case *ssa.Next:
		return "next(" + f.expr(x.Iter, d+1) + ")"
	}
	return fmt.Sprintf("%T", v)
}

// mapFill renders what a locally made map is filled with (the keys of its updates).
func (f *c20Finger) mapFill(m *ssa.MakeMap, d int) string {
	var ks []string
	for _, ref := range *m.Referrers() {
		if up, ok := ref.(*ssa.MapUpdate); ok && up.Map == ssa.Value(m) {
			ks = append(ks, f.expr(up.Key, d+1)+"@"+f.loopCtx(up.Block(), d+1))
		}
	}
	sort.Strings(ks)
	return "{" + strings.Join(ks, ";") + "}"
}

// elem renders coll[idx]: the element of the enclosing scan when idx is the induction variable of a loop over coll.
func (f *c20Finger) elem(coll, idx ssa.Value, d int) string {
	if l := f.loopOfIndex(idx); l != nil {
		if rc := l.RangeColl(); rc != nil && (an.Equiv(rc, coll) || f.expr(rc, d+1) == f.expr(coll, d+1)) {
			return "elem(" + f.expr(coll, d+1) + ")"
		}
		return f.expr(coll, d+1) + "[i(" + f.expr(l.RangeColl(), d+1) + ")]"
	}
	return f.expr(coll, d+1) + "[" + f.expr(idx, d+1) + "]"
}

// local renders the contents of a local variable: what is stored into it (as a whole and per field).
func (f *c20Finger) local(al *ssa.Alloc, d int) string {
	if d > 12 {
		return "local…"
	}
	var parts []string
	seen := map[string]bool{}
	add := func(s string) {
		if !seen[s] {
			seen[s] = true
			parts = append(parts, s)
		}
	}
	var walk func(addr ssa.Value, path string)
	walk = func(addr ssa.Value, path string) {
		if addr.Referrers() == nil {
			return
		}
		for _, ref := range *addr.Referrers() {
			switch r := ref.(type) {
			case *ssa.Store:
				if r.Addr == addr {
					add(path + "=" + f.expr(r.Val, d+1))
				}
			case *ssa.FieldAddr:
				walk(r, path+"."+c20Norm(c20FieldName(r.X.Type(), r.Field)))
			case *ssa.IndexAddr:
				if k, ok := an.ConstInt(r.Index); ok {
					walk(r, fmt.Sprintf("%s[%d]", path, k))
				} else {
					walk(r, path+"[]")
				}
			case *ssa.MakeClosure:
				if cl, ok := r.Fn.(*ssa.Function); ok {
					for i, b := range r.Bindings {
						if b == addr && i < len(cl.FreeVars) {
							walk(cl.FreeVars[i], path)
						}
					}
				}
			}
		}
	}
	walk(al, "")
	sort.Strings(parts)
	// a plain single-assignment variable is its value
	if len(parts) == 1 && strings.HasPrefix(parts[0], "=") {
		return parts[0][1:]
	}
	return "local(" + c20TypeStr(al.Type()) + "){" + strings.Join(parts, ";") + "}"
}

func (f *c20Finger) call(cc *ssa.CallCommon, d int) string {
	var args []string
	for _, a := range cc.Args {
		args = append(args, f.expr(a, d+1))
	}
	switch {
	case cc.IsInvoke():
		return "invoke:" + c20Norm(cc.Method.Name()) + "(" + f.expr(cc.Value, d+1) + ";" + strings.Join(args, ",") + ")"
	case cc.StaticCallee() != nil:
		callee := cc.StaticCallee()
		if _, isAnon := f.anon[callee]; isAnon {
			return f.expr(callee, d) + "(" + strings.Join(args, ",") + ")"
		}
		name := c20Norm(an.FuncName(callee))
		// equivalent library spellings
		if name == "slices.Index" {
			return "slices.Index(" + strings.Join(args, ",") + ")"
		}
		return name + "(" + strings.Join(args, ",") + ")"
	}
	if b, ok := cc.Value.(*ssa.Builtin); ok {
		return b.Name() + "(" + strings.Join(args, ",") + ")"
	}
	return "dyn:" + f.expr(cc.Value, d+1) + "(" + strings.Join(args, ",") + ")"
}

// cond renders a branch condition with the given polarity, pushing negations into comparisons.
func (f *c20Finger) cond(v ssa.Value, pol bool) string {
	for i := 0; i < 6; i++ {
		if n, ok := v.(*ssa.UnOp); ok && n.Op == token.NOT {
			v, pol = n.X, !pol
			continue
		}
		break
	}
	if b, ok := v.(*ssa.BinOp); ok && isCmp(b.Op) {
		a, c := f.expr(b.X, 1), f.expr(b.Y, 1)
		op := b.Op
		// boolean constants: x == true ...
		if k, isK := b.Y.(*ssa.Const); isK && k.Value != nil && k.Value.Kind() == constant.Bool && (op == token.EQL || op == token.NEQ) {
			p := pol
			if constant.BoolVal(k.Value) != (op == token.EQL) {
				p = !p
			}
			return f.cond(b.X, p)
		}
		if !pol {
			op = c20NegOp(op)
		}
		if a > c {
			a, c = c, a
			op = c20Flip(op)
		}
		// length tests against 0 / 1: canonical spelling
		if strings.HasPrefix(a, "len(") {
			switch {
			case (op == token.LSS && c == "1") || (op == token.LEQ && c == "0"):
				op, c = token.EQL, "0"
			case (op == token.GEQ && c == "1") || (op == token.GTR && c == "0"):
				op, c = token.NEQ, "0"
			}
		}
		if strings.HasPrefix(c, "len(") {
			switch {
			case (op == token.GTR && a == "1") || (op == token.GEQ && a == "0"):
				op, a = token.EQL, "0"
			case (op == token.LEQ && a == "1") || (op == token.LSS && a == "0"):
				op, a = token.NEQ, "0"
			}
			if a == "0" {
				a, c = c, a
				op = c20Flip(op)
			}
		}
		// slices.Index(x, e) >= 0 is slices.Contains(x, e)
		if strings.HasPrefix(a, "slices.Index(") {
			in := strings.TrimPrefix(a, "slices.Index(")
			switch {
			case (op == token.GEQ && c == "0") || (op == token.GTR && c == "-1") || (op == token.NEQ && c == "-1"):
				return "slices.Contains(" + in
			case (op == token.LSS && c == "0") || (op == token.LEQ && c == "-1") || (op == token.EQL && c == "-1"):
				return "!slices.Contains(" + in
			}
		}
		return "(" + a + " " + op.String() + " " + c + ")"
	}
	s := f.expr(v, 1)
	if !pol {
		return "!" + s
	}
	return s
}

// guards lists the conditions (with polarity) that decide, within one iteration, whether block b runs.
func (f *c20Finger) guards(b *ssa.BasicBlock) []string {
	g, _ := f.guardsAtoms(b)
	return g
}

// noteAtom records the atoms of a condition taken with polarity pol (for the skeleton).
func (f *c20Finger) noteAtom(v ssa.Value, pol bool) {
	for i := 0; i < 6; i++ {
		if n, ok := v.(*ssa.UnOp); ok && n.Op == token.NOT {
			v, pol = n.X, !pol
			continue
		}
		break
	}
	if _, isPhi := v.(*ssa.Phi); isPhi {
		for _, a := range f.condLeaves(v, 0) {
			f.valueAtoms[a] |= 3
		}
		return
	}
	a := f.unpol(v)
	if f.cond(v, pol) == a {
		f.valueAtoms[a] |= 1
	} else {
		f.valueAtoms[a] |= 2
	}
}

// unpol renders a guard without its polarity: the smaller of the renderings of the condition and of its negation.
func (f *c20Finger) unpol(v ssa.Value) string {
	a, b := f.cond(v, true), f.cond(v, false)
	if b < a {
		return b
	}
	return a
}

func (f *c20Finger) guardsAtoms(b *ssa.BasicBlock) (out, atoms []string) {
	for _, dblk := range f.fn.Blocks {
		if dblk == b || !dblk.Dominates(b) || len(dblk.Instrs) == 0 {
			continue
		}
		iff, ok := dblk.Instrs[len(dblk.Instrs)-1].(*ssa.If)
		if !ok || len(dblk.Succs) != 2 {
			continue
		}
		// only conditions of the same iteration: the branch must not be left through a back edge to reach b
		r0 := !f.back[[2]int{dblk.Index, dblk.Succs[0].Index}] && f.reach(dblk.Succs[0])[b.Index]
		r1 := !f.back[[2]int{dblk.Index, dblk.Succs[1].Index}] && f.reach(dblk.Succs[1])[b.Index]
		if r0 == r1 {
			continue
		}
		// loop headers: the "more elements" test is part of the loop context, not a guard
		isHdr := false
		for _, l := range f.loops {
			if l.Header == dblk {
				isHdr = true
			}
		}
		if isHdr {
			continue
		}
		for _, g := range f.condAtoms(iff.Cond, r0, dblk) {
			out = append(out, g)
		}
		atoms = append(atoms, f.condLeaves(iff.Cond, 0)...)
	}
	sort.Strings(out)
	sort.Strings(atoms)
	return out, atoms
}

// condLeaves lists the atomic conditions a branch condition is built from, without polarity.
func (f *c20Finger) condLeaves(v ssa.Value, d int) []string {
	if d > 6 {
		return []string{"…"}
	}
	switch x := v.(type) {
	case *ssa.UnOp:
		if x.Op == token.NOT {
			return f.condLeaves(x.X, d+1)
		}
	case *ssa.Phi:
		var out []string
		for i, e := range x.Edges {
			if k, isK := e.(*ssa.Const); isK && k.Value != nil && k.Value.Kind() == constant.Bool {
				continue
			}
			out = append(out, f.condLeaves(e, d+1)...)
			// the conditions that route control to this edge
			pred := x.Block().Preds[i]
			_, as := f.guardsAtoms(pred)
			_, base := f.guardsAtoms(x.Block())
			out = append(out, f.minus(as, base)...)
		}
		return out
	}
	return []string{f.unpol(v)}
}

// condAtoms splits a condition kept in a short-circuit phi (`x := a && b; if x`) into the atoms that must all
// hold for the taken polarity when the phi is a pure conjunction (or, for the false polarity, a pure
// disjunction); any other phi is rendered as a whole.
func (f *c20Finger) condAtoms(v ssa.Value, pol bool, at *ssa.BasicBlock) []string {
	ph, ok := v.(*ssa.Phi)
	if !ok {
		if n, isNot := v.(*ssa.UnOp); isNot && n.Op == token.NOT {
			return f.condAtoms(n.X, !pol, at)
		}
		return []string{f.cond(v, pol)}
	}
	// conjunction: every edge but one is the constant false; the remaining edge is reached only when the tested
	// conditions held: x = a && b  ==> phi [false, b] with the edge carrying b dominated by a's true branch
	var consts []bool
	var rest []ssa.Value
	var restPred []*ssa.BasicBlock
	for i, e := range ph.Edges {
		if k, isK := e.(*ssa.Const); isK && k.Value != nil && k.Value.Kind() == constant.Bool {
			consts = append(consts, constant.BoolVal(k.Value))
			continue
		}
		rest = append(rest, e)
		restPred = append(restPred, ph.Block().Preds[i])
	}
	if len(rest) != 1 || len(consts) == 0 {
		return []string{f.cond(v, pol)}
	}
	allFalse, allTrue := true, true
	for _, c := range consts {
		if c {
			allFalse = false
		} else {
			allTrue = false
		}
	}
	switch {
	case allFalse && pol: // a && b is true: every atom on the way to the last operand held, and the last operand holds
		out := f.guards(restPred[0])
		out = append(out, f.condAtoms(rest[0], true, restPred[0])...)
		return f.minus(out, f.guards(ph.Block()))
	case allTrue && !pol: // a || b is false: every atom failed
		out := f.guards(restPred[0])
		out = append(out, f.condAtoms(rest[0], false, restPred[0])...)
		return f.minus(out, f.guards(ph.Block()))
	}
	return []string{f.cond(v, pol)}
}

func (f *c20Finger) minus(a, b []string) []string {
	drop := map[string]int{}
	for _, s := range b {
		drop[s]++
	}
	var out []string
	for _, s := range a {
		if drop[s] > 0 {
			drop[s]--
			continue
		}
		out = append(out, s)
	}
	return out
}

// loopCtx renders the loops block b sits in (innermost first) by what they range over.
func (f *c20Finger) loopCtx(b *ssa.BasicBlock, d int) string {
	var ls []string
	for _, l := range an.LoopsContaining(f.fn, b) {
		ls = append(ls, f.loopName(l, d))
	}
	return "[" + strings.Join(ls, ">") + "]"
}

func (f *c20Finger) loopName(l *an.Loop, d int) string {
	if rc := l.RangeColl(); rc != nil {
		return "scan(" + f.expr(rc, d+1) + ")"
	}
	for _, in := range l.Header.Instrs {
		if rcv, ok := in.(*ssa.UnOp); ok && rcv.Op == token.ARROW {
			return "recv(" + f.expr(rcv.X, d+1) + ")"
		}
	}
	return "loop"
}

// c20Form is a boolean formula over condition atoms (the guard of an effect).
type c20Form struct {
	op   byte // 'a' atom, 'c' constant, '!' not, '&' and, '|' or
	atom string
	val  bool
	kids []*c20Form
}

func (g *c20Form) eval(v map[string]bool) bool {
	switch g.op {
	case 'a':
		return v[g.atom]
	case 'c':
		return g.val
	case '!':
		return !g.kids[0].eval(v)
	case '&':
		for _, k := range g.kids {
			if !k.eval(v) {
				return false
			}
		}
		return true
	case '|':
		for _, k := range g.kids {
			if k.eval(v) {
				return true
			}
		}
		return false
	}
	return false
}

func (g *c20Form) atoms(into map[string]bool) {
	if g.op == 'a' {
		into[g.atom] = true
	}
	for _, k := range g.kids {
		k.atoms(into)
	}
}

type c20GuardPair struct {
	iff *ssa.If
	pol bool
}

// guardPairs lists the branches (with the polarity taken) that decide, within one iteration, whether block b runs.
func (f *c20Finger) guardPairs(b *ssa.BasicBlock) []c20GuardPair {
	var out []c20GuardPair
	for _, dblk := range f.fn.Blocks {
		if dblk == b || !dblk.Dominates(b) || len(dblk.Instrs) == 0 {
			continue
		}
		iff, ok := dblk.Instrs[len(dblk.Instrs)-1].(*ssa.If)
		if !ok || len(dblk.Succs) != 2 {
			continue
		}
		r0 := !f.back[[2]int{dblk.Index, dblk.Succs[0].Index}] && f.reach(dblk.Succs[0])[b.Index]
		r1 := !f.back[[2]int{dblk.Index, dblk.Succs[1].Index}] && f.reach(dblk.Succs[1])[b.Index]
		if r0 == r1 {
			continue
		}
		isHdr := false
		for _, l := range f.loops {
			if l.Header == dblk {
				isHdr = true
			}
		}
		if isHdr {
			continue
		}
		out = append(out, c20GuardPair{iff, r0})
	}
	return out
}

// guardForm is the guard of block b as a formula; minus lists branches to leave out (those of an enclosing point).
func (f *c20Finger) guardForm(b *ssa.BasicBlock, minus []c20GuardPair, d int) *c20Form {
	g := &c20Form{op: '&'}
	for _, p := range f.guardPairs(b) {
		skip := false
		for _, m := range minus {
			if m.iff == p.iff {
				skip = true
			}
		}
		if !skip {
			g.kids = append(g.kids, f.condForm(p.iff.Cond, p.pol, d+1))
		}
	}
	return g
}

// condForm turns a branch condition into a formula: negations, constants and short-circuit phis are structural,
// everything else is an atom (named without polarity).
func (f *c20Finger) condForm(v ssa.Value, pol bool, d int) *c20Form {
	wrap := func(g *c20Form) *c20Form {
		if pol {
			return g
		}
		return &c20Form{op: '!', kids: []*c20Form{g}}
	}
	if d > 6 {
		return wrap(&c20Form{op: 'a', atom: "…"})
	}
	switch x := v.(type) {
	case *ssa.Const:
		if x.Value != nil && x.Value.Kind() == constant.Bool {
			return &c20Form{op: 'c', val: constant.BoolVal(x.Value) == pol}
		}
	case *ssa.UnOp:
		if x.Op == token.NOT {
			return f.condForm(x.X, !pol, d)
		}
	case *ssa.Phi:
		or := &c20Form{op: '|'}
		base := f.guardPairs(x.Block())
		for i, e := range x.Edges {
			pred := x.Block().Preds[i]
			and := &c20Form{op: '&', kids: []*c20Form{f.guardForm(pred, base, d+1), f.condForm(e, true, d+1)}}
			// the edge itself may be one side of a branch in pred
			if iff := c19If(pred); iff != nil && len(pred.Succs) == 2 && pred.Succs[0] != pred.Succs[1] {
				and.kids = append(and.kids, f.condForm(iff.Cond, pred.Succs[0] == x.Block(), d+1))
			}
			or.kids = append(or.kids, and)
		}
		return wrap(or)
	}
	// atom, named by the smaller of its two polarised renderings
	t, n := f.cond(v, true), f.cond(v, false)
	if n < t {
		return (&c20Form{op: 'a', atom: n}).not(pol)
	}
	return wrap(&c20Form{op: 'a', atom: t})
}

// not(pol): the atom stands for the negated condition; the formula for polarity pol of the original.
func (g *c20Form) not(pol bool) *c20Form {
	if pol {
		return &c20Form{op: '!', kids: []*c20Form{g}}
	}
	return g
}

// c20Effect is one rendered effect: core (kind + operands + loop context) and the guard conditions.
type c20Effect struct {
	core   string
	guards []string
	atoms  []string // the guard conditions without polarity
	form   *c20Form // the guard as a formula
}

func (e c20Effect) String() string { return e.core + " ? " + strings.Join(e.guards, " & ") }

// isLockCall: sync.(RW)Mutex operations are the business of Z2.
func c20IsLockCall(cc *ssa.CallCommon) bool {
	f := cc.StaticCallee()
	return f != nil && strings.HasPrefix(an.FuncName(f), "sync.")
}

// effects renders the effects of fn and of its function literals.
func c20Effects(fn *ssa.Function, prefix string) []c20Effect {
	es, _ := c20EffectsOpt(fn, prefix, false)
	return es
}

// c20EffectsOpt renders the effects; with noGuards the values are rendered without arrival conditions and the
// atoms of those conditions are returned separately.
func c20EffectsOpt(fn *ssa.Function, prefix string, noGuards bool) ([]c20Effect, map[string]int) {
	f := newC20Finger(fn)
	f.noGuards = noGuards
	var out []c20Effect
	add := func(b *ssa.BasicBlock, core string) {
		g, a := f.guardsAtoms(b)
		if noGuards {
			for _, pr := range f.guardPairs(b) {
				f.noteAtom(pr.iff.Cond, pr.pol)
			}
		}
		out = append(out, c20Effect{core: prefix + core + " @" + f.loopCtx(b, 1), guards: g, atoms: a, form: f.guardForm(b, nil, 0)})
	}
	for _, l := range f.loops {
		early := "no"
		if an.LoopEarlyExit(l) != nil {
			early = "yes"
		}
		g, a := f.guardsAtoms(l.Header)
		out = append(out, c20Effect{core: prefix + "loop " + f.loopName(l, 1) + " early-exit=" + early + " @" + f.loopCtx(l.Header, 1), guards: g, atoms: a, form: f.guardForm(l.Header, nil, 0)})
	}
	for _, b := range fn.Blocks {
		for _, in := range b.Instrs {
			switch x := in.(type) {
			case *ssa.Call:
				if bi, ok := x.Call.Value.(*ssa.Builtin); ok {
					switch bi.Name() {
					case "delete", "clear", "copy", "panic", "print", "println", "close":
						add(b, f.call(&x.Call, 1))
					}
					continue
				}
				if c20IsLockCall(&x.Call) {
					continue
				}
				// a call whose only purpose is its value is rendered where the value is used; calls with possible
				// side effects are effects: everything but the known pure library helpers
				if callee := x.Call.StaticCallee(); callee != nil {
					switch an.FuncName(callee) {
					case "slices.Contains", "slices.Index", "slices.Clone", "maps.Clone":
						continue
					}
				}
				add(b, "call "+f.call(&x.Call, 1))
			case *ssa.Defer:
				if c20IsLockCall(&x.Call) {
					continue
				}
				add(b, "defer "+f.call(&x.Call, 1))
			case *ssa.Go:
				add(b, "go "+f.call(&x.Call, 1))
			case *ssa.MapUpdate:
				if _, isLocal := an.Unwrap(x.Map).(*ssa.MakeMap); isLocal {
					continue // rendered with the map (mapFill)
				}
				add(b, "mapupdate "+f.expr(x.Map, 1)+"["+f.expr(x.Key, 1)+"]="+f.expr(x.Value, 1))
			case *ssa.Store:
				if c20LocalAddr(x.Addr) {
					continue // rendered with the local
				}
				add(b, "store "+f.expr(x.Addr, 1)+"="+f.expr(x.Val, 1))
			case *ssa.Send:
				add(b, "send "+f.expr(x.Chan, 1)+"<-"+f.expr(x.X, 1))
			case *ssa.Return:
				if fn.Recover != nil && b == fn.Recover {
					continue
				}
				var vs []string
				for _, v := range c20RetVals(x) {
					vs = append(vs, f.expr(v, 1))
				}
				add(b, "return "+strings.Join(vs, ", "))
			case *ssa.Panic:
				add(b, "panic "+f.expr(x.X, 1))
			}
		}
	}
	for i, a := range fn.AnonFuncs {
		sub, va := c20EffectsOpt(a, fmt.Sprintf("%sanon#%d: ", prefix, i), noGuards)
		out = append(out, sub...)
		for k, m := range va {
			f.valueAtoms[k] |= m
		}
	}
	return out, f.valueAtoms
}

// c20LocalAddr: addr is (a field / constant element of) a local variable of the function or a captured one.
func c20LocalAddr(addr ssa.Value) bool {
	for i := 0; i < 8; i++ {
		switch x := addr.(type) {
		case *ssa.Alloc:
			return true
		case *ssa.FreeVar:
			return true
		case *ssa.FieldAddr:
			addr = x.X
		case *ssa.IndexAddr:
			addr = x.X
		default:
			return false
		}
	}
	return false
}

// c20Fingerprint returns the sorted full fingerprint and the sorted "skeleton" (effect cores without guards, the
// set of condition atoms without polarity).
func c20Fingerprint(fn *ssa.Function) (full, skeleton []string) {
	for _, e := range c20Effects(fn, "") {
		full = append(full, e.String())
	}
	es, va := c20EffectsOpt(fn, "", true)
	for _, e := range es {
		skeleton = append(skeleton, e.core)
	}
	// the condition atoms with the polarities they are used with (a flipped test is a different skeleton, a
	// regrouped one is not)
	for a, m := range va {
		skeleton = append(skeleton, fmt.Sprintf("atom %s pol=%d", a, m))
	}
	sort.Strings(full)
	sort.Strings(skeleton)
	return full, skeleton
}

// c20FirstDiff names the first entry present in one multiset and not the other.
func c20FirstDiff(a, b []string) string {
	count := map[string]int{}
	for _, s := range a {
		count[s]++
	}
	for _, s := range b {
		count[s]--
	}
	var ks []string
	for k, n := range count {
		if n != 0 {
			ks = append(ks, k)
		}
	}
	sort.Strings(ks)
	if len(ks) == 0 {
		return ""
	}
	k := ks[0]
	if len(k) > 300 {
		k = k[:300] + "…"
	}
	if count[ks[0]] > 0 {
		return "only here: " + k
	}
	return "missing here: " + k
}

// DebugC20Fingerprint exposes the fingerprint for the debugging tool.
func DebugC20Fingerprint(fn *ssa.Function) []string {
	full, _ := c20Fingerprint(fn)
	return full
}

// c20SameEffects compares two effect lists semantically: under every valuation of the condition atoms the same
// effects run the same number of times. ok=false when there are too many atoms to enumerate.
func c20SameEffects(a, b []c20Effect) (same bool, ok bool) {
	atoms := map[string]bool{}
	cores := map[string]bool{}
	for _, es := range [][]c20Effect{a, b} {
		for _, e := range es {
			e.form.atoms(atoms)
			cores[e.core] = true
		}
	}
	for _, e := range a {
		delete(cores, e.core)
	}
	if len(cores) != 0 {
		return false, true // an effect of b that a does not have at all
	}
	var names []string
	for n := range atoms {
		names = append(names, n)
	}
	sort.Strings(names)
	if len(names) > 14 {
		return false, false
	}
	for bits := 0; bits < 1<<len(names); bits++ {
		v := map[string]bool{}
		for i, n := range names {
			v[n] = bits&(1<<i) != 0
		}
		count := map[string]int{}
		for _, e := range a {
			if e.form.eval(v) {
				count[e.core]++
			}
		}
		for _, e := range b {
			if e.form.eval(v) {
				count[e.core]--
			}
		}
		for _, n := range count {
			if n != 0 {
				return false, true
			}
		}
	}
	return true, true
}
