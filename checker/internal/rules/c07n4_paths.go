package rules

// Path-sensitive evaluation of what a helper returns (round 4). A same-share scan that was extracted into
// a single-exit helper (`known = err == nil; break … return known, err`) reaches its one return from the
// "same share found" edge too; what matters is what it returns THERE. The acyclic paths from an edge to a
// return are enumerated, the phis are resolved along each path and the branch conditions passed are kept
// as facts (x is nil / non-nil, b is true / false), and the returned values are evaluated under them.

import (
	"go/constant"
	"go/token"
	"go/types"
	"strings"

	"golang.org/x/tools/go/ssa"

	"charonverif/internal/an"
)

type c07pf struct {
	phi   map[*ssa.Phi]ssa.Value
	truth map[ssa.Value]bool
	isNil map[ssa.Value]bool // true: nil, false: non-nil
}

func (f *c07pf) res(v ssa.Value) ssa.Value {
	for i := 0; i < 16; i++ {
		v = an.Resolve(v)
		p, ok := v.(*ssa.Phi)
		if !ok {
			return v
		}
		e, ok := f.phi[p]
		if !ok {
			return v
		}
		v = e
	}
	return v
}

// learn records that cond evaluated to val.
func (f *c07pf) learn(cond ssa.Value, val bool, d int) {
	cond = f.res(cond)
	f.truth[cond] = val
	if d > 6 {
		return
	}
	switch x := cond.(type) {
	case *ssa.UnOp:
		if x.Op == token.NOT {
			f.learn(x.X, !val, d+1)
		}
	case *ssa.BinOp:
		if x.Op != token.EQL && x.Op != token.NEQ {
			return
		}
		a, b := f.res(x.X), f.res(x.Y)
		if an.IsNilConst(a) {
			a, b = b, a
		}
		if an.IsNilConst(b) {
			f.isNil[a] = val == (x.Op == token.EQL)
			return
		}
		// comparison of a boolean with a constant
		if c, ok := b.(*ssa.Const); ok && c.Value != nil && c.Value.Kind() == constant.Bool {
			f.learn(a, (constant.BoolVal(c.Value) == (x.Op == token.EQL)) == val, d+1)
		}
	}
}

func (f *c07pf) evalNil(v ssa.Value, d int) (isNil, known bool) {
	v = f.res(v)
	if an.IsNilConst(v) {
		return true, true
	}
	if n, ok := f.isNil[v]; ok {
		return n, true
	}
	if call, _, ok := c07resultOf(v); ok {
		if g := call.Call.StaticCallee(); g != nil {
			n := an.FuncName(g)
			if strings.HasSuffix(n, "errors.New") || strings.HasSuffix(n, "errors.Wrap") || n == "fmt.Errorf" {
				return false, true
			}
		}
	}
	return false, false
}

func (f *c07pf) evalBool(v ssa.Value, d int) (val, known bool) {
	v = f.res(v)
	if b, ok := c07constBool(v); ok {
		return b, true
	}
	if b, ok := f.truth[v]; ok {
		return b, true
	}
	if d > 6 {
		return false, false
	}
	switch x := v.(type) {
	case *ssa.UnOp:
		if x.Op == token.NOT {
			b, ok := f.evalBool(x.X, d+1)
			return !b, ok
		}
	case *ssa.BinOp:
		if x.Op != token.EQL && x.Op != token.NEQ {
			return false, false
		}
		a, b := f.res(x.X), f.res(x.Y)
		if an.IsNilConst(a) {
			a, b = b, a
		}
		if an.IsNilConst(b) {
			n, ok := f.evalNil(a, d+1)
			return n == (x.Op == token.EQL), ok
		}
		// enum flags: both sides are constants on this path (`verdict = storeDuplicate … if verdict == storeAdded`)
		if ca, ok := a.(*ssa.Const); ok && ca.Value != nil {
			if cb, ok := b.(*ssa.Const); ok && cb.Value != nil && ca.Value.Kind() == cb.Value.Kind() && ca.Value.Kind() != constant.Bool {
				return constant.Compare(ca.Value, token.EQL, cb.Value) == (x.Op == token.EQL), true
			}
		}
		if c, ok := c07constBool(b); ok {
			av, ok2 := f.evalBool(a, d+1)
			return (av == c) == (x.Op == token.EQL), ok2
		}
		if c, ok := c07constBool(a); ok {
			bv, ok2 := f.evalBool(b, d+1)
			return (bv == c) == (x.Op == token.EQL), ok2
		}
	}
	return false, false
}

// c07pathsFromEdge enumerates the acyclic paths that start with the edge pred→pred.Succs[succ] and end in
// block goal, and calls visit with the facts of each; complete is false when the bound was hit.
func c07pathsFromEdge(pred *ssa.BasicBlock, succ int, goal *ssa.BasicBlock, visit func(f *c07pf, path []*ssa.BasicBlock)) (n int, complete bool) {
	const limit = 256
	complete = true
	on := map[*ssa.BasicBlock]bool{}
	var path []*ssa.BasicBlock
	var walk func(from *ssa.BasicBlock, si int, f *c07pf)
	walk = func(from *ssa.BasicBlock, si int, f *c07pf) {
		if n >= limit {
			complete = false
			return
		}
		b := from.Succs[si]
		if on[b] {
			return
		}
		// facts of the edge
		g := &c07pf{phi: map[*ssa.Phi]ssa.Value{}, truth: map[ssa.Value]bool{}, isNil: map[ssa.Value]bool{}}
		for k, v := range f.phi {
			g.phi[k] = v
		}
		for k, v := range f.truth {
			g.truth[k] = v
		}
		for k, v := range f.isNil {
			g.isNil[k] = v
		}
		if iff, ok := from.Instrs[len(from.Instrs)-1].(*ssa.If); ok && len(from.Succs) == 2 && from.Succs[0] != from.Succs[1] {
			// an edge that contradicts what the path already determines is infeasible (`known = true; break … if known`)
			if val, known := f.evalBool(iff.Cond, 0); known && val != (si == 0) && from != pred {
				return
			}
			g.learn(iff.Cond, si == 0, 0)
		}
		// phis of b, all read before any is written
		vals := map[*ssa.Phi]ssa.Value{}
		for _, in := range b.Instrs {
			p, isPhi := in.(*ssa.Phi)
			if !isPhi {
				break
			}
			for j, q := range b.Preds {
				if q == from && j < len(p.Edges) {
					vals[p] = g.res(p.Edges[j])
					break
				}
			}
		}
		for p, v := range vals {
			g.phi[p] = v
		}
		on[b] = true
		path = append(path, b)
		if b == goal {
			n++
			visit(g, append([]*ssa.BasicBlock{pred}, path...))
		} else {
			for i := range b.Succs {
				walk(b, i, g)
			}
		}
		path = path[:len(path)-1]
		on[b] = false
	}
	on[pred] = false
	walk(pred, succ, &c07pf{phi: map[*ssa.Phi]ssa.Value{}, truth: map[ssa.Value]bool{}, isNil: map[ssa.Value]bool{}})
	return n, complete
}

// c07scanVerdictRet is scanVerdict for a scan that lives in a helper, decided per path: ret is a return of the
// helper that the caller may take as "share not present yet" (result bi == want, error result ei nil). The scan
// protects the caller's append when every path from the "same share found" edge (and from every other early
// exit of the loop) to ret returns something the caller does NOT take as "not present".
func c07scanVerdictRet(l *an.Loop, m c07cmp, ret *ssa.Return, bi int, want bool, ei int) c07v {
	gb := m.iff.Block()
	if !l.Body[gb] {
		return c07Unsure("the share comparison is not inside the scan loop")
	}
	for _, la := range l.Latches {
		if !gb.Dominates(la) {
			return c07Bad("same-share scan does not protect the append: an iteration can reach the loop latch without passing the comparison")
		}
	}
	if l.Body[ret.Block()] || !l.Header.Dominates(ret.Block()) {
		return c07Unsure("same-share scan has a shape that is not decided: the return is not behind the loop")
	}
	rv := returnValues(ret)
	out := c07Ok()
	classify := func(f *c07pf, path []*ssa.BasicBlock) {
		notClear, clear := false, true
		if bi >= 0 && bi < len(rv) {
			if b, ok := f.evalBool(rv[bi], 0); ok {
				if b != want {
					notClear = true
				}
			} else {
				clear = false
			}
		}
		if ei >= 0 && ei < len(rv) {
			if n, ok := f.evalNil(rv[ei], 0); ok {
				if !n {
					notClear = true
				}
			} else {
				clear = false
			}
		}
		switch {
		case notClear:
		case clear:
			out = out.and(c07Bad("same-share scan does not protect the append: with an entry of the same share stored the helper still reports the share as new"))
		default:
			out = out.and(c07Unsure("what the scan helper returns after finding an entry of the same share is not decided"))
		}
	}
	fi := an.H07SuccIndex(gb, m.eq)
	if fi < 0 {
		return c07Unsure("both edges of the share comparison lead to the same block")
	}
	edges := [][2]interface{}{{gb, fi}}
	for _, b := range l.Header.Parent().Blocks {
		if !l.Body[b] || b == l.Header {
			continue
		}
		for i, s := range b.Succs {
			if l.Body[s] || (b == gb && i == fi) {
				continue
			}
			edges = append(edges, [2]interface{}{b, i})
		}
	}
	for _, e := range edges {
		if _, complete := c07pathsFromEdge(e[0].(*ssa.BasicBlock), e[1].(int), ret.Block(), classify); !complete {
			out = out.and(c07Unsure("too many paths through the scan helper"))
		}
	}
	return out
}

// c07filtersParam: result idx of in-package function h is positively a FILTERED rebuild of one of its list
// parameters: every returned value is built by appends that bottom out at an empty list (`p[:0]`, nil, a
// fresh make) and at least one of the appends sits in a loop over p on a branch that an iteration can
// bypass (an element of p may be left out). Returns that parameter.
func c07filtersParam(h *ssa.Function, idx int) *ssa.Parameter {
	var appends []*ssa.Call
	seen := map[ssa.Value]bool{}
	bottoms, unknown := 0, false
	var walk func(v ssa.Value, d int)
	walk = func(v ssa.Value, d int) {
		v = an.Resolve(v)
		if seen[v] || d > 12 {
			return
		}
		seen[v] = true
		if an.IsNilConst(v) {
			bottoms++
			return
		}
		switch x := v.(type) {
		case *ssa.Phi:
			for _, e := range x.Edges {
				walk(e, d+1)
			}
		case *ssa.Slice:
			if hi, ok := an.ConstInt(x.High); ok && hi == 0 && x.High != nil {
				bottoms++
				return
			}
			unknown = true
		case *ssa.MakeSlice:
			bottoms++
		case *ssa.Call:
			if call, ok := c07isBuiltin(x, "append"); ok && len(call.Call.Args) == 2 {
				appends = append(appends, call)
				walk(call.Call.Args[0], d+1)
				return
			}
			unknown = true
		default:
			unknown = true
		}
	}
	n := 0
	for _, r := range an.Returns(h) {
		rv := returnValues(r)
		if idx >= len(rv) {
			return nil
		}
		n++
		walk(rv[idx], 0)
	}
	if n == 0 || unknown || bottoms == 0 {
		return nil
	}
	for _, call := range appends {
		l := an.InnermostLoop(h, call.Block())
		if l == nil {
			continue
		}
		p, ok := an.Resolve(an.H07LoopColl(l)).(*ssa.Parameter)
		if !ok || p.Parent() != h {
			continue
		}
		elems := appendedElems(call)
		if len(elems) != 1 || !(an.H07ElemOf(l, elems[0]) || l.ElemOf(elems[0])) {
			continue
		}
		for _, la := range l.Latches {
			if !call.Block().Dominates(la) {
				return p
			}
		}
	}
	return nil
}

// ---------------------------------------------------------------------------------------------
// constant summaries of small in-package classifiers (`retentionOf(status) (retention, bool)`)

// constResults evaluates the call of an in-package function whose control flow is decided by its arguments
// (constants under env): the constants it returns, nil for results that are not constant.
func (k *c07k) constResults(call *ssa.Call, env an.C05Env, depth int) ([]constant.Value, bool) {
	g := k.ix.Callee(&call.Call)
	if g == nil || depth > 2 || len(g.Blocks) == 0 {
		return nil, false
	}
	penv := func(v ssa.Value) (constant.Value, bool) {
		if p, ok := v.(*ssa.Parameter); ok && p.Parent() == g {
			if a := an.H07ArgFor(call, an.H07ParamIndex(p)); a != nil {
				return an.C05Eval(a, env)
			}
		}
		return nil, false
	}
	var prev *ssa.BasicBlock
	b := g.Blocks[0]
	for steps := 0; steps < 64; steps++ {
		if len(b.Instrs) == 0 {
			return nil, false
		}
		switch x := b.Instrs[len(b.Instrs)-1].(type) {
		case *ssa.Return:
			out := make([]constant.Value, len(x.Results))
			for i, r := range returnValues(x) {
				r = an.Resolve(r)
				if phi, ok := r.(*ssa.Phi); ok && phi.Block() == b && prev != nil {
					for j, q := range b.Preds {
						if q == prev && j < len(phi.Edges) {
							r = an.Resolve(phi.Edges[j])
						}
					}
				}
				if c, ok := an.C05Eval(r, penv); ok {
					out[i] = c
				}
			}
			return out, true
		case *ssa.If:
			c, ok := an.C05Eval(x.Cond, penv)
			if !ok || c.Kind() != constant.Bool {
				return nil, false
			}
			prev = b
			if constant.BoolVal(c) {
				b = b.Succs[0]
			} else {
				b = b.Succs[1]
			}
		case *ssa.Jump:
			prev, b = b, b.Succs[0]
		default:
			return nil, false
		}
	}
	return nil, false
}

// withSummaries extends env by the constant results of in-package classifier calls.
func (k *c07k) withSummaries(env an.C05Env) an.C05Env {
	var self an.C05Env
	self = func(v ssa.Value) (constant.Value, bool) {
		if c, ok := env(v); ok {
			return c, true
		}
		call, idx, ok := c07resultOf(v)
		if !ok || k.ix.Callee(&call.Call) == nil {
			return nil, false
		}
		res, ok := k.constResults(call, self, 0)
		if !ok || idx >= len(res) || res[idx] == nil {
			return nil, false
		}
		return res[idx], true
	}
	return self
}

// classifiesStatus: v is a result of an in-package classifier applied to the status returned by deadliner.Add
// that equals cst exactly for status == want (decided for every declared constant of the status type).
func (k *c07k) classifiesStatus(v ssa.Value, cst constant.Value, want int64) (c07v, bool) {
	call, idx, ok := c07resultOf(v)
	if !ok || k.ix.Callee(&call.Call) == nil {
		return c07v{}, false
	}
	var status ssa.Value
	for _, a := range call.Call.Args {
		if ac, isCall := an.Resolve(a).(*ssa.Call); isCall && an.Invoke("core.Deadliner.Add")(&ac.Call) {
			status = a
		}
	}
	if status == nil {
		return c07v{}, false
	}
	scope := k.c.Pkg("core").Types.Scope()
	n := 0
	for _, name := range scope.Names() {
		cn, isConst := scope.Lookup(name).(*types.Const)
		if !isConst || !types.Identical(cn.Type(), status.Type()) {
			continue
		}
		n++
		sv := cn.Val()
		res, ok := k.constResults(call, func(x ssa.Value) (constant.Value, bool) {
			if x == status || an.Resolve(x) == an.Resolve(status) {
				return sv, true
			}
			return nil, false
		}, 0)
		if !ok || idx >= len(res) || res[idx] == nil || res[idx].Kind() != cst.Kind() {
			return c07Unsure("what " + an.FuncName(k.ix.Callee(&call.Call)) + " returns for status " + name + " is not decided"), true
		}
		isWant := constant.Compare(sv, token.EQL, constant.MakeInt64(want))
		same := constant.Compare(res[idx], token.EQL, cst)
		switch {
		case same && !isWant:
			return c07Bad("flag takes the tracking value for status " + name + " (not DeadlineExempt)"), true
		case !same && isWant:
			return c07Bad("flag does not take the tracking value for DeadlineExempt"), true
		}
	}
	if n == 0 {
		return c07Unsure("no constants of the deadline status type found"), true
	}
	return c07Ok(), true
}

// c07fieldStores: the values stored into struct field key anywhere in the package.
func (k *c07k) fieldStores(key string) []ssa.Value {
	var out []ssa.Value
	for _, fn := range k.ix.Funcs {
		for _, in := range an.Instrs(fn, false) {
			st, ok := in.(*ssa.Store)
			if !ok {
				continue
			}
			if fa, ok := st.Addr.(*ssa.FieldAddr); ok && an.FieldKey(fa.X.Type(), fa.Field) == key {
				out = append(out, st.Val)
			}
		}
	}
	return out
}
