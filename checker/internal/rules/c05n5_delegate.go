package rules

import (
	"go/constant"
	"go/token"
	"go/types"

	"golang.org/x/tools/go/ssa"

	"charonverif/internal/an"
)

// C05 A3, round 5: newMsg may hand its whole job to a helper (`return build(pb, just, values, …)`), possibly
// with further parameters (a mode flag, an options struct). The necessary condition does not change: on
// every successful return — now of the helper, in the activation newMsg creates — every non-zero hash of
// the Msg is toHash32(pb.GetX()) found present in the recomputed values map, and every justification is
// converted the same way. Parameters of the helper are bound to the constants the call passes (a flag that
// is always false disables nothing); a parameter whose value is not a constant is unknown, so a branch on
// it that skips the presence test is a feasible path (positive evidence). Nested calls of the helper on the
// justifications are checked under their own constant arguments.

// c05delegate is a helper newMsg delegates to; role[i] says what its i-th parameter receives:
// 0 the wire message, 1 the justification list, 2 the values map, -1 something else.
type c05delegate struct {
	name string
	role []int
}

// argsFor: the argument pattern of a nested conversion of elem with the values map (nil matches anything).
func (d c05delegate) argsFor(elem, valsT *an.H05Term) []*an.H05Term {
	out := make([]*an.H05Term, len(d.role))
	for i, r := range d.role {
		switch r {
		case 0:
			out[i] = elem
		case 2:
			out[i] = valsT
		}
	}
	return out
}

// bound adds what is known about the parameters of the activation being checked to a valuation.
func (e *c05env) bound(env an.H05Env) an.H05Env {
	for k, v := range e.bind {
		if _, ok := env[k]; !ok {
			env[k] = v
		}
	}
	return env
}

// c05ConstArgs: what the call g of callee fixes about the callee's parameters: parameter (or field read of
// a struct parameter passed as a local literal) -> constant, evaluated under what is known in the caller.
// vague is set when a parameter that is none of the three inputs (role -1) is neither a constant nor
// computed from the inputs: the checker then knows nothing about the values it can take (a global, an
// options struct it cannot open), and a path that depends on it is no positive evidence.
func c05ConstArgs(e *c05env, g *ssa.Call, f *an.H05Frame, callee *ssa.Function, role []int, inputs []*an.H05Term) (out an.H05Env, vague bool) {
	en := e.engine()
	out = an.H05Env{}
	for i, p := range callee.Params {
		if i >= len(g.Call.Args) || i >= len(role) {
			break
		}
		arg := g.Call.Args[i]
		if a := en.Eval(arg, e.bound(an.H05Env{})); a.Kind == an.H05Const {
			out[p] = a
			continue
		}
		if role[i] >= 0 {
			continue
		}
		// a struct passed by value as a local literal: its constant fields
		if _, isStruct := p.Type().Underlying().(*types.Struct); isStruct {
			reads, ok := c05ParamFieldReads(p)
			if ok {
				all := true
				for _, rd := range reads {
					var val ssa.Value // nil: zero
					switch a := arg.(type) {
					case *ssa.Const:
						if a.Value != nil {
							all = false
							continue
						}
					case *ssa.UnOp:
						al, isAl := a.X.(*ssa.Alloc)
						if a.Op != token.MUL || !isAl {
							all = false
							continue
						}
						vals, wholes, ok := en.ReachingFieldStores(al, rd.field, a)
						if !ok || len(wholes) != 0 || len(vals) != 1 {
							all = false
							continue
						}
						val = vals[0]
					default:
						all = false
						continue
					}
					if val == nil {
						if z := c05ZeroConst(rd.v.Type()); z != nil {
							out[rd.v] = an.H05ConstAbs(z)
						} else {
							all = false
						}
						continue
					}
					if a := en.Eval(val, e.bound(an.H05Env{})); a.Kind == an.H05Const {
						out[rd.v] = a
					} else if t := en.Term(val, f); !c05DependsOn(t, inputs) {
						all = false
					}
				}
				if all {
					continue
				}
			}
			vague = true
			continue
		}
		if t := en.Term(arg, f); !c05DependsOn(t, inputs) {
			vague = true
		}
	}
	return out, vague
}

func c05DependsOn(t *an.H05Term, inputs []*an.H05Term) bool {
	for _, in := range inputs {
		if in != nil && t.Contains(in) {
			return true
		}
	}
	return false
}

func c05ZeroConst(t types.Type) constant.Value {
	b, ok := t.Underlying().(*types.Basic)
	if !ok {
		return nil
	}
	switch {
	case b.Info()&types.IsBoolean != 0:
		return constant.MakeBool(false)
	case b.Info()&types.IsInteger != 0:
		return constant.MakeInt64(0)
	case b.Info()&types.IsString != 0:
		return constant.MakeString("")
	}
	return nil
}

func c05SameEnv(a, b an.H05Env) bool {
	if len(a) != len(b) {
		return false
	}
	for k, v := range a {
		w, ok := b[k]
		if !ok || v.Kind != w.Kind || v.K == nil || w.K == nil || v.K.ExactString() != w.K.ExactString() {
			return false
		}
	}
	return true
}

// c05Delegated: the Msg of the successful return ret of root is the result of a helper whose error is the
// error returned (or was checked): the provenance is decided on the helper's successful returns.
func c05Delegated(e *c05env, st *types.Struct, roles map[string]string, root *an.H05Frame, ret *ssa.Return, pbT, justT, valsT *an.H05Term, depth int) bool {
	en := e.engine()
	g, idx := c05CallResult(en.Resolve(ret.Results[0]))
	if g == nil || idx != 0 || depth >= 3 || g.Parent() != root.Fn {
		return false
	}
	ch := en.Child(root, g)
	if ch == nil || en.Anchors[an.FuncName(ch.Fn)] || ch.Fn.Signature.Results().Len() != 2 || len(ch.Fn.Params) != len(g.Call.Args) {
		return false
	}
	if g2, i2 := c05CallResult(en.Resolve(ret.Results[1])); g2 != g || i2 != 1 {
		if v := en.Checked(g, an.H05ErrNil, ret, en.AcceptReturn(ret, an.H05ErrNil)); !v.Yes {
			return false
		}
	}
	d := c05delegate{name: an.FuncName(ch.Fn)}
	have := map[int]bool{}
	for _, a := range g.Call.Args {
		t := en.Term(a, root)
		r := -1
		switch {
		case an.H05Same(t, pbT):
			r = 0
		case an.H05Same(t, justT):
			r = 1
		case an.H05Same(t, valsT):
			r = 2
		}
		if r >= 0 && have[r] {
			return false
		}
		have[r] = true
		d.role = append(d.role, r)
	}
	if !have[0] || !have[2] {
		return false
	}
	rets := en.SuccessReturns(ch.Fn, an.H05ErrNil)
	if len(rets) == 0 {
		return false
	}
	e.delegates = append(e.delegates, d)
	saved, savedTag, savedVague := e.bind, e.tag, e.vague
	defer func() { e.bind, e.tag, e.vague = saved, savedTag, savedVague }()
	inputs := []*an.H05Term{pbT, justT, valsT}
	top, vague := c05ConstArgs(e, g, root, ch.Fn, d.role, inputs)
	e.bind, e.vague = top, savedVague || vague
	for _, r := range rets {
		c05MsgBuiltAt(e, st, roles, ch, r, pbT, justT, valsT, depth+1)
	}
	// nested calls of the helper (on the justifications) with other constant arguments
	var done []an.H05Env
	done = append(done, top)
	for _, in := range an.Instrs(ch.Fn, false) {
		g2, ok := in.(*ssa.Call)
		if !ok || g2.Call.IsInvoke() || g2.Call.StaticCallee() != ch.Fn {
			continue
		}
		e.bind = top
		b2, vague2 := c05ConstArgs(e, g2, ch, ch.Fn, d.role, inputs)
		seen := false
		for _, o := range done {
			seen = seen || c05SameEnv(o, b2)
		}
		if seen {
			continue
		}
		done = append(done, b2)
		e.bind, e.tag, e.vague = b2, savedTag+" [nested call]", savedVague || vague2
		for _, r := range rets {
			c05MsgBuiltAt(e, st, roles, ch, r, pbT, justT, valsT, depth+1)
		}
	}
	return true
}

// hedge: a failure found while a parameter of the helper has a value the checker knows nothing about is
// no positive evidence.
func (e *c05env) hedge(v an.H05Verdict) an.H05Verdict {
	if e.vague && !v.Yes && !v.Unsure {
		v.Unsure = true
		v.Why = "depends on a parameter of the helper newMsg delegates to whose value the checker cannot determine: " + v.Why
	}
	return v
}

type c05fieldRead struct {
	v     ssa.Value // the value read
	field int
}

// c05ParamFieldReads: every use of the struct parameter p is a read of one of its fields (directly, or
// through the local the SSA builder spills it to); ok is false when p is used in any other way.
func c05ParamFieldReads(p *ssa.Parameter) (out []c05fieldRead, ok bool) {
	for _, ref := range *p.Referrers() {
		switch r := ref.(type) {
		case *ssa.Field:
			out = append(out, c05fieldRead{r, r.Field})
		case *ssa.DebugRef:
		case *ssa.Store:
			al, isAl := r.Addr.(*ssa.Alloc)
			if !isAl || r.Val != ssa.Value(p) {
				return nil, false
			}
			for _, ar := range *al.Referrers() {
				switch x := ar.(type) {
				case *ssa.Store:
					if x != r {
						return nil, false
					}
				case *ssa.DebugRef:
				case *ssa.FieldAddr:
					for _, fr := range *x.Referrers() {
						switch y := fr.(type) {
						case *ssa.UnOp:
							if y.Op != token.MUL {
								return nil, false
							}
							out = append(out, c05fieldRead{y, x.Field})
						case *ssa.DebugRef:
						default:
							return nil, false
						}
					}
				default:
					return nil, false
				}
			}
		default:
			return nil, false
		}
	}
	return out, true
}
