package rules

import (
	"go/token"
	"go/types"
	"sort"
	"strings"

	"golang.org/x/tools/go/ssa"

	"charonverif/internal/an"
	"charonverif/internal/rt"
)

// Structural anchors and provenance helpers of the C13 rules (added in the hardening round): the functions the rules
// inspect are found by the role they play (the function values New installs as hash / sign / verify function of the
// server object; the functions that contain the calls of a Callback, of the signFunc, of the SendFunc), not by their
// names; values are followed through bound receivers and structs used as parameter objects.

// c13Anch: the bodies of the (hash, sign, verify) function values that bcast.New installs in the server object.
type c13Anch struct {
	hfn, sfn, vfn *ssa.Function
}

func c13Deref(t types.Type) types.Type {
	if p, ok := t.Underlying().(*types.Pointer); ok {
		return p.Elem()
	}
	return t
}

// c13Anchors traces New and reads the function values stored into fields of type hashFunc / signFunc / verifyFunc of
// a server object (any object, if no server object is built).
func c13Anchors(c *rt.Ctx) c13Anch {
	nw := c.Fn(c13Pkg + ".New")
	t := c13Trace(nw, 2)
	if !t.usable() {
		c.Bail("New: path enumeration failed")
	}
	found := map[string]map[*ssa.Function]bool{}
	collect := func(onlySrv bool) {
		for _, p := range t.paths {
			if p.End != "return" {
				continue
			}
			for _, e := range p.Evs {
				if e.Kind != "store" || len(e.Args) != 2 || e.Args[0].Kind != an.KAddr || e.Args[1] == nil {
					continue
				}
				fa, ok := e.Args[0].V.(*ssa.FieldAddr)
				if !ok || (onlySrv && !strings.HasPrefix(e.Args[0].Field, c13Srv+".")) {
					continue
				}
				role := an.TypeName(c13Deref(fa.Type()))
				if role != c13THash && role != c13TSign && role != c13TVerify {
					continue
				}
				var fn *ssa.Function
				switch v := e.Args[1]; v.Kind {
				case an.KClosure, an.KFunc:
					fn = v.Fn
				}
				if fn == nil || len(fn.Blocks) == 0 {
					c.Bail("New: the value stored into a %s field is not a function whose body is known", role)
				}
				if found[role] == nil {
					found[role] = map[*ssa.Function]bool{}
				}
				found[role][fn] = true
			}
		}
	}
	collect(true)
	if len(found) == 0 {
		collect(false)
	}
	one := func(role string) *ssa.Function {
		if len(found[role]) != 1 {
			c.Bail("New: %d different function bodies are installed as %s (expected one)", len(found[role]), role)
		}
		for f := range found[role] {
			return f
		}
		return nil
	}
	return c13Anch{hfn: one(c13THash), sfn: one(c13TSign), vfn: one(c13TVerify)}
}

// c13MakerOf returns the only MakeClosure that creates a closure of fn (literal or bound-method wrapper).
func c13MakerOf(fn *ssa.Function) *ssa.MakeClosure {
	var scope []*ssa.Function
	if fn.Parent() != nil {
		scope = []*ssa.Function{fn.Parent()}
	} else if pkg := c13PkgOf(fn); pkg != nil {
		scope = an.PkgFuncs(pkg)
	}
	var out *ssa.MakeClosure
	for _, g := range scope {
		for _, in := range an.Instrs(g, false) {
			if mc, ok := in.(*ssa.MakeClosure); ok && mc.Fn == ssa.Value(fn) {
				if out != nil {
					return nil
				}
				out = mc
			}
		}
	}
	return out
}

// c13MakerFn: the function in which the closure of fn is created (fn itself if it is a plain function).
func c13MakerFn(fn *ssa.Function) *ssa.Function {
	if mc := c13MakerOf(fn); mc != nil {
		return mc.Parent()
	}
	return nil
}

// c13StructField resolves field idx of the struct that v denotes (a load of a local struct variable, or the address
// of one) to the only value stored into that field; nil if it is not determined.
func c13StructField(v ssa.Value, idx int) ssa.Value {
	v = an.Unwrap(v)
	var cell *ssa.Alloc
	switch x := v.(type) {
	case *ssa.Alloc:
		cell = x
	case *ssa.UnOp:
		if x.Op == token.MUL {
			cell, _ = x.X.(*ssa.Alloc)
		}
	}
	if cell == nil || cell.Referrers() == nil {
		return nil
	}
	var val ssa.Value
	n := 0
	for _, ref := range *cell.Referrers() {
		switch x := ref.(type) {
		case *ssa.FieldAddr:
			if x.Field != idx || x.Referrers() == nil {
				continue
			}
			for _, r2 := range *x.Referrers() {
				if st, ok := r2.(*ssa.Store); ok && st.Addr == ssa.Value(x) {
					val = st.Val
					n++
				}
			}
		case *ssa.Store:
			if x.Addr == ssa.Value(cell) {
				n += 2 // whole-value assignment: not followed
			}
		}
	}
	if n != 1 {
		return nil
	}
	return c13Origin(val)
}

// c13SymStatic resolves a symbol of a path whose root is a closure body (function literal or bound-method wrapper) to
// the program value it denotes where the closure was created: parameters, captured variables (through their binding),
// fields of a captured / bound struct used as a parameter object. nil if not determined.
func c13SymStatic(s *an.Sym, d int) ssa.Value {
	if s == nil || d > 6 {
		return nil
	}
	switch s.Kind {
	case an.KParam:
		switch x := s.V.(type) {
		case *ssa.Parameter:
			return x
		case *ssa.FreeVar:
			mc := c13MakerOf(x.Parent())
			if mc == nil {
				return nil
			}
			for i, fv := range x.Parent().FreeVars {
				if fv == x && i < len(mc.Bindings) {
					return c13Origin(mc.Bindings[i])
				}
			}
		}
	case an.KField:
		if len(s.Args) == 1 {
			if base := c13SymStatic(s.Args[0], d+1); base != nil {
				return c13StructField(base, s.Index)
			}
		}
	case an.KInit:
		// load through a field address: *(&base.f)
		if len(s.Args) == 1 && s.Args[0].Kind == an.KAddr && len(s.Args[0].Args) == 1 {
			if fa, ok := s.Args[0].V.(*ssa.FieldAddr); ok {
				if base := c13SymStatic(s.Args[0].Args[0], d+1); base != nil {
					return c13StructField(base, fa.Field)
				}
			}
		}
	case an.KClosure:
		if mc, ok := s.V.(*ssa.MakeClosure); ok {
			return mc
		}
	case an.KFunc:
		if s.Fn != nil {
			return s.Fn
		}
	}
	return nil
}

// fnvalAt returns the symbol of the function value called by the dynamic call event i (nil if not recorded).
func (p *c13P) fnvalAt(i int) *an.Sym {
	if i > 0 && p.Evs[i-1].Kind == "fnval" && p.Evs[i-1].In == p.Evs[i].In && len(p.Evs[i-1].Args) == 1 {
		return p.Evs[i-1].Args[0]
	}
	return nil
}

// isParamOfMaker: s denotes a parameter of function mk (the function that creates the traced closure) whose type is
// typ ("" = any), directly, through a captured variable or through a field of a captured parameter object.
func c13IsMakerParam(s *an.Sym, mk *ssa.Function, typ string) bool {
	if mk == nil {
		return false
	}
	prm, ok := c13SymStatic(s, 0).(*ssa.Parameter)
	return ok && prm.Parent() == mk && (typ == "" || an.TypeName(prm.Type()) == typ)
}

// leaves lists a value and, for struct values (parameter objects), the values of its fields, recursively.
func c13Leaves(v *an.Sym, d int, out *[]*an.Sym) {
	if v == nil || d > 4 {
		return
	}
	*out = append(*out, v)
	if v.Kind == an.KStruct {
		var idx []int
		for i := range v.Fields {
			idx = append(idx, i)
		}
		sort.Ints(idx)
		for _, i := range idx {
			c13Leaves(v.Fields[i], d+1, out)
		}
		for _, a := range v.Args {
			c13Leaves(a, d+1, out)
		}
	}
}

// ---------------------------------------------------------------------------------------------
// byte strings built on a path (B4): the sequence of (length prefix | field) items a value is the concatenation of

type c13Item struct {
	isLen bool
	field *an.Sym // the field written / whose length is written; nil: not recognised
	at    int
}

// concat flattens x into the items it is the concatenation of: nil / make([]byte, 0, n) are empty, append(b, f...)
// adds field f, binary.*.AppendUintNN(b, len(f)) adds the length of f. ok is false if x is not of that form.
func (p *c13P) concat(x *an.Sym, at, d int) (items []c13Item, ok bool) {
	if x == nil || d > 24 {
		return nil, false
	}
	if x.IsNil() {
		return nil, true
	}
	switch x.Kind {
	case an.KFresh:
		if ms, isMS := x.V.(*ssa.MakeSlice); isMS {
			if n, isC := an.ConstInt(ms.Len); isC && n == 0 {
				return nil, true
			}
		}
	case an.KPure:
		// b[:0]
		if x.Name == "slice" && len(x.Args) == 3 && x.Args[1] == nil && x.Args[2] != nil {
			if hi, isC := x.Args[2].IsConstInt(); isC && hi == 0 {
				return nil, true
			}
		}
	case an.KAppend:
		if !x.Spread || len(x.Args) != 2 {
			return nil, false
		}
		base, ok := p.concat(x.Args[0], at, d+1)
		if !ok {
			return nil, false
		}
		return append(base, c13Item{field: x.Args[1], at: at}), true
	case an.KOpaque:
		q, ri := p.producer(x)
		if q < 0 || ri != 0 {
			return nil, false
		}
		e := p.Evs[q]
		if c13AppendLen[c13StaticName(e)] && len(e.Args) == 3 {
			base, ok := p.concat(e.Args[1], at, d+1)
			if !ok {
				return nil, false
			}
			return append(base, c13Item{isLen: true, field: p.lenOf(e.Args[2]), at: q}), true
		}
	}
	return nil, false
}

// ---------------------------------------------------------------------------------------------
// B5: lock discipline decided on paths

type c13Access struct {
	in    ssa.Instruction
	field string // qualified struct field holding the table
	held  map[string]bool
	write bool
}

// tableField: m is the map held in a struct field of the package (or a nested table looked up in one) -> field, base.
func (p *c13P) tableField(m *an.Sym, d int) (field string, base *an.Sym) {
	if m == nil || d > 4 {
		return "", nil
	}
	if f := m.FieldName(); f != "" && m.Kind == an.KInit && strings.HasPrefix(f, c13Pkg+".") {
		if len(m.Args) == 1 && m.Args[0].Kind == an.KAddr && len(m.Args[0].Args) == 1 {
			return f, m.Args[0].Args[0]
		}
		return f, nil
	}
	x := m
	if x.Kind == an.KExtract && len(x.Args) == 1 && x.Index == 0 {
		x = x.Args[0]
	}
	if i, ok := p.def[x.Key()]; ok && p.Evs[i].Kind == "lookup" {
		return p.tableField(p.Evs[i].Args[0], d+1)
	}
	return "", nil
}

var c13LockOps = map[string]int{
	"sync.Mutex.Lock": 1, "sync.RWMutex.Lock": 1, "sync.RWMutex.RLock": 2,
	"sync.Mutex.Unlock": -1, "sync.RWMutex.Unlock": -1, "sync.RWMutex.RUnlock": -2,
}

// heldAt: the mutex fields (qualified names) of object base that are locked when event i executes. RLock counts for
// reads only.
func (p *c13P) heldAt(i int, base *an.Sym, write bool) map[string]bool {
	held := map[string]int{}
	for j := 0; j < i; j++ {
		e := p.Evs[j]
		if e.Kind != "call" || len(e.Args) != 1 {
			continue
		}
		op := c13LockOps[c13StaticName(e)]
		if op == 0 {
			continue
		}
		a := e.Args[0]
		if a.Kind == an.KInit && len(a.Args) == 1 {
			a = a.Args[0] // mutex held by pointer in the field
		}
		if a.Kind != an.KAddr || a.Field == "" || len(a.Args) != 1 || (base != nil && !p.same(a.Args[0], base)) {
			continue
		}
		switch op {
		case 1:
			held[a.Field] = 1
		case 2:
			held[a.Field] = 2
		default:
			delete(held, a.Field)
		}
	}
	out := map[string]bool{}
	for f, m := range held {
		if m == 1 || !write {
			out[f] = true
		}
	}
	return out
}

// c13Locks: every access (lookup, update, delete, range, len) of a table held in a struct field of the package, on every
// path of every entry function (exported, used as a value, not called statically in the package, or a function
// literal that no other entry executes), happens under a mutex of the same object; all accesses of one table agree on
// that mutex.
func c13Locks(c *rt.Ctx) {
	pkg := c.SSAPkg(c13Pkg)
	funcs := an.PkgFuncs(pkg)
	isEntry := c13EntryPred(pkg)
	// functions that mention a table field at all (cheap pre-filter): those and their transitive callers are traced
	type visit struct {
		acc   c13Access
		entry *ssa.Function
	}
	var visits []visit
	executed := map[*ssa.Function]bool{}
	traceRoot := func(r *ssa.Function) bool {
		t := c13Trace(r, 2)
		if !t.usable() {
			return false
		}
		for in := range t.res.Visited {
			executed[in.Parent()] = true
		}
		for _, p := range t.paths {
			for i, e := range p.Evs {
				var m *an.Sym
				write := false
				switch e.Kind {
				case "lookup", "range":
					if len(e.Args) >= 1 {
						m = e.Args[0]
					}
				case "mapupdate":
					if len(e.Args) == 3 {
						m, write = e.Args[0], true
					}
				case "builtin":
					if (e.Name == "len" || e.Name == "delete" || e.Name == "clear") && len(e.Args) >= 1 {
						m, write = e.Args[0], e.Name != "len"
					}
				}
				if e.Kind == "store" && len(e.Args) == 2 && e.Args[0].Kind == an.KAddr && len(e.Args[0].Args) == 1 && c13IsMapField(pkg, e.Args[0].Field) {
					// the table itself is replaced; an object that is being constructed on this path is not shared yet
					if b := e.Args[0].Args[0]; !(b.Kind == an.KAddr && len(b.Cell) > 5 && strings.HasPrefix(b.Cell, "alloc") && b.Cell[5] >= '0' && b.Cell[5] <= '9') {
						visits = append(visits, visit{acc: c13Access{in: e.In, field: e.Args[0].Field, held: p.heldAt(i, b, true), write: true}, entry: r})
					}
					continue
				}
				if m == nil {
					continue
				}
				f, base := p.tableField(m, 0)
				if f == "" || m.Kind == an.KFresh {
					continue
				}
				if !c13IsMapField(pkg, f) {
					continue
				}
				visits = append(visits, visit{acc: c13Access{in: e.In, field: f, held: p.heldAt(i, base, write), write: write}, entry: r})
			}
		}
		return true
	}
	var roots []*ssa.Function
	for _, f := range funcs {
		if isEntry(f) {
			roots = append(roots, f)
		}
	}
	nTraced := 0
	for _, r := range roots {
		if !c13MentionsTable(r, pkg, funcs) {
			continue
		}
		nTraced++
		if !traceRoot(r) {
			c.Unsure("lock discipline "+c13ShortName(r), r.Pos(), "path enumeration failed")
		}
	}
	// function literals that no entry executed (closures that escape: the signer / verifier closures, handlers built by
	// a constructor) and that reach a table: traced as roots of their own
	for _, f := range funcs {
		if f.Parent() == nil || executed[f] || c13LiteralLocal(f, pkg) || !c13MentionsTable(f, pkg, funcs) {
			continue
		}
		nTraced++
		if !traceRoot(f) {
			c.Unsure("lock discipline "+c13ShortName(f), f.Pos(), "path enumeration failed")
		}
	}
	if len(visits) == 0 {
		c.Bail("no access of a table field on any path (traced %d roots)", nTraced)
	}
	// verdicts per table
	byField := map[string][]visit{}
	var fields []string
	for _, v := range visits {
		if byField[v.acc.field] == nil {
			fields = append(fields, v.acc.field)
		}
		byField[v.acc.field] = append(byField[v.acc.field], v)
	}
	sort.Strings(fields)
	for _, f := range fields {
		vs := byField[f]
		// the guarding mutex: the one held at most visits
		count := map[string]int{}
		for _, v := range vs {
			for m := range v.acc.held {
				count[m]++
			}
		}
		guard, best := "", 0
		var ms []string
		for m := range count {
			ms = append(ms, m)
		}
		sort.Strings(ms)
		for _, m := range ms {
			if count[m] > best {
				guard, best = m, count[m]
			}
		}
		short := f[strings.LastIndex(f, "/")+1:]
		type siteV struct {
			pos token.Pos
			bad string
			n   int
		}
		sites := map[ssa.Instruction]*siteV{}
		var order []ssa.Instruction
		for _, v := range vs {
			s := sites[v.acc.in]
			if s == nil {
				s = &siteV{pos: v.acc.in.Pos()}
				sites[v.acc.in] = s
				order = append(order, v.acc.in)
			}
			s.n++
			switch {
			case guard == "":
				s.bad = "the table is never accessed under a mutex of its object although handlers run concurrently"
			case !v.acc.held[guard] && len(v.acc.held) > 0:
				s.bad = "accessed under a different mutex than the other accesses of the table (which hold " + guard[strings.LastIndex(guard, ".")+1:] + "), reached from " + c13ShortName(v.entry)
			case !v.acc.held[guard]:
				s.bad = "accessed without holding " + guard[strings.LastIndex(guard, ".")+1:] + " on a path of " + c13ShortName(v.entry)
			}
		}
		sort.Slice(order, func(i, j int) bool { return order[i].Pos() < order[j].Pos() })
		for _, in := range order {
			s := sites[in]
			k := "lock " + short + " in " + c13ShortName(in.Parent())
			if s.bad != "" {
				c.Bad(k, s.pos, s.bad)
			} else {
				c.Good(k, s.pos, "")
			}
		}
	}
}

// c13IsMapField: qualified field name denotes a map-typed field of a struct of the package that also has a mutex field.
func c13IsMapField(pkg *ssa.Package, field string) bool {
	dot := strings.LastIndex(field, ".")
	if dot < 0 {
		return false
	}
	tn := field[:dot]
	tn = tn[strings.LastIndex(tn, ".")+1:]
	obj := pkg.Pkg.Scope().Lookup(tn)
	if obj == nil {
		return false
	}
	st, ok := obj.Type().Underlying().(*types.Struct)
	if !ok {
		return false
	}
	isMap, hasMu := false, false
	for i := 0; i < st.NumFields(); i++ {
		ft := st.Field(i).Type()
		if st.Field(i).Name() == field[dot+1:] {
			_, isMap = ft.Underlying().(*types.Map)
		}
		if n := an.TypeName(c13Deref(ft)); n == "sync.Mutex" || n == "sync.RWMutex" {
			hasMu = true
		}
	}
	return isMap && hasMu
}

// c13InstrOnTable: the map operand of the instruction is loaded from a map field of a mutex-carrying struct.
func c13InstrOnTable(in ssa.Instruction, pkg *ssa.Package) bool {
	var m ssa.Value
	switch x := in.(type) {
	case *ssa.Lookup:
		m = x.X
	case *ssa.MapUpdate:
		m = x.Map
	case *ssa.Range:
		m = x.X
	}
	if m == nil {
		return false
	}
	k, _, ok := an.FieldOf(m)
	return ok && c13IsMapField(pkg, k)
}

// c13MentionsTable: f or a function it (transitively, statically or by creating a closure) reaches in the package
// contains an access of a table field.
func c13MentionsTable(f *ssa.Function, pkg *ssa.Package, funcs []*ssa.Function) bool {
	seen := map[*ssa.Function]bool{}
	var walk func(g *ssa.Function, d int) bool
	walk = func(g *ssa.Function, d int) bool {
		if g == nil || seen[g] || d > 8 || len(g.Blocks) == 0 {
			return false
		}
		seen[g] = true
		for _, in := range an.Instrs(g, false) {
			if c13InstrOnTable(in, pkg) {
				return true
			}
			for _, op := range an.Operands(in) {
				switch x := op.(type) {
				case *ssa.Function:
					if c13PkgOf(x) == pkg && walk(x, d+1) {
						return true
					}
				case *ssa.MakeClosure:
					if h, ok := x.Fn.(*ssa.Function); ok && walk(h, d+1) {
						return true
					}
				}
			}
		}
		return false
	}
	return walk(f, 0)
}

// c13SendRoots: the outermost functions that contain a call through a p2p.SendFunc value (client.Broadcast).
func c13SendRoots(c *rt.Ctx) []*ssa.Function {
	var out []*ssa.Function
	seen := map[*ssa.Function]bool{}
	for _, fn := range an.PkgFuncs(c.SSAPkg(c13Pkg)) {
		for _, in := range an.Instrs(fn, false) {
			ci, ok := in.(ssa.CallInstruction)
			if !ok || ci.Common().IsInvoke() || ci.Common().StaticCallee() != nil {
				continue
			}
			if _, isB := ci.Common().Value.(*ssa.Builtin); isB {
				continue
			}
			k, _, isField := an.FieldOf(ci.Common().Value)
			if an.TypeName(ci.Common().Value.Type()) == c13TSend || (isField && k == c13N.cliSend) {
				for _, o := range c13EntryRoots(c.SSAPkg(c13Pkg), fn) {
					if !seen[o] {
						seen[o] = true
						out = append(out, o)
					}
				}
			}
		}
	}
	return out
}

// c13LiteralLocal: the function literal can only run while its parent runs: it is called / deferred directly, kept in
// a local that is only called, or handed as an argument to a function of the package that is called statically
// (a helper such as locked(mu, fn); the tracer steps into it when it follows the parent).
func c13LiteralLocal(f *ssa.Function, pkg *ssa.Package) bool {
	switch an.ClosureStaysLocal(f) {
	case "":
		return true
	case "passed as an argument":
	default:
		return false
	}
	mc := c13MakerOf(f)
	if mc == nil || mc.Referrers() == nil {
		return false
	}
	for _, ref := range *mc.Referrers() {
		switch x := ref.(type) {
		case *ssa.DebugRef:
		case *ssa.Call:
			callee := x.Call.StaticCallee()
			if x.Call.Value != ssa.Value(mc) && (callee == nil || c13PkgOf(callee) != pkg || len(callee.Blocks) == 0) {
				return false
			}
		case *ssa.Defer:
			callee := x.Call.StaticCallee()
			if x.Call.Value != ssa.Value(mc) && (callee == nil || c13PkgOf(callee) != pkg || len(callee.Blocks) == 0) {
				return false
			}
		default:
			return false
		}
	}
	return true
}

// c13EntryPred: a top-level function of the package is an entry if it can be reached other than by a static call from
// the package: exported, used as a value (also as a bound-method value), or never called statically.
func c13EntryPred(pkg *ssa.Package) func(f *ssa.Function) bool {
	funcs := an.PkgFuncs(pkg)
	called := map[*ssa.Function]bool{}
	asValue := map[*ssa.Function]bool{}
	for _, f := range funcs {
		for _, in := range an.Instrs(f, false) {
			ci, isCall := in.(ssa.CallInstruction)
			_, isGo := in.(*ssa.Go)
			for _, op := range an.Operands(in) {
				var target *ssa.Function
				switch x := op.(type) {
				case *ssa.Function:
					target = x
				case *ssa.MakeClosure:
					// bound-method value: the method is used as a value
					if w, ok := x.Fn.(*ssa.Function); ok && w.Synthetic != "" && w.Object() != nil {
						if fo, ok := w.Object().(*types.Func); ok {
							if m := pkg.Prog.FuncValue(fo); m != nil {
								asValue[m] = true
							}
						}
					}
					continue
				}
				if target == nil {
					continue
				}
				if isCall && !isGo && ci.Common().Value == op {
					called[target] = true
				} else {
					asValue[target] = true
				}
			}
		}
	}
	return func(f *ssa.Function) bool {
		if f.Parent() != nil {
			return false
		}
		exported := f.Object() != nil && f.Object().Exported()
		return exported || asValue[f] || !called[f]
	}
}

// c13EntryRoots returns, for the function g that contains a site, the entry functions from which g is reached by
// static calls inside the package (g's outermost function itself if it is an entry): the roots on whose paths the
// obligations of the site are decided, so that extracting the site into a helper does not hide what precedes it.
func c13EntryRoots(pkg *ssa.Package, g *ssa.Function) []*ssa.Function {
	isEntry := c13EntryPred(pkg)
	funcs := an.PkgFuncs(pkg)
	callers := map[*ssa.Function][]*ssa.Function{}
	for _, f := range funcs {
		for _, in := range an.Instrs(f, false) {
			if ci, ok := in.(ssa.CallInstruction); ok {
				if callee := ci.Common().StaticCallee(); callee != nil && c13PkgOf(callee) == pkg {
					callers[callee] = append(callers[callee], f)
				}
			}
		}
	}
	var out []*ssa.Function
	seen := map[*ssa.Function]bool{}
	var up func(f *ssa.Function, d int)
	up = func(f *ssa.Function, d int) {
		// a function literal that can only run inside its parent is part of the parent; one that escapes (a handler
		// registered by a constructor) is a root of its own
		for f.Parent() != nil && c13LiteralLocal(f, pkg) {
			f = f.Parent()
		}
		if seen[f] || d > 6 {
			return
		}
		seen[f] = true
		if f.Parent() != nil || isEntry(f) || len(callers[f]) == 0 {
			out = append(out, f)
			return
		}
		for _, c := range callers[f] {
			up(c, d+1)
		}
	}
	up(g, 0)
	return out
}

// ---------------------------------------------------------------------------------------------
// struct fields by role (resolved by their types, so that renaming a private field or moving it into a sub-struct
// does not change what the rules look at); the names of today's tree are the fall-back

type c13Names struct {
	dedup, registry, allow, compPeers, cliPeers, cliHost, cliSign, cliSend string
}

var c13N = c13DefaultNames()

func c13DefaultNames() c13Names {
	return c13Names{
		dedup: c13Srv + ".dedup", registry: c13Srv + ".msgIDFuncs", allow: c13Comp + ".allowedMsgIDs",
		compPeers: c13Comp + ".peers", cliPeers: c13Cli + ".peers", cliHost: c13Cli + ".p2pNode",
		cliSign: c13Cli + ".signFunc", cliSend: c13Cli + ".sendFunc",
	}
}

func c13SameOwner(a, b string) bool {
	i, j := strings.LastIndex(a, "."), strings.LastIndex(b, ".")
	return i > 0 && j > 0 && a[:i] == b[:j]
}

func c13ResolveNames(pkg *ssa.Package) c13Names {
	n := c13DefaultNames()
	if pkg == nil {
		return n
	}
	const peerIDs = "[]github.com/libp2p/go-libp2p/core/peer.ID"
	cand := map[string][]string{}
	add := func(role, key string) { cand[role] = append(cand[role], key) }
	hasFuncField := func(t types.Type, fn string) bool {
		if an.TypeName(t) == fn {
			return true
		}
		st, ok := t.Underlying().(*types.Struct)
		if !ok {
			return false
		}
		for i := 0; i < st.NumFields(); i++ {
			if an.TypeName(st.Field(i).Type()) == fn {
				return true
			}
		}
		return false
	}
	names := pkg.Pkg.Scope().Names()
	sort.Strings(names)
	for _, name := range names {
		tn, ok := pkg.Pkg.Scope().Lookup(name).(*types.TypeName)
		if !ok {
			continue
		}
		st, ok := tn.Type().Underlying().(*types.Struct)
		if !ok {
			continue
		}
		owner := an.TypeName(tn.Type())
		isClient, allowIdx := false, -1
		for i := 0; i < st.NumFields(); i++ {
			if an.TypeName(st.Field(i).Type()) == c13TSend {
				isClient = true
			}
		}
		for i := 0; i < st.NumFields(); i++ {
			f := st.Field(i)
			key := owner + "." + f.Name()
			if m, isMap := f.Type().Underlying().(*types.Map); isMap {
				leaf := m.Elem()
				for {
					mm, nested := leaf.Underlying().(*types.Map)
					if !nested {
						break
					}
					leaf = mm.Elem()
				}
				kb, keyIsString := m.Key().Underlying().(*types.Basic)
				keyIsString = keyIsString && kb.Kind() == types.String
				switch {
				case hasFuncField(m.Elem(), c13TCallback):
					add("registry", key)
				case an.TypeName(leaf) == "[]byte":
					add("dedup", key)
				case keyIsString:
					if es, isSt := m.Elem().Underlying().(*types.Struct); isSt && es.NumFields() == 0 {
						add("allow", key)
						allowIdx = i
					} else if eb, isB := m.Elem().Underlying().(*types.Basic); isB && eb.Kind() == types.Bool {
						add("allow", key)
						allowIdx = i
					}
				}
			}
			if isClient {
				switch an.TypeName(f.Type()) {
				case c13TSend:
					add("cliSend", key)
				case c13TSign:
					add("cliSign", key)
				case peerIDs:
					add("cliPeers", key)
				case "github.com/libp2p/go-libp2p/core/host.Host":
					add("cliHost", key)
				}
			}
		}
		if allowIdx >= 0 {
			for i := 0; i < st.NumFields(); i++ {
				if an.TypeName(st.Field(i).Type()) == peerIDs {
					add("compPeers", owner+"."+st.Field(i).Name())
				}
			}
		}
	}
	set := func(role string, dst *string) {
		if len(cand[role]) == 1 {
			*dst = cand[role][0]
		}
	}
	set("dedup", &n.dedup)
	set("registry", &n.registry)
	set("allow", &n.allow)
	set("compPeers", &n.compPeers)
	set("cliPeers", &n.cliPeers)
	set("cliHost", &n.cliHost)
	set("cliSign", &n.cliSign)
	set("cliSend", &n.cliSend)
	return n
}
