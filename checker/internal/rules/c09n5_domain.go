package rules

// C09-G5 (round 5): where the 4-byte domain type of a DomainName comes from.
//
// The signing root is domain-wrapped: compute_domain(domain_type, fork_version, genesis_validators_root). G4 decides
// that the domain type handed to eth2Cl.Domain/GenesisDomain is `container[name]`; this file decides the container:
//   - the answer of the beacon node (a value returned by a call made on / given the eth2wrap.Client) — the node's own
//     spec under the consensus-spec key (the keys are decided by G5 "spec key"); or
//   - a package-level table that nothing but its initializer writes, whose entries equal the consensus-spec
//     constants (protocol constants, frozen below) and are pairwise distinct: two names with one domain type make a
//     signature over one kind of object verify as the other kind.
// Anything else is not decided here.

import (
	"fmt"
	"go/ast"
	"go/constant"
	"go/token"
	"go/types"
	"sort"
	"strings"

	"golang.org/x/tools/go/packages"
	"golang.org/x/tools/go/ssa"

	"charonverif/internal/an"
	"charonverif/internal/rt"
)

// c09SpecDomainTypes: consensus-specs / builder-specs domain types (phase0, altair, capella, deneb beacon-chain.md
// "Domain types"; builder.md), as the 4 bytes in order.
var c09SpecDomainTypes = map[string][4]byte{
	"DOMAIN_BEACON_PROPOSER":                {0x00, 0x00, 0x00, 0x00},
	"DOMAIN_BEACON_ATTESTER":                {0x01, 0x00, 0x00, 0x00},
	"DOMAIN_RANDAO":                         {0x02, 0x00, 0x00, 0x00},
	"DOMAIN_DEPOSIT":                        {0x03, 0x00, 0x00, 0x00},
	"DOMAIN_VOLUNTARY_EXIT":                 {0x04, 0x00, 0x00, 0x00},
	"DOMAIN_SELECTION_PROOF":                {0x05, 0x00, 0x00, 0x00},
	"DOMAIN_AGGREGATE_AND_PROOF":            {0x06, 0x00, 0x00, 0x00},
	"DOMAIN_SYNC_COMMITTEE":                 {0x07, 0x00, 0x00, 0x00},
	"DOMAIN_SYNC_COMMITTEE_SELECTION_PROOF": {0x08, 0x00, 0x00, 0x00},
	"DOMAIN_CONTRIBUTION_AND_PROOF":         {0x09, 0x00, 0x00, 0x00},
	"DOMAIN_BLS_TO_EXECUTION_CHANGE":        {0x0A, 0x00, 0x00, 0x00},
	"DOMAIN_BLOB_SIDECAR":                   {0x0B, 0x00, 0x00, 0x00},
	"DOMAIN_APPLICATION_MASK":               {0x00, 0x00, 0x00, 0x01},
	"DOMAIN_APPLICATION_BUILDER":            {0x00, 0x00, 0x00, 0x01},
}

// c09DomFn: GetDomain as resolved by G4 through the verifier chain (nil: look it up by name).
var c09DomFn *ssa.Function

func c09G5DomainTypeSource(c *rt.Ctx) {
	const srcC = "GetDomain domain type source"
	fn := c09DomFn
	if fn == nil || fn.Blocks == nil {
		fn = c.FnOpt(c09SigningPkg + ".GetDomain")
	}
	if fn == nil || fn.Blocks == nil {
		c.Unsure(srcC, token.NoPos, "signing.GetDomain not found")
		return
	}
	sink := an.Invoke("app/eth2wrap.Client.Domain", "app/eth2wrap.Client.GenesisDomain")
	isClient := func(t types.Type) bool { return an.TypeName(t) == "app/eth2wrap.Client" }
	acc := newC09Acc()
	tables := map[*ssa.Global]ssa.Instruction{}
	seen := 0
	cfg := c09WalkCfg(fn, c09ChainStop...)
	cfg.OnEvent = func(st *an.H09State, ev *an.H09Event) {
		if ev.Kind != "call" || ev.Inlined {
			return
		}
		if cc := c09Common(ev); cc == nil || !sink(cc) {
			return
		}
		seen++
		if len(ev.Args) < 2 {
			acc.unsure(srcC, ev.In, "unexpected arity of eth2Cl.Domain/GenesisDomain")
			return
		}
		p := st.PathOf(c09PeelSV(st, ev.Args[1]))
		base := p.Base
		// a load of a package-level variable
		if u, ok := base.V.(*ssa.UnOp); ok && u.Op == token.MUL {
			if g, ok := u.X.(*ssa.Global); ok {
				if len(p.Steps) == 0 {
					acc.unsure(srcC, ev.In, "the domain type is package-level variable "+g.Name()+", not an entry selected by the domain name")
					return
				}
				if _, had := tables[g]; !had {
					tables[g] = ev.In
				}
				return
			}
		}
		// a value obtained from the beacon client
		if call, _, ok := st.ResultOf(base); ok && len(p.Steps) > 0 {
			if ce := st.CallEvent(call); ce != nil && !ce.Inlined {
				cc := c09Common(ce)
				from := cc.IsInvoke() && isClient(cc.Value.Type())
				for _, a := range cc.Args {
					if isClient(a.Type()) {
						from = true
					}
				}
				if from {
					acc.good(srcC, ev.In, "read from the beacon node's answer ("+c09EvName(ce)+")")
					return
				}
			}
		}
		if d, opaque := c09Describe(st, base); opaque || len(p.Steps) > 0 {
			acc.unsure(srcC, ev.In, "cannot tell where the domain type comes from: "+d)
		} else {
			// not an entry of anything: G4 reports that it is not selected by the name
			acc.unsure(srcC, ev.In, "the domain type is not read from the beacon node's spec or a constant table: "+d)
		}
	}
	res := an.H09Walk(fn, cfg)
	c09Incomplete(c, srcC, fn, res)
	if seen == 0 && res.Complete {
		c.Unsure(srcC, fn.Pos(), "no call of eth2Cl.Domain/GenesisDomain is reached in "+an.FuncName(fn))
	}
	acc.flush(c)
	var gs []*ssa.Global
	for g := range tables {
		gs = append(gs, g)
	}
	sort.Slice(gs, func(i, j int) bool { return gs[i].Pos() < gs[j].Pos() })
	for _, g := range gs {
		c09DomainTypeTable(c, g, srcC)
	}
}

// c09DomainTypeTable decides a package-level name → domain type table against the consensus-spec constants.
func c09DomainTypeTable(c *rt.Ctx, g *ssa.Global, srcC string) {
	name := g.Name()
	if g.Pkg == nil {
		c.Unsure(srcC, g.Pos(), "table "+name+" has no package")
		return
	}
	// nothing but the initializer writes the table: every use of the variable outside init is a load whose value is
	// only looked up, ranged over or measured
	for _, f := range an.PkgFuncs(g.Pkg) {
		for _, b := range f.Blocks {
			for _, in := range b.Instrs {
				uses := false
				for _, op := range in.Operands(nil) {
					if *op == ssa.Value(g) {
						uses = true
					}
				}
				if !uses {
					continue
				}
				if st, ok := in.(*ssa.Store); ok && st.Addr == ssa.Value(g) && f.Name() == "init" && f.Parent() == nil {
					continue
				}
				ld, ok := in.(*ssa.UnOp)
				if !ok || ld.Op != token.MUL {
					c.Unsure(srcC, in.Pos(), "table "+name+" is written or its address escapes outside its initializer")
					return
				}
				for _, r := range *ld.Referrers() {
					switch x := r.(type) {
					case *ssa.Lookup, *ssa.Range, *ssa.Index, *ssa.DebugRef:
						continue
					case *ssa.Call:
						if bi, ok := x.Call.Value.(*ssa.Builtin); ok && bi.Name() == "len" {
							continue
						}
					}
					c.Unsure(srcC, r.Pos(), "table "+name+" is used in a way the checker does not follow (it may be modified)")
					return
				}
			}
		}
	}
	// the initializer, read off the type-checked syntax
	var pkg *packages.Package
	for _, p := range c.P.Pkgs {
		if p.Types == g.Pkg.Pkg {
			pkg = p
		}
	}
	if pkg == nil || pkg.TypesInfo == nil {
		c.Unsure(srcC, g.Pos(), "no syntax for the package of table "+name)
		return
	}
	var initExpr ast.Expr
	for _, file := range pkg.Syntax {
		for _, d := range file.Decls {
			gd, ok := d.(*ast.GenDecl)
			if !ok || gd.Tok != token.VAR {
				continue
			}
			for _, s := range gd.Specs {
				vs := s.(*ast.ValueSpec)
				for i, id := range vs.Names {
					if pkg.TypesInfo.Defs[id] == g.Object() && len(vs.Values) == len(vs.Names) {
						initExpr = vs.Values[i]
					}
				}
			}
		}
	}
	lit, ok := ast.Unparen(initExpr).(*ast.CompositeLit)
	if initExpr == nil || !ok {
		c.Unsure(srcC, g.Pos(), "table "+name+" is not initialised by a composite literal")
		return
	}
	if _, isMap := pkg.TypesInfo.TypeOf(lit).Underlying().(*types.Map); !isMap {
		c.Unsure(srcC, g.Pos(), "table "+name+" is not a map keyed by the domain name")
		return
	}
	c.Good(srcC, g.Pos(), "constant table "+name)
	type entry struct {
		key string
		val [4]byte
		pos token.Pos
	}
	var entries []entry
	for _, el := range lit.Elts {
		kv, ok := el.(*ast.KeyValueExpr)
		if !ok {
			c.Unsure(srcC, el.Pos(), "entry of table "+name+" the checker cannot read")
			continue
		}
		ktv := pkg.TypesInfo.Types[kv.Key]
		if ktv.Value == nil || ktv.Value.Kind() != constant.String {
			c.Unsure(srcC, kv.Key.Pos(), "key of table "+name+" is not a constant string")
			continue
		}
		key := constant.StringVal(ktv.Value)
		val, ok := c09ByteArrayLit(pkg.TypesInfo, kv.Value)
		if !ok {
			c.Unsure("domain type of "+key, kv.Value.Pos(), "value of table "+name+" is not a literal of 4 constant bytes")
			continue
		}
		entries = append(entries, entry{key, val, kv.Value.Pos()})
	}
	for i, e := range entries {
		construct := "domain type of " + e.key
		if want, known := c09SpecDomainTypes[e.key]; known {
			c.Check(construct, e.pos, e.val == want, fmt.Sprintf("table %s gives 0x%x, the consensus-spec constant is 0x%x: signatures of this kind are verified against another domain", name, e.val, want))
			continue
		}
		// a name outside the reference: it must at least not share the domain type of another name
		var same []string
		for j, o := range entries {
			if j != i && o.val == e.val {
				same = append(same, o.key)
			}
		}
		if len(same) > 0 {
			c.Bad(construct, e.pos, fmt.Sprintf("table %s gives 0x%x, the domain type of %s as well", name, e.val, strings.Join(same, ", ")))
		} else {
			c.Unsure(construct, e.pos, "no consensus-spec reference value for this domain name")
		}
	}
}

// c09ByteArrayLit evaluates a composite literal of a [4]byte type with constant elements.
func c09ByteArrayLit(info *types.Info, e ast.Expr) (out [4]byte, ok bool) {
	lit, isLit := ast.Unparen(e).(*ast.CompositeLit)
	if !isLit {
		return out, false
	}
	arr, isArr := info.TypeOf(lit).Underlying().(*types.Array)
	if !isArr || arr.Len() != 4 {
		return out, false
	}
	next := int64(0)
	for _, el := range lit.Elts {
		v := el
		if kv, isKV := el.(*ast.KeyValueExpr); isKV {
			ktv := info.Types[kv.Key]
			if ktv.Value == nil {
				return out, false
			}
			k, exact := constant.Int64Val(constant.ToInt(ktv.Value))
			if !exact {
				return out, false
			}
			next = k
			v = kv.Value
		}
		tv := info.Types[v]
		if tv.Value == nil || next < 0 || next > 3 {
			return out, false
		}
		b, exact := constant.Uint64Val(constant.ToInt(tv.Value))
		if !exact || b > 255 {
			return out, false
		}
		out[next] = byte(b)
		next++
	}
	return out, true
}
