package rules

import (
	"golang.org/x/tools/go/ssa"

	"charonverif/internal/an"
)

// c01IsHelper: call is a static call of a function of fn's own package with a body (a helper of the wiring code).
func c01IsHelper(fn *ssa.Function, call *ssa.Call) bool {
	if call.Call.IsInvoke() {
		return false
	}
	h := call.Call.StaticCallee()
	return h != nil && h.Pkg != nil && h.Pkg == fn.Pkg && len(h.Blocks) > 0 && h.Parent() == nil
}

// c01FailingReturn: the return yields an error that is not the nil constant.
func c01FailingReturn(r *ssa.Return) bool {
	for _, v := range r.Results {
		if an.IsErrorType(v.Type()) && !an.IsNilConst(v) {
			return true
		}
	}
	return false
}

// c01MapParam maps a helper's parameter back to the argument of the (innermost first) helper calls in stack.
func c01MapParam(v ssa.Value, stack []*ssa.Call) ssa.Value {
	for i := len(stack) - 1; i >= 0; i-- {
		p, ok := an.Resolve(v).(*ssa.Parameter)
		if !ok {
			return v
		}
		callee := stack[i].Call.StaticCallee()
		if callee == nil || p.Parent() != callee {
			return v
		}
		idx := -1
		for j, q := range callee.Params {
			if q == p {
				idx = j
			}
		}
		if idx < 0 || idx >= len(stack[i].Call.Args) {
			return v
		}
		v = stack[i].Call.Args[idx]
	}
	return v
}

// c01BuiltWrapper: v is the result of a static call of a helper whose every return yields the same function literal
// (a wrapper factory). Returns the literal and the calls inside it that reach a wire function: calls through a field
// of a wireFuncs value, and calls of a helper parameter that is bound to a wire field read at the call site.
func c01BuiltWrapper(v ssa.Value) (*ssa.Function, map[ssa.CallInstruction]string) {
	call, ok := an.Resolve(v).(*ssa.Call)
	if !ok || call.Call.IsInvoke() {
		return nil, nil
	}
	h := call.Call.StaticCallee()
	if h == nil || len(h.Blocks) == 0 || h.Parent() != nil || call.Call.Signature().Results().Len() != 1 {
		return nil, nil
	}
	var g *ssa.Function
	for _, r := range an.Returns(h) {
		if len(r.Results) != 1 {
			return nil, nil
		}
		lit := c01FuncValue(r.Results[0])
		if lit == nil || lit.Parent() != h || (g != nil && g != lit) {
			return nil, nil
		}
		g = lit
	}
	if g == nil {
		return nil, nil
	}
	calls := c01FieldCalls(g)
	for _, in := range an.Instrs(g, true) {
		ci, ok := in.(ssa.CallInstruction)
		if !ok || ci.Common().IsInvoke() || ci.Common().StaticCallee() != nil {
			continue
		}
		if _, done := calls[ci]; done {
			continue
		}
		p := c01ParamOf(ci.Common().Value)
		if p == nil || p.Parent() != h {
			continue
		}
		for i, q := range h.Params {
			if q == p && i < len(call.Call.Args) {
				if f, ok := c01FieldValue(call.Call.Args[i]); ok {
					calls[ci] = f
				}
			}
		}
	}
	return g, calls
}
