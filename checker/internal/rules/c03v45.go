package rules

import (
	"fmt"
	"go/constant"
	"go/token"
	"go/types"
	"strings"

	"golang.org/x/tools/go/ssa"

	"charonverif/internal/an"
	"charonverif/internal/rt"
)

// ---------------------------------------------------------------------------------------------
// V4 — delivered payload is looked up by the decided hash

func c03ExtractOf(tuple ssa.Value, idx int) ssa.Value {
	if tuple == nil || tuple.Referrers() == nil {
		return nil
	}
	for _, ref := range *tuple.Referrers() {
		if ex, ok := ref.(*ssa.Extract); ok && ex.Index == idx {
			return ex
		}
	}
	return nil
}

// c03ErrFacts adds "err is non-nil" for every comparison of errv with nil.
func c03ErrFacts(f c03Facts, errv ssa.Value, d int) {
	if errv == nil || errv.Referrers() == nil || d > 3 {
		return
	}
	for _, ref := range *errv.Referrers() {
		switch x := ref.(type) {
		case *ssa.BinOp:
			if (x.Op == token.EQL || x.Op == token.NEQ) && (an.IsNilConst(x.X) || an.IsNilConst(x.Y)) {
				f.val(x, c03Bool(x.Op == token.NEQ))
			}
		case *ssa.ChangeType:
			c03ErrFacts(f, x, d+1)
		case *ssa.ChangeInterface:
			c03ErrFacts(f, x, d+1)
		case *ssa.Phi:
			if len(x.Edges) == 1 {
				c03ErrFacts(f, x, d+1)
			}
		}
	}
}

// c03V4Ctx chases the payload handed to a subscriber back to its origin.
type c03V4Ctx struct {
	c     *rt.Ctx
	eng   *c03Eng
	hashT string // term of the decided-hash parameter
	qcT   string // term of the qcommit parameter
	pos   token.Pos

	unmarshal                 c03Tri
	unmarshalWhy              string
	payload                   c03Tri
	payloadWhy                string
	presence                  c03Tri
	presenceWhy               string
	seenUnmarshal, seenLookup bool

	// helpers handing out the payload without a boolean/error status result: the activation of the
	// helper -> where its result is consumed in the caller
	links map[*c03Frame]c03Hop
}

func (x *c03V4Ctx) set(which *c03Tri, why *string, t c03Tri, w string) {
	switch {
	case t == c03No && *which != c03No:
		*which, *why = c03No, w
	case t == c03Maybe && *which == c03Yes:
		*which, *why = c03Maybe, w
	}
}

// cut: under the assumption, sink cannot be reached from `from` (for a return sink with a boolean
// status result: cannot be reached with a status other than false).
func (x *c03V4Ctx) cut(fr *c03Frame, f c03Facts, from, sink ssa.Instruction, statusIdx int) c03Tri {
	return c03CutThrough(x.eng, x.links, fr, f, from, sink, statusIdx)
}

// c03Hop says where the result of a helper activation is consumed in its caller. With all set, every
// return of the helper counts (the helper reports failure in a way that is only judged by what the
// caller does with its results); otherwise only the return under consideration.
type c03Hop struct {
	fr        *c03Frame
	call      *ssa.Call
	sink      ssa.Instruction
	statusIdx int
	all       bool
}

func c03CopyFacts(f c03Facts) c03Facts {
	f2 := c03NoFacts()
	for v, k := range f.byVal {
		f2.byVal[v] = k
	}
	for tm, k := range f.byTerm {
		f2.byTerm[tm] = k
	}
	return f2
}

// c03CutThrough: under assumption f (about values of activation fr), the sink cannot be reached from
// `from`. Where the sink is a return of a helper whose consumer is known (links), the question is carried
// into the caller: one case per return the helper can take after `from` under the assumption, with the
// constant results it yields there — whatever the helper's way of reporting failure (a boolean of either
// polarity, a status code, several results).
func c03CutThrough(base *c03Eng, links map[*c03Frame]c03Hop, fr *c03Frame, f c03Facts, from, sink ssa.Instruction, statusIdx int) c03Tri {
	ret, isRet := sink.(*ssa.Return)
	l, linked := links[fr]
	if !isRet || !linked || from.Parent() != fr.fn {
		return c03Cut(base, fr, f, from, sink, statusIdx)
	}
	if !an.Dominates(from, sink) && !l.all {
		return c03Maybe
	}
	eng := base.under(f)
	idx := 0
	for i, in := range from.Block().Instrs {
		if in == from {
			idx = i + 1
		}
	}
	w := eng.walk(fr, from.Block(), idx, map[*ssa.BasicBlock]bool{from.Block(): true})
	if w.truncated || w.opaque {
		return c03Maybe
	}
	rets := w.rets
	if from.Block() == sink.Block() && !l.all {
		rets = []c03Ret{{ret, c03Path{}}}
	}
	t := c03Yes
	for _, rt := range rets {
		if !l.all && rt.ret != ret {
			continue
		}
		f2 := c03CopyFacts(f)
		for i, rv := range returnValues(rt.ret) {
			if ex := c03ExtractOf(l.call, i); ex != nil {
				if k, st := eng.eval(fr, rv, rt.pe); st == c03Known {
					f2.val(ex, k)
				}
			} else if i == 0 && len(rt.ret.Results) == 1 {
				if k, st := eng.eval(fr, rv, rt.pe); st == c03Known {
					f2.val(l.call, k)
				}
			}
		}
		switch c03CutThrough(base, links, l.fr, f2, l.call, l.sink, l.statusIdx) {
		case c03No:
			t = c03No
		case c03Maybe:
			if t == c03Yes {
				t = c03Maybe
			}
		}
	}
	if t == c03No {
		// results the evaluator cannot follow (errors, pointers) may be what the caller tests
		res := l.call.Call.Signature().Results()
		for i := 0; i < res.Len(); i++ {
			if b, ok := res.At(i).Type().Underlying().(*types.Basic); ok && b.Info()&(types.IsBoolean|types.IsInteger) != 0 {
				continue
			}
			if an.IsErrorType(res.At(i).Type()) {
				continue // nil-ness of errors is evaluated
			}
			if ex := c03ExtractOf(l.call, i); ex != nil && c03HasBranchUse(ex, 0) {
				return c03Maybe
			}
		}
	}
	return t
}

// c03HasBranchUse: v is compared (directly or after a conversion) somewhere.
func c03HasBranchUse(v ssa.Value, d int) bool {
	if v.Referrers() == nil || d > 3 {
		return false
	}
	for _, ref := range *v.Referrers() {
		switch y := ref.(type) {
		case *ssa.BinOp:
			if c03IsCmp(y.Op) {
				return true
			}
		case *ssa.ChangeType, *ssa.ChangeInterface, *ssa.MakeInterface, *ssa.Phi:
			if c03HasBranchUse(y.(ssa.Value), d+1) {
				return true
			}
		case *ssa.Call:
			if b, ok := y.Type().Underlying().(*types.Basic); ok && b.Kind() == types.Bool {
				return true // handed to a predicate
			}
		}
	}
	return false
}

// c03Cut: under assumption f, sink cannot be reached from `from` (for a return sink with a boolean
// status result: cannot be reached with a status other than false).
func c03Cut(base *c03Eng, fr *c03Frame, f c03Facts, from, sink ssa.Instruction, statusIdx int) c03Tri {
	eng := base.under(f)
	if !an.Dominates(from, sink) {
		return c03Maybe
	}
	ret, isRet := sink.(*ssa.Return)
	if !isRet || statusIdx < 0 {
		reach, und := eng.reachableFrom(fr, from, sink)
		switch {
		case und:
			return c03Maybe
		case reach:
			return c03No
		}
		return c03Yes
	}
	idx := 0
	for i, in := range from.Block().Instrs {
		if in == from {
			idx = i + 1
		}
	}
	w := eng.walk(fr, from.Block(), idx, map[*ssa.BasicBlock]bool{from.Block(): true})
	if w.truncated {
		return c03Maybe
	}
	check := func(pe c03Path) c03Tri {
		res := returnValues(ret)
		k, st := eng.eval(fr, res[statusIdx], pe)
		if st == c03Known && k.Kind() == constant.Bool && !constant.BoolVal(k) {
			return c03Yes
		}
		if w.opaque || st == c03Opaque {
			return c03Maybe
		}
		return c03No
	}
	if from.Block() == sink.Block() {
		return check(c03Path{})
	}
	out := c03Yes
	for _, r := range w.rets {
		if r.ret != ret {
			continue
		}
		switch check(r.pe) {
		case c03No:
			return c03No
		case c03Maybe:
			out = c03Maybe
		}
	}
	return out
}

// lift translates a sink of frame fr into the frame `to` further up the chain (the call site).
func c03Lift(fr, to *c03Frame, sink ssa.Instruction) (ssa.Instruction, bool) {
	for fr != to {
		if fr == nil || fr.up == nil {
			return nil, false
		}
		sink = fr.site
		fr = fr.up
	}
	return sink, true
}

func (x *c03V4Ctx) viaRange(fr *c03Frame, v ssa.Value, d int) bool {
	if d > 6 {
		return false
	}
	switch y := an.Unwrap(v).(type) {
	case *ssa.Phi:
		for _, e := range y.Edges {
			if x.viaRange(fr, e, d+1) {
				return true
			}
		}
	case *ssa.Extract:
		if nx, ok := y.Tuple.(*ssa.Next); ok {
			if rg, ok := nx.Iter.(*ssa.Range); ok {
				return x.isValuesMap(x.eng.term(fr, rg.X)) != ""
			}
		}
	}
	return false
}

// isValuesMap: the term spells Values() / .values of some message; returns the receiver's term.
func (x *c03V4Ctx) isValuesMap(t string) string {
	for _, pre := range []string{"c:" + c03Q + ".Msg.Values(", "f:" + c03Q + ".Msg.values("} {
		if strings.HasPrefix(t, pre) && strings.HasSuffix(t, ")") {
			return strings.TrimPrefix(t[len(pre):len(t)-1], "&")
		}
	}
	return ""
}

// chase decides where payload v (a value of frame fr, consumed at sink) comes from. statusIdx is the
// index of the boolean status result when sink is a return of a (value, ok) helper, else -1.
func (x *c03V4Ctx) chase(fr *c03Frame, v ssa.Value, sink ssa.Instruction, statusIdx int, d int) {
	if d > 6 {
		x.set(&x.payload, &x.payloadWhy, c03Maybe, "the payload passes through too many helpers")
		return
	}
	rv, rfr := x.eng.resolve(fr, v)
	if rfr != fr {
		s, ok := c03Lift(fr, rfr, sink)
		if !ok {
			x.set(&x.payload, &x.payloadWhy, c03Maybe, "the payload is a parameter whose call site is unknown")
			return
		}
		sink, fr, statusIdx = s, rfr, -1
	}
	ex, isEx := rv.(*ssa.Extract)
	if !isEx {
		switch y := rv.(type) {
		case *ssa.Lookup:
			x.lookup(fr, y, rv, sink, statusIdx)
			return
		case *ssa.Phi:
			if x.viaRange(fr, y, 0) {
				x.set(&x.payload, &x.payloadWhy, c03No, "the payload is an arbitrary entry of the message's values map, not the entry of the decided hash: a value nobody agreed on is handed to the duty store")
				return
			}
		}
		x.set(&x.payload, &x.payloadWhy, c03Maybe, "the payload is not the result of anypb UnmarshalNew")
		return
	}
	if lk, ok := ex.Tuple.(*ssa.Lookup); ok && ex.Index == 0 {
		x.lookup(fr, lk, rv, sink, statusIdx)
		return
	}
	if nx, ok := ex.Tuple.(*ssa.Next); ok {
		if rg, ok := nx.Iter.(*ssa.Range); ok && x.isValuesMap(x.eng.term(fr, rg.X)) != "" {
			x.set(&x.payload, &x.payloadWhy, c03No, "the payload is an arbitrary entry of the message's values map, not the entry of the decided hash: a value nobody agreed on is handed to the duty store")
			return
		}
	}
	call, ok := ex.Tuple.(*ssa.Call)
	if !ok || call.Call.IsInvoke() {
		x.set(&x.payload, &x.payloadWhy, c03Maybe, "the payload is not the result of anypb UnmarshalNew")
		return
	}
	if f := call.Call.StaticCallee(); f != nil && f.Name() == "UnmarshalNew" && len(call.Call.Args) == 1 && ex.Index == 0 {
		x.seenUnmarshal = true
		errv := c03ExtractOf(call, 1)
		if errv == nil {
			x.set(&x.unmarshal, &x.unmarshalWhy, c03No, "the unmarshal error is discarded")
		} else {
			f := c03NoFacts()
			c03ErrFacts(f, errv, 0)
			if t := x.eng.term(fr, errv); t != "" {
				f.term("zero?("+t+")", c03Bool(false)) // also where the error is handed to a helper
			}
			if len(f.byVal)+len(f.byTerm) == 0 {
				x.set(&x.unmarshal, &x.unmarshalWhy, c03Maybe, "the unmarshal error is never compared with nil where it could be followed")
			} else {
				switch x.cut(fr, f, call, sink, statusIdx) {
				case c03No:
					x.set(&x.unmarshal, &x.unmarshalWhy, c03No, "the subscribers can be reached although the error is non-nil")
				case c03Maybe:
					x.set(&x.unmarshal, &x.unmarshalWhy, c03Maybe, "whether a non-nil error keeps the payload from the subscribers could not be decided")
				}
			}
		}
		x.chase(fr, call.Call.Args[0], sink, statusIdx, d+1)
		return
	}
	// an in-package helper returning (payload, status)
	nf := x.eng.enter(fr, call)
	if nf == nil {
		x.set(&x.payload, &x.payloadWhy, c03Maybe, "the payload is not the result of anypb UnmarshalNew")
		return
	}
	res := nf.fn.Signature.Results()
	j := res.Len() - 1
	isBool, plain := false, false
	if j == ex.Index || j < 0 {
		plain = true
	} else if b, ok := res.At(j).Type().Underlying().(*types.Basic); ok && b.Kind() == types.Bool {
		isBool = true
	} else if !an.IsErrorType(res.At(j).Type()) {
		plain = true
	}
	if plain {
		// no boolean/error status in last position: whatever the helper reports is judged where the
		// caller consumes it (see cut)
		if x.links == nil {
			x.links = map[*c03Frame]c03Hop{}
		}
		x.links[nf] = c03Hop{fr, call, sink, statusIdx, true}
		n := 0
		for _, r := range an.Returns(nf.fn) {
			rr := returnValues(r)
			if len(rr) <= ex.Index || an.IsNilConst(rr[ex.Index]) {
				continue // hands out no payload
			}
			n++
			x.chase(nf, rr[ex.Index], r, -1, d+1)
		}
		if n == 0 {
			x.set(&x.payload, &x.payloadWhy, c03Maybe, "the helper producing the payload never succeeds")
		}
		return
	}
	statv := c03ExtractOf(call, j)
	if statv == nil {
		x.set(&x.presence, &x.presenceWhy, c03No, "the status result of the helper producing the payload is discarded")
	} else {
		f := c03NoFacts()
		if isBool {
			f.val(statv, c03Bool(false))
		} else {
			c03ErrFacts(f, statv, 0)
		}
		switch x.cut(fr, f, call, sink, statusIdx) {
		case c03No:
			x.set(&x.presence, &x.presenceWhy, c03No, "the subscribers can be reached although the helper producing the payload reported failure")
		case c03Maybe:
			x.set(&x.presence, &x.presenceWhy, c03Maybe, "whether a failure reported by the helper producing the payload keeps it from the subscribers could not be decided")
		}
	}
	n := 0
	for _, r := range an.Returns(nf.fn) {
		rr := returnValues(r)
		if len(rr) <= j {
			continue
		}
		if isBool {
			if k, ok := rr[j].(*ssa.Const); ok && k.Value != nil && k.Value.Kind() == constant.Bool && !constant.BoolVal(k.Value) {
				continue // failure return
			}
			n++
			x.chase(nf, rr[ex.Index], r, j, d+1)
		} else {
			if !an.IsNilConst(rr[j]) {
				if _, isPhi := rr[j].(*ssa.Phi); !isPhi {
					continue // returns an error
				}
			}
			n++
			x.chase(nf, rr[ex.Index], r, -1, d+1)
		}
	}
	if n == 0 {
		x.set(&x.payload, &x.payloadWhy, c03Maybe, "the helper producing the payload never succeeds")
	}
}

func (x *c03V4Ctx) lookup(fr *c03Frame, lk *ssa.Lookup, anyV ssa.Value, sink ssa.Instruction, statusIdx int) {
	x.seenLookup = true
	if !x.seenUnmarshal {
		x.set(&x.payload, &x.payloadWhy, c03Maybe, "the payload is not the result of anypb UnmarshalNew")
	}
	recv := x.isValuesMap(x.eng.term(fr, lk.X))
	kt := x.eng.term(fr, lk.Index)
	switch {
	case recv == "":
		x.set(&x.payload, &x.payloadWhy, c03Maybe, "the payload is looked up in a map that is not Msg.Values()")
	case kt == "":
		x.set(&x.payload, &x.payloadWhy, c03Maybe, "the key of the values lookup could not be traced")
	case kt != x.hashT:
		x.set(&x.payload, &x.payloadWhy, c03No, "the payload is not looked up by the decided value hash")
	default:
		r := strings.TrimPrefix(recv, "x0:")
		if !strings.HasPrefix(r, "ta:"+c03Q+".Msg(ix("+x.qcT+",") {
			x.set(&x.payload, &x.payloadWhy, c03Maybe, "the values map does not belong to a message of the qcommit parameter")
		}
	}
	if lk.CommaOk {
		okv := c03ExtractOf(lk, 1)
		if okv == nil {
			x.set(&x.presence, &x.presenceWhy, c03No, "the ok result of the values lookup is discarded")
			return
		}
		switch x.cut(fr, c03NoFacts().val(okv, c03Bool(false)), lk, sink, statusIdx) {
		case c03No:
			x.set(&x.presence, &x.presenceWhy, c03No, "the subscribers can be reached although the decided hash is not in the values map")
		case c03Maybe:
			x.set(&x.presence, &x.presenceWhy, c03Maybe, "whether a missing hash keeps the subscribers from being called could not be decided")
		}
		return
	}
	// plain lookup: a missing hash yields nil; accept a nil test of the looked-up value
	f := c03NoFacts()
	c03ErrFacts(f, anyV, 0)     // comparisons with nil: "non-nil" facts ...
	for b, k := range f.byVal { // ... inverted: assume the value IS nil
		f.byVal[b] = c03Bool(!constant.BoolVal(k))
	}
	if len(f.byVal) == 0 || x.cut(fr, f, lk, sink, statusIdx) != c03Yes {
		x.set(&x.presence, &x.presenceWhy, c03Maybe, "plain lookup: a missing hash yields a nil payload")
	}
}

func c03V4(c *rt.Ctx) {
	nd := c.Fn(c03Q + ".newDefinition")
	var dec *ssa.Function
	for _, in := range an.Instrs(nd, false) {
		st, ok := in.(*ssa.Store)
		if !ok {
			continue
		}
		fa, ok := st.Addr.(*ssa.FieldAddr)
		if !ok || c03Strip(an.FieldKey(fa.X.Type(), fa.Field)) != c03P+".Definition.Decide" {
			continue
		}
		var f *ssa.Function
		val := an.Resolve(st.Val)
		// a constructor returning the callback (`Decide: newDecide(subs, cb)`)
		if call, ok := val.(*ssa.Call); ok && !call.Call.IsInvoke() && call.Call.StaticCallee() != nil {
			if g := an.Orig(call.Call.StaticCallee()); g.Pkg == nd.Pkg {
				if rets := an.Returns(g); len(rets) == 1 && len(rets[0].Results) == 1 {
					val = an.Resolve(rets[0].Results[0])
				}
			}
		}
		switch x := val.(type) {
		case *ssa.MakeClosure:
			f, _ = x.Fn.(*ssa.Function)
		case *ssa.Function:
			f = x
		}
		if f == nil || dec != nil {
			c.Bail("newDefinition: Definition.Decide is not assigned exactly one function")
		}
		dec = f
	}
	if dec == nil {
		c.Bail("newDefinition: no assignment of Definition.Decide found")
	}
	if len(dec.Params) != 5 {
		c.Bail("Decide callback: unexpected signature")
	}
	eng := c03NewEng(nd.Pkg)
	// Msg.Values returns the values field
	vals := c.Fn(c03Q + ".Msg.Values")
	{
		vfr := eng.root(vals)
		rets := an.Returns(vals)
		tri, n := c03Yes, 0
		if len(rets) == 0 || len(vals.Params) == 0 {
			tri = c03Maybe
		}
		for _, ret := range rets {
			if tri == c03Maybe && n == 0 && (len(rets) == 0 || len(vals.Params) == 0) {
				break
			}
			res := returnValues(ret)
			rv, _ := eng.resolve(vfr, res[0])
			if an.IsNilConst(rv) {
				continue // no map at all: every lookup fails
			}
			t := eng.term(vfr, rv)
			want := "f:" + c03Q + ".Msg.values(" + eng.term(vfr, vals.Params[0]) + ")"
			switch {
			case strings.ReplaceAll(t, "(&", "(") == want:
				n++
			case t != "":
				tri = c03No
			default:
				switch y := rv.(type) {
				case *ssa.Call:
					// a copy of / a function of the field is not decided here; anything else is another map
					uses := false
					for _, a := range y.Call.Args {
						if strings.ReplaceAll(eng.term(vfr, a), "(&", "(") == want {
							uses = true
						}
					}
					if !uses {
						tri = c03No
					} else if tri == c03Yes {
						tri = c03Maybe
					}
				case *ssa.MakeMap, *ssa.Alloc:
					tri = c03No // a map built or obtained elsewhere
				default:
					if tri == c03Yes {
						tri = c03Maybe
					}
				}
			}
		}
		if n == 0 && tri == c03Yes {
			tri = c03No
		}
		tri.report(c, "Msg.Values returns the recomputed-hash map", vals.Pos(), "", "Msg.Values() does not return the receiver's values field (the map keyed by recomputed hashes)",
			"what Msg.Values() returns could not be traced")
	}
	// subscriber calls in the callback and the in-package helpers it enters
	type sinkT struct {
		fr *c03Frame
		ci ssa.CallInstruction
	}
	var sinks []sinkT
	seen := map[*ssa.Function]bool{}
	var scan func(fr *c03Frame, d int)
	scan = func(fr *c03Frame, d int) {
		if seen[fr.fn] || d > 3 {
			return
		}
		seen[fr.fn] = true
		for _, in := range an.Instrs(fr.fn, false) {
			ci, ok := in.(ssa.CallInstruction)
			if !ok || ci.Common().IsInvoke() {
				continue
			}
			if ci.Common().StaticCallee() == nil && an.TypeName(ci.Common().Value.Type()) == c03Q+".subscriber" {
				sinks = append(sinks, sinkT{fr, ci})
				continue
			}
			if nf := eng.enter(fr, ci); nf != nil {
				scan(nf, d+1)
			}
		}
		for _, a := range fr.fn.AnonFuncs {
			// a function literal of the callback: calls in it cannot be ordered against the checks
			for _, in := range an.Instrs(a, true) {
				if ci, ok := in.(ssa.CallInstruction); ok && !ci.Common().IsInvoke() && ci.Common().StaticCallee() == nil &&
					an.TypeName(ci.Common().Value.Type()) == c03Q+".subscriber" {
					c.Unsure("Decide callback subscriber call", ci.Pos(), "a subscriber is called from a function literal inside the callback")
				}
			}
		}
	}
	root := eng.root(dec)
	scan(root, 0)
	if len(sinks) == 0 {
		c.Bail("Decide callback: no call of a subscriber found")
	}
	for _, sk := range sinks {
		args := sk.ci.Common().Args
		if len(args) != 3 {
			c.Unsure("Decide callback subscriber call", sk.ci.Pos(), "unexpected subscriber arity")
			continue
		}
		x := &c03V4Ctx{c: c, eng: eng, hashT: eng.term(root, dec.Params[2]), qcT: eng.term(root, dec.Params[4]), pos: sk.ci.Pos()}
		x.chase(sk.fr, args[2], sk.ci, -1, 0)
		if !x.seenUnmarshal {
			x.set(&x.unmarshal, &x.unmarshalWhy, c03Maybe, "no UnmarshalNew call found on the way of the payload")
		}
		if !x.seenLookup && x.payload == c03Yes {
			x.set(&x.payload, &x.payloadWhy, c03Maybe, "the payload is not a lookup in a values map")
		}
		if !x.seenLookup {
			x.set(&x.presence, &x.presenceWhy, c03Maybe, "no lookup of the decided hash found")
		}
		x.unmarshal.report(c, "Decide callback checks the unmarshal error", x.pos, "", "subscribers are called although unmarshalling the decided value failed: "+x.unmarshalWhy, x.unmarshalWhy)
		x.payload.report(c, "Decide callback payload is Values()[valueHash] of a qcommit message", x.pos, "UnmarshalNew(qcommit[i].(Msg).Values()[valueHash])", x.payloadWhy, x.payloadWhy)
		x.presence.report(c, "Decide callback checks presence of the decided hash", x.pos, "", "subscribers are called although the decided hash is not in the values map: "+x.presenceWhy, x.presenceWhy)
	}
}

// ---------------------------------------------------------------------------------------------
// V5 — re-proposal of the justified prepared value

func c03V5(c *rt.Ctx) {
	r := c03NewRun(c)
	uqrc := c03ConstOf(c, c03P, "UponQuorumRoundChanges")
	n, untraced := 0, 0
	pps := c03PrePrepares(r)
	var cell *c03Cell
	func() {
		defer func() { _ = recover() }()
		cell = c03InputCell(r, pps[0].inner.Common().Args[5].Type())
	}()
	seen := map[ssa.Instruction]bool{}
	for _, b := range pps {
		v, vfr, use := b.value(r)
		origins, hops, traced := r.pvOrigins(vfr, v, use, -1, 0)
		if !traced || len(origins) == 0 {
			if cell == nil || r.cellOf(v) != cell {
				untraced++
			}
			continue
		}
		n++
		if seen[use] {
			continue
		}
		seen[use] = true
		pos := use.Pos()
		key := "Run re-proposal of pv only on the ok edge of getSingleJustifiedPrPv"
		tri, why := hops, "the ok result of a helper handing out the prepared value is not checked"
		for _, o := range origins {
			okv := c03ExtractOf(o.g, 2)
			switch {
			case okv == nil:
				tri, why = c03No, "the ok result of getSingleJustifiedPrPv is discarded"
			default:
				t := c03CutThrough(r.eng, r.pvLinks, o.fr, c03NoFacts().val(okv, c03Bool(false)), o.g, o.sink, o.statusIdx)
				if t == c03No || (t == c03Maybe && tri == c03Yes) {
					tri, why = t, "the broadcast is reachable although ok is false"
				}
			}
		}
		tri.report(c, key, pos, "", "a PRE-PREPARE proposes a 'prepared value' that is not backed by a quorum of PREPAREs: "+why,
			"whether the broadcast can be reached when ok is false could not be decided")
		g, gfr := origins[0].g, origins[0].fr
		if len(origins) > 1 {
			c.Unsure("Run re-proposal pv extracted from classify's justification", pos, "the prepared value may come from several getSingleJustifiedPrPv calls")
			continue
		}
		if len(g.Call.Args) == 2 {
			c03TermIs(c, r, "Run re-proposal pv extracted from classify's justification", pos, gfr, g.Call.Args[1], "just",
				"pv is not extracted from the justified ROUND-CHANGE quorum returned by classify")
		} else {
			c.Unsure("Run re-proposal pv extracted from classify's justification", pos, "unexpected arity of getSingleJustifiedPrPv")
		}
		c03TermIs(c, r, "Run re-proposal carries classify's justification", pos, b.fr, b.args[8], "just",
			"the PRE-PREPARE re-proposing pv does not carry the ROUND-CHANGE quorum that justifies it")
		ok, und, wit := r.onlyUponRules(vfr, use, uqrc)
		switch {
		case ok:
			c.Good("Run re-proposal only upon UponQuorumRoundChanges", pos, "")
		case und:
			c.Unsure("Run re-proposal only upon UponQuorumRoundChanges", pos, "reachability of the broadcast per rule could not be decided")
		default:
			c.Bad("Run re-proposal only upon UponQuorumRoundChanges", pos, fmt.Sprintf("a prepared value is proposed outside the UponQuorumRoundChanges rule (rule value %d)", wit))
		}
	}
	switch {
	case n > 0:
		c.Good("Run UponQuorumRoundChanges re-proposes the justified prepared value", r.classify.Pos(), fmt.Sprintf("%d PRE-PREPARE broadcast(s) carry pv", n))
	case untraced > 0:
		c.Unsure("Run UponQuorumRoundChanges re-proposes the justified prepared value", r.classify.Pos(), "the value of a PRE-PREPARE broadcast could not be traced")
	default:
		c.Bad("Run UponQuorumRoundChanges re-proposes the justified prepared value", r.classify.Pos(),
			"no PRE-PREPARE broadcast carries pv of getSingleJustifiedPrPv: a new leader proposes its own value although another may already be prepared (and decided elsewhere)")
	}
	// classify hands over the checked result of getJustifiedQrc
	k := c03NewClassify(c)
	outs := k.withRule(uqrc, "UponQuorumRoundChanges")
	if len(outs) == 0 {
		c.Unsure("classify UponQuorumRoundChanges", k.fn.Pos(), "no return of UponQuorumRoundChanges found")
		return
	}
	checked, over := c03Yes, c03Yes
	var cpos, opos token.Pos
	cwhy := ""
	worse := func(cur *c03Tri, pos *token.Pos, t c03Tri, p token.Pos) {
		if *pos == token.NoPos {
			*pos = p
		}
		if (t == c03No && *cur != c03No) || (t == c03Maybe && *cur == c03Yes) {
			*cur, *pos = t, p
		}
	}
	for _, o := range outs {
		pos := o.pt.pos()
		jv, jfr := k.eng.resolve(o.jfr, o.just)
		asQrc := func(v ssa.Value) *ssa.Call {
			if ex, ok := v.(*ssa.Extract); ok && ex.Index == 0 {
				return c03Static(ex.Tuple, "getJustifiedQrc")
			}
			return nil
		}
		call := asQrc(jv)
		if call == nil {
			// handed out by a wrapper returning getJustifiedQrc's results
			if dv, dfr := k.eng.resolveDeep(jfr, jv, 0); asQrc(dv) != nil {
				jv, jfr, call = dv, dfr, asQrc(dv)
			}
		}
		if call == nil {
			if _, isPhi := jv.(*ssa.Phi); isPhi {
				worse(&checked, &cpos, c03Maybe, pos)
				cwhy = "the list returned with UponQuorumRoundChanges is merged from several assignments"
			} else {
				worse(&checked, &cpos, c03No, pos)
				cwhy = "the justification returned with UponQuorumRoundChanges is not the result of getJustifiedQrc"
			}
			continue
		}
		okv := c03ExtractOf(call, 1)
		if okv == nil {
			worse(&checked, &cpos, c03No, pos)
			cwhy = "the ok result of getJustifiedQrc is discarded"
		} else {
			reach, und := k.eng.reachableUnder(o, c03NoFacts().val(okv, c03Bool(false)))
			switch {
			case und:
				worse(&checked, &cpos, c03Maybe, pos)
				cwhy = "reachability of the return when ok is false could not be decided"
			case reach:
				worse(&checked, &cpos, c03No, pos)
				cwhy = "the ok result of getJustifiedQrc does not gate the rule"
			default:
				worse(&checked, &cpos, c03Yes, pos)
			}
		}
		a := call.Call.Args
		if len(a) != 3 {
			worse(&over, &opos, c03Maybe, pos)
			continue
		}
		if k.eng.term(jfr, a[1]) != "c:"+c03P+".flatten("+k.bufT+")" {
			if k.eng.term(jfr, a[1]) == "" {
				worse(&over, &opos, c03Maybe, pos)
			} else {
				worse(&over, &opos, c03No, pos)
			}
			continue
		}
		worse(&over, &opos, k.equalAt(o, k.eng.term(jfr, a[2]), "m:Round("+k.msgT+")"), pos)
	}
	checked.report(c, "classify UponQuorumRoundChanges returns the checked getJustifiedQrc result", cpos, "", cwhy, cwhy)
	over.report(c, "classify getJustifiedQrc over the buffer and msg.Round()", opos, "",
		"the justified ROUND-CHANGE quorum is not computed from the buffered messages of the message's round", "the arguments of getJustifiedQrc could not be traced")
}
