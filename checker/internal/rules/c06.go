package rules

import (
	"go/constant"
	"go/token"
	"go/types"
	"os"
	"sort"
	"strings"

	"golang.org/x/tools/go/ssa"

	"charonverif/internal/an"
	"charonverif/internal/rt"
)

func init() {
	Register(&Prop{
		ID: "C06",
		Decides: "dutydb.MemDB: (D1) all data/query fields only under mu, *Unsafe helpers only with mu held; (D2) a store never writes a data map on the existing-key branch, " +
			"every insertion is insert-if-absent and the existing-key branch contains a clash rejection; (D3) Store refuses expired/exempt duties before storing; " +
			"(D4) every Await* registers its query and resolves in one critical section, Store reaches the matching resolve after every store call on every path, " +
			"resolve keeps every unresolved uncancelled query; (D5) data is deleted only by deleteDutyUnsafe driven by deadliner.C(); " +
			"(D6) a store function reports success only after every key it maintains was looked up, and never swallows the error of a nested store.",
		NotDecided: "equality of the *content* of two answers (value comparison functions are trusted), promptness in time, behaviour over interleavings beyond the lock discipline.",
		Run:        c06,
		Mutants: []Mutant{
			{ID: "C06-D1-unlock-before-resolve", File: "core/dutydb/memory.go", Expect: "D1",
				Old: "\t\tCancel:   cancel,\n\t})\n\tdb.resolveAttQueriesUnsafe()\n\tdb.mu.Unlock()",
				New: "\t\tCancel:   cancel,\n\t})\n\tdb.mu.Unlock()\n\tdb.resolveAttQueriesUnsafe()"},
			{ID: "C06-D2-overwrite-proposal", File: "core/dutydb/memory.go", Expect: "D2",
				Old: "\t\tif existingRoot != providedRoot {\n\t\t\treturn errors.New(\"clashing blocks\")\n\t\t}\n",
				New: "\t\tif existingRoot != providedRoot {\n\t\t\treturn errors.New(\"clashing blocks\")\n\t\t}\n\n\t\tdb.proDuties[uint64(slot)] = &proposal.VersionedProposal\n"},
			{ID: "C06-D2-no-clash-check", File: "core/dutydb/memory.go", Expect: "D2",
				Old: "\t\tif existingRoot != contribRoot {\n\t\t\treturn errors.New(\"clashing sync contributions\")\n\t\t}\n",
				New: "\t\t_, _ = existingRoot, contribRoot\n"},
			{ID: "C06-D2-unconditional-insert", File: "core/dutydb/memory.go", Expect: "D2",
				Old: "\t} else {\n\t\tdb.attDuties[aKey] = &attData.Data\n\t}",
				New: "\t}\n\n\tdb.attDuties[aKey] = &attData.Data"},
			{ID: "C06-D6-early-success", File: "core/dutydb/memory.go", Expect: "D6",
				Old: "\tif value, ok := db.attPubKeys[pKey]; ok {\n\t\tif *value != *pubkeyStore {\n\t\t\treturn errors.New(\"clashing public key\", z.Any(\"pKey\", pKey))\n\t\t}\n",
				New: "\tif value, ok := db.attPubKeys[pKey]; ok {\n\t\tif *value != *pubkeyStore {\n\t\t\treturn errors.New(\"clashing public key\", z.Any(\"pKey\", pKey))\n\t\t}\n\n\t\treturn nil // already stored\n"},
			{ID: "C06-D3-ignore-status", File: "core/dutydb/memory.go", Expect: "D3",
				Old: "status == core.DeadlineExpired || status == core.DeadlineExempt {",
				New: "status == core.DeadlineExempt {"},
			{ID: "C06-D4-skip-resolve", File: "core/dutydb/memory.go", Expect: "D4",
				Old: "\t\tdb.resolveAttQueriesUnsafe()\n\tcase core.DutyAggregator:",
				New: "\t\tif len(unsignedSet) > 1 {\n\t\t\tdb.resolveAttQueriesUnsafe()\n\t\t}\n\tcase core.DutyAggregator:"},
			{ID: "C06-D4-drop-unresolved", File: "core/dutydb/memory.go", Expect: "D4",
				Old: "\t\tvalue, ok := db.proDuties[query.Key]\n\t\tif !ok {\n\t\t\tunresolved = append(unresolved, query)\n\t\t\tcontinue\n\t\t}",
				New: "\t\tvalue, ok := db.proDuties[query.Key]\n\t\tif !ok {\n\t\t\tcontinue\n\t\t}"},
			{ID: "C06-D4-wrong-resolver", File: "core/dutydb/memory.go", Expect: "D4",
				Old: "\t\tCancel:   cancel,\n\t})\n\tdb.resolveContribQueriesUnsafe()\n\tdb.mu.Unlock()",
				New: "\t\tCancel:   cancel,\n\t})\n\tdb.resolveAggQueriesUnsafe()\n\tdb.mu.Unlock()"},
			{ID: "C06-D5-delete-on-clash", File: "core/dutydb/memory.go", Expect: "D5",
				Old: "\t\tif existingRoot != providedRoot {\n\t\t\treturn errors.New(\"clashing blocks\")",
				New: "\t\tif existingRoot != providedRoot {\n\t\t\tdelete(db.proDuties, uint64(slot))\n\t\t\treturn errors.New(\"clashing blocks\")"},
			// --- added with the refactor-robust formulation (h06): one mutant per mechanism that was generalised
			{ID: "C06-D2-insert-other-key", File: "core/dutydb/memory.go", Expect: "D2", // key equivalence + dominance of the lookup
				Old: "\t} else {\n\t\tdb.attDuties[aKey] = &attData.Data\n\t}",
				New: "\t} else {\n\t\tdb.attDuties[attKey{Slot: aKey.Slot}] = &attData.Data\n\t}"},
			{ID: "C06-D2-compare-new-with-new", File: "core/dutydb/memory.go", Expect: "D2", // the comparison must involve the stored value
				Old: "\t\tif existingRoot != contribRoot {\n\t\t\treturn errors.New(\"clashing sync contributions\")",
				New: "\t\tif _ = existingRoot; contribRoot != contribRoot {\n\t\t\treturn errors.New(\"clashing sync contributions\")"},
			{ID: "C06-D2-clash-check-only-sometimes", File: "core/dutydb/memory.go", Expect: "D2", // must-pass: every success path of an existing key is compared
				Old: "\t\tif value.String() != attData.Data.String() {",
				New: "\t\tif attData.Duty.CommitteeIndex != 0 && value.String() != attData.Data.String() {"},
			{ID: "C06-D3-status-conjunction", File: "core/dutydb/memory.go", Expect: "D3", // valuation-driven reachability
				Old: "status == core.DeadlineExpired || status == core.DeadlineExempt {",
				New: "status == core.DeadlineExpired && status == core.DeadlineExempt {"},
			{ID: "C06-D3-proposer-bypasses-check", File: "core/dutydb/memory.go", Expect: "D3",
				Old: "status == core.DeadlineExpired || status == core.DeadlineExempt {",
				New: "duty.Type != core.DutyProposer && (status == core.DeadlineExpired || status == core.DeadlineExempt) {"},
			{ID: "C06-D3-store-outside-store", File: "core/dutydb/memory.go", Expect: "D3", // confinement of the storing functions
				Old: "\tdb.mu.Lock()\n\tdefer db.mu.Unlock()\n\n\tkey := pkKey{",
				New: "\tdb.mu.Lock()\n\tdefer db.mu.Unlock()\n\n\t_ = db.storeProposalUnsafe(core.VersionedProposal{})\n\n\tkey := pkKey{"},
			{ID: "C06-D4-resolve-before-register", File: "core/dutydb/memory.go", Expect: "D4", // event → resolver order inside the critical section
				Old: "\tdb.mu.Lock()\n\tdb.proQueries = append(db.proQueries, proQuery{\n\t\tKey:      slot,\n\t\tResponse: response,\n\t\tCancel:   cancel,\n\t})\n\tdb.resolveProQueriesUnsafe()\n",
				New: "\tdb.mu.Lock()\n\tdb.resolveProQueriesUnsafe()\n\tdb.proQueries = append(db.proQueries, proQuery{\n\t\tKey:      slot,\n\t\tResponse: response,\n\t\tCancel:   cancel,\n\t})\n"},
			{ID: "C06-D4-drop-live-queries", File: "core/dutydb/memory.go", Expect: "D4", // polarity of the cancel test (select summary)
				Old: "\tfor _, query := range db.aggQueries {\n\t\tif cancelled(query.Cancel) {",
				New: "\tfor _, query := range db.aggQueries {\n\t\tif !cancelled(query.Cancel) {"},
			{ID: "C06-D4-write-back-lost", File: "core/dutydb/memory.go", Expect: "D4", // the kept list must reach the queries field
				Old: "\tdb.contribQueries = unresolved\n", New: "\tdb.contribQueries = nil\n\t_ = unresolved\n"},
			{ID: "C06-D4-resolver-stops-at-first-answer", File: "core/dutydb/memory.go", Expect: "D4", // loop left early
				Old: "\t\tquery.Response <- contribution\n", New: "\t\tquery.Response <- contribution\n\n\t\tbreak\n"},
			{ID: "C06-D5-delete-stored-duty", File: "core/dutydb/memory.go", Expect: "D5", // expiry-driven call sites only
				Old: "\tswitch duty.Type {\n\tcase core.DutyProposer:\n\t\t// Sanity check",
				New: "\t_ = db.deleteDutyUnsafe(duty)\n\n\tswitch duty.Type {\n\tcase core.DutyProposer:\n\t\t// Sanity check"},
			{ID: "C06-D6-swallow-entry-error", File: "core/dutydb/memory.go", Expect: "D6", // nested store errors are propagated
				Old: "\t\t\tif err := db.storeSyncContributionEntryUnsafe(entry); err != nil {\n\t\t\t\treturn err\n\t\t\t}\n",
				New: "\t\t\t_ = db.storeSyncContributionEntryUnsafe(entry)\n"},
			// --- path-sensitive error analysis (w3): the rejecting edge must really end in a non-nil error
			{ID: "C06-D2-clash-error-dropped", File: "core/dutydb/memory.go", Expect: "D2",
				Old: "\t\tif existingRoot != providedRoot {\n\t\t\treturn errors.New(\"clashing blocks\")\n\t\t}\n",
				New: "\t\tif existingRoot != providedRoot {\n\t\t\t_ = errors.New(\"clashing blocks\")\n\t\t}\n"},
			{ID: "C06-D2-clash-returns-nil", File: "core/dutydb/memory.go", Expect: "D2",
				Old: "\t\t\treturn errors.New(\"clashing sync contributions\")\n",
				New: "\t\t\treturn nil // tolerated\n"},
			// --- w5: a query is answered only from the entry stored under its own key (D4 d)
			{ID: "C06-D4-agg-fallback-without-committee", File: "core/dutydb/memory.go", Expect: "D4", // fall-back lookup under a rebuilt key with a field dropped
				Old: "\t\tvalue, ok := db.aggDuties[query.Key]\n\t\tif !ok {\n",
				New: "\t\tvalue, ok := db.aggDuties[query.Key]\n\t\tif !ok {\n\t\t\tvalue, ok = db.aggDuties[aggKey{Slot: query.Key.Slot, Root: query.Key.Root}]\n\t\t}\n\n\t\tif !ok {\n"},
			{ID: "C06-D4-contrib-lookup-ignores-root", File: "core/dutydb/memory.go", Expect: "D4", // the only lookup uses a key that is not the query's
				Old: "\t\tcontribution, ok := db.contribDuties[query.Key]\n",
				New: "\t\tcontribution, ok := db.contribDuties[contribKey{Slot: query.Key.Slot, SubcommIdx: query.Key.SubcommIdx}]\n"},
			{ID: "C06-D4-pro-answer-when-absent", File: "core/dutydb/memory.go", Expect: "D4", // the send is reachable on the not-found edge
				Old: "\t\tvalue, ok := db.proDuties[query.Key]\n\t\tif !ok {\n\t\t\tunresolved = append(unresolved, query)\n\t\t\tcontinue\n\t\t}",
				New: "\t\tvalue, ok := db.proDuties[query.Key]\n\t\tif !ok {\n\t\t\tunresolved = append(unresolved, query)\n\t\t}"},
			{ID: "C06-D4-att-fallback-previous-slot", File: "core/dutydb/memory.go", Expect: "D4", // fall-back in a nested if, key fields swapped source
				Old: "\t\tvalue, ok := db.attDuties[query.Key]\n\t\tif !ok {\n",
				New: "\t\tvalue, ok := db.attDuties[query.Key]\n\t\tif alias, found := db.attDuties[attKey{Slot: query.Key.CommIdx, CommIdx: query.Key.CommIdx}]; !ok && found {\n\t\t\tvalue, ok = alias, true\n\t\t}\n\n\t\tif !ok {\n"},
			{ID: "C06-D6-new-pubkey-skips-rest", File: "core/dutydb/memory.go", Expect: "D6", // must-pass between consecutive keys
				Old: "pKey)\n\t}\n\n\t// Store key and value for AwaitAttestation\n\taKey := attKey{",
				New: "pKey)\n\n\t\treturn nil\n\t}\n\n\t// Store key and value for AwaitAttestation\n\taKey := attKey{"},
		},
	})
}

const dutydb = "core/dutydb.MemDB"

var c06DataMaps = []string{"attDuties", "attPubKeys", "proDuties", "aggDuties", "contribDuties"}

func c06(c *rt.Ctx) {
	c.Rule("D1", 20, func() {
		t := an.LockTable{}
		for _, f := range []string{"attDuties", "attPubKeys", "attKeysBySlot", "attQueries", "proDuties", "proQueries",
			"aggDuties", "aggKeysBySlot", "aggQueries", "contribDuties", "contribKeysBySlot", "contribQueries"} {
			t[dutydb+"."+f] = "mu" // all twelve are touched only under mu, in *Unsafe helpers or in the constructor
		}
		// the anchors of the frozen table must exist: a renamed mutex / field makes the rule undecided, not violated
		obj := c.Pkg("core/dutydb").Types.Scope().Lookup("MemDB")
		if obj == nil {
			c.Bail("type core/dutydb.MemDB not found")
		}
		st, ok := obj.Type().Underlying().(*types.Struct)
		if !ok {
			c.Bail("core/dutydb.MemDB is not a struct")
		}
		have := map[string]types.Type{}
		for i := 0; i < st.NumFields(); i++ {
			have[st.Field(i).Name()] = st.Field(i).Type()
		}
		// the guarding mutex is MemDB's only mutex field, whatever it is called
		var mus []string
		for i := 0; i < st.NumFields(); i++ {
			if n := an.TypeName(st.Field(i).Type()); (n == "sync.Mutex" || n == "sync.RWMutex") && !st.Field(i).Embedded() {
				mus = append(mus, st.Field(i).Name())
			}
		}
		if len(mus) != 1 {
			c.Bail("MemDB has %d named mutex fields (expected exactly one): the guarded-by table cannot be applied", len(mus))
		}
		for k := range t {
			t[k] = mus[0]
		}
		for k := range t {
			if _, ok := have[strings.TrimPrefix(k, dutydb+".")]; !ok {
				c.Bail("MemDB has no field %s (renamed?): the guarded-by table cannot be applied", k)
			}
		}
		c06LockRule(c, []string{"core/dutydb"}, t)
	})

	m := c06NewModel(c, "core/dutydb")
	if name := os.Getenv("C06DUMP"); name != "" {
		for _, f := range m.all {
			if strings.Contains(an.FuncName(f), name) || strings.Contains(f.Name(), name) {
				f.WriteTo(os.Stderr)
			}
		}
	}

	c.Rule("D2", 15, func() { c06D2(c, m) })
	c.Rule("D6", 7, func() { c06D6(c, m) })
	c.Rule("D3", 6, func() { c06D3(c, m) })
	c.Rule("D4", 12, func() { c06D4(c, m) })
	c.Rule("D5", 8, func() { c06D5(c, m) })
}

// ---------------------------------------------------------------------------------------------
// D2: insert-if-absent, existing entries are never replaced, a clash is rejected.

// c06Exists describes how the presence of a key is tested after a map lookup.
type c06Exists struct {
	lk  *ssa.Lookup
	ok  ssa.Value // comma-ok result (nil for a plain lookup)
	val ssa.Value // the looked-up value (Extract #0 or the lookup itself)
}

func c06ExistsOf(lk *ssa.Lookup) c06Exists {
	e := c06Exists{lk: lk}
	if lk.CommaOk {
		for _, ref := range *lk.Referrers() {
			if ex, ok := ref.(*ssa.Extract); ok {
				if ex.Index == 1 {
					e.ok = ex
				} else {
					e.val = ex
				}
			}
		}
	} else {
		e.val = lk
	}
	return e
}

func c06Nillable(t types.Type) bool {
	switch t.Underlying().(type) {
	case *types.Pointer, *types.Interface, *types.Map, *types.Slice, *types.Chan, *types.Signature:
		return true
	}
	return false
}

// tested reports whether some branch of fn depends on the presence test of this lookup.
func (e c06Exists) tested(fn *ssa.Function) bool {
	if e.ok != nil && len(an.CondsOn(fn, e.ok)) > 0 {
		return true
	}
	if e.ok != nil {
		// the ok value feeds a phi / named boolean that is branched on
		for _, b := range fn.Blocks {
			if iff, ok := b.Instrs[len(b.Instrs)-1].(*ssa.If); ok && c06DependsOn(iff.Cond, e.ok) {
				return true
			}
		}
	}
	if e.val != nil && c06Nillable(e.val.Type()) {
		for _, cd := range an.CondsOn(fn, e.val) {
			if cd.Other != nil && an.IsNilConst(cd.Other) {
				return true
			}
		}
	}
	return false
}

// env is the valuation "the key was present / absent".
func (e c06Exists) env(present bool) an.H06Env {
	return func(v ssa.Value) (constant.Value, bool) {
		if e.ok != nil && v == e.ok {
			return constant.MakeBool(present), true
		}
		if e.val != nil && c06Nillable(e.val.Type()) {
			// stored values are never nil (D2 inserts addresses of fresh clones): val != nil ⇔ present
			if bin, ok := v.(*ssa.BinOp); ok && (bin.Op == token.EQL || bin.Op == token.NEQ) {
				if (an.Unwrap(bin.X) == e.val && an.IsNilConst(bin.Y)) || (an.Unwrap(bin.Y) == e.val && an.IsNilConst(bin.X)) {
					return constant.MakeBool(present == (bin.Op == token.NEQ)), true
				}
			}
		}
		return nil, false
	}
}

func c06D2(c *rt.Ctx, m *c06Model) {
	perField := map[string][2]int{} // field -> inserts, tested lookups
	for _, fn := range m.all {
		ins := m.dataInserts(fn)
		if len(ins) == 0 {
			continue
		}
		var ups []*ssa.MapUpdate
		for u := range ins {
			ups = append(ups, u)
		}
		sort.Slice(ups, func(i, j int) bool { return posOf(ups[i]) < posOf(ups[j]) })
		fields := map[string]bool{}
		for _, u := range ups {
			fields[ins[u]] = true
		}
		lookups := func(field string) []c06Exists {
			var out []c06Exists
			for _, lk := range c06Lookups(fn, field) {
				if e := c06ExistsOf(lk); e.tested(fn) {
					out = append(out, e)
				}
			}
			return out
		}
		// every write to a data map is insert-if-absent
		for _, u := range ups {
			field := ins[u]
			x := perField[field]
			x[0]++
			perField[field] = x
			good := false
			for _, e := range lookups(field) {
				if !c06KeyEquiv(e.lk.Index, u.Key) || !an.Dominates(e.lk, u) {
					continue
				}
				if _, reach := an.H06Escape(e.lk, an.H06Opt{Env: e.env(true), Target: u, NoReenter: true}); !reach {
					good = true
				}
			}
			c.Check(an.FuncName(fn)+" insert "+field, posOf(u), good,
				"write to the data map is not confined to the absent outcome of a lookup of the same key: an existing value can be replaced")
		}
		// when the key exists: the entry is never written and a clash with the stored value is rejected
		var fs []string
		for f := range fields {
			fs = append(fs, f)
		}
		sort.Strings(fs)
		for _, field := range fs {
			short := strings.TrimPrefix(field, dutydb+".")
			for _, e := range lookups(field) {
				x := perField[field]
				x[1]++
				perField[field] = x
				wrote := false
				for _, u := range ups {
					if ins[u] != field || !c06KeyEquiv(e.lk.Index, u.Key) {
						continue
					}
					if _, reach := an.H06Escape(e.lk, an.H06Opt{Env: e.env(true), Target: u, NoReenter: true}); reach {
						wrote = true
					}
				}
				c.Check(an.FuncName(fn)+" existing-key branch of "+short+" never writes", e.lk.Pos(), !wrote,
					"when the key already exists the data map entry is assigned: stored data can be replaced, answers for one key can differ")
				// the stored value: what this lookup (or another lookup of the same key) yields
				var stored []ssa.Value
				for _, o := range lookups(field) {
					if o.val != nil && c06KeyEquiv(o.lk.Index, e.lk.Index) {
						stored = append(stored, o.val)
					}
				}
				path, esc, opaque, unknown := c06ClashEscapes(m, e.lk, e.env(true), stored, 0)
				name := an.FuncName(fn) + " existing-key branch of " + short + " rejects clashes"
				if !esc && unknown != "" {
					c.Unsure(name, e.lk.Pos(), unknown)
				} else if !esc && opaque {
					c.Unsure(name, e.lk.Pos(), "the stored value is handed to a function value the rule cannot resolve (its error is propagated); cannot show that it compares the stored value with the new one")
				} else {
					c.Check(name, e.lk.Pos(), !esc,
						"when the key already exists the function can report success without comparing the stored value with the new one (conflicting data is silently accepted): "+an.PathString(c.P, path))
				}
			}
		}
	}
	for _, f := range c06DataMaps {
		x := perField[dutydb+"."+f]
		if x[0] == 0 || x[1] == 0 {
			c.Unsure("data map "+f, token.NoPos, "no insertion with a tested lookup found for this data map (renamed, or written through an alias the rule cannot resolve)")
		}
	}
	// safety net: a write to a map of a data-map type that cannot be attributed to a field
	dataTypes := c06DataMapTypes(c)
	for _, fn := range m.all {
		for _, in := range an.Instrs(fn, false) {
			mu, ok := in.(*ssa.MapUpdate)
			if !ok {
				continue
			}
			if _, ok := c06MapField(mu.Map); ok {
				continue
			}
			for _, t := range dataTypes {
				if types.Identical(mu.Map.Type(), t) {
					c.Unsure(an.FuncName(fn)+" aliased write", posOf(mu), "a map of a data-map type is written through a parameter or local the rule cannot attribute to a MemDB field")
				}
			}
		}
	}
}

func c06DataMapTypes(c *rt.Ctx) []types.Type {
	obj := c.Pkg("core/dutydb").Types.Scope().Lookup("MemDB")
	if obj == nil {
		c.Bail("type MemDB not found")
	}
	st, ok := obj.Type().Underlying().(*types.Struct)
	if !ok {
		c.Bail("MemDB is not a struct")
	}
	var out []types.Type
	for i := 0; i < st.NumFields(); i++ {
		for _, f := range c06DataMaps {
			if st.Field(i).Name() == f {
				out = append(out, st.Field(i).Type())
			}
		}
	}
	if len(out) != len(c06DataMaps) {
		c.Bail("MemDB has %d of the %d data map fields", len(out), len(c06DataMaps))
	}
	return out
}

// c06RejectingComparison: `in` is a branch on a content comparison involving the stored value whose one outcome
// returns an error: `a != b` on values derived from it, a boolean predicate over it, or the checked error of an
// in-package helper that itself contains such a comparison.
func c06RejectingComparison(m *c06Model, in ssa.Instruction, stored ssa.Value) bool {
	iff, ok := in.(*ssa.If)
	if !ok || stored == nil {
		return false
	}
	if !c06ContentCond(m, iff.Cond, stored, 0) {
		return false
	}
	return c06EdgeRejects(iff, 0) || c06EdgeRejects(iff, 1)
}

// c06RejectingCall: a call of an in-package helper that compares the stored value (passed as an argument) and
// returns an error on a mismatch, whose error is propagated (returned or checked) by the caller.
func c06RejectingCall(m *c06Model, in ssa.Instruction, stored ssa.Value) bool {
	call, ok := in.(*ssa.Call)
	if !ok || stored == nil || !c06HasErrResult(call) || !c06ArgsDependOn(call, stored) {
		return false
	}
	if !c06CallCompares(m, call) {
		return false
	}
	_, swallowed := c06SwallowPath(call)
	return !swallowed
}

// c06CallCompares: a function that certainly runs during the call (static callee, function argument) contains a
// rejecting comparison of a parameter; or the callee is a function value and every function it may denote does.
func c06CallCompares(m *c06Model, call *ssa.Call) bool {
	for _, g := range m.during(call) {
		if c06HasRejectingComparison(g) {
			return true
		}
	}
	if set, ok := m.dynamic(call); ok {
		for _, g := range set.fns {
			if !c06HasRejectingComparison(g) {
				return false
			}
		}
		return true
	}
	return false
}

// c06OpaqueCheck: a call through a function value the rule cannot resolve that receives the stored value and whose
// error is propagated: it may well be the clash check.
func c06OpaqueCheck(m *c06Model, in ssa.Instruction, stored ssa.Value) bool {
	call, ok := in.(*ssa.Call)
	if !ok || stored == nil || !m.isDynamicCall(call) || !c06HasErrResult(call) || !c06ArgsDependOn(call, stored) {
		return false
	}
	if _, ok := m.dynamic(call); ok {
		return false
	}
	_, swallowed := c06SwallowPath(call)
	return !swallowed
}

func c06ContentCond(m *c06Model, cond ssa.Value, stored ssa.Value, d int) bool {
	if d > 4 {
		return false
	}
	switch x := cond.(type) {
	case *ssa.UnOp:
		if x.Op == token.NOT {
			return c06ContentCond(m, x.X, stored, d+1)
		}
	case *ssa.Phi:
		for _, e := range x.Edges {
			if c06ContentCond(m, e, stored, d+1) {
				return true
			}
		}
	case *ssa.BinOp:
		if x.Op != token.NEQ && x.Op != token.EQL {
			return false
		}
		if an.IsNilConst(x.X) || an.IsNilConst(x.Y) {
			// `err != nil` on the result of a helper that compares the stored value
			e := x.X
			if an.IsNilConst(e) {
				e = x.Y
			}
			if !an.IsErrorType(e.Type()) {
				return false
			}
			call := c06CallOf(e)
			if call == nil || !c06ArgsDependOn(call, stored) {
				return false
			}
			return c06CallCompares(m, call)
		}
		if an.IsErrorType(x.X.Type()) {
			return false
		}
		return c06DependsOn(x.X, stored) || c06DependsOn(x.Y, stored)
	case *ssa.Call:
		// boolean predicate over the stored value (bytes.Equal, a sameX helper ...)
		if b, ok := x.Type().Underlying().(*types.Basic); ok && b.Kind() == types.Bool {
			return c06ArgsDependOn(x, stored)
		}
	}
	return false
}

func c06CallOf(v ssa.Value) *ssa.Call {
	v = an.Unwrap(v)
	switch x := v.(type) {
	case *ssa.Call:
		return x
	case *ssa.Extract:
		if call, ok := x.Tuple.(*ssa.Call); ok {
			return call
		}
	}
	return nil
}

func c06ArgsDependOn(call *ssa.Call, src ssa.Value) bool {
	for _, a := range call.Call.Args {
		if c06DependsOn(a, src) {
			return true
		}
	}
	return call.Call.IsInvoke() && c06DependsOn(call.Call.Value, src)
}

// c06HasRejectingComparison: the function contains a comparison of non-error values derived from a parameter with
// an outcome that returns a non-nil error.
func c06HasRejectingComparison(g *ssa.Function) bool {
	for _, b := range g.Blocks {
		iff, ok := b.Instrs[len(b.Instrs)-1].(*ssa.If)
		if !ok {
			continue
		}
		bin, ok := iff.Cond.(*ssa.BinOp)
		if !ok || (bin.Op != token.NEQ && bin.Op != token.EQL) || an.IsNilConst(bin.X) || an.IsNilConst(bin.Y) || an.IsErrorType(bin.X.Type()) {
			continue
		}
		fromParam := false
		for _, p := range g.Params {
			if c06DependsOn(bin.X, p) || c06DependsOn(bin.Y, p) {
				fromParam = true
			}
		}
		if !fromParam {
			continue
		}
		if c06EdgeRejects(iff, 0) || c06EdgeRejects(iff, 1) {
			return true
		}
	}
	return false
}

// c06Lookups returns the map lookups on the named field in fn.
func c06Lookups(fn *ssa.Function, field string) []*ssa.Lookup {
	var out []*ssa.Lookup
	for _, in := range an.Instrs(fn, false) {
		if lk, ok := in.(*ssa.Lookup); ok {
			if k, ok := c06MapField(lk.X); ok && k == field && an.IsMapType(lk.X.Type()) {
				out = append(out, lk)
			}
		}
	}
	return out
}

// c06EdgeRejects: every path that leaves the branch by successor #si ends in a return that does not report success
// (the error it returns is non-nil on that path: phis are resolved along the path, so `err = errors.New(..)` followed
// by a shared `return err` counts), and at least one such return exists.
func c06EdgeRejects(iff *ssa.If, si int) bool {
	b := iff.Block()
	if len(b.Succs) != 2 || b.Succs[0] == b.Succs[1] {
		return false
	}
	cond := iff.Cond
	nRet := 0
	_, esc := an.H06Escape(iff, an.H06Opt{Facts: c06ErrFacts,
		Env: func(v ssa.Value) (constant.Value, bool) {
			if v == cond {
				return constant.MakeBool(si == 0), true
			}
			return nil, false
		},
		ReturnOK: func(r *ssa.Return, known an.H06Env) bool {
			if _, has := c06ErrOf(r); has && c06RetOK(r, known) {
				nRet++
				return true
			}
			return false
		}})
	return !esc && nRet > 0
}

// c06ErrFacts: invariant facts about error values: a value that can never be nil (errors.New, errors.Wrap, a sentinel,
// the result of a helper that always builds an error) is known non-nil wherever it is computed.
func c06ErrFacts(v ssa.Value) (constant.Value, bool) {
	if !an.IsErrorType(v.Type()) {
		return nil, false
	}
	switch an.Unwrap(v).(type) {
	case *ssa.Phi, *ssa.Const, *ssa.Parameter, *ssa.FreeVar:
		return nil, false
	}
	if !c06MayBeNil(v, map[ssa.Value]bool{}) {
		return an.H06NonNil, true
	}
	return nil, false
}

// c06RetOK: the return does not report success on the path that reached it: it has an error result that is non-nil
// (by construction, by a dominating `err != nil` test, or by what is known on the path).
func c06RetOK(r *ssa.Return, known an.H06Env) bool {
	if !c06SuccessReturn(r) || c06ErrReturnNonNil(r) {
		return true
	}
	if known != nil {
		if e, has := c06ErrOf(r); has {
			if k, ok := an.H06Eval(e, known); ok && an.H06IsNonNil(k) {
				return true
			}
			if k, ok := an.H06Eval(an.Unwrap(e), known); ok && an.H06IsNonNil(k) {
				return true
			}
		}
	}
	return false
}

// ---------------------------------------------------------------------------------------------
// D6: success only after every key was handled; nested store errors are not swallowed.

func c06D6(c *rt.Ctx, m *c06Model) {
	for _, fn := range m.all {
		ins := m.dataInserts(fn)
		fields := map[string]bool{}
		for _, f := range ins {
			fields[f] = true
		}
		type site struct {
			in   ssa.Instruction
			what string
		}
		var sites []site
		for _, f := range c06DataMaps {
			field := dutydb + "." + f
			if !fields[field] {
				continue
			}
			for _, lk := range c06Lookups(fn, field) {
				if c06ExistsOf(lk).tested(fn) {
					sites = append(sites, site{lk, "lookup of " + field})
				}
			}
		}
		loopOf := func(in ssa.Instruction) bool { return an.InnermostLoop(fn, in.Block()) != nil }
		for _, in := range m.insertSites(fn) {
			if _, isMU := in.(*ssa.MapUpdate); isMU {
				continue
			}
			// (ii) the error of a nested store is not swallowed
			ci := in.(ssa.CallInstruction)
			if v := ci.Value(); v != nil && c06HasErrResult(ci) {
				path, esc := c06SwallowPath(v)
				c.Check(an.FuncName(fn)+" propagates the error of "+c06SiteName(m, in), in.Pos(), !esc,
					"the error of a nested store call can be dropped: the function reports success although an entry was rejected: "+an.PathString(c.P, path))
			}
			if !loopOf(in) && len(ins) > 0 {
				sites = append(sites, site{in, "call " + c06SiteName(m, in)})
			}
		}
		if len(sites) == 0 || len(ins) == 0 {
			continue
		}
		sort.Slice(sites, func(i, j int) bool { return posOf(sites[i].in) < posOf(sites[j].in) })
		retOK := c06RetOK
		// chain: are the sites totally ordered by dominance?
		chain := true
		for i := range sites {
			for j := range sites {
				if i != j && !an.Dominates(sites[i].in, sites[j].in) && !an.Dominates(sites[j].in, sites[i].in) {
					chain = false
				}
			}
		}
		n := map[string]int{}
		for _, s := range sites {
			n[s.what]++
			name := an.FuncName(fn) + " success only after " + s.what + " #" + itoa(n[s.what])
			why := "the function can return success on a path that skips this key: conflicting data for it is accepted unseen / the key is never inserted"
			// the closest site that dominates s
			var prev ssa.Instruction
			for _, p := range sites {
				if p.in != s.in && an.Dominates(p.in, s.in) && (prev == nil || an.Dominates(prev, p.in)) {
					prev = p.in
				}
			}
			switch {
			case prev != nil:
				target := s.in
				path, esc := an.H06Escape(prev, an.H06Opt{NoReenter: true, ReturnOK: retOK, Facts: c06ErrFacts,
					Effect: func(in ssa.Instruction) bool { return in == target }})
				c.Check(name, posOf(s.in), !esc, why+": "+an.PathString(c.P, path))
			case chain:
				// first key: no path from the entry to a success return avoids it (path-sensitive: a shared
				// `return err` behind `if err == nil { ... }` nesting is a success only where err may be nil)
				target := s.in
				first := fn.Blocks[0].Instrs[0]
				path, esc := an.H06Escape(first, an.H06Opt{Inclusive: true, ReturnOK: retOK, Facts: c06ErrFacts,
					Effect: func(in ssa.Instruction) bool { return in == target }})
				pos := posOf(s.in)
				if esc && len(path) > 0 {
					if r, ok := path[len(path)-1].Instrs[len(path[len(path)-1].Instrs)-1].(*ssa.Return); ok {
						pos = posOf(r)
					}
				}
				c.Check(name, pos, !esc, why+": "+an.PathString(c.P, path))
			default:
				c.Good(name, posOf(s.in), "first key of an alternative branch")
			}
		}
	}
}

func c06HasErrResult(ci ssa.CallInstruction) bool {
	res := ci.Common().Signature().Results()
	for i := 0; i < res.Len(); i++ {
		if an.IsErrorType(res.At(i).Type()) {
			return true
		}
	}
	return false
}

func c06SiteName(m *c06Model, in ssa.Instruction) string {
	var names []string
	for _, g := range m.during(in) {
		if len(m.inserts(g)) > 0 {
			names = append(names, an.FuncName(g))
		}
	}
	return strings.Join(names, "+")
}

// c06SwallowPath: from the call producing error value(s) v, is there a path to a success return on which the error
// was non-nil? The error is the call value itself or its error-typed extract.
func c06SwallowPath(v ssa.Value) ([]*ssa.BasicBlock, bool) {
	call := v.(ssa.Instruction)
	var errs []ssa.Value
	if an.IsErrorType(v.Type()) {
		errs = append(errs, v)
	} else {
		for _, ref := range *v.Referrers() {
			if ex, ok := ref.(*ssa.Extract); ok && an.IsErrorType(ex.Type()) {
				errs = append(errs, ex)
			}
		}
	}
	if len(errs) == 0 {
		return []*ssa.BasicBlock{call.Block()}, true // error result discarded
	}
	isErr := func(x ssa.Value) bool {
		x = an.Unwrap(x)
		for _, e := range errs {
			if x == e {
				return true
			}
		}
		return false
	}
	env := func(x ssa.Value) (constant.Value, bool) {
		if isErr(x) {
			return an.H06NonNil, true
		}
		return nil, false
	}
	return an.H06Escape(call, an.H06Opt{Env: env, NoReenter: true, Facts: c06ErrFacts,
		ReturnOK: func(r *ssa.Return, known an.H06Env) bool {
			e, has := c06ErrOf(r)
			if !has {
				return false
			}
			if isErr(e) || c06DependsOn(e, errs[0]) {
				return true // returns the error (possibly wrapped)
			}
			if k, ok := an.H06Eval(e, known); ok && an.H06IsNonNil(k) {
				return true
			}
			return c06RetOK(r, known)
		}})
}

// ---------------------------------------------------------------------------------------------
// D3: nothing is inserted for a duty whose deadline status is Expired / Exempt.

func c06D3(c *rt.Ctx, m *c06Model) {
	isAdd := an.Invoke("core.Deadliner.Add")
	adds := map[*ssa.Function][]ssa.CallInstruction{}
	nAdd := 0
	for _, fn := range m.all {
		for _, ci := range an.Calls(fn, isAdd, false) {
			adds[fn] = append(adds[fn], ci)
			nAdd++
		}
	}
	if nAdd == 0 {
		c.Bail("no call to core.Deadliner.Add in core/dutydb")
	}
	statuses := []string{"DeadlineExpired", "DeadlineExempt"}
	// guards of a function: Add calls in it, or calls to an in-package helper that contains the Add call and whose
	// result is decided by the status
	type guard struct {
		at  ssa.Instruction
		env func(status string) an.H06Env
	}
	guardsOf := func(fn *ssa.Function) []guard {
		var out []guard
		for _, a := range adds[fn] {
			v := a.Value()
			out = append(out, guard{a, func(st string) an.H06Env {
				k := c06IntConst(c, "core", st)
				return c06WithCalls(m, func(x ssa.Value) (constant.Value, bool) {
					if x == ssa.Value(v) {
						return k, true
					}
					return nil, false
				}, 0)
			}})
		}
		for _, in := range an.Instrs(fn, false) {
			call, ok := in.(*ssa.Call)
			if !ok {
				continue
			}
			callee := call.Call.StaticCallee()
			if callee == nil || !m.inPkg(callee) || len(adds[callee]) != 1 || len(m.inserts(callee)) > 0 {
				continue // only a pure status helper is a guard; a callee that stores is checked on its own
			}
			inner := adds[callee][0]
			out = append(out, guard{call, func(st string) an.H06Env {
				return c06HelperEnv(call, inner, c06IntConst(c, "core", st))
			}})
		}
		return out
	}
	// protection is three-valued: yes / no (a concrete unguarded way in) / unknown (the function escapes as a value)
	const (
		pYes = iota
		pNo
		pUnknown
	)
	var protectedFn func(fn *ssa.Function, seen map[*ssa.Function]bool) int
	protectedSite := func(s ssa.Instruction, seen map[*ssa.Function]bool) int {
		fn := s.Parent()
		for _, g := range guardsOf(fn) {
			if !an.Dominates(g.at, s) {
				continue
			}
			cut := true
			for _, st := range statuses {
				if _, reach := an.H06Escape(g.at, an.H06Opt{Env: g.env(st), Target: s, NoReenter: true}); reach {
					cut = false
				}
			}
			if cut {
				return pYes
			}
		}
		return protectedFn(fn, seen)
	}
	protectedFn = func(fn *ssa.Function, seen map[*ssa.Function]bool) int {
		if seen[fn] {
			return pYes
		}
		seen[fn] = true
		if c06Exported(fn) {
			return pNo
		}
		if len(m.refs[fn]) == 0 {
			return pYes // nothing runs it
		}
		res := pYes
		if !m.refsOK(fn) {
			res = pUnknown
		}
		for _, r := range m.refs[fn] {
			switch protectedSite(r, seen) {
			case pNo:
				return pNo
			case pUnknown:
				res = pUnknown
			}
		}
		return res
	}
	report := func(name string, pos token.Pos, p int, why string) {
		switch p {
		case pYes:
			c.Good(name, pos, "")
		case pNo:
			c.Bad(name, pos, why)
		default:
			c.Unsure(name, pos, "a storing function is used as a value in a way the rule cannot follow; "+why)
		}
	}
	// (a) in every function that holds the guard: each insertion site is cut off for both statuses
	for _, fn := range m.all {
		gs := guardsOf(fn)
		if len(gs) == 0 {
			continue
		}
		for _, s := range m.insertSites(fn) {
			for _, st := range statuses {
				p, why := pNo, "no deadliner.Add status check dominates the insertion"
				for _, g := range gs {
					if !an.Dominates(g.at, s) {
						continue
					}
					path, reach := an.H06Escape(g.at, an.H06Opt{Env: g.env(st), Target: s, NoReenter: true})
					if !reach {
						p = pYes
					} else {
						why = "data is stored although deadliner.Add reported " + st + ": " + an.PathString(c.P, path)
					}
				}
				if p != pYes {
					if q := protectedFn(fn, map[*ssa.Function]bool{}); q != pNo {
						p = q
					}
				}
				report(c06FnLabel(fn)+" "+st+"→no "+c06SiteName2(m, s), s.Pos(), p, why)
			}
		}
	}
	// (b) every function that writes a data map is only reachable through a guarded site
	for _, fn := range m.all {
		if len(m.dataInserts(fn)) == 0 {
			continue
		}
		if len(guardsOf(fn)) > 0 {
			continue // its own sites were checked in (a)
		}
		report(an.FuncName(fn)+" only reachable behind the deadline check", fn.Pos(), protectedFn(fn, map[*ssa.Function]bool{}),
			"a function inserting into a data map can be reached from an exported entry point without passing the deadliner.Add status check")
	}
}

// c06FnLabel: "Store" for the exported entry point (the historical construct key), the qualified name otherwise.
func c06FnLabel(fn *ssa.Function) string {
	if fn.Parent() == nil && an.FuncName(fn) == dutydb+".Store" {
		return "Store"
	}
	return an.FuncName(fn)
}

func c06SiteName2(m *c06Model, in ssa.Instruction) string {
	if mu, ok := in.(*ssa.MapUpdate); ok {
		k, _ := c06MapField(mu.Map)
		return "insert " + k
	}
	return c06SiteName(m, in)
}

// c06WithCalls extends a valuation through pure in-package predicates: a call of a package function whose arguments
// are known evaluates to the constant every return of the callee yields under those arguments (`isLate(status)`).
func c06WithCalls(m *c06Model, env an.H06Env, depth int) an.H06Env {
	var self an.H06Env
	memo := map[ssa.Value]constant.Value{}
	self = func(v ssa.Value) (constant.Value, bool) {
		if k, ok := env(v); ok {
			return k, true
		}
		call, ok := v.(*ssa.Call)
		if !ok || depth > 2 {
			return nil, false
		}
		if k, ok := memo[v]; ok {
			return k, k != nil
		}
		memo[v] = nil
		callee := call.Call.StaticCallee()
		if callee == nil || !m.inPkg(callee) || callee.Blocks == nil || call.Call.Signature().Results().Len() != 1 ||
			len(call.Call.Args) != len(callee.Params) || len(callee.Blocks[0].Instrs) == 0 {
			return nil, false
		}
		args := map[ssa.Value]constant.Value{}
		for i, a := range call.Call.Args {
			if k, ok := an.H06Eval(a, self); ok {
				args[callee.Params[i]] = k
			}
		}
		if len(args) == 0 {
			return nil, false
		}
		penv := c06WithCalls(m, func(x ssa.Value) (constant.Value, bool) { k, ok := args[x]; return k, ok }, depth+1)
		var res constant.Value
		good, n := true, 0
		an.H06Escape(callee.Blocks[0].Instrs[0], an.H06Opt{Env: penv, Inclusive: true,
			ReturnOK: func(r *ssa.Return, known an.H06Env) bool {
				n++
				vals := returnValues(r)
				k, ok := an.H06Eval(vals[0], known)
				if !ok || (res != nil && (res.Kind() != k.Kind() || !constant.Compare(res, token.EQL, k))) {
					good = false
					return true
				}
				res = k
				return true
			}})
		if !good || n == 0 || res == nil {
			return nil, false
		}
		memo[v] = res
		return res, true
	}
	return self
}

// c06HelperEnv: valuation of the result of `call` (an in-package helper containing the single Add call `inner`)
// when Add returns status k: if every return of the helper reachable under that status yields the same boolean
// constant, the call value is that constant; if every one yields a non-nil error, `call != nil` is true.
func c06HelperEnv(call *ssa.Call, inner ssa.CallInstruction, k constant.Value) an.H06Env {
	ienv := func(x ssa.Value) (constant.Value, bool) {
		if x == inner.Value() {
			return k, true
		}
		return nil, false
	}
	var consts []constant.Value
	allConst, allNonNilErr, n := true, true, 0
	an.H06Escape(inner, an.H06Opt{Env: ienv, NoReenter: true, ReturnOK: func(r *ssa.Return, env an.H06Env) bool {
		n++
		vals := returnValues(r)
		if len(vals) != 1 {
			allConst, allNonNilErr = false, false
			return true
		}
		if kv, ok := an.H06Eval(vals[0], env); ok {
			consts = append(consts, kv)
		} else {
			allConst = false
		}
		if !an.IsErrorType(vals[0].Type()) || c06MayBeNil(vals[0], map[ssa.Value]bool{}) {
			allNonNilErr = false
		}
		return true
	}})
	// the Add call must dominate every return of the helper (its status decides the result on every path)
	for _, r := range an.Returns(inner.Parent()) {
		if !an.Dominates(inner, r) {
			allConst, allNonNilErr = false, false
		}
	}
	return func(x ssa.Value) (constant.Value, bool) {
		if n == 0 {
			return nil, false
		}
		if allConst && len(consts) > 0 && x == ssa.Value(call) {
			for _, kv := range consts[1:] {
				if kv.Kind() != consts[0].Kind() || !constant.Compare(kv, token.EQL, consts[0]) {
					return nil, false
				}
			}
			return consts[0], true
		}
		if allNonNilErr {
			if bin, ok := x.(*ssa.BinOp); ok && (bin.Op == token.EQL || bin.Op == token.NEQ) {
				if (an.Unwrap(bin.X) == ssa.Value(call) && an.IsNilConst(bin.Y)) || (an.Unwrap(bin.Y) == ssa.Value(call) && an.IsNilConst(bin.X)) {
					return constant.MakeBool(bin.Op == token.NEQ), true
				}
			}
		}
		return nil, false
	}
}

// ---------------------------------------------------------------------------------------------
// D4: every insertion / query registration is followed by the matching resolver inside the critical section;
// resolvers keep every unresolved, uncancelled query.

type c06Resolver struct {
	fn      *ssa.Function // the function that writes the pending list back (resolve*QueriesUnsafe)
	queries string
	data    string
	fr      *c06Frame // frame containing the loop (fn itself or a helper it calls)
	loop    *an.Loop
	backs   []*ssa.Store // every store into the queries field in fn
	sendFr  *c06Frame    // frame of the send: fr, or a per-query helper called from the loop body
	sendAt  *ssa.Call    // the call of that helper inside the loop (nil when sendFr == fr)
	phiSend *ssa.Send    // the send, when the value sent is a variable holding the looked-up value or a zero value
}

func c06D4(c *rt.Ctx, m *c06Model) {
	resolvers := c06FindResolvers(m)
	if len(resolvers) != 4 {
		var names []string
		for _, r := range resolvers {
			names = append(names, an.FuncName(r.fn))
		}
		c.Bail("expected 4 resolve functions, found %d %v", len(resolvers), names)
	}
	resFor := map[string]*c06Resolver{}
	for _, r := range resolvers {
		if resFor[r.queries] != nil || resFor[r.data] != nil {
			c.Bail("two resolvers for %s / %s", r.queries, r.data)
		}
		resFor[r.queries], resFor[r.data] = r, r
	}
	var fields []string
	for f := range resFor {
		fields = append(fields, f)
	}
	sort.Strings(fields)

	isUnlock := func(in ssa.Instruction) bool {
		call, ok := in.(*ssa.Call)
		if !ok {
			return false
		}
		_, acq, isLock := an.H06LockOp(&call.Call)
		return isLock && !acq
	}
	hasLockOp := func(fn *ssa.Function) bool {
		for _, in := range an.Instrs(fn, false) {
			if ci, ok := in.(ssa.CallInstruction); ok {
				if _, _, isLock := an.H06LockOp(ci.Common()); isLock {
					return true
				}
			}
		}
		return false
	}
	// alwaysResolves(g, field): every path through g runs the resolver of field
	always := map[*ssa.Function]map[string]int{} // 0 unknown, 1 computing, 2 yes, 3 no
	var effect func(field string) func(ssa.Instruction) bool
	var alwaysResolves func(g *ssa.Function, field string) bool
	var deferredOK func(e ssa.Instruction, field string, fromEntry bool) func(r *ssa.Return, _ an.H06Env) bool
	alwaysResolves = func(g *ssa.Function, field string) bool {
		if g == resFor[field].fn {
			return true
		}
		if always[g] == nil {
			always[g] = map[string]int{}
		}
		switch always[g][field] {
		case 1, 3:
			return false
		case 2:
			return true
		}
		always[g][field] = 1
		res := 3
		if len(g.Blocks) > 0 && len(g.Blocks[0].Instrs) > 0 {
			first := g.Blocks[0].Instrs[0]
			if effect(field)(first) {
				res = 2
			} else if _, isRet := first.(*ssa.Return); !isRet {
				if _, esc := an.H06Escape(first, an.H06Opt{Effect: effect(field), Exit: isUnlock, ReturnOK: deferredOK(first, field, true)}); !esc {
					res = 2
				}
			}
		}
		always[g][field] = res
		return res == 2
	}
	// deferredOK: a return is not an escape when a `defer resolver()` registered before the event (or, from the entry,
	// on every path to that return) runs at it
	deferredOK = func(e ssa.Instruction, field string, fromEntry bool) func(r *ssa.Return, _ an.H06Env) bool {
		var defers []*ssa.Defer
		for _, in := range an.Instrs(e.Parent(), false) {
			d, ok := in.(*ssa.Defer)
			if !ok {
				continue
			}
			for _, g := range m.during(d) {
				if alwaysResolves(g, field) {
					defers = append(defers, d)
				}
			}
		}
		return func(r *ssa.Return, _ an.H06Env) bool {
			for _, d := range defers {
				if an.Dominates(d, e) || (fromEntry && an.Dominates(d, r)) {
					return true
				}
			}
			return false
		}
	}
	effect = func(field string) func(ssa.Instruction) bool {
		return func(in ssa.Instruction) bool {
			if _, isDefer := in.(*ssa.Defer); isDefer {
				return false
			}
			for _, g := range m.during(in) {
				if alwaysResolves(g, field) {
					return true
				}
			}
			return false
		}
	}
	// effectUnder: a call of a package function that runs the resolver of field for the argument values known on the
	// path (`db.resolveQueriesUnsafe(duty.Type)` inside / after `case core.DutyAttester`)
	effectUnder := func(field string) func(ssa.Instruction, an.H06Env) bool {
		return func(in ssa.Instruction, known an.H06Env) bool {
			call, ok := in.(*ssa.Call)
			if !ok {
				return false
			}
			g := call.Call.StaticCallee()
			if g == nil || !m.inPkg(g) || g.Blocks == nil || len(call.Call.Args) != len(g.Params) || len(g.Blocks[0].Instrs) == 0 {
				return false
			}
			args := map[ssa.Value]constant.Value{}
			for i, a := range call.Call.Args {
				if k, ok := an.H06Eval(a, known); ok {
					args[g.Params[i]] = k
				}
			}
			if len(args) == 0 {
				return false
			}
			first := g.Blocks[0].Instrs[0]
			_, esc := an.H06Escape(first, an.H06Opt{Inclusive: true, Effect: effect(field), Exit: isUnlock, ReturnOK: deferredOK(first, field, true),
				Env: func(x ssa.Value) (constant.Value, bool) { k, ok := args[x]; return k, ok }})
			return !esc
		}
	}
	// events of a function for a field: direct insert / registration, or a call during which a dirty function runs
	dirty := map[*ssa.Function]map[string]bool{}
	for _, f := range m.all {
		dirty[f] = map[string]bool{}
	}
	// discharged: the dirty function g is handed, as a function value, to an in-package helper h together with a
	// function that always resolves the field, and inside h every call of the first parameter is followed by a call of
	// the second before h returns or unlocks (`register(enqueue, resolve)`, `storeAll(store, resolve)`): what g leaves
	// unresolved is resolved before the call returns.
	discharged := func(in ssa.Instruction, g *ssa.Function, field string) bool {
		ci, ok := in.(ssa.CallInstruction)
		if !ok {
			return false
		}
		cc := ci.Common()
		h := m.funcOf(cc.Value)
		if cc.IsInvoke() || h == nil || !m.inPkg(h) || h.Blocks == nil || h == g || len(cc.Args) != len(h.Params) {
			return false
		}
		if _, isMC := an.Resolve(cc.Value).(*ssa.MakeClosure); isMC && h.Signature.Recv() != nil {
			return false
		}
		gi := -1
		for i, a := range cc.Args {
			carries := false
			for _, cf := range m.carried(a) {
				if cf == g {
					carries = true
				}
			}
			if _, isSig := a.Type().Underlying().(*types.Signature); isSig && (m.argFn(a) == g || carries) {
				if gi >= 0 {
					return false
				}
				gi = i
			}
		}
		if gi < 0 {
			return false
		}
		for j, a := range cc.Args {
			if j == gi {
				continue
			}
			if _, isSig := a.Type().Underlying().(*types.Signature); !isSig {
				continue
			}
			rf := m.argFn(a)
			if rf == nil || !m.inPkg(rf) || !alwaysResolves(rf, field) {
				continue
			}
			if c06ParamFollowed(h, gi, j, isUnlock) {
				return true
			}
		}
		return false
	}
	events := func(fn *ssa.Function, field string) []ssa.Instruction {
		var out []ssa.Instruction
		r := resFor[field]
		for _, in := range an.Instrs(fn, false) {
			switch x := in.(type) {
			case *ssa.MapUpdate:
				if k, ok := c06MapField(x.Map); ok && k == field && field == r.data {
					out = append(out, in)
				}
			case *ssa.Store:
				if fa, ok := x.Addr.(*ssa.FieldAddr); ok && field == r.queries && an.FieldKey(fa.X.Type(), fa.Field) == field && fn != r.fn {
					if _, fresh := an.Unwrap(fa.X).(*ssa.Alloc); !fresh { // not the object under construction
						out = append(out, in)
					}
				}
			default:
				if _, isGo := in.(*ssa.Go); isGo {
					continue
				}
				for _, g := range m.during(in) {
					if dirty[g][field] && !discharged(in, g, field) {
						out = append(out, in)
						break
					}
				}
			}
		}
		return out
	}
	// endsCS: the call itself acquires and releases the mutex around what runs during it (`withLock(fn)`): whatever
	// fn left unresolved stays unresolved when the call returns, the caller cannot repair it inside the critical section
	endsCS := func(e ssa.Instruction) bool {
		if _, isCall := e.(ssa.CallInstruction); !isCall {
			return false
		}
		for _, g := range m.during(e) {
			if hasLockOp(g) {
				return true
			}
		}
		return false
	}
	escapes := func(e ssa.Instruction, field string) ([]*ssa.BasicBlock, bool) {
		if endsCS(e) {
			return []*ssa.BasicBlock{e.Block()}, true
		}
		return an.H06Escape(e, an.H06Opt{Env: an.H06FactsAt(e), Effect: effect(field), EffectEnv: effectUnder(field), Exit: isUnlock,
			ReturnOK: deferredOK(e, field, false), Prune: c06UnchangedLen(m, e, field)})
	}
	for changed := true; changed; {
		changed = false
		for _, fn := range m.all {
			for _, field := range fields {
				if dirty[fn][field] {
					continue
				}
				for _, e := range events(fn, field) {
					if _, esc := escapes(e, field); esc {
						dirty[fn][field] = true
						changed = true
						break
					}
				}
			}
		}
	}
	isRoot := func(fn *ssa.Function) bool { return c06Exported(fn) || hasLockOp(fn) }
	var mayResolve func(g *ssa.Function, field string, seen map[*ssa.Function]bool) bool
	mayResolve = func(g *ssa.Function, field string, seen map[*ssa.Function]bool) bool {
		if g == resFor[field].fn {
			return true
		}
		if seen[g] {
			return false
		}
		seen[g] = true
		for _, in := range an.Instrs(g, false) {
			for _, h := range m.during(in) {
				if mayResolve(h, field, seen) {
					return true
				}
			}
		}
		return false
	}
	// dispatcher: the unresolved function run during e stores for more than one resolver (a `store(kind, ...)` helper
	// switching on an argument): which resolver must follow depends on a value correlation the rule does not track
	dispatcher := func(e ssa.Instruction, field string) bool {
		if _, isCall := e.(ssa.CallInstruction); !isCall {
			return false
		}
		for _, g := range m.during(e) {
			if !dirty[g][field] {
				continue
			}
			kinds := map[*c06Resolver]bool{}
			for f := range m.inserts(g) {
				if r := resFor[f]; r != nil {
					kinds[r] = true
				}
			}
			if len(kinds) > 1 {
				// ... and something that may run the resolver follows the call (otherwise nothing can resolve: a violation)
				for _, in := range an.Instrs(e.Parent(), false) {
					if !an.InstrReaches(e, in) {
						continue
					}
					for _, h := range m.during(in) {
						if mayResolve(h, field, map[*ssa.Function]bool{}) {
							return true
						}
					}
				}
			}
		}
		return false
	}
	// caseSplit: the event is a call of a dispatcher `g(kind, ...)` that compares a parameter with constants; the same
	// SSA value `kind` may select the resolver later (`resolve(kind)`). For every constant the parameter is compared
	// with (and one value different from all of them) under which g can reach a store of this field at all, the
	// search from the event is repeated with the argument fixed to that constant.
	caseSplit := func(e ssa.Instruction, field string) bool {
		call, ok := e.(*ssa.Call)
		if !ok {
			return false
		}
		g := call.Call.StaticCallee()
		if g == nil || !m.inPkg(g) || g.Blocks == nil || len(call.Call.Args) != len(g.Params) || len(g.Blocks[0].Instrs) == 0 {
			return false
		}
		first := g.Blocks[0].Instrs[0]
		for i, p := range g.Params {
			a := call.Call.Args[i]
			if _, isConst := a.(*ssa.Const); isConst {
				continue
			}
			vals := c06ComparedConsts(g, p)
			if len(vals) < 2 {
				continue
			}
			all := true
			for _, cv := range vals {
				cv := cv
				penv := func(x ssa.Value) (constant.Value, bool) {
					if x == ssa.Value(p) {
						return cv, true
					}
					return nil, false
				}
				reachable := false
				for _, ev := range events(g, field) {
					if _, reach := an.H06Escape(first, an.H06Opt{Env: penv, Target: ev, Inclusive: true}); reach {
						reachable = true
						break
					}
				}
				if !reachable {
					continue // under this value g stores nothing of this kind
				}
				base := an.H06FactsAt(e)
				env := func(x ssa.Value) (constant.Value, bool) {
					if x == a {
						return cv, true
					}
					return base(x)
				}
				if _, esc := an.H06Escape(e, an.H06Opt{Env: env, Effect: effect(field), EffectEnv: effectUnder(field), Exit: isUnlock,
					ReturnOK: deferredOK(e, field, false), Prune: c06UnchangedLen(m, e, field)}); esc {
					all = false
					break
				}
			}
			if all {
				return true
			}
		}
		return false
	}
	// higherOrder: the event is a call that hands function values to an in-package helper, or a call through a
	// function value: in which order the helper runs them is decided inside it
	higherOrder := func(e ssa.Instruction) bool {
		ci, ok := e.(ssa.CallInstruction)
		if !ok {
			return false
		}
		if m.isDynamicCall(e) {
			return true
		}
		h := m.funcOf(ci.Common().Value)
		if h == nil || !m.inPkg(h) {
			return false
		}
		n := 0
		for _, a := range ci.Common().Args {
			if _, isSig := a.Type().Underlying().(*types.Signature); isSig {
				n++
			}
		}
		return n >= 2
	}
	// obligations
	for _, fn := range m.all {
		for _, field := range fields {
			r := resFor[field]
			for _, in := range an.Instrs(fn, false) {
				if _, isGo := in.(*ssa.Go); isGo {
					continue
				}
				for _, g := range m.during(in) {
					if dirty[g][field] && discharged(in, g, field) {
						c.Good(c06FnLabel(fn)+" "+an.FuncName(g)+"→"+an.FuncName(r.fn)+" inside helper", posOf(in), "the helper runs the resolver after every call of the storing / registering function value")
					}
				}
			}
			for _, e := range events(fn, field) {
				path, esc := escapes(e, field)
				var name string
				switch x := e.(type) {
				case *ssa.MapUpdate:
					name = an.FuncName(fn) + " insert " + field + "→" + an.FuncName(r.fn)
				case *ssa.Store:
					name = an.FuncName(fn) + " register+resolve " + field
				default:
					_ = x
					name = c06FnLabel(fn) + " " + c06DirtyName(m, e, dirty, field) + "→" + an.FuncName(r.fn)
				}
				if _, isDefer := e.(*ssa.Defer); isDefer {
					c.Unsure(name, posOf(e), "a deferred call stores / registers: it runs after everything the function does to resolve")
					continue
				}
				switch {
				case !esc:
					c.Good(name, posOf(e), "")
				case !endsCS(e) && caseSplit(e, field):
					c.Good(name, posOf(e), "resolved for every value of the dispatching argument")
				case (isRoot(fn) || endsCS(e)) && dispatcher(e, field):
					c.Unsure(name, posOf(e), "the call stores data of several duty kinds depending on an argument; the rule cannot correlate that argument with the resolver that runs afterwards: "+an.PathString(c.P, path))
				case (isRoot(fn) || endsCS(e)) && higherOrder(e):
					c.Unsure(name, posOf(e), "function values are handed to a helper (or called through a variable); the rule cannot follow in which order they run inside it: "+an.PathString(c.P, path))
				case isRoot(fn) || endsCS(e):
					why := "path from a store call (which may have inserted) to the end of the critical section that skips resolving the blocked queries: "
					if _, isReg := e.(*ssa.Store); isReg {
						why = "the query is registered but the critical section ends (or the function returns) before the matching resolver runs: "
					}
					c.Bad(name, posOf(e), why+an.PathString(c.P, path))
				case !m.refsOK(fn):
					c.Unsure(name, posOf(e), "a function that stores / registers without resolving is used as a value in a way the rule cannot follow")
				case len(m.refs[fn]) == 0:
					// unreferenced helper: nothing runs it
				default:
					// left to the callers: the function is an internal helper called with the lock held
				}
			}
		}
	}
	// (c) resolvers keep every unresolved, uncancelled query and answer from the matching data map
	sort.Slice(resolvers, func(i, j int) bool { return an.FuncName(resolvers[i].fn) < an.FuncName(resolvers[j].fn) })
	for _, r := range resolvers {
		st, why := c06ResolverKeeps(m, r)
		name := an.FuncName(r.fn) + " keeps unresolved queries"
		switch st {
		case rt.OK:
			c.Good(name, r.fn.Pos(), "")
		case rt.Violation:
			c.Bad(name, r.fn.Pos(), why)
		default:
			c.Unsure(name, r.fn.Pos(), why)
		}
		// (d) a query is answered only with the value looked up under its own key, on the edge where it was found
		st, why = c06ResolverAnswers(m, r)
		name = an.FuncName(r.fn) + " answers a query only from its own key"
		switch st {
		case rt.OK:
			c.Good(name, r.fn.Pos(), "")
		case rt.Violation:
			c.Bad(name, r.fn.Pos(), why)
		default:
			c.Unsure(name, r.fn.Pos(), why)
		}
	}
}

// c06UnchangedLen prunes the edge on which `len(dataMap)` measured after the event equals the length measured before
// it: nothing was inserted into that map then (stores never delete), so no query can have become answerable and the
// resolver may soundly be skipped (`if len(m) != before { resolve() }`).
func c06UnchangedLen(m *c06Model, e ssa.Instruction, field string) func(b *ssa.BasicBlock, succ int) bool {
	lenOf := func(v ssa.Value) *ssa.Call {
		call, ok := an.Unwrap(v).(*ssa.Call)
		if !ok || len(call.Call.Args) != 1 {
			return nil
		}
		if bi, ok := call.Call.Value.(*ssa.Builtin); !ok || bi.Name() != "len" {
			return nil
		}
		if k, ok := c06MapField(call.Call.Args[0]); !ok || k != field || !an.IsMapType(call.Call.Args[0].Type()) {
			return nil
		}
		return call
	}
	return func(b *ssa.BasicBlock, succ int) bool {
		iff, ok := b.Instrs[len(b.Instrs)-1].(*ssa.If)
		if !ok {
			return false
		}
		cond := iff.Cond
		neg := false
		for {
			if u, ok := cond.(*ssa.UnOp); ok && u.Op == token.NOT {
				cond, neg = u.X, !neg
				continue
			}
			break
		}
		bin, ok := cond.(*ssa.BinOp)
		if !ok {
			return false
		}
		x, y := lenOf(bin.X), lenOf(bin.Y)
		if x == nil || y == nil {
			return false
		}
		var before, after *ssa.Call
		switch {
		case an.Dominates(x, e) && an.InstrReaches(e, y) && !an.InstrReaches(e, x):
			before, after = x, y
		case an.Dominates(y, e) && an.InstrReaches(e, x) && !an.InstrReaches(e, y):
			before, after = y, x
		default:
			return false
		}
		// nothing may delete from the map between the two measurements
		for _, in := range an.Instrs(e.Parent(), false) {
			if !an.InstrReaches(before, in) || !an.InstrReaches(in, after) {
				continue
			}
			if k, ok := c06DeleteOf(in); ok && k == field {
				return false
			}
			for _, g := range m.during(in) {
				if m.deletes(g)[field] {
					return false
				}
			}
		}
		// which successor is taken when the lengths are equal?
		var equalSucc int
		switch bin.Op {
		case token.EQL:
			equalSucc = 0
		case token.NEQ:
			equalSucc = 1
		case token.GTR, token.LSS:
			// after > before / before < after: equal lengths take the false edge
			if (bin.Op == token.GTR && bin.X == ssa.Value(after) && bin.Y == ssa.Value(before)) ||
				(bin.Op == token.LSS && bin.X == ssa.Value(before) && bin.Y == ssa.Value(after)) {
				equalSucc = 1
			} else {
				return false
			}
		default:
			return false
		}
		if neg {
			equalSucc = 1 - equalSucc
		}
		return succ == equalSucc
	}
}

// c06ParamFollowed: inside h, parameters #i and #j are only ever called, and every path from a call of #i reaches a
// call of #j before h returns or releases a mutex.
func c06ParamFollowed(h *ssa.Function, i, j int, isUnlock func(ssa.Instruction) bool) bool {
	if i >= len(h.Params) || j >= len(h.Params) {
		return false
	}
	callsOf := func(p *ssa.Parameter) ([]*ssa.Call, bool) {
		var out []*ssa.Call
		for _, ref := range *p.Referrers() {
			switch r := ref.(type) {
			case *ssa.DebugRef:
			case *ssa.Call:
				if r.Call.Value != ssa.Value(p) {
					return nil, false
				}
				out = append(out, r)
			default:
				return nil, false
			}
		}
		return out, true
	}
	ci, ok1 := callsOf(h.Params[i])
	cj, ok2 := callsOf(h.Params[j])
	if !ok1 || !ok2 || len(ci) == 0 || len(cj) == 0 {
		return false
	}
	isJ := func(in ssa.Instruction) bool {
		for _, c := range cj {
			if in == ssa.Instruction(c) {
				return true
			}
		}
		return false
	}
	for _, c := range ci {
		if _, esc := an.H06Escape(c, an.H06Opt{Effect: isJ, Exit: isUnlock}); esc {
			return false
		}
	}
	return true
}

// c06ComparedConsts: the integer constants parameter p of g is compared with (`switch p { case A: ... }`), plus one
// integer different from all of them (the default branch).
func c06ComparedConsts(g *ssa.Function, p *ssa.Parameter) []constant.Value {
	var out []constant.Value
	var maxv int64
	for _, in := range an.Instrs(g, false) {
		bin, ok := in.(*ssa.BinOp)
		if !ok || (bin.Op != token.EQL && bin.Op != token.NEQ) {
			continue
		}
		var k *ssa.Const
		if an.Unwrap(bin.X) == ssa.Value(p) {
			k, _ = bin.Y.(*ssa.Const)
		} else if an.Unwrap(bin.Y) == ssa.Value(p) {
			k, _ = bin.X.(*ssa.Const)
		}
		if k == nil || k.Value == nil || k.Value.Kind() != constant.Int {
			continue
		}
		n, exact := constant.Int64Val(k.Value)
		if !exact {
			return nil
		}
		dup := false
		for _, o := range out {
			if constant.Compare(o, token.EQL, k.Value) {
				dup = true
			}
		}
		if !dup {
			out = append(out, k.Value)
		}
		if n > maxv {
			maxv = n
		}
	}
	if len(out) == 0 {
		return nil
	}
	return append(out, constant.MakeInt64(maxv+1))
}

func c06DirtyName(m *c06Model, in ssa.Instruction, dirty map[*ssa.Function]map[string]bool, field string) string {
	var names []string
	for _, g := range m.during(in) {
		if dirty[g][field] {
			names = append(names, an.FuncName(g))
		}
	}
	return strings.Join(names, "+")
}

// c06FindResolvers recognises the resolve functions: a declared function that stores into a `*Queries` slice field of
// MemDB and (itself, or in a helper / generic helper it calls with that field as argument) loops over that field and
// sends, on a channel taken from the element, a value looked up in a data map by a key taken from the element.
func c06FindResolvers(m *c06Model) []*c06Resolver {
	var out []*c06Resolver
	for _, fn := range m.funcs {
		if fn.Parent() != nil {
			continue
		}
		// write-back stores
		backs := map[string][]*ssa.Store{}
		for _, in := range an.Instrs(fn, false) {
			if st, ok := in.(*ssa.Store); ok {
				if fa, ok := st.Addr.(*ssa.FieldAddr); ok {
					k := an.FieldKey(fa.X.Type(), fa.Field)
					backs[k] = append(backs[k], st)
				}
			}
		}
		if len(backs) == 0 {
			continue
		}
		root := &c06Frame{fn: fn}
		frames := []*c06Frame{root}
		for _, in := range an.Instrs(fn, false) {
			if call, ok := in.(*ssa.Call); ok {
				if nf := m.enter(&call.Call, root); nf != nil {
					frames = append(frames, nf)
				}
			}
		}
		found := false
		for _, fr := range frames {
			if found {
				break
			}
			for _, in := range an.Instrs(fr.fn, false) {
				snd, ok := in.(*ssa.Send)
				if !ok {
					continue
				}
				l, lfr := c06LoopAround(fr.fn, snd.Block()), fr
				var sendAt *ssa.Call
				if l == nil && fr.up == root {
					// a per-query helper (`if !db.tryResolve(query) { keep }`): the loop is around its call
					for _, rin := range an.Instrs(root.fn, false) {
						if call, ok := rin.(*ssa.Call); ok && &call.Call == fr.call {
							sendAt = call
						}
					}
					if sendAt != nil {
						l, lfr = c06LoopAround(root.fn, sendAt.Block()), root
					}
				}
				if l == nil || l.RangeColl() == nil {
					continue
				}
				qk, ok := m.fieldOf(l.RangeColl(), lfr)
				if !ok || !strings.HasPrefix(qk, dutydb+".") || backs[qk] == nil {
					continue
				}
				if lfr != root {
					// the helper's result must be what is written back
					isBack := false
					for _, st := range backs[qk] {
						if call, ok := an.Unwrap(st.Val).(*ssa.Call); ok && &call.Call == lfr.call {
							isBack = true
						}
					}
					if !isBack {
						continue
					}
				}
				if !m.elemOf(snd.Chan, fr, l, lfr) {
					continue
				}
				// the answer comes from a data map: the map of the lookup made under the query's own key when there is
				// one, otherwise of the first lookup the value sent can come from (which key it uses is judged by (d))
				srcs, viaPhi := c06SentSources(m, snd.X, fr)
				dk, ownFound := "", false
				for _, s := range srcs {
					if s.lk == nil || !an.IsMapType(s.lk.X.Type()) {
						continue
					}
					k, ok := m.fieldOf(s.lk.X, s.fr)
					if !ok || !c06IsData(k) {
						continue
					}
					isOwn := m.elemOf(s.lk.Index, s.fr, l, lfr)
					if dk == "" || (isOwn && !ownFound) {
						dk, ownFound = k, isOwn
					}
				}
				if dk == "" {
					continue
				}
				res := &c06Resolver{fn: fn, queries: qk, data: dk, fr: lfr, loop: l, backs: backs[qk], sendFr: fr, sendAt: sendAt}
				if viaPhi {
					res.phiSend = snd
				}
				out = append(out, res)
				found = true
				break
			}
		}
	}
	return out
}

// c06LoopAround: the innermost loop containing b, or — when b leaves a loop (`send; break`) — the innermost loop
// b can only be reached from the inside of.
func c06LoopAround(fn *ssa.Function, b *ssa.BasicBlock) *an.Loop {
	if l := an.InnermostLoop(fn, b); l != nil {
		return l
	}
	var best *an.Loop
	for _, l := range an.Loops(fn) {
		inside := false
		for x := range l.Body {
			if x != l.Header && x.Dominates(b) {
				inside = true
			}
		}
		if inside && (best == nil || len(l.Body) < len(best.Body)) {
			best = l
		}
	}
	return best
}

// c06ResolverKeeps: in the loop over the pending queries every iteration of an uncancelled query either answers it
// (send on its response channel) or re-appends it to the list that is written back; the loop is not left early.
func c06ResolverKeeps(m *c06Model, r *c06Resolver) (string, string) {
	loop, fr := r.loop, r.fr
	// where does the kept list end up in the queries field?
	//  (A) accumulated in a local (or returned by the helper that loops) and stored once after the loop;
	//  (B) accumulated in the field itself: every store in the loop is `field = append(field, elem)`.
	var targets []ssa.Value
	inField := map[*ssa.Call]bool{} // (B) the appends whose result is stored straight back into the field
	if fr.fn == r.fn {
		var after, inside []*ssa.Store
		for _, st := range r.backs {
			switch {
			case loop.Body[st.Block()]:
				inside = append(inside, st)
			case loop.Header.Dominates(st.Block()):
				after = append(after, st)
			case an.CanReach(st.Block(), loop.Header, nil):
				// before the loop: a reset of the field
			default:
				return rt.Undecided, "a store into " + r.queries + " is neither before, inside nor after the loop over it"
			}
		}
		switch {
		case len(inside) == 0 && len(after) == 1:
			targets = append(targets, after[0].Val)
		case len(inside) > 0 && len(after) == 0:
			for _, st := range inside {
				app, ok := an.Unwrap(st.Val).(*ssa.Call)
				if !ok {
					return rt.Undecided, "the loop stores something other than an append into " + r.queries
				}
				b, isB := app.Call.Value.(*ssa.Builtin)
				if !isB || b.Name() != "append" {
					return rt.Undecided, "the loop stores something other than an append into " + r.queries
				}
				if k, ok := m.fieldOf(app.Call.Args[0], fr); !ok || k != r.queries {
					return rt.Violation, "the loop overwrites " + r.queries + " with a list that does not extend its current content: kept queries are lost"
				}
				inField[app] = true
			}
		default:
			return rt.Undecided, "cannot tell how the kept queries reach " + r.queries + " (stores inside and after the loop)"
		}
	} else {
		for _, ret := range an.Returns(fr.fn) {
			vals := returnValues(ret)
			if len(vals) != 1 {
				return rt.Undecided, "helper looping over the pending queries has an unexpected result shape"
			}
			targets = append(targets, vals[0])
		}
	}
	isKeep := func(in ssa.Instruction) bool {
		switch x := in.(type) {
		case *ssa.Send:
			return m.elemOf(x.Chan, fr, loop, fr)
		case *ssa.Call:
			if b, ok := x.Call.Value.(*ssa.Builtin); ok && b.Name() == "append" {
				els := appendedElems(x)
				if len(els) != 1 || !m.elemOf(els[0], fr, loop, fr) {
					return false
				}
				if inField[x] {
					return true
				}
				if len(targets) == 0 {
					return false
				}
				for _, t := range targets {
					if !c06FlowsTo(x, t) {
						return false
					}
				}
				return true
			}
		}
		return false
	}
	var entry *ssa.BasicBlock
	for _, s := range loop.Header.Succs {
		if loop.Body[s] && s != loop.Header {
			entry = s
		}
	}
	if entry == nil || len(entry.Instrs) == 0 {
		return rt.Undecided, "cannot find the loop body"
	}
	// valuation "the query is not cancelled": decoded from select-with-default on a channel of the element, inline or
	// in a boolean helper
	blocks := []*ssa.BasicBlock{}
	for b := range loop.Body {
		blocks = append(blocks, b)
	}
	known, undecoded := c06NotCancelled(m, r, blocks, fr)
	// outcomes: the valuations of the loop body to explore. Without a per-query helper there is one (nothing assumed
	// beyond "not cancelled"). With a helper (`if db.pending(query) { keep }` or `if !db.tryResolve(query) { keep }`,
	// either polarity): one per boolean the helper can return for an uncancelled query on a path that did not answer it;
	// for each of them the loop must keep the query.
	type outcome struct {
		k     constant.Value // value of the helper call (nil: unknown)
		exact bool
	}
	outcomes := []outcome{{nil, true}}
	if r.sendAt != nil {
		hf := r.sendFr.fn
		hknown, hundec := c06NotCancelled(m, r, hf.Blocks, r.sendFr)
		bt, isBool := r.sendAt.Type().Underlying().(*types.Basic)
		if hundec || !isBool || bt.Kind() != types.Bool || len(hf.Blocks[0].Instrs) == 0 {
			return rt.Undecided, "cannot summarise the per-query helper " + an.FuncName(hf)
		}
		outcomes = nil
		has := map[bool]bool{}
		an.H06Escape(hf.Blocks[0].Instrs[0], an.H06Opt{Inclusive: true,
			Env: func(v ssa.Value) (constant.Value, bool) { k, ok := hknown[v]; return k, ok },
			Effect: func(in ssa.Instruction) bool {
				snd, ok := in.(*ssa.Send)
				return ok && m.elemOf(snd.Chan, r.sendFr, loop, fr)
			},
			ReturnOK: func(ret *ssa.Return, kn an.H06Env) bool {
				vals := returnValues(ret)
				if len(vals) == 1 {
					if k, ok := an.H06Eval(vals[0], kn); ok && k.Kind() == constant.Bool {
						if !has[constant.BoolVal(k)] {
							has[constant.BoolVal(k)] = true
							outcomes = append(outcomes, outcome{k, true})
						}
						return true
					}
				}
				if len(outcomes) == 0 || outcomes[len(outcomes)-1].exact {
					outcomes = append(outcomes, outcome{nil, false})
				}
				return true
			}})
	}
	first := entry.Instrs[0]
	if isKeep(first) {
		return rt.OK, ""
	}
	env := func(v ssa.Value) (constant.Value, bool) { k, ok := known[v]; return k, ok }
	for _, oc := range outcomes {
		delete(known, r.sendAt)
		if r.sendAt != nil && oc.k != nil {
			known[r.sendAt] = oc.k
		}
		path, esc := an.H06Escape(first, an.H06Opt{Env: env, Effect: isKeep,
			StopBlock: func(b *ssa.BasicBlock) bool { return b == loop.Header },
			Exit:      func(in ssa.Instruction) bool { return !loop.Body[in.Block()] }})
		if !esc {
			continue
		}
		if undecoded {
			return rt.Undecided, "cannot decode how the loop tests for a cancelled query"
		}
		if r.sendAt != nil {
			hn := an.FuncName(r.sendFr.fn)
			if !oc.exact {
				return rt.Undecided, "cannot tell what the per-query helper " + hn + " returns for an uncancelled query it did not answer"
			}
			return rt.Violation, "the per-query helper " + hn + " returns " + oc.k.String() + " for an uncancelled query on a path that does not answer it, and the loop does not re-queue the query for that result: the query is dropped (blocks " + blockList(path) + ")"
		}
		return rt.Violation, "an iteration can finish without answering or re-queueing an uncancelled query: blocks " + blockList(path)
	}
	delete(known, r.sendAt)
	if b := an.LoopEarlyExit(loop); b != nil {
		return rt.Violation, "the loop over the pending queries can be left early: remaining queries are neither answered nor kept"
	}
	if r.phiSend != nil && r.sendFr == fr {
		// the answer is a variable: on no path to the send may it still hold its zero value (the query would be
		// answered with data that was never stored)
		zero := false
		an.H06Escape(first, an.H06Opt{Env: env, Inclusive: true,
			Effect: func(in ssa.Instruction) bool { return in.Block() == loop.Header || !loop.Body[in.Block()] },
			EffectEnv: func(in ssa.Instruction, kn an.H06Env) bool {
				if in == ssa.Instruction(r.phiSend) {
					if k, ok := an.H06Eval(r.phiSend.X, kn); ok && constant.Compare(k, token.EQL, an.H06Nil) {
						zero = true
					}
				}
				return false
			},
			ReturnOK: func(*ssa.Return, an.H06Env) bool { return true }})
		if zero {
			return rt.Violation, "a query can be answered with the zero value of the answer variable instead of the stored value"
		}
	}
	return rt.OK, ""
}

// c06NotCancelled collects, over the given blocks (evaluated in frame bfr), the values that are known when the
// element's cancel channel is not ready: the index of a select-with-default on it, the result of a boolean helper
// doing such a select. undecoded reports a helper on the element's receive channel that could not be summarised.
func c06NotCancelled(m *c06Model, r *c06Resolver, blocks []*ssa.BasicBlock, bfr *c06Frame) (map[ssa.Value]constant.Value, bool) {
	loop, fr := r.loop, r.fr
	known := map[ssa.Value]constant.Value{}
	undecoded := false
	recvChan := func(v ssa.Value) bool {
		ch, ok := v.Type().Underlying().(*types.Chan)
		return ok && ch.Dir() != types.SendOnly
	}
	for _, b := range blocks {
		for _, in := range b.Instrs {
			switch x := in.(type) {
			case *ssa.Select:
				if x.Blocking || len(x.States) != 1 || x.States[0].Dir != types.RecvOnly {
					continue
				}
				if !m.elemOf(x.States[0].Chan, bfr, loop, fr) {
					continue
				}
				for _, ref := range *x.Referrers() {
					if ex, ok := ref.(*ssa.Extract); ok && ex.Index == 0 {
						known[ex] = constant.MakeInt64(-1)
					}
				}
			case *ssa.Call:
				callee := x.Call.StaticCallee()
				if callee == nil || !m.inPkg(callee) || callee.Blocks == nil {
					continue
				}
				bt, ok := x.Type().Underlying().(*types.Basic)
				if !ok || bt.Kind() != types.Bool {
					continue
				}
				argIdx := -1
				for i, a := range x.Call.Args {
					if recvChan(a) && m.elemOf(a, bfr, loop, fr) {
						argIdx = i
					}
				}
				if argIdx < 0 {
					continue
				}
				if k, ok := c06SelectSummary(callee, argIdx); ok {
					known[x] = k
				} else {
					undecoded = true
				}
			}
		}
	}
	return known, undecoded
}

// c06SelectSummary: callee is a boolean function doing a non-blocking receive on parameter #idx; returns the value
// it yields when the channel is NOT ready (the default case), provided it yields the opposite when it is.
func c06SelectSummary(callee *ssa.Function, idx int) (constant.Value, bool) {
	if idx >= len(callee.Params) {
		return nil, false
	}
	var sel *ssa.Select
	for _, in := range an.Instrs(callee, false) {
		if s, ok := in.(*ssa.Select); ok && !s.Blocking && len(s.States) == 1 && s.States[0].Dir == types.RecvOnly &&
			an.Resolve(s.States[0].Chan) == ssa.Value(callee.Params[idx]) {
			if sel != nil {
				return nil, false
			}
			sel = s
		}
	}
	if sel == nil {
		return nil, false
	}
	var idxv ssa.Value
	for _, ref := range *sel.Referrers() {
		if ex, ok := ref.(*ssa.Extract); ok && ex.Index == 0 {
			idxv = ex
		}
	}
	if idxv == nil {
		return nil, false
	}
	outcome := func(k int64) (constant.Value, bool) {
		var res constant.Value
		ok := true
		n := 0
		an.H06Escape(sel, an.H06Opt{NoReenter: true,
			Env: func(v ssa.Value) (constant.Value, bool) {
				if v == idxv {
					return constant.MakeInt64(k), true
				}
				return nil, false
			},
			ReturnOK: func(r *ssa.Return, env an.H06Env) bool {
				n++
				vals := returnValues(r)
				if len(vals) != 1 {
					ok = false
					return true
				}
				kv, known := an.H06Eval(vals[0], env)
				if !known || kv.Kind() != constant.Bool || (res != nil && !constant.Compare(res, token.EQL, kv)) {
					ok = false
					return true
				}
				res = kv
				return true
			}})
		return res, ok && n > 0 && res != nil
	}
	ready, ok1 := outcome(0)
	notReady, ok2 := outcome(-1)
	if !ok1 || !ok2 || constant.Compare(ready, token.EQL, notReady) {
		return nil, false
	}
	for _, r := range an.Returns(callee) {
		if !an.Dominates(sel, r) {
			return nil, false
		}
	}
	return notReady, true
}

func blockList(p []*ssa.BasicBlock) string {
	var s []string
	for _, b := range p {
		s = append(s, "b"+itoa(b.Index))
	}
	return strings.Join(s, "→")
}

func itoa(i int) string {
	if i == 0 {
		return "0"
	}
	neg := i < 0
	if neg {
		i = -i
	}
	var d []byte
	for i > 0 {
		d = append([]byte{byte('0' + i%10)}, d...)
		i /= 10
	}
	if neg {
		d = append([]byte{'-'}, d...)
	}
	return string(d)
}

// c06FlowsTo: value v reaches target through phis / appends (the accumulated slice).
func c06FlowsTo(v ssa.Value, target ssa.Value) bool {
	seen := map[ssa.Value]bool{}
	var walk func(t ssa.Value) bool
	walk = func(t ssa.Value) bool {
		if t == v {
			return true
		}
		if seen[t] {
			return false
		}
		seen[t] = true
		switch x := t.(type) {
		case *ssa.Phi:
			for _, e := range x.Edges {
				if walk(e) {
					return true
				}
			}
		case *ssa.Call:
			if b, ok := x.Call.Value.(*ssa.Builtin); ok && b.Name() == "append" {
				return walk(x.Call.Args[0])
			}
		case *ssa.UnOp:
			if x.Op == token.MUL {
				if al, ok := x.X.(*ssa.Alloc); ok {
					for _, ref := range *al.Referrers() {
						if st, ok := ref.(*ssa.Store); ok && st.Addr == ssa.Value(al) && walk(st.Val) {
							return true
						}
					}
				}
			}
		case *ssa.Slice:
			return walk(x.X)
		}
		return false
	}
	return walk(target)
}

// ---------------------------------------------------------------------------------------------
// D5: stored data is deleted only for duties received from the deadliner's expiry channel.

func c06D5(c *rt.Ctx, m *c06Model) {
	const expiry = "iface:core.Deadliner.C"
	isDelete := c06DeleteOf
	driven := func(ci ssa.CallInstruction) bool {
		for _, a := range ci.Common().Args {
			if c06FromRecv(m, a, expiry, 0) {
				return true
			}
		}
		return false
	}
	const (
		cYes = iota
		cNo
		cUnknown
	)
	var confined func(fn *ssa.Function, seen map[*ssa.Function]bool) int
	confined = func(fn *ssa.Function, seen map[*ssa.Function]bool) int {
		if seen[fn] {
			return cYes
		}
		seen[fn] = true
		if c06Exported(fn) {
			return cNo
		}
		if len(m.refs[fn]) == 0 {
			if fn.Parent() != nil {
				return cUnknown
			}
			return cYes // nothing runs it
		}
		res := cYes
		for _, r := range m.refs[fn] {
			ci, ok := r.(*ssa.Call)
			if !ok || m.funcOf(ci.Call.Value) != fn {
				// used as a value: every use hands it to an in-package helper that only calls it synchronously (the
				// helper may be the drain loop itself: `drain(db.deadliner.C, db.deleteDutyUnsafe)`), or calls it directly
				hs, ok := m.handOffs(r, fn)
				if !ok {
					res = cUnknown // stored, returned, deferred or started as a goroutine
					continue
				}
				for _, h := range hs {
					all := len(h.invs) > 0
					for _, inv := range h.invs {
						if !driven(inv) {
							all = false
						}
					}
					if all {
						continue
					}
					switch confined(r.Parent(), seen) {
					case cNo:
						return cNo
					case cUnknown:
						res = cUnknown
					}
				}
				continue
			}
			if driven(ci) {
				continue
			}
			switch confined(r.Parent(), seen) {
			case cNo:
				return cNo
			case cUnknown:
				res = cUnknown
			}
		}
		return res
	}
	// keyedByExpired: the deleted key (or, for clear/whole-map forms, nothing) is computed from a duty received from
	// the expiry channel in the same function (the deletion was inlined into the drain loop)
	keyedByExpired := func(fn *ssa.Function, in ssa.Instruction) bool {
		call := in.(*ssa.Call)
		if len(call.Call.Args) < 2 {
			return false
		}
		for _, x := range an.Instrs(fn, false) {
			v, ok := x.(ssa.Value)
			if !ok || !c06RecvOf(v, expiry) {
				continue
			}
			if c06DependsOn(call.Call.Args[1], v) && an.Dominates(x, in) {
				return true
			}
		}
		return false
	}
	nDriven := 0
	for _, fn := range m.all {
		for _, in := range an.Instrs(fn, false) {
			if k, ok := isDelete(in); ok {
				name := an.FuncName(fn) + " delete " + k
				if keyedByExpired(fn, in) {
					nDriven++
					c.Good(name, in.Pos(), "key computed from a duty received from deadliner.C()")
					continue
				}
				switch confined(fn, map[*ssa.Function]bool{}) {
				case cYes:
					c.Good(name, in.Pos(), "")
				case cNo:
					c.Bad(name, in.Pos(), "stored data is deleted in a function that can run for a duty that was not received from the deadliner's expiry channel")
				default:
					c.Unsure(name, in.Pos(), "the deleting function is used as a value; cannot show that it only runs for duties received from the deadliner's expiry channel")
				}
			}
		}
	}
	// the expiry-driven call sites themselves (vacuity: at least one must exist)
	deleters := map[*ssa.Function]bool{}
	var mayDelete func(fn *ssa.Function, seen map[*ssa.Function]bool) bool
	mayDelete = func(fn *ssa.Function, seen map[*ssa.Function]bool) bool {
		if seen[fn] {
			return false
		}
		seen[fn] = true
		for _, in := range an.Instrs(fn, false) {
			if _, ok := isDelete(in); ok {
				return true
			}
			for _, g := range m.mayDuring(in) {
				if mayDelete(g, seen) {
					return true
				}
			}
		}
		return false
	}
	for _, fn := range m.all {
		if mayDelete(fn, map[*ssa.Function]bool{}) {
			deleters[fn] = true
		}
	}
	for _, fn := range m.all {
		for _, in := range an.Instrs(fn, false) {
			ci, ok := in.(*ssa.Call)
			if !ok {
				continue
			}
			g := m.funcOf(ci.Call.Value)
			if g == nil && !ci.Call.IsInvoke() {
				// a call through a function value every candidate of which deletes
				if set, ok := m.dynamic(ci); ok && len(set.fns) > 0 {
					all := true
					for _, f := range set.fns {
						if !deleters[f] {
							all = false
						}
					}
					if all {
						g = set.fns[0]
					}
				}
			}
			if g == nil || !deleters[g] || ci.Call.IsInvoke() || !driven(ci) {
				continue
			}
			nDriven++
			c.Good(an.FuncName(fn)+" calls "+an.FuncName(g)+" for an expired duty", ci.Pos(), "argument received from deadliner.C()")
		}
	}
	if nDriven == 0 {
		c.Unsure("expiry-driven deletion", token.NoPos, "no call of a deleting function with a duty received from deadliner.C() found")
	}
}

// c06FromRecv: v is (a field of / a conversion of) a value received from the channel returned by the named call,
// possibly through the result of an in-package helper whose every return yields such a value (or a zero value).
func c06FromRecv(m *c06Model, v ssa.Value, callee string, d int) bool {
	if d > 4 {
		return false
	}
	v = an.Resolve(v)
	switch x := v.(type) {
	case *ssa.Field:
		return c06FromRecv(m, x.X, callee, d+1)
	case *ssa.UnOp:
		if x.Op == token.MUL {
			if fa, ok := x.X.(*ssa.FieldAddr); ok {
				return c06FromRecv(m, fa.X, callee, d+1)
			}
			if al, ok := x.X.(*ssa.Alloc); ok {
				// a local that is only assigned received values
				n := 0
				for _, ref := range *al.Referrers() {
					if st, ok := ref.(*ssa.Store); ok && st.Addr == ssa.Value(al) {
						n++
						if !c06FromRecv(m, st.Val, callee, d+1) {
							return false
						}
					}
				}
				return n > 0
			}
		}
	case *ssa.Alloc:
		n := 0
		for _, ref := range *x.Referrers() {
			if st, ok := ref.(*ssa.Store); ok && st.Addr == ssa.Value(x) {
				n++
				if !c06FromRecv(m, st.Val, callee, d+1) {
					return false
				}
			}
		}
		return n > 0
	case *ssa.Phi:
		for _, e := range x.Edges {
			if !c06FromRecv(m, e, callee, d+1) {
				return false
			}
		}
		return len(x.Edges) > 0
	case *ssa.Extract:
		if call, ok := x.Tuple.(*ssa.Call); ok {
			return c06ResultFromRecv(m, call, x.Index, callee, d)
		}
	case *ssa.Call:
		return c06ResultFromRecv(m, x, 0, callee, d)
	}
	return c06RecvOf(v, callee)
}

func c06ResultFromRecv(m *c06Model, call *ssa.Call, idx int, callee string, d int) bool {
	g := call.Call.StaticCallee()
	if g == nil || !m.inPkg(g) || g.Blocks == nil {
		return false
	}
	n := 0
	for _, r := range an.Returns(g) {
		vals := returnValues(r)
		if idx >= len(vals) {
			return false
		}
		if c, ok := an.Unwrap(vals[idx]).(*ssa.Const); ok && (c.Value == nil || c06ZeroConst(c)) {
			continue // zero value on the "nothing expired" path
		}
		if !c06FromRecv(m, vals[idx], callee, d+1) {
			return false
		}
		n++
	}
	return n > 0
}

func c06ZeroConst(c *ssa.Const) bool {
	if c.Value == nil {
		return true
	}
	switch c.Value.Kind() {
	case constant.Int:
		v, ok := constant.Int64Val(c.Value)
		return ok && v == 0
	case constant.Bool:
		return !constant.BoolVal(c.Value)
	case constant.String:
		return constant.StringVal(c.Value) == ""
	}
	return false
}

// c06RecvOf: v is the value of a receive (plain, comma-ok or in a select) from the channel returned by the named call.
func c06RecvOf(v ssa.Value, callee string) bool {
	isChan := func(ch ssa.Value) bool {
		call, ok := an.Resolve(ch).(*ssa.Call)
		if ok && an.CalleeName(&call.Call) == callee {
			return true
		}
		return ok && c06Cur != nil && c06Cur.chanGetterParam(call, callee)
	}
	v = an.Unwrap(v)
	switch x := v.(type) {
	case *ssa.UnOp:
		if x.Op == token.ARROW {
			return isChan(x.X)
		}
	case *ssa.Extract:
		if u, ok := x.Tuple.(*ssa.UnOp); ok && u.Op == token.ARROW && x.Index == 0 {
			return isChan(u.X)
		}
		if sel, ok := x.Tuple.(*ssa.Select); ok {
			k := x.Index - 2
			n := 0
			for _, st := range sel.States {
				if st.Dir == types.RecvOnly {
					if n == k {
						return isChan(st.Chan)
					}
					n++
				}
			}
		}
	}
	return false
}
