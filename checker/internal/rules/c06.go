package rules

import (
	"go/token"
	"go/types"
	"sort"
	"strings"

	"golang.org/x/tools/go/ssa"

	"charonverif/internal/an"
	"charonverif/internal/rt"
)

func init() {
	Register(&Prop{
		ID: "C06",
		Decides: "dutydb.MemDB: (D1) all data/query fields only under mu, *Unsafe helpers only with mu held; (D2) a store never writes a data map on the existing-key branch, " +
			"every insertion is insert-if-absent and the existing-key branch contains a clash rejection; (D3) Store refuses expired/exempt duties before storing; " +
			"(D4) every Await* registers its query and resolves in one critical section, Store reaches the matching resolve after every store call on every path, " +
			"resolve keeps every unresolved uncancelled query; (D5) data is deleted only by deleteDutyUnsafe driven by deadliner.C().",
		NotDecided: "equality of the *content* of two answers (value comparison functions are trusted), promptness in time, behaviour over interleavings beyond the lock discipline.",
		Run:        c06,
		Mutants: []Mutant{
			{ID: "C06-D1-unlock-before-resolve", File: "core/dutydb/memory.go", Expect: "D1",
				Old: "\t\tCancel:   cancel,\n\t})\n\tdb.resolveAttQueriesUnsafe()\n\tdb.mu.Unlock()",
				New: "\t\tCancel:   cancel,\n\t})\n\tdb.mu.Unlock()\n\tdb.resolveAttQueriesUnsafe()"},
			{ID: "C06-D2-overwrite-proposal", File: "core/dutydb/memory.go", Expect: "D2",
				Old: "\t\tif existingRoot != providedRoot {\n\t\t\treturn errors.New(\"clashing blocks\")\n\t\t}\n",
				New: "\t\tif existingRoot != providedRoot {\n\t\t\treturn errors.New(\"clashing blocks\")\n\t\t}\n\n\t\tdb.proDuties[uint64(slot)] = &proposal.VersionedProposal\n"},
			{ID: "C06-D2-no-clash-check", File: "core/dutydb/memory.go", Expect: "D2",
				Old: "\t\tif existingRoot != contribRoot {\n\t\t\treturn errors.New(\"clashing sync contributions\")\n\t\t}\n",
				New: "\t\t_, _ = existingRoot, contribRoot\n"},
			{ID: "C06-D2-unconditional-insert", File: "core/dutydb/memory.go", Expect: "D2",
				Old: "\t} else {\n\t\tdb.attDuties[aKey] = &attData.Data\n\t}",
				New: "\t}\n\n\tdb.attDuties[aKey] = &attData.Data"},
			{ID: "C06-D6-early-success", File: "core/dutydb/memory.go", Expect: "D6",
				Old: "\tif value, ok := db.attPubKeys[pKey]; ok {\n\t\tif *value != *pubkeyStore {\n\t\t\treturn errors.New(\"clashing public key\", z.Any(\"pKey\", pKey))\n\t\t}\n",
				New: "\tif value, ok := db.attPubKeys[pKey]; ok {\n\t\tif *value != *pubkeyStore {\n\t\t\treturn errors.New(\"clashing public key\", z.Any(\"pKey\", pKey))\n\t\t}\n\n\t\treturn nil // already stored\n"},
			{ID: "C06-D3-ignore-status", File: "core/dutydb/memory.go", Expect: "D3",
				Old: "status == core.DeadlineExpired || status == core.DeadlineExempt {",
				New: "status == core.DeadlineExempt {"},
			{ID: "C06-D4-skip-resolve", File: "core/dutydb/memory.go", Expect: "D4",
				Old: "\t\tdb.resolveAttQueriesUnsafe()\n\tcase core.DutyAggregator:",
				New: "\t\tif len(unsignedSet) > 1 {\n\t\t\tdb.resolveAttQueriesUnsafe()\n\t\t}\n\tcase core.DutyAggregator:"},
			{ID: "C06-D4-drop-unresolved", File: "core/dutydb/memory.go", Expect: "D4",
				Old: "\t\tvalue, ok := db.proDuties[query.Key]\n\t\tif !ok {\n\t\t\tunresolved = append(unresolved, query)\n\t\t\tcontinue\n\t\t}",
				New: "\t\tvalue, ok := db.proDuties[query.Key]\n\t\tif !ok {\n\t\t\tcontinue\n\t\t}"},
			{ID: "C06-D4-wrong-resolver", File: "core/dutydb/memory.go", Expect: "D4",
				Old: "\t\tCancel:   cancel,\n\t})\n\tdb.resolveContribQueriesUnsafe()\n\tdb.mu.Unlock()",
				New: "\t\tCancel:   cancel,\n\t})\n\tdb.resolveAggQueriesUnsafe()\n\tdb.mu.Unlock()"},
			{ID: "C06-D5-delete-on-clash", File: "core/dutydb/memory.go", Expect: "D5",
				Old: "\t\tif existingRoot != providedRoot {\n\t\t\treturn errors.New(\"clashing blocks\")",
				New: "\t\tif existingRoot != providedRoot {\n\t\t\tdelete(db.proDuties, uint64(slot))\n\t\t\treturn errors.New(\"clashing blocks\")"},
		},
	})
}

const dutydb = "core/dutydb.MemDB"

var c06DataMaps = []string{"attDuties", "attPubKeys", "proDuties", "aggDuties", "contribDuties"}

func c06(c *rt.Ctx) {
	c.Rule("D1", 30, func() {
		t := an.LockTable{}
		for _, f := range []string{"attDuties", "attPubKeys", "attKeysBySlot", "attQueries", "proDuties", "proQueries",
			"aggDuties", "aggKeysBySlot", "aggQueries", "contribDuties", "contribKeysBySlot", "contribQueries"} {
			t[dutydb+"."+f] = "mu" // all twelve are touched only under mu, in *Unsafe helpers or in the constructor
		}
		lockRule(c, []string{"core/dutydb"}, t)
	})

	pkg := c.SSAPkg("core/dutydb")
	funcs := an.PkgFuncs(pkg)
	isData := func(key string) bool {
		for _, f := range c06DataMaps {
			if key == dutydb+"."+f {
				return true
			}
		}
		return false
	}

	c.Rule("D2", 14, func() {
		nLookups := 0
		for _, fn := range funcs {
			// every write to a data map is insert-if-absent
			for _, up := range mapUpdates(fn, func(m ssa.Value) bool { k, _, ok := an.FieldOf(m); return ok && isData(k) }) {
				field, _, _ := an.FieldOf(up.Map)
				good, why := false, "write to the data map is not on the absent edge of a comma-ok lookup of the same key"
				for _, lk := range c06Lookups(fn, field) {
					okv := c06OkOf(lk)
					if okv == nil || !an.Equiv(lk.Index, up.Key) {
						continue
					}
					for _, cd := range an.CondsOn(fn, okv) {
						if cd.Other == nil && cd.Succ(false).Dominates(up.Block()) && !an.CanReach(cd.Succ(true), up.Block(), nil) {
							good = true
						}
					}
				}
				c.Check(an.FuncName(fn)+" insert "+field, posOf(up), good, why)
			}
			// the existing-key branch of every comma-ok lookup in a store function rejects clashes and never writes
			if !strings.HasPrefix(fn.Name(), "store") {
				continue
			}
			for _, f := range c06DataMaps {
				field := dutydb + "." + f
				for _, lk := range c06Lookups(fn, field) {
					okv := c06OkOf(lk)
					if okv == nil {
						continue
					}
					nLookups++
					for _, cd := range an.CondsOn(fn, okv) {
						if cd.Other != nil {
							continue
						}
						exist := cd.Succ(true)
						region := an.ReachBlocks(exist, nil)
						// restrict to blocks dominated by the existing-key successor
						wrote, rejects := false, false
						for b := range region {
							if !exist.Dominates(b) {
								continue
							}
							for _, in := range b.Instrs {
								if mu, ok := in.(*ssa.MapUpdate); ok {
									if k, _, ok := an.FieldOf(mu.Map); ok && k == field {
										wrote = true
									}
								}
							}
							if iff, ok := b.Instrs[len(b.Instrs)-1].(*ssa.If); ok {
								if bin, ok := iff.Cond.(*ssa.BinOp); ok && (bin.Op == token.NEQ || bin.Op == token.EQL) &&
									!an.IsErrorType(bin.X.Type()) && !an.IsNilConst(bin.Y) && !an.IsNilConst(bin.X) {
									for _, s := range b.Succs {
										if c06ReturnsError(s) {
											rejects = true
										}
									}
								}
							}
						}
						c.Check(an.FuncName(fn)+" existing-key branch of "+f+" never writes", lk.Pos(), !wrote,
							"the branch taken when the key already exists assigns the data map: stored data can be replaced, answers for one key can differ")
						c.Check(an.FuncName(fn)+" existing-key branch of "+f+" rejects clashes", lk.Pos(), rejects,
							"no comparison with an error return in the existing-key branch: conflicting data is silently accepted")
					}
				}
			}
		}
		if nLookups < 7 {
			c.Unsure("lookups", token.NoPos, "fewer comma-ok lookups in store functions than confirmed (7)")
		}
	})

	c.Rule("D6", 7, func() {
		// a store function reports success only after every key it maintains has been looked up (and thereby
		// compared or inserted): an early `return nil` that skips a later lookup accepts conflicting data unseen
		// and leaves alias keys missing
		for _, fn := range funcs {
			if !strings.HasPrefix(fn.Name(), "store") || fn.Parent() != nil {
				continue
			}
			var lks []*ssa.Lookup
			for _, f := range c06DataMaps {
				for _, lk := range c06Lookups(fn, dutydb+"."+f) {
					if lk.CommaOk {
						lks = append(lks, lk)
					}
				}
			}
			for i, lk := range lks {
				field, _, _ := an.FieldOf(lk.X)
				good := true
				var bad *ssa.Return
				for _, r := range an.Returns(fn) {
					succ := false
					for _, v := range r.Results {
						if an.IsErrorType(v.Type()) && an.IsNilConst(v) {
							succ = true
						}
					}
					if succ && !lk.Block().Dominates(r.Block()) {
						good, bad = false, r
					}
				}
				pos := lk.Pos()
				if bad != nil {
					pos = posOf(bad)
				}
				c.Check(an.FuncName(fn)+" success only after lookup #"+itoa(i+1)+" of "+field, pos, good,
					"the function can return success on a path that skips this key's lookup: conflicting data for it is accepted unseen / the key is never inserted")
			}
		}
	})

	c.Rule("D3", 4, func() {
		fn := c.Fn("core/dutydb.MemDB.Store")
		add := c.OneCall(fn, an.Invoke("core.Deadliner.Add"), "deadliner.Add", false)
		stores := c06StoreCalls(fn)
		if len(stores) < 4 {
			c.Bail("expected 4 store*Unsafe calls in Store, found %d", len(stores))
		}
		for _, st := range stores {
			for _, name := range []string{"DeadlineExpired", "DeadlineExempt"} {
				want := constOf(c, "core", name)
				good := false
				for _, cd := range an.CondsOn(fn, add.Value()) {
					if n, ok := an.ConstInt(cd.Other); ok && n == want && cd.Op == token.EQL && an.Dominates(cd.If, st) && an.EdgeCuts(cd.Succ(true), st, nil) {
						good = true
					}
				}
				c.Check("Store "+name+"→no "+an.FuncName(st.Common().StaticCallee()), st.Pos(), good, "data is stored although deadliner.Add reported "+name)
			}
		}
	})

	c.Rule("D4", 12, func() {
		store := c.Fn("core/dutydb.MemDB.Store")
		// resolver functions: range over a *Queries field and send on the element's Response channel
		resolvers := map[*ssa.Function][2]string{} // fn -> (queries field, data field)
		for _, fn := range funcs {
			if q, d, ok := c06ResolverOf(fn); ok {
				resolvers[fn] = [2]string{q, d}
			}
		}
		if len(resolvers) != 4 {
			c.Bail("expected 4 resolve functions, found %d", len(resolvers))
		}
		resolverFor := func(field string, idx int) *ssa.Function {
			for fn, qd := range resolvers {
				if qd[idx] == field {
					return fn
				}
			}
			return nil
		}
		// (a) Store: after each store*Unsafe call, every path to the exit passes the matching resolver
		for _, st := range c06StoreCalls(store) {
			callee := st.Common().StaticCallee()
			written := c06WrittenData(callee, map[*ssa.Function]bool{})
			var res []*ssa.Function
			for _, w := range written {
				if r := resolverFor(w, 1); r != nil {
					res = append(res, r)
				}
			}
			if len(res) == 0 {
				c.Unsure("Store "+an.FuncName(callee), st.Pos(), "cannot find the resolver for the data written by this store call")
				continue
			}
			path, esc := an.EscapePath(st, func(in ssa.Instruction) bool {
				ci, ok := in.(ssa.CallInstruction)
				if !ok {
					return false
				}
				for _, r := range res {
					if ci.Common().StaticCallee() == r {
						return true
					}
				}
				return false
			}, an.PassOpt{})
			c.Check("Store "+an.FuncName(callee)+"→"+an.FuncName(res[0]), st.Pos(), !esc,
				"path from a store call (which may have inserted) to a return that skips resolving the blocked queries: "+an.PathString(c.P, path))
		}
		// (b) Await*: query registered and resolved in one critical section
		for _, fn := range funcs {
			if fn.Parent() != nil {
				continue
			}
			for _, in := range an.Instrs(fn, false) {
				st, ok := in.(*ssa.Store)
				if !ok {
					continue
				}
				fa, ok := st.Addr.(*ssa.FieldAddr)
				if !ok {
					continue
				}
				q := an.FieldKey(fa.X.Type(), fa.Field)
				r := resolverFor(q, 0)
				if r == nil || r == fn {
					continue
				}
				path, esc := an.EscapePath(st, func(in ssa.Instruction) bool {
					ci, ok := in.(ssa.CallInstruction)
					return ok && ci.Common().StaticCallee() == r
				}, an.PassOpt{ExitAt: func(in ssa.Instruction) bool {
					ci, ok := in.(*ssa.Call)
					return ok && an.Static("sync.Mutex.Unlock")(&ci.Call)
				}})
				c.Check(an.FuncName(fn)+" register+resolve "+q, posOf(st), !esc,
					"the query is registered but the critical section ends (or the function returns) before the matching resolver runs: "+an.PathString(c.P, path))
			}
		}
		// (c) resolvers keep every unresolved, uncancelled query and answer from the matching data map
		var rs []*ssa.Function
		for fn := range resolvers {
			rs = append(rs, fn)
		}
		sort.Slice(rs, func(i, j int) bool { return an.FuncName(rs[i]) < an.FuncName(rs[j]) })
		for _, fn := range rs {
			ok, why := c06ResolverKeeps(fn, resolvers[fn][0])
			c.Check(an.FuncName(fn)+" keeps unresolved queries", fn.Pos(), ok, why)
		}
	})

	c.Rule("D5", 8, func() {
		del := c.Fn("core/dutydb.MemDB.deleteDutyUnsafe")
		for _, fn := range funcs {
			for _, in := range an.Instrs(fn, false) {
				call, ok := in.(*ssa.Call)
				if !ok {
					continue
				}
				if b, ok := call.Call.Value.(*ssa.Builtin); ok && (b.Name() == "delete" || b.Name() == "clear") {
					if k, _, ok := an.FieldOf(call.Call.Args[0]); ok && strings.HasPrefix(k, dutydb+".") {
						c.Check(an.FuncName(fn)+" delete "+k, call.Pos(), fn == del, "stored data is deleted outside expiry trimming (deleteDutyUnsafe)")
					}
				}
				if call.Call.StaticCallee() == del {
					c.Check(an.FuncName(fn)+" calls deleteDutyUnsafe", call.Pos(),
						an.FuncName(fn) == "core/dutydb.MemDB.Store" && valueFromRecvOf(call.Call.Args[1], "iface:core.Deadliner.C"),
						"deleteDutyUnsafe is called for a duty that was not received from the deadliner's expiry channel")
				}
			}
		}
	})
}

// c06Lookups returns the map lookups on the named field in fn.
func c06Lookups(fn *ssa.Function, field string) []*ssa.Lookup {
	var out []*ssa.Lookup
	for _, in := range an.Instrs(fn, false) {
		if lk, ok := in.(*ssa.Lookup); ok {
			if k, _, ok := an.FieldOf(lk.X); ok && k == field && an.IsMapType(lk.X.Type()) {
				out = append(out, lk)
			}
		}
	}
	return out
}

// c06OkOf returns the `ok` value of a comma-ok lookup (nil for a plain lookup).
func c06OkOf(lk *ssa.Lookup) ssa.Value {
	if !lk.CommaOk {
		return nil
	}
	for _, ref := range *lk.Referrers() {
		if ex, ok := ref.(*ssa.Extract); ok && ex.Index == 1 {
			return ex
		}
	}
	return nil
}

// c06ReturnsError: block b (following straight-line successors) returns a non-nil error.
func c06ReturnsError(b *ssa.BasicBlock) bool {
	for i := 0; i < 4 && b != nil; i++ {
		if r, ok := b.Instrs[len(b.Instrs)-1].(*ssa.Return); ok {
			for _, v := range r.Results {
				if an.IsErrorType(v.Type()) && !an.IsNilConst(v) {
					return true
				}
			}
			return false
		}
		if len(b.Succs) != 1 {
			return false
		}
		b = b.Succs[0]
	}
	return false
}

// c06StoreCalls returns the calls in fn to in-package functions that (transitively) write a data map.
func c06StoreCalls(fn *ssa.Function) []ssa.CallInstruction {
	var out []ssa.CallInstruction
	for _, in := range an.Instrs(fn, false) {
		ci, ok := in.(ssa.CallInstruction)
		if !ok {
			continue
		}
		callee := ci.Common().StaticCallee()
		if callee == nil || callee.Pkg != fn.Pkg {
			continue
		}
		if len(c06WrittenData(callee, map[*ssa.Function]bool{})) > 0 {
			out = append(out, ci)
		}
	}
	return out
}

// c06WrittenData lists the data-map fields a function may insert into (through in-package static calls).
func c06WrittenData(fn *ssa.Function, seen map[*ssa.Function]bool) []string {
	if fn == nil || seen[fn] {
		return nil
	}
	seen[fn] = true
	set := map[string]bool{}
	for _, in := range an.Instrs(fn, true) {
		switch x := in.(type) {
		case *ssa.MapUpdate:
			if k, _, ok := an.FieldOf(x.Map); ok {
				for _, f := range c06DataMaps {
					if k == dutydb+"."+f {
						set[k] = true
					}
				}
			}
		case ssa.CallInstruction:
			if cal := x.Common().StaticCallee(); cal != nil && cal.Pkg == fn.Pkg {
				for _, k := range c06WrittenData(cal, seen) {
					set[k] = true
				}
			}
		}
	}
	var out []string
	for k := range set {
		out = append(out, k)
	}
	sort.Strings(out)
	return out
}

// c06ResolverOf recognises a resolve function: it ranges over a `*Queries` slice field of MemDB and
// sends, on the element's Response channel, a value looked up in a data map by the element's Key.
func c06ResolverOf(fn *ssa.Function) (queries, data string, ok bool) {
	if fn.Parent() != nil {
		return
	}
	for _, in := range an.Instrs(fn, false) {
		snd, isSend := in.(*ssa.Send)
		if !isSend {
			continue
		}
		l := an.InnermostLoop(fn, snd.Block())
		if l == nil {
			continue
		}
		qk, _, ok1 := an.FieldOf(l.RangeColl())
		if !ok1 || !strings.HasPrefix(qk, dutydb+".") {
			continue
		}
		if !l.ElemOf(snd.Chan) {
			continue
		}
		// value: Extract 0 of comma-ok lookup on a data field keyed by elem.Key
		v := an.Unwrap(snd.X)
		if ex, isEx := v.(*ssa.Extract); isEx {
			if lk, isLk := ex.Tuple.(*ssa.Lookup); isLk {
				if dk, _, ok2 := an.FieldOf(lk.X); ok2 && l.ElemOf(lk.Index) {
					return qk, dk, true
				}
			}
		}
	}
	return
}

// c06ResolverKeeps: in the loop over the queries, every iteration either drops a cancelled query,
// re-appends the query to the list written back to the queries field, or answers it.
func c06ResolverKeeps(fn *ssa.Function, queries string) (bool, string) {
	var loop *an.Loop
	for _, l := range an.Loops(fn) {
		if k, _, ok := an.FieldOf(l.RangeColl()); ok && k == queries {
			loop = l
		}
	}
	if loop == nil {
		return false, "no loop over " + queries
	}
	// the value written back
	var back *ssa.Store
	for _, in := range an.Instrs(fn, false) {
		if st, ok := in.(*ssa.Store); ok {
			if fa, ok := st.Addr.(*ssa.FieldAddr); ok && an.FieldKey(fa.X.Type(), fa.Field) == queries {
				back = st
			}
		}
	}
	if back == nil || loop.Body[back.Block()] {
		return false, "the pending list is not written back after the loop"
	}
	isKeep := func(in ssa.Instruction) bool {
		switch x := in.(type) {
		case *ssa.Send:
			return loop.ElemOf(x.Chan)
		case *ssa.Call:
			if b, ok := x.Call.Value.(*ssa.Builtin); ok && b.Name() == "append" {
				els := appendedElems(x)
				return len(els) == 1 && loop.ElemOf(els[0]) && c06FlowsTo(x, back.Val)
			}
		}
		return false
	}
	// body entry: successor of header inside the loop
	var entry *ssa.BasicBlock
	for _, s := range loop.Header.Succs {
		if loop.Body[s] && s != loop.Header {
			entry = s
		}
	}
	if entry == nil || len(entry.Instrs) == 0 {
		return false, "cannot find loop body"
	}
	prune := func(b *ssa.BasicBlock, succ int) bool {
		// the true edge of cancelled(elem.Cancel) legitimately drops the query
		iff, ok := b.Instrs[len(b.Instrs)-1].(*ssa.If)
		if !ok {
			return false
		}
		call, ok := iff.Cond.(*ssa.Call)
		if !ok || call.Call.StaticCallee() == nil || call.Call.StaticCallee().Name() != "cancelled" {
			return false
		}
		return succ == 0 && loop.ElemOf(call.Call.Args[0])
	}
	// walk from the first instruction of the body (treat it as `from` by starting before it)
	first := entry.Instrs[0]
	if isKeep(first) {
		return true, ""
	}
	path, esc := an.EscapePath(first, isKeep, an.PassOpt{Prune: prune, StopAt: func(b *ssa.BasicBlock) bool { return b == loop.Header }})
	if esc {
		return false, "an iteration can finish without answering or re-queueing an uncancelled query: blocks " + blockList(path)
	}
	if b := an.LoopEarlyExit(loop); b != nil {
		return false, "the loop over the pending queries can be left early: remaining queries are neither answered nor kept"
	}
	return true, ""
}

func blockList(p []*ssa.BasicBlock) string {
	var s []string
	for _, b := range p {
		s = append(s, "b"+itoa(b.Index))
	}
	return strings.Join(s, "→")
}

func itoa(i int) string {
	if i == 0 {
		return "0"
	}
	neg := i < 0
	if neg {
		i = -i
	}
	var d []byte
	for i > 0 {
		d = append([]byte{byte('0' + i%10)}, d...)
		i /= 10
	}
	if neg {
		d = append([]byte{'-'}, d...)
	}
	return string(d)
}

// c06FlowsTo: value v reaches target through phis / appends (the accumulated slice).
func c06FlowsTo(v ssa.Value, target ssa.Value) bool {
	seen := map[ssa.Value]bool{}
	var walk func(t ssa.Value) bool
	walk = func(t ssa.Value) bool {
		if t == v {
			return true
		}
		if seen[t] {
			return false
		}
		seen[t] = true
		switch x := t.(type) {
		case *ssa.Phi:
			for _, e := range x.Edges {
				if walk(e) {
					return true
				}
			}
		case *ssa.Call:
			if b, ok := x.Call.Value.(*ssa.Builtin); ok && b.Name() == "append" {
				return walk(x.Call.Args[0])
			}
		}
		return false
	}
	return walk(target)
}

var _ = types.Universe
