package rules

// Interprocedural, context-insensitive value flow used by C14-M1 to find out which duty types accompany the
// partial-signature sets the repository produces. The duty handed to a subscriber may be built in place, arrive
// through a parameter or a field of a parameter object, or be produced by a duty constructor that travels as a
// function value (closure adapters, func-typed parameters). The flow follows all of these to the constructors;
// what it cannot follow stays "forwarded" (ignored) exactly as before.

import (
	"fmt"
	"go/token"
	"go/types"
	"strings"

	"golang.org/x/tools/go/ssa"

	"charonverif/internal/an"
	"charonverif/internal/load"
)

type c14Flow struct {
	sites    map[*ssa.Function][]ssa.CallInstruction // static call sites by generic origin of the callee
	closures map[*ssa.Function][]*ssa.MakeClosure    // creation sites of a function literal
	busy     map[ssa.Value]bool
}

func newC14Flow(pkgs []*ssa.Package) *c14Flow {
	fl := &c14Flow{sites: map[*ssa.Function][]ssa.CallInstruction{}, closures: map[*ssa.Function][]*ssa.MakeClosure{}, busy: map[ssa.Value]bool{}}
	for _, sp := range pkgs {
		if sp == nil {
			continue
		}
		for _, fn := range an.PkgFuncs(sp) {
			for _, in := range an.Instrs(fn, false) {
				switch y := in.(type) {
				case ssa.CallInstruction:
					if g := c14Underlying(y.Common().StaticCallee()); g != nil {
						fl.sites[g] = append(fl.sites[g], y)
					}
				case *ssa.MakeClosure:
					if lit, ok := y.Fn.(*ssa.Function); ok {
						fl.closures[lit] = append(fl.closures[lit], y)
					}
				}
			}
		}
	}
	return fl
}

// c14Underlying maps instantiations to their generic origin and bound-method wrappers / thunks to the method.
func c14Underlying(fn *ssa.Function) *ssa.Function {
	if fn == nil {
		return nil
	}
	if symIsForwarder(fn) {
		if obj, ok := fn.Object().(*types.Func); ok && obj != nil {
			if m := fn.Prog.FuncValue(obj); m != nil {
				fn = m
			}
		}
	}
	return an.Orig(fn)
}

func c14ParamIndex(p *ssa.Parameter) int {
	for i, q := range p.Parent().Params {
		if q == p {
			return i
		}
	}
	return -1
}

// argsFor returns what the static call sites of p's function pass for p (nil, false: no site known).
func (fl *c14Flow) argsFor(p *ssa.Parameter) ([]ssa.Value, bool) {
	fn := p.Parent()
	idx := c14ParamIndex(p)
	if fn == nil || idx < 0 || fn.Parent() != nil {
		return nil, false
	}
	var out []ssa.Value
	for _, site := range fl.sites[an.Orig(fn)] {
		cc := site.Common()
		callee := cc.StaticCallee()
		args := cc.Args
		// a bound-method wrapper is called without the receiver (it is a binding of the closure)
		if callee != nil && strings.HasPrefix(callee.Synthetic, "bound method wrapper") {
			if idx == 0 {
				continue
			}
			if idx-1 < len(args) {
				out = append(out, args[idx-1])
			}
			continue
		}
		if idx < len(args) {
			out = append(out, args[idx])
		}
	}
	return out, len(out) > 0
}

// bindingsFor returns the values bound to free variable fv where its function literal is created.
func (fl *c14Flow) bindingsFor(fv *ssa.FreeVar) ([]ssa.Value, bool) {
	lit := fv.Parent()
	idx := -1
	for i, f := range lit.FreeVars {
		if f == fv {
			idx = i
		}
	}
	var out []ssa.Value
	for _, mc := range fl.closures[lit] {
		if idx >= 0 && idx < len(mc.Bindings) {
			out = append(out, mc.Bindings[idx])
		}
	}
	return out, len(out) > 0
}

// funcVals: the functions a func-typed value may be (ok=false: some source is not understood).
func (fl *c14Flow) funcVals(v ssa.Value, depth int) ([]*ssa.Function, bool) {
	if depth > 16 || fl.busy[v] {
		return nil, depth <= 16
	}
	fl.busy[v] = true
	defer delete(fl.busy, v)
	union := func(vs []ssa.Value) ([]*ssa.Function, bool) {
		var out []*ssa.Function
		for _, a := range vs {
			fs, ok := fl.funcVals(a, depth+1)
			if !ok {
				return nil, false
			}
			out = append(out, fs...)
		}
		return out, true
	}
	switch y := v.(type) {
	case *ssa.Function:
		return []*ssa.Function{c14Underlying(y)}, true
	case *ssa.MakeClosure:
		if f, ok := y.Fn.(*ssa.Function); ok {
			return []*ssa.Function{c14Underlying(f)}, true
		}
	case *ssa.ChangeType:
		return fl.funcVals(y.X, depth+1)
	case *ssa.Phi:
		return union(y.Edges)
	case *ssa.Parameter:
		if args, ok := fl.argsFor(y); ok {
			return union(args)
		}
	case *ssa.FreeVar:
		if bs, ok := fl.bindingsFor(y); ok {
			return union(bs)
		}
	case *ssa.UnOp:
		if y.Op == token.MUL {
			if vals, ok := c14StoredInto(y.X); ok {
				return union(vals)
			}
			if fv, ok := y.X.(*ssa.FreeVar); ok { // captured by reference
				if bs, ok := fl.bindingsFor(fv); ok {
					var vals []ssa.Value
					for _, b := range bs {
						sv, ok := c14StoredInto(b)
						if !ok {
							return nil, false
						}
						vals = append(vals, sv...)
					}
					return union(vals)
				}
			}
		}
	case *ssa.Call:
		if g := y.Call.StaticCallee(); g != nil && c14InRepo(g) && g.Blocks != nil && g.Signature.Results().Len() == 1 {
			var vals []ssa.Value
			for _, r := range an.Returns(g) {
				vals = append(vals, r.Results[0])
			}
			return union(vals)
		}
	}
	return nil, false
}

// c14StoredInto: every value stored into a local variable (ok=false: not a plain local).
func c14StoredInto(addr ssa.Value) ([]ssa.Value, bool) {
	al, ok := addr.(*ssa.Alloc)
	if !ok || al.Referrers() == nil {
		return nil, false
	}
	var out []ssa.Value
	for _, ref := range *al.Referrers() {
		if st, ok := ref.(*ssa.Store); ok && st.Addr == ssa.Value(al) {
			out = append(out, st.Val)
		}
	}
	return out, len(out) > 0
}

// c14CtorName: callee is a duty constructor of package core: it stores exactly one DutyType constant into the Type
// field of its result. ok=false with computed=true: it computes the type.
func c14CtorName(callee *ssa.Function) (name string, ok, computed bool) {
	var names []string
	for _, in := range an.Instrs(callee, false) {
		st, isSt := in.(*ssa.Store)
		if !isSt {
			continue
		}
		t, fname, _, isSel := c14FieldSel(st.Addr)
		if !isSel || an.TypeName(t) != "core.Duty" || fname != "Type" {
			continue
		}
		k, isK := st.Val.(*ssa.Const)
		if !isK {
			return "", false, true
		}
		if n := c14ConstName(c14Named(k.Type()), k); n != "" {
			names = append(names, n)
		}
	}
	if len(names) == 1 {
		return names[0], true, false
	}
	return "", false, false
}

func c14IsDuty(t types.Type) bool {
	_, isPtr := t.(*types.Pointer)
	return !isPtr && an.TypeName(t) == "core.Duty"
}

// origins classifies where a core.Duty value comes from: a duty constructor of package core or a literal with a
// constant type ("ctor", constant name), a value that is decoded / received / computed elsewhere ("forwarded"),
// or unknown.
func (fl *c14Flow) origins(v ssa.Value, depth int) []c14Origin {
	if depth > 16 {
		return []c14Origin{{"unknown", "too deep"}}
	}
	v = an.Resolve(v)
	if fl.busy[v] {
		return nil
	}
	fl.busy[v] = true
	defer delete(fl.busy, v)
	union := func(vs []ssa.Value) []c14Origin {
		var out []c14Origin
		for _, a := range vs {
			out = append(out, fl.origins(a, depth+1)...)
		}
		return out
	}
	switch x := v.(type) {
	case *ssa.Const:
		return []c14Origin{{"forwarded", "zero value"}}
	case *ssa.Parameter:
		if args, ok := fl.argsFor(x); ok {
			return union(args)
		}
		return []c14Origin{{"forwarded", "parameter"}}
	case *ssa.FreeVar:
		if bs, ok := fl.bindingsFor(x); ok {
			return union(bs)
		}
		return []c14Origin{{"unknown", "captured variable"}}
	case *ssa.Phi:
		return union(x.Edges)
	case *ssa.Call:
		return fl.resultOrigins(x, 0, depth)
	case *ssa.Extract:
		if call, ok := x.Tuple.(*ssa.Call); ok {
			return fl.resultOrigins(call, x.Index, depth)
		}
		return []c14Origin{{"forwarded", "component of another value"}}
	case *ssa.Field:
		if c14IsDuty(x.Type()) {
			return fl.fieldOrigins(x.X, x.Field, depth+1)
		}
		return []c14Origin{{"forwarded", "component of another value"}}
	case *ssa.UnOp:
		if x.Op == token.MUL {
			switch a := x.X.(type) {
			case *ssa.FreeVar:
				if bs, ok := fl.bindingsFor(a); ok {
					var out []c14Origin
					for _, b := range bs {
						if vals, ok := c14StoredInto(b); ok {
							out = append(out, union(vals)...)
						} else if al, isAl := b.(*ssa.Alloc); isAl {
							out = append(out, fl.literalOrigins(al)...)
						}
					}
					if len(out) > 0 {
						return out
					}
				}
				return []c14Origin{{"unknown", "captured variable"}}
			case *ssa.Alloc:
				if vals, ok := c14StoredInto(a); ok {
					return union(vals)
				}
				return fl.literalOrigins(a)
			case *ssa.FieldAddr:
				if c14IsDuty(x.Type()) {
					return fl.fieldAddrOrigins(a, depth+1)
				}
			}
			return []c14Origin{{"forwarded", "loaded from memory"}}
		}
		if x.Op == token.ARROW {
			return []c14Origin{{"forwarded", "received from channel"}}
		}
	case *ssa.Lookup, *ssa.Index, *ssa.TypeAssert:
		return []c14Origin{{"forwarded", "component of another value"}}
	}
	return []c14Origin{{"unknown", fmt.Sprintf("%T", v)}}
}

// literalOrigins: a local core.Duty assembled field by field (composite literal, inlined constructor).
func (fl *c14Flow) literalOrigins(al *ssa.Alloc) []c14Origin {
	if al.Referrers() == nil {
		return []c14Origin{{"forwarded", "loaded from memory"}}
	}
	var out []c14Origin
	for _, ref := range *al.Referrers() {
		fa, ok := ref.(*ssa.FieldAddr)
		if !ok || fa.X != ssa.Value(al) || fa.Referrers() == nil {
			continue
		}
		t, name, _, ok := c14FieldSel(fa)
		if !ok || an.TypeName(t) != "core.Duty" || name != "Type" {
			continue
		}
		for _, r2 := range *fa.Referrers() {
			st, ok := r2.(*ssa.Store)
			if !ok || st.Addr != ssa.Value(fa) {
				continue
			}
			if k, isK := an.Unwrap(st.Val).(*ssa.Const); isK {
				if n := c14ConstName(c14Named(k.Type()), k); n != "" {
					out = append(out, c14Origin{"ctor", n})
					continue
				}
			}
			out = append(out, c14Origin{"forwarded", "literal with a computed type"})
		}
	}
	if len(out) == 0 {
		return []c14Origin{{"forwarded", "loaded from memory"}}
	}
	return out
}

// resultOrigins: result #idx of a call.
func (fl *c14Flow) resultOrigins(call *ssa.Call, idx, depth int) []c14Origin {
	callees := []*ssa.Function{}
	if g := call.Call.StaticCallee(); g != nil {
		callees = append(callees, c14Underlying(g))
	} else if call.Call.IsInvoke() {
		return []c14Origin{{"forwarded", "dynamic call"}}
	} else {
		fs, ok := fl.funcVals(call.Call.Value, depth+1)
		if !ok || len(fs) == 0 {
			return []c14Origin{{"forwarded", "dynamic call"}}
		}
		callees = fs
	}
	var out []c14Origin
	for _, callee := range callees {
		if callee == nil || callee.Blocks == nil || !c14InRepo(callee) {
			out = append(out, c14Origin{"forwarded", "result of " + an.FuncName(callee)})
			continue
		}
		if callee.Pkg != nil && callee.Pkg.Pkg.Path() == load.Mod+"/core" {
			name, ok, computed := c14CtorName(callee)
			switch {
			case ok:
				out = append(out, c14Origin{"ctor", name})
			case computed:
				out = append(out, c14Origin{"forwarded", "computed by " + an.FuncName(callee)})
			default:
				out = append(out, c14Origin{"forwarded", "result of " + an.FuncName(callee)})
			}
			continue
		}
		// a helper of the repository: the duties it returns (what is not a constructor there is forwarded)
		n := 0
		for _, r := range an.Returns(callee) {
			if idx >= len(r.Results) || !c14IsDuty(r.Results[idx].Type()) {
				continue
			}
			for _, o := range fl.origins(r.Results[idx], depth+1) {
				if o.kind == "ctor" {
					out = append(out, o)
					n++
				}
			}
		}
		if n == 0 {
			out = append(out, c14Origin{"forwarded", "result of " + an.FuncName(callee)})
		}
	}
	return out
}

// fieldOrigins: field #idx (a core.Duty) of a struct value (parameter objects).
func (fl *c14Flow) fieldOrigins(sv ssa.Value, idx, depth int) []c14Origin {
	fwd := []c14Origin{{"forwarded", "component of another value"}}
	if depth > 16 {
		return fwd
	}
	sv = an.Unwrap(sv)
	if fl.busy[sv] {
		return nil
	}
	fl.busy[sv] = true
	defer delete(fl.busy, sv)
	switch y := sv.(type) {
	case *ssa.Parameter:
		args, ok := fl.argsFor(y)
		if !ok {
			return fwd
		}
		var out []c14Origin
		for _, a := range args {
			out = append(out, fl.fieldOrigins(a, idx, depth+1)...)
		}
		return out
	case *ssa.Phi:
		var out []c14Origin
		for _, e := range y.Edges {
			out = append(out, fl.fieldOrigins(e, idx, depth+1)...)
		}
		return out
	case *ssa.UnOp:
		if y.Op != token.MUL {
			return fwd
		}
		return fl.memFieldOrigins(y.X, idx, depth+1)
	}
	return fwd
}

// memFieldOrigins: what is stored into field #idx of the struct at address ptr.
func (fl *c14Flow) memFieldOrigins(ptr ssa.Value, idx, depth int) []c14Origin {
	fwd := []c14Origin{{"forwarded", "component of another value"}}
	switch a := ptr.(type) {
	case *ssa.Alloc:
		if a.Referrers() == nil {
			return fwd
		}
		var out []c14Origin
		for _, ref := range *a.Referrers() {
			switch r := ref.(type) {
			case *ssa.FieldAddr:
				if r.X != ssa.Value(a) || r.Field != idx || r.Referrers() == nil {
					continue
				}
				for _, r2 := range *r.Referrers() {
					if st, ok := r2.(*ssa.Store); ok && st.Addr == ssa.Value(r) {
						out = append(out, fl.origins(st.Val, depth+1)...)
					}
				}
			case *ssa.Store:
				if r.Addr == ssa.Value(a) {
					out = append(out, fl.fieldOrigins(r.Val, idx, depth+1)...)
				}
			}
		}
		if len(out) == 0 {
			return fwd
		}
		return out
	case *ssa.Parameter: // pointer to a parameter object
		args, ok := fl.argsFor(a)
		if !ok {
			return fwd
		}
		var out []c14Origin
		for _, arg := range args {
			out = append(out, fl.memFieldOrigins(an.Unwrap(arg), idx, depth+1)...)
		}
		return out
	}
	return fwd
}

// fieldAddrOrigins: a core.Duty loaded from x.f where x is a local or a pointer parameter object.
func (fl *c14Flow) fieldAddrOrigins(fa *ssa.FieldAddr, depth int) []c14Origin {
	if depth > 16 {
		return []c14Origin{{"forwarded", "loaded from memory"}}
	}
	out := fl.memFieldOrigins(an.Unwrap(fa.X), fa.Field, depth)
	for i := range out {
		if out[i].kind == "forwarded" {
			out[i].name = "loaded from memory"
		}
	}
	return out
}
