package rules

import (
	"fmt"
	"go/constant"
	"go/token"

	"golang.org/x/tools/go/ssa"

	"charonverif/internal/an"
	"charonverif/internal/rt"
)

// ---------------------------------------------------------------------------------------------
// V3 — decision backed by commits for that value and round

// c03Tri is a three-valued verdict.
type c03Tri int

const (
	c03Yes c03Tri = iota
	c03No
	c03Maybe
)

func (c03ctx c03Tri) report(c *rt.Ctx, key string, pos token.Pos, good, bad, unsure string) {
	switch c03ctx {
	case c03Yes:
		c.Good(key, pos, good)
	case c03No:
		c.Bad(key, pos, bad)
	default:
		c.Unsure(key, pos, unsure)
	}
}

// c03Classify bundles what the classify obligations need.
type c03Classify struct {
	c      *rt.Ctx
	fn     *ssa.Function
	eng    *c03Eng
	fr     *c03Frame
	msgT   string // term of the message parameter
	bufT   string // term of the buffer parameter
	outs   []c03Outcome
	qcmps  []c03QCmp
	mtypes []int64
}

func c03NewClassify(c *rt.Ctx) *c03Classify {
	fn := c.Fn(c03P + ".classify")
	msg := c03ParamOfType(c, fn, c03P+".Msg")
	var buffer *ssa.Parameter
	for _, p := range fn.Params {
		if an.IsMapType(p.Type()) {
			if buffer != nil {
				c.Bail("classify: several map parameters")
			}
			buffer = p
		}
	}
	if buffer == nil {
		c.Bail("classify: no buffer parameter")
	}
	k := &c03Classify{c: c, fn: fn, eng: c03NewEng(fn.Pkg)}
	k.fr = k.eng.root(fn)
	k.msgT = k.eng.term(k.fr, msg)
	k.bufT = k.eng.term(k.fr, buffer)
	k.outs = k.eng.outcomes(k.fr)
	k.qcmps = k.eng.quorumCmps(k.fr, 0, map[*ssa.Function]bool{})
	k.mtypes = c03ConstsOfType(c, c03P, "MsgType")
	return k
}

// withRule returns the outcomes whose rule is the constant k; computed rules are reported undecided
// once (they could be any rule).
func (k *c03Classify) withRule(rule int64, what string) []c03Outcome {
	var out []c03Outcome
	for _, o := range k.outs {
		n, isC := an.ConstInt(o.rule)
		if !isC {
			k.c.Unsure("classify returned rule", o.pt.pos(), "classify returns a rule that could not be resolved to a constant ("+o.odd+") while looking for "+what)
			continue
		}
		if n == rule {
			out = append(out, o)
		}
	}
	return out
}

// onlyForType: the outcome point is unreachable for a message of any type other than typ.
func (k *c03Classify) onlyForType(o c03Outcome, typ int64) (c03Tri, string) {
	res := c03Yes
	for _, t := range k.mtypes {
		if t == typ {
			continue
		}
		f := c03NoFacts().term("m:Type("+k.msgT+")", constant.MakeInt64(t))
		reach, und := k.eng.reachableUnder(o, f)
		if und {
			res = c03Maybe
			continue
		}
		if reach {
			return c03No, fmt.Sprintf("the return can be reached for a message of type %d", t)
		}
	}
	if res == c03Maybe {
		return c03Maybe, "reachability per message type could not be decided"
	}
	return c03Yes, ""
}

// equalAt: at the outcome point, term t is known to equal `want` (it is that term, or the point is
// unreachable once the two differ).
func (k *c03Classify) equalAt(o c03Outcome, t, want string) c03Tri {
	if t == want {
		return c03Yes
	}
	if t == "" {
		return c03Maybe
	}
	a, b := t, want
	if b < a {
		a, b = b, a
	}
	f := c03NoFacts().term("eq("+a+","+b+")", c03Bool(false))
	reach, und := k.eng.reachableUnder(o, f)
	if und {
		return c03Maybe
	}
	if reach {
		return c03No
	}
	return c03Yes
}

// quorumGate: the outcome point is unreachable when `len(list) >= Quorum()` is false for the list
// returned with it.
func (k *c03Classify) quorumGate(o c03Outcome) (c03Tri, string) {
	res, why := c03No, "no `len(list) >= d.Quorum()` test over the returned list"
	for _, q := range k.qcmps {
		if q.kind == "derived" || (q.kind == "quorum" && q.list == nil) {
			res, why = c03Maybe, "a comparison with a threshold derived from Quorum(), or of a count that is not a length, could not be interpreted"
		}
	}
	for _, q := range k.qcmps {
		if !k.eng.sameList(q.list, q.lfr, o.just, o.jfr) {
			continue
		}
		if q.kind != "quorum" {
			why = "the returned list is compared with a threshold other than Quorum()"
			continue
		}
		if !q.exact {
			why = "the quorum comparison is neither `>=` nor `<`"
			continue
		}
		reach, und := k.eng.reachableUnder(o, c03NoFacts().val(q.bin, c03Bool(!q.reached)))
		if und {
			res, why = c03Maybe, "reachability under a failed quorum comparison could not be decided"
			continue
		}
		if !reach {
			return c03Yes, ""
		}
		why = "the return can be reached although the quorum comparison over the returned list fails"
	}
	return res, why
}

func c03V3(c *rt.Ctx) {
	k := c03NewClassify(c)
	uqc := c03ConstOf(c, c03P, "UponQuorumCommits")
	ujd := c03ConstOf(c, c03P, "UponJustifiedDecided")
	commitT := c03ConstOf(c, c03P, "MsgCommit")
	decidedT := c03ConstOf(c, c03P, "MsgDecided")

	// UponQuorumCommits
	outsC := k.withRule(uqc, "UponQuorumCommits")
	if len(outsC) == 0 {
		c.Unsure("classify UponQuorumCommits", k.fn.Pos(), "no return of UponQuorumCommits found")
	}
	type agg struct {
		tri c03Tri
		pos token.Pos
		why string
	}
	merge := func(a *agg, t c03Tri, pos token.Pos, why string) {
		// No dominates Maybe dominates Yes
		if a.pos == token.NoPos {
			a.pos = pos
		}
		switch {
		case t == c03No && a.tri != c03No:
			*a = agg{c03No, pos, why}
		case t == c03Maybe && a.tri == c03Yes:
			*a = agg{c03Maybe, pos, why}
		}
	}
	if len(outsC) > 0 {
		var gate, isFilter, fromBuf, isCommit, ofRound, ofValue agg
		bodyDone := map[*ssa.Call]bool{}
		for _, o := range outsC {
			pos := o.pt.pos()
			g, w := k.quorumGate(o)
			merge(&gate, g, pos, w)
			sp, st := k.eng.filter(o.jfr, o.just, 0)
			switch st {
			case c03SpecNot:
				merge(&isFilter, c03No, pos, "")
				continue
			case c03SpecUnknown:
				merge(&isFilter, c03Maybe, pos, "")
				continue
			}
			merge(&isFilter, c03Yes, pos, "")
			if !bodyDone[sp.call] {
				bodyDone[sp.call] = true
				c03V3FilterBody(c, k.eng, sp, "classify commits")
			}
			if sp.msgs == "c:"+c03P+".flatten("+k.bufT+")" {
				merge(&fromBuf, c03Yes, pos, "")
			} else {
				merge(&fromBuf, c03No, pos, "")
			}
			// type criterion: the constant COMMIT, or the message's own type where only a COMMIT can get here
			tv, _ := k.eng.resolve(sp.typFr, sp.typV)
			if n, isC := an.ConstInt(tv); isC {
				if n == commitT {
					merge(&isCommit, c03Yes, pos, "")
				} else {
					merge(&isCommit, c03No, pos, "")
				}
			} else if sp.typ == "m:Type("+k.msgT+")" {
				t, _ := k.onlyForType(o, commitT)
				merge(&isCommit, t, pos, "")
			} else {
				merge(&isCommit, c03Maybe, pos, "")
			}
			merge(&ofRound, k.equalAt(o, sp.round, "m:Round("+k.msgT+")"), pos, "")
			tv2 := c03Yes
			switch {
			case sp.value == "":
				tv2 = c03No
			case sp.pr != "" || sp.pv != "":
				tv2 = c03No
			default:
				tv2 = k.equalAt(o, sp.value, "m:Value("+k.msgT+")")
			}
			merge(&ofValue, tv2, pos, "")
		}
		gate.tri.report(c, "classify UponQuorumCommits behind len(commits) >= Quorum() of the returned list", gate.pos, "",
			"a decision can be triggered without a quorum of the returned COMMITs: "+gate.why, gate.why)
		isFilter.tri.report(c, "classify UponQuorumCommits list is a filterMsgs result", isFilter.pos, "",
			"the qcommit returned with UponQuorumCommits is not a (wrapped) filterMsgs result", "the qcommit returned with UponQuorumCommits could not be resolved to a filterMsgs call")
		if isFilter.tri == c03Yes {
			fromBuf.tri.report(c, "classify commits filtered from flatten(buffer)", fromBuf.pos, "", "the COMMITs are not taken from the buffer of justified messages", "")
			isCommit.tri.report(c, "classify commits are COMMIT messages", isCommit.pos, "", "the quorum backing a decision is not filtered by type COMMIT", "the type criterion of the filter could not be resolved")
			ofRound.tri.report(c, "classify commits of the message's round", ofRound.pos, "", "COMMITs are not filtered by msg.Round(): commits of different rounds add up", "the round criterion of the filter could not be resolved")
			ofValue.tri.report(c, "classify commits for the message's value", ofValue.pos, "",
				"COMMITs are not filtered by msg.Value(): commits for different values add up to a quorum and the decided value is not the committed one", "the value criterion of the filter could not be resolved")
		}
	}

	// UponJustifiedDecided
	outsD := k.withRule(ujd, "UponJustifiedDecided")
	if len(outsD) == 0 {
		c.Unsure("classify UponJustifiedDecided", k.fn.Pos(), "no return of UponJustifiedDecided found")
	} else {
		var only, just agg
		for _, o := range outsD {
			pos := o.pt.pos()
			t, w := k.onlyForType(o, decidedT)
			merge(&only, t, pos, w)
			jt := k.eng.term(o.jfr, o.just)
			switch {
			case jt == "m:Justification("+k.msgT+")":
				merge(&just, c03Yes, pos, "")
			case jt == "":
				if _, isPhi := o.just.(*ssa.Phi); isPhi {
					merge(&just, c03Maybe, pos, "")
				} else {
					merge(&just, c03No, pos, "")
				}
			default:
				merge(&just, c03No, pos, "")
			}
		}
		only.tri.report(c, "classify UponJustifiedDecided only for a DECIDED message", only.pos, "",
			"a message that did not pass isJustifiedDecided triggers a decision: "+only.why, only.why)
		just.tri.report(c, "classify UponJustifiedDecided returns msg.Justification()", just.pos, "",
			"the qcommit returned with UponJustifiedDecided is not the justification that isJustifiedDecided counted", "the list returned with UponJustifiedDecided could not be resolved")
	}

	c03V3Route(c, decidedT, commitT)

	// Run: Decide only for the two deciding rules, with the value/round of the message and classify's justification
	r := c03NewRun(c)
	c03TermIs(c, r, "Run classify consumes the received message", r.classify.Pos(), r.cfr, r.classify.Call.Args[5], "recv", "classify is not applied to the message received from Transport.Receive")
	for _, dc := range c03DecideCalls(r) {
		dfr := r.frameOf(dc.Parent())
		if dfr == nil {
			c.Unsure("Run Decide call", dc.Pos(), "Definition.Decide is called from a function literal of Run that is not reached through exactly one call chain")
			continue
		}
		a := dc.Common().Args
		ok, und, wit := r.onlyUponRules(dfr, dc, uqc, ujd)
		switch {
		case ok:
			c.Good("Run Decide only upon UponQuorumCommits/UponJustifiedDecided", dc.Pos(), "")
		case und:
			c.Unsure("Run Decide only upon UponQuorumCommits/UponJustifiedDecided", dc.Pos(), "reachability of Decide per rule could not be decided")
		default:
			c.Bad("Run Decide only upon UponQuorumCommits/UponJustifiedDecided", dc.Pos(),
				fmt.Sprintf("Decide is reachable for a rule other than UponQuorumCommits and UponJustifiedDecided (rule value %d)", wit))
		}
		c03TermIs(c, r, "Run Decide value is msg.Value()", dc.Pos(), dfr, a[2], "m:Value(recv)", "the decided value is not the value of the message whose commit quorum was counted")
		c03TermIs(c, r, "Run Decide round is msg.Round()", dc.Pos(), dfr, a[3], "m:Round(recv)", "the decided round is not the round of the message whose commit quorum was counted")
		c03TermIs(c, r, "Run Decide qcommit is classify's justification", dc.Pos(), dfr, a[4], "just", "the qcommit handed to Decide is not the commit quorum returned by classify")
	}
}

// c03TermIs checks that value v of activation fr spells as the wanted term; a value without a spelling
// (a merge of several assignments, an unknown variable) is undecided.
func c03TermIs(c *rt.Ctx, r *c03Run, key string, pos token.Pos, fr *c03Frame, v ssa.Value, want, bad string) {
	t := r.eng.term(fr, v)
	deepHelper := false
	if t != want {
		// handed through a helper that returns it (or nothing) on every return
		dv, dfr := r.eng.resolveDeep(fr, v, 0)
		if dt := r.eng.term(dfr, dv); dt == want {
			t = dt
		} else {
			var call *ssa.Call
			switch y := dv.(type) {
			case *ssa.Extract:
				call, _ = y.Tuple.(*ssa.Call)
			case *ssa.Call:
				call = y
			}
			deepHelper = call != nil && r.eng.callee(&call.Call) != nil
		}
	}
	switch {
	case t == want:
		c.Good(key, pos, "")
	case deepHelper:
		c.Unsure(key, pos, "the argument is the result of an in-package helper that hands out different values on different returns")
	case t == "":
		rv, rfr := r.eng.resolve(fr, v)
		if ld, ok := rv.(*ssa.UnOp); ok && ld.Op == token.MUL && r.cellOf(ld) != nil {
			// a state variable that is not assigned on the way here (after classify, in this activation
			// chain): it holds what an earlier event left in it
			assigned := false
			for _, st := range r.stores(r.cellOf(ld)) {
				for _, sf := range r.framesOf(st.Parent()) {
					if !c03IsAncestor(sf, rfr) {
						continue
					}
					top, ok := c03Lift(rfr, sf, ld)
					if ok && an.Dominates(st, top) && (!c03IsAncestor(r.cfr, sf) || r.dominatesPt(r.cfr, r.classify, sf, st)) {
						assigned = true
					}
				}
			}
			if !assigned {
				// ... unless a function literal called on the way may assign it (`round` after changeRound)
				cell := r.cellOf(ld)
				for _, f := range r.all {
					if f == r.fn || !r.writers(cell)[f] {
						continue
					}
					for _, site := range r.callSites(f) {
						for _, sf := range r.framesOf(site.Parent()) {
							if !c03IsAncestor(sf, rfr) || !c03IsAncestor(r.cfr, sf) {
								continue // not on the way from classify to here
							}
							top, ok := c03Lift(rfr, sf, ld)
							if !ok || top == ssa.Instruction(site) {
								continue
							}
							notClassify := func(i ssa.Instruction) bool { return i == ssa.Instruction(r.classify) }
							if sf == r.cfr && !c03PathAvoiding(r.classify, site, nil) {
								continue
							}
							if c03PathAvoiding(site, top, notClassify) {
								assigned = true
							}
						}
					}
				}
			}
			if !assigned {
				c.Bad(key, pos, bad)
				return
			}
		}
		switch rv.(type) {
		case *ssa.Call, *ssa.Const, *ssa.MakeSlice, *ssa.Slice:
			// a value computed here (a call with untraceable arguments, a literal): not the wanted expression
			c.Bad(key, pos, bad)
			return
		}
		c.Unsure(key, pos, "the argument could not be traced to a single expression")
	default:
		c.Bad(key, pos, bad)
	}
}

// c03V3Route: for a DECIDED message isJustified returns exactly the verdict of isJustifiedDecided(msg).
func c03V3Route(c *rt.Ctx, decidedT, commitT int64) {
	ij := c.Fn(c03P + ".isJustified")
	m := c03ParamOfType(c, ij, c03P+".Msg")
	eng := c03NewEng(ij.Pkg)
	fr := eng.root(ij)
	mt := eng.term(fr, m)
	key := "isJustified DECIDED→isJustifiedDecided(msg)"
	// calls of isJustifiedDecided on the message, in isJustified and the helpers it enters
	var calls []*ssa.Call
	var other []*ssa.Call
	var scan func(f *c03Frame, d int)
	seen := map[*ssa.Function]bool{}
	scan = func(f *c03Frame, d int) {
		if seen[f.fn] || d > 3 {
			return
		}
		seen[f.fn] = true
		for _, in := range an.Instrs(f.fn, false) {
			call, ok := in.(*ssa.Call)
			if !ok {
				continue
			}
			if c03Static(call, "isJustifiedDecided") != nil {
				if len(call.Call.Args) == 2 && eng.term(f, call.Call.Args[1]) == mt {
					calls = append(calls, call)
				} else {
					other = append(other, call)
				}
				continue
			}
			if nf := eng.enter(f, call); nf != nil {
				scan(nf, d+1)
			}
		}
	}
	scan(fr, 0)
	typeFact := func() c03Facts { return c03NoFacts().term("m:Type("+mt+")", constant.MakeInt64(decidedT)) }
	if len(calls) == 0 {
		st, at, why := c03AllReturn(eng.under(typeFact()), fr, false)
		switch {
		case st == c03Known:
			c.Good(key, ij.Pos(), "a DECIDED message is never accepted")
		case len(other) == 0 && c03V3DecidedIn(c, commitT, ij, typeFact, true):
			// the verdict for a DECIDED message is computed in place (isJustifiedDecided inlined): the
			// obligations on the commit quorum were checked on isJustified itself under "msg.Type() == DECIDED"
			c.Good(key, ij.Pos(), "for a DECIDED message isJustified accepts only behind the commit quorum comparison")
		case st == c03Opaque && len(other) == 0:
			c.Unsure(key, at, "for a DECIDED message "+why)
		default:
			if at == token.NoPos {
				at = ij.Pos()
			}
			c.Bad(key, at, "for a DECIDED message isJustified does not return the verdict of isJustifiedDecided on that message")
		}
		return
	}
	for _, verdict := range []bool{true, false} {
		f := typeFact()
		for _, call := range calls {
			f.val(call, c03Bool(verdict))
		}
		st, at, why := c03AllReturn(eng.under(f), fr, verdict)
		switch st {
		case c03Known:
			c.Good(key, ij.Pos(), fmt.Sprintf("isJustifiedDecided=%v ⇒ isJustified=%v", verdict, verdict))
		case c03Opaque:
			c.Unsure(key, at, fmt.Sprintf("for a DECIDED message with isJustifiedDecided=%v, %s", verdict, why))
		default:
			c.Bad(key, at, fmt.Sprintf("for a DECIDED message isJustified does not return the verdict of isJustifiedDecided on that message: with isJustifiedDecided=%v, %s", verdict, why))
		}
	}
	c03V3DecidedIn(c, commitT, c.Fn(c03P+".isJustifiedDecided"), c03NoFacts, false)
}

// c03V3DecidedIn: fn (isJustifiedDecided, or isJustified itself under the assumption "the message is a
// DECIDED") accepts only behind len(filterMsgs(msg.Justification(), COMMIT, msg.Round(),
// &msg.Value())) >= Quorum(). With probe set nothing is reported unless such a gate exists (the result
// tells whether the obligations were reported).
func c03V3DecidedIn(c *rt.Ctx, commitT int64, fn *ssa.Function, base func() c03Facts, probe bool) bool {
	msg := c03ParamOfType(c, fn, c03P+".Msg")
	eng := c03NewEng(fn.Pkg)
	fr := eng.root(fn)
	mt := eng.term(fr, msg)
	qcmps := eng.quorumCmps(fr, 0, map[*ssa.Function]bool{})
	var gates []c03QCmp
	maybe, strict, wrongThr := false, false, false
	for _, q := range qcmps {
		if q.kind == "derived" {
			maybe = true
			continue
		}
		if q.kind != "quorum" {
			wrongThr = true
			continue
		}
		if !q.exact {
			strict = true
			continue
		}
		st, _, _ := c03AllReturn(eng.under(base().val(q.bin, c03Bool(!q.reached))), fr, false)
		switch st {
		case c03Known:
			gates = append(gates, q)
		case c03Opaque:
			maybe = true
		}
	}
	if probe && len(gates) == 0 {
		return false
	}
	key := "isJustifiedDecided verdict"
	if len(gates) == 0 {
		switch {
		case maybe:
			c.Unsure(key, fn.Pos(), "whether a failed quorum comparison forces the verdict false could not be decided")
		case len(qcmps) == 0:
			// no comparison with a threshold at all, here or in the helpers entered: is the verdict delegated opaquely?
			st, at, why := c03AllReturn(eng.under(base()), fr, false)
			if st == c03Opaque {
				c.Unsure(key, at, why)
			} else {
				c.Bad(key, fn.Pos(), "an accepting return does not depend on len(filterMsgs(...)) >= Quorum()")
			}
		default:
			_, _ = strict, wrongThr
			c.Bad(key, fn.Pos(), "an accepting return does not depend on len(filterMsgs(...)) >= Quorum()")
		}
		return true
	}
	var spec *c03Spec
	worst := c03SpecOK
	for _, g := range gates {
		if g.list == nil {
			worst = c03SpecUnknown
			continue
		}
		sp, st := eng.filter(g.lfr, g.list, 0)
		if st == c03SpecOK {
			spec = &sp
			break
		}
		if st > worst || worst == c03SpecOK {
			worst = st
		}
	}
	if spec == nil {
		c.Unsure(key, fn.Pos(), "the verdict depends on a quorum comparison whose counted list is not a recognisable filterMsgs call")
		return true
	}
	pos := spec.call.Pos()
	c.Check("isJustifiedDecided counts the message's own justification", pos, spec.msgs == "m:Justification("+mt+")", "the counted list is not msg.Justification()")
	tv, _ := eng.resolve(spec.typFr, spec.typV)
	n, isC := an.ConstInt(tv)
	switch {
	case isC:
		c.Check("isJustifiedDecided counts COMMITs", pos, n == commitT, "the counted messages are not filtered by type COMMIT")
	default:
		c.Unsure("isJustifiedDecided counts COMMITs", pos, "the type criterion of the filter is not a constant")
	}
	c.Check("isJustifiedDecided filters by the message's round", pos, spec.round == "m:Round("+mt+")", "COMMITs are not filtered by msg.Round()")
	c.Check("isJustifiedDecided filters by the message's value", pos, spec.value == "m:Value("+mt+")" && spec.pr == "" && spec.pv == "",
		"COMMITs are not filtered by msg.Value(): commits for different values add up to a quorum")
	c03V3FilterBody(c, eng, *spec, "isJustifiedDecided commits")
	return true
}
