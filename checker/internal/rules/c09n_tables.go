package rules

// Constant package-level tables: `var t = [n]T{k: c, …}`, `var t = []T{…}`, `var t = map[K]T{k: c, …}`, `var v = c`.
// A read `t[k]` with a constant key denotes the constant of the initializer when nothing else in the package can
// write the variable. Used by C09-G5 so that a type→domain table kept in a variable decides like a returned constant.

import (
	"go/constant"
	"go/token"
	"go/types"

	"golang.org/x/tools/go/ssa"

	"charonverif/internal/an"
)

type c09TableEntry struct {
	key constant.Value
	val *ssa.Const // nil: not a constant
}

type c09Table struct {
	ok      bool
	scalar  *ssa.Const
	entries []c09TableEntry
}

var c09Tables = map[*ssa.Global]*c09Table{}

func c09GlobalTable(g *ssa.Global) *c09Table {
	if t, ok := c09Tables[g]; ok {
		return t
	}
	t := &c09Table{}
	c09Tables[g] = t
	pkg := g.Pkg
	if pkg == nil {
		return t
	}
	init := pkg.Func("init")
	if init == nil {
		return t
	}
	constOf := func(v ssa.Value) *ssa.Const {
		k, _ := an.Unwrap(v).(*ssa.Const)
		return k
	}
	fromArray := func(arr ssa.Value) bool {
		refs := arr.Referrers()
		if refs == nil {
			return false
		}
		for _, r := range *refs {
			ia, ok := r.(*ssa.IndexAddr)
			if !ok {
				continue
			}
			k := constOf(ia.Index)
			if k == nil || k.Value == nil {
				return false
			}
			for _, r2 := range *ia.Referrers() {
				st, ok := r2.(*ssa.Store)
				if !ok || st.Addr != ssa.Value(ia) {
					return false
				}
				t.entries = append(t.entries, c09TableEntry{k.Value, constOf(st.Val)})
			}
		}
		return true
	}
	okInit := true
	for _, b := range init.Blocks {
		for _, in := range b.Instrs {
			switch x := in.(type) {
			case *ssa.Store:
				if x.Addr != ssa.Value(g) {
					continue
				}
				switch v := an.Unwrap(x.Val).(type) {
				case *ssa.Const:
					t.scalar = v
				case *ssa.MakeMap:
					for _, r := range *v.Referrers() {
						switch mu := r.(type) {
						case *ssa.MapUpdate:
							k := constOf(mu.Key)
							if mu.Map != ssa.Value(v) || k == nil || k.Value == nil {
								okInit = false
								continue
							}
							t.entries = append(t.entries, c09TableEntry{k.Value, constOf(mu.Value)})
						case *ssa.Store, *ssa.DebugRef:
						default:
							okInit = false
						}
					}
				case *ssa.Slice:
					if al, isAl := v.X.(*ssa.Alloc); !isAl || !fromArray(al) {
						okInit = false
					}
				case *ssa.UnOp:
					// an array literal is assembled in a temporary and copied into the variable
					al, isAl := v.X.(*ssa.Alloc)
					if v.Op != token.MUL || !isAl || !fromArray(al) {
						okInit = false
					}
				default:
					okInit = false
				}
			case *ssa.IndexAddr:
				if x.X != ssa.Value(g) {
					continue
				}
				k := constOf(x.Index)
				if k == nil || k.Value == nil {
					okInit = false
					continue
				}
				for _, r2 := range *x.Referrers() {
					st, ok := r2.(*ssa.Store)
					if !ok || st.Addr != ssa.Value(x) {
						okInit = false
						continue
					}
					t.entries = append(t.entries, c09TableEntry{k.Value, constOf(st.Val)})
				}
			}
		}
	}
	if !okInit {
		return t
	}
	// nobody else writes the variable or lets it escape
	var fns []*ssa.Function
	for _, m := range pkg.Members {
		if f, ok := m.(*ssa.Function); ok && f != init {
			fns = append(fns, f)
		}
	}
	fns = append(fns, an.PkgFuncs(pkg)...)
	seen := map[*ssa.Function]bool{}
	readOnlyRef := func(v ssa.Value) bool {
		refs := v.Referrers()
		if refs == nil {
			return false
		}
		for _, r := range *refs {
			switch u := r.(type) {
			case *ssa.Lookup, *ssa.Index, *ssa.Range, *ssa.DebugRef:
			case *ssa.IndexAddr:
				if !an.H09ReadOnlyAddr(u) {
					return false
				}
			case *ssa.Call:
				if b, ok := u.Call.Value.(*ssa.Builtin); !ok || (b.Name() != "len" && b.Name() != "cap") {
					return false
				}
			default:
				return false
			}
		}
		return true
	}
	for _, f := range fns {
		for _, fn := range an.Closure(f) {
			if seen[fn] || fn == init {
				continue
			}
			seen[fn] = true
			for _, b := range fn.Blocks {
				for _, in := range b.Instrs {
					uses := false
					for _, op := range an.Operands(in) {
						if op == ssa.Value(g) {
							uses = true
						}
					}
					if !uses {
						continue
					}
					switch x := in.(type) {
					case *ssa.UnOp:
						if x.Op != token.MUL {
							return t
						}
						switch x.Type().Underlying().(type) {
						case *types.Map, *types.Slice:
							if !readOnlyRef(x) {
								return t
							}
						case *types.Pointer, *types.Chan, *types.Signature, *types.Interface:
							return t
						}
					case *ssa.IndexAddr:
						if !an.H09ReadOnlyAddr(x) {
							return t
						}
					case *ssa.DebugRef:
					default:
						return t
					}
				}
			}
		}
	}
	t.ok = true
	return t
}

func (t *c09Table) lookup(key constant.Value) (*ssa.Const, bool) {
	if !t.ok || key == nil {
		return nil, false
	}
	var found *ssa.Const
	n := 0
	for _, e := range t.entries {
		if e.key.Kind() == key.Kind() && constant.Compare(e.key, token.EQL, key) {
			found = e.val
			n++
		}
	}
	if n != 1 || found == nil {
		return nil, false
	}
	return found, true
}

// c09ConstOf resolves an instance to a constant: a constant itself, or a read of a constant package-level table /
// variable with a constant key.
func c09ConstOf(st *an.H09State, sv an.H09SV) (constant.Value, bool) {
	if k, ok := sv.V.(*ssa.Const); ok {
		return k.Value, k.Value != nil
	}
	globalOf := func(x an.H09SV) *ssa.Global {
		if g, ok := x.V.(*ssa.Global); ok {
			return g
		}
		if ld, ok := x.V.(*ssa.UnOp); ok && ld.Op == token.MUL {
			if ops := st.Ops(x); len(ops) == 1 {
				if g, ok := ops[0].V.(*ssa.Global); ok {
					return g
				}
			}
		}
		return nil
	}
	keyed := func(base, key an.H09SV) (constant.Value, bool) {
		g := globalOf(base)
		k, isConst := key.V.(*ssa.Const)
		if g == nil || !isConst || k.Value == nil {
			return nil, false
		}
		if c, ok := c09GlobalTable(g).lookup(k.Value); ok && c.Value != nil {
			return c.Value, true
		}
		return nil, false
	}
	ops := st.Ops(sv)
	switch x := sv.V.(type) {
	case *ssa.UnOp:
		if x.Op != token.MUL || len(ops) != 1 {
			return nil, false
		}
		if g, ok := ops[0].V.(*ssa.Global); ok {
			if t := c09GlobalTable(g); t.ok && t.scalar != nil && len(t.entries) == 0 && t.scalar.Value != nil {
				return t.scalar.Value, true
			}
			return nil, false
		}
		if _, ok := ops[0].V.(*ssa.IndexAddr); ok {
			if iops := st.Ops(ops[0]); len(iops) == 2 {
				return keyed(iops[0], iops[1])
			}
		}
	case *ssa.Lookup:
		if !x.CommaOk && len(ops) == 2 {
			return keyed(ops[0], ops[1])
		}
	case *ssa.Index:
		if len(ops) == 2 {
			return keyed(ops[0], ops[1])
		}
	}
	return nil, false
}
